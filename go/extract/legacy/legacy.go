package main

// Translator "legacy": the hand-written request codec of the root package → lean/KafkaVerif/Gen/Legacy.lean
//
// For every struct (or named slice) type of the root package that has both `size() int32` and
// `writeTo(wb *writeBuffer)` methods it emits a Lean structure, the two methods as Lean functions over
// Base/LegacyWire.lean, and the theorem `T.legacy_size : ((T.writeTo t).length : Int) = T.size t` proved by one
// fixed tactic — so `lake build` re-proves "the announced size is the number of bytes written" against what the
// source says now.  It also emits the set of types passed to `(*Conn).writeRequest` (the emitted ones) and the
// list of types it could not translate (with the reason).  Pure go/parser + go/ast; nothing is executed.

import (
	"fmt"
	"go/ast"
	"go/parser"
	"go/printer"
	"go/token"
	"os"
	"path/filepath"
	"regexp"
	"sort"
	"strings"
)

func init() { extractors["legacy"] = extractLegacy }

type lgType struct {
	name    string
	st      *ast.StructType // nil for named slices
	slice   ast.Expr        // element type for `type T []E`
	size    *ast.FuncDecl
	writeTo *ast.FuncDecl
	readFrom *ast.FuncDecl
	nested []string // (non-array) struct fields written through their own writeTo: their fields are spliced into the schema (Kafka's is flat)
	sizeWhy string // non-empty: size() could not be translated (structure and writeTo only)
	nilFlags map[string]bool // fields compared with nil: an extra Bool field `<F>_isNil`
}

type lgCtx struct {
	fset    *token.FileSet
	types   map[string]*lgType
	apiKeys map[string]int // root package `const ( produce apiKey = 0 … )`
	versioned map[string]bool // types whose layout depends on a `v apiVersion` field
	writerInfo [][3]string    // translated write*RequestV<N>: name, api key, version
	msgSetOK   bool           // messageSize / messageSetSize / writeMessage / compressMessageSet translated
}

type untranslatable struct{ why string }

func (u untranslatable) Error() string { return u.why }

func bad(format string, a ...interface{}) { panic(untranslatable{fmt.Sprintf(format, a...)}) }

func (c *lgCtx) src(n ast.Node) string {
	var sb strings.Builder
	printer.Fprint(&sb, c.fset, n)
	return strings.Join(strings.Fields(sb.String()), " ")
}

func recvOf(fd *ast.FuncDecl) (name, typ string) {
	if fd.Recv == nil || len(fd.Recv.List) != 1 {
		return "", ""
	}
	f := fd.Recv.List[0]
	if len(f.Names) == 1 {
		name = f.Names[0].Name
	}
	switch t := f.Type.(type) {
	case *ast.Ident:
		typ = t.Name
	case *ast.StarExpr:
		if id, ok := t.X.(*ast.Ident); ok {
			typ = id.Name
		}
	}
	return
}

// leanType maps a Go field type to a Lean type.
func (c *lgCtx) leanType(e ast.Expr) string {
	switch t := e.(type) {
	case *ast.Ident:
		switch t.Name {
		case "int8", "int16", "int32", "int64", "int", "apiVersion", "apiKey":
			return "Int"
		case "string":
			return "Bytes"
		case "bool":
			return "Bool"
		}
		if _, ok := c.types[t.Name]; ok {
			return t.Name
		}
	case *ast.ArrayType:
		if t.Len == nil {
			if id, ok := t.Elt.(*ast.Ident); ok && (id.Name == "byte" || id.Name == "uint8") {
				return "Bytes"
			}
			return "(List " + c.leanType(t.Elt) + ")"
		}
	case *ast.StarExpr:
		if id, ok := t.X.(*ast.Ident); ok && id.Name == "string" {
			return "(Option Bytes)"
		}
	}
	bad("field type %s", c.src(e))
	return ""
}

type lgEnv struct {
	c    *lgCtx
	t    *lgType
	recv string
	// variables bound by closures / range loops: Go name → (Lean name, Go type expression or nil)
	vars map[string]string
}

// fieldType returns the Go type of `recv.F`.
func (e *lgEnv) fieldType(name string) ast.Expr {
	if e.t.st == nil {
		return nil
	}
	for _, f := range e.t.st.Fields.List {
		for _, n := range f.Names {
			if n.Name == name {
				return f.Type
			}
		}
	}
	return nil
}

func elemTypeName(t ast.Expr) string {
	if a, ok := t.(*ast.ArrayType); ok && a.Len == nil {
		if id, ok := a.Elt.(*ast.Ident); ok {
			return id.Name
		}
	}
	return ""
}

// typeOfExpr: static type name of simple expressions (recv, recv.F, bound variables of struct type)
func (e *lgEnv) typeOfExpr(x ast.Expr) ast.Expr {
	switch v := x.(type) {
	case *ast.CallExpr:
		if at, ok := v.Fun.(*ast.ArrayType); ok {
			return at
		}
	case *ast.SelectorExpr:
		if id, ok := v.X.(*ast.Ident); ok && id.Name == e.recv {
			return e.fieldType(v.Sel.Name)
		}
	case *ast.Ident:
		if v.Name == e.recv && e.t.slice != nil {
			return &ast.ArrayType{Elt: e.t.slice}
		}
	}
	return nil
}

// expr translates a Go value expression.
func (e *lgEnv) expr(x ast.Expr) string {
	switch v := x.(type) {
	case *ast.ParenExpr:
		return "(" + e.expr(v.X) + ")"
	case *ast.BasicLit:
		if v.Kind == token.INT {
			return "(" + v.Value + " : Int)"
		}
	case *ast.Ident:
		if l, ok := e.vars[v.Name]; ok {
			return l
		}
		if v.Name == e.recv {
			if e.t.slice != nil {
				return "t.items"
			}
			return "t"
		}
		switch v.Name {
		case "v0", "v1", "v2", "v3", "v4", "v5", "v6", "v7", "v8", "v9", "v10":
			return "(" + v.Name[1:] + " : Int)"
		}
	case *ast.SelectorExpr:
		if id, ok := v.X.(*ast.Ident); ok && id.Name == e.recv {
			return "t." + v.Sel.Name
		}
		if id, ok := v.X.(*ast.Ident); ok {
			if l, ok := e.vars[id.Name]; ok {
				return l + "." + v.Sel.Name
			}
		}
	case *ast.BinaryExpr:
		switch v.Op {
		case token.ADD, token.MUL, token.SUB:
			return "(" + e.expr(v.X) + " " + v.Op.String() + " " + e.expr(v.Y) + ")"
		}
	case *ast.CallExpr:
		return e.call(v)
	}
	bad("expression %s", e.c.src(x))
	return ""
}

// closureOver checks `func(i int) … { body using arr[i] }` against `len(arr)` and returns the array expression
// (Lean), the element type and an environment in which `arr[i]` is the bound variable `x`.
func (e *lgEnv) arrayClosure(lenArg ast.Expr, fn ast.Expr) (arr string, elem ast.Expr, body *ast.BlockStmt, inner *lgEnv) {
	call, ok := lenArg.(*ast.CallExpr)
	if !ok || len(call.Args) != 1 {
		bad("array length %s", e.c.src(lenArg))
	}
	if id, ok := call.Fun.(*ast.Ident); !ok || id.Name != "len" {
		bad("array length %s", e.c.src(lenArg))
	}
	arrExpr := call.Args[0]
	fl, ok := fn.(*ast.FuncLit)
	if !ok || len(fl.Type.Params.List) != 1 || len(fl.Type.Params.List[0].Names) != 1 {
		bad("array closure %s", e.c.src(fn))
	}
	idx := fl.Type.Params.List[0].Names[0].Name
	arrSrc := e.c.src(arrExpr)
	// every use of the index must be `arrExpr[idx]`
	okUse := true
	ast.Inspect(fl.Body, func(n ast.Node) bool {
		if ix, ok := n.(*ast.IndexExpr); ok {
			if id, ok := ix.Index.(*ast.Ident); ok && id.Name == idx {
				if e.c.src(ix.X) != arrSrc {
					okUse = false
				}
				return false
			}
		}
		if id, ok := n.(*ast.Ident); ok && id.Name == idx {
			okUse = false
		}
		return true
	})
	if !okUse {
		bad("closure indexes something else than %s (len taken of %s): %s", arrSrc, arrSrc, e.c.src(fl.Body))
	}
	t := e.typeOfExpr(arrExpr)
	at, isArr := t.(*ast.ArrayType)
	if t == nil || !isArr {
		bad("type of %s unknown", arrSrc)
	}
	inner = &lgEnv{c: e.c, t: e.t, recv: e.recv, vars: map[string]string{}}
	for k, v := range e.vars {
		inner.vars[k] = v
	}
	inner.vars["\x00idx:"+arrSrc+"["+idx+"]"] = "x"
	return e.expr(arrExpr), at.Elt, fl.Body, inner
}

// indexed: `arr[i]` inside an array closure
func (e *lgEnv) indexed(x ast.Expr) (string, bool) {
	if ix, ok := x.(*ast.IndexExpr); ok {
		if id, ok := ix.Index.(*ast.Ident); ok {
			if l, ok := e.vars["\x00idx:"+e.c.src(ix.X)+"["+id.Name+"]"]; ok {
				return l, true
			}
		}
	}
	return "", false
}

func (e *lgEnv) arg(x ast.Expr) string {
	if l, ok := e.indexed(x); ok {
		return l
	}
	if u, ok := x.(*ast.UnaryExpr); ok && u.Op == token.SUB {
		return "(-" + e.arg(u.X) + ")"
	}
	if u, ok := x.(*ast.UnaryExpr); ok && u.Op == token.AND { // &x for sizeofNullableString(&s): a non-nil pointer
		return "(some " + e.arg(u.X) + ")"
	}
	// conversions int32(x), int16(x), int64(x), int8(x)
	if c, ok := x.(*ast.CallExpr); ok && len(c.Args) == 1 {
		if _, isArr := c.Fun.(*ast.ArrayType); isArr {
			return e.arg(c.Args[0])
		}
	}
	if c, ok := x.(*ast.CallExpr); ok && len(c.Args) == 1 {
		if id, ok := c.Fun.(*ast.Ident); ok {
			switch id.Name {
			case "int8", "int16", "int32", "int64", "int":
				return e.arg(c.Args[0])
			}
		}
	}
	return e.expr(x)
}

func (e *lgEnv) call(v *ast.CallExpr) string {
	switch f := v.Fun.(type) {
	case *ast.ArrayType: // conversion []string(x)
		if len(v.Args) == 1 {
			return e.arg(v.Args[0])
		}
	case *ast.Ident:
		switch f.Name {
		case "int8", "int16", "int32", "int64", "int":
			if len(v.Args) == 1 {
				return e.arg(v.Args[0])
			}
		case "len":
			if len(v.Args) == 1 {
				return "(Int.ofNat " + e.arg(v.Args[0]) + ".length)"
			}
		case "sizeofInt8", "sizeofInt16", "sizeofInt32", "sizeofInt64", "sizeofString", "sizeofNullableString", "sizeofBytes",
			"sizeofInt32Array", "sizeofStringArray", "sizeofBool":
			if len(v.Args) == 1 {
				return "(" + f.Name + " " + e.arg(v.Args[0]) + ")"
			}
		case "sizeofArray":
			if len(v.Args) == 2 {
				arr, _, body, inner := e.arrayClosure(v.Args[0], v.Args[1])
				if len(body.List) == 1 {
					if r, ok := body.List[0].(*ast.ReturnStmt); ok && len(r.Results) == 1 {
						return "(sizeofArray " + arr + " (fun x => " + inner.sizeExpr(r.Results[0]) + "))"
					}
				}
			}
		}
	case *ast.SelectorExpr:
		// X.size()
		if f.Sel.Name == "size" && len(v.Args) == 0 {
			return e.sizeOfValue(f.X)
		}
	}
	bad("call %s", e.c.src(v))
	return ""
}

func (e *lgEnv) sizeExpr(x ast.Expr) string { return e.expr(x) }

// sizeOfValue: `X.size()` where X is recv.F, arr[i] or a bound variable
func (e *lgEnv) sizeOfValue(x ast.Expr) string {
	if l, ok := e.indexed(x); ok {
		// element type of the array: recover from the index expression
		ix := x.(*ast.IndexExpr)
		if n := elemTypeName(e.typeOfExpr(ix.X)); n != "" {
			return "(" + n + ".size " + l + ")"
		}
	}
	if t := e.typeOfExpr(x); t != nil {
		if id, ok := t.(*ast.Ident); ok {
			return "(" + id.Name + ".size " + e.expr(x) + ")"
		}
	}
	bad("size() of %s", e.c.src(x))
	return ""
}

func (e *lgEnv) cond(x ast.Expr) string {
	if b, ok := x.(*ast.BinaryExpr); ok {
		if id, isId := b.Y.(*ast.Ident); isId && id.Name == "nil" && (b.Op == token.EQL || b.Op == token.NEQ) {
			if r, ok := b.X.(*ast.Ident); ok && r.Name == e.recv && e.t.slice != nil {
				if b.Op == token.EQL {
					return "(t.isNil && t.items.isEmpty)" // a nil slice is empty
				}
				return "!(t.isNil && t.items.isEmpty)"
			}
			if sel, ok := b.X.(*ast.SelectorExpr); ok {
				if r, ok := sel.X.(*ast.Ident); ok && r.Name == e.recv {
					e.t.nilFlags[sel.Sel.Name] = true
					if b.Op == token.EQL {
						return "(t." + sel.Sel.Name + "_isNil && t." + sel.Sel.Name + ".isEmpty)" // a nil slice is empty
					}
					return "!(t." + sel.Sel.Name + "_isNil && t." + sel.Sel.Name + ".isEmpty)"
				}
			}
		}
		switch b.Op {
		case token.GEQ:
			return "decide (" + e.expr(b.X) + " ≥ " + e.expr(b.Y) + ")"
		case token.LSS:
			return "decide (" + e.expr(b.X) + " < " + e.expr(b.Y) + ")"
		}
	}
	bad("condition %s", e.c.src(x))
	return ""
}

// sizeBody translates the body of size(): `return e` or `sz := e; if c { sz += e }…; return sz`
func (e *lgEnv) sizeBody(b *ast.BlockStmt) string {
	acc := ""
	for _, st := range b.List {
		switch s := st.(type) {
		case *ast.ReturnStmt:
			if len(s.Results) != 1 {
				bad("return")
			}
			if id, ok := s.Results[0].(*ast.Ident); ok && id.Name == "sz" && acc != "" {
				return acc
			}
			if acc != "" {
				bad("return after accumulation: %s", e.c.src(s))
			}
			return e.expr(s.Results[0])
		case *ast.AssignStmt:
			if len(s.Lhs) != 1 || len(s.Rhs) != 1 {
				bad("assignment %s", e.c.src(s))
			}
			id, ok := s.Lhs[0].(*ast.Ident)
			if !ok || id.Name != "sz" {
				bad("assignment %s", e.c.src(s))
			}
			switch s.Tok {
			case token.DEFINE, token.ASSIGN:
				acc = e.expr(s.Rhs[0])
			case token.ADD_ASSIGN:
				acc = "(" + acc + " + " + e.expr(s.Rhs[0]) + ")"
			default:
				bad("assignment %s", e.c.src(s))
			}
		case *ast.IfStmt:
			if s.Init != nil || s.Else != nil || len(s.Body.List) != 1 {
				bad("if %s", e.c.src(s))
			}
			as, ok := s.Body.List[0].(*ast.AssignStmt)
			if !ok || as.Tok != token.ADD_ASSIGN || len(as.Rhs) != 1 {
				bad("if body %s", e.c.src(s))
			}
			acc = "(" + acc + " + (if " + e.cond(s.Cond) + " then " + e.expr(as.Rhs[0]) + " else 0))"
		default:
			bad("statement %s", e.c.src(st))
		}
	}
	bad("size() without return")
	return ""
}

// writeStmts translates a statement list of writeTo() into a Bytes expression
func (e *lgEnv) writeStmts(list []ast.Stmt) string {
	parts := []string{}
	for _, st := range list {
		parts = append(parts, e.writeStmt(st))
	}
	if len(parts) == 0 {
		return "([] : Bytes)"
	}
	return "(" + strings.Join(parts, " ++ ") + ")"
}

func (e *lgEnv) writeStmt(st ast.Stmt) string {
	switch s := st.(type) {
	case *ast.ExprStmt:
		call, ok := s.X.(*ast.CallExpr)
		if !ok {
			break
		}
		sel, ok := call.Fun.(*ast.SelectorExpr)
		if !ok {
			break
		}
		if id, ok := sel.X.(*ast.Ident); ok && id.Name == "wb" {
			switch sel.Sel.Name {
			case "writeInt8", "writeInt16", "writeInt32", "writeInt64", "writeString", "writeNullableString", "writeBytes",
				"writeBool", "writeInt32Array", "writeStringArray":
				if len(call.Args) == 1 {
					return "(" + sel.Sel.Name + " " + e.arg(call.Args[0]) + ")"
				}
			case "writeArrayLen":
				if len(call.Args) == 1 {
					return "(writeArrayLen " + e.arg(call.Args[0]) + ")"
				}
			case "writeArray":
				if len(call.Args) == 2 {
					arr, _, body, inner := e.arrayClosure(call.Args[0], call.Args[1])
					return "(writeArray " + arr + " (fun x => " + inner.writeStmts(body.List) + "))"
				}
			}
		}
		// X.writeTo(wb)
		if sel.Sel.Name == "writeTo" && len(call.Args) == 1 {
			if l, ok := e.indexed(sel.X); ok {
				ix := sel.X.(*ast.IndexExpr)
				if n := elemTypeName(e.typeOfExpr(ix.X)); n != "" {
					return "(" + n + ".writeTo " + l + ")"
				}
			}
			if t := e.typeOfExpr(sel.X); t != nil {
				if id, ok := t.(*ast.Ident); ok {
					return "(" + id.Name + ".writeTo " + e.expr(sel.X) + ")"
				}
			}
		}
	case *ast.IfStmt:
		if s.Init == nil && s.Else == nil {
			return "(if " + e.cond(s.Cond) + " then " + e.writeStmts(s.Body.List) + " else [])"
		}
		if blk, ok := s.Else.(*ast.BlockStmt); ok && s.Init == nil {
			return "(if " + e.cond(s.Cond) + " then " + e.writeStmts(s.Body.List) + " else " + e.writeStmts(blk.List) + ")"
		}
	case *ast.RangeStmt:
		// for _, r := range X { … }
		if v, ok := s.Value.(*ast.Ident); ok && s.Tok == token.DEFINE {
			if k, isId := s.Key.(*ast.Ident); s.Key == nil || (isId && k.Name == "_") {
				t := e.typeOfExpr(s.X)
				if at, ok := t.(*ast.ArrayType); ok && at.Len == nil {
					inner := &lgEnv{c: e.c, t: e.t, recv: e.recv, vars: map[string]string{}}
					for k, v := range e.vars {
						inner.vars[k] = v
					}
					inner.vars[v.Name] = "y"
					return "(writeEach " + e.expr(s.X) + " (fun y => " + inner.writeStmts(s.Body.List) + "))"
				}
			}
		}
	}
	bad("statement %s", e.c.src(st))
	return ""
}

func (c *lgCtx) translate(t *lgType) (out string, err error) {
	defer func() {
		if r := recover(); r != nil {
			if u, ok := r.(untranslatable); ok {
				err = u
				return
			}
			panic(r)
		}
	}()
	var sb strings.Builder
	t.nilFlags = map[string]bool{}
	rs, _ := recvOf(t.size)
	rw, _ := recvOf(t.writeTo)
	se := &lgEnv{c: c, t: t, recv: rs, vars: map[string]string{}}
	we := &lgEnv{c: c, t: t, recv: rw, vars: map[string]string{}}
	size, sizeWhy := func() (s string, why string) {
		defer func() {
			if r := recover(); r != nil {
				if u, ok := r.(untranslatable); ok {
					why = u.why
					return
				}
				panic(r)
			}
		}()
		return se.sizeBody(t.size.Body), ""
	}()
	if sizeWhy != "" {
		t.nilFlags = map[string]bool{}
	}
	t.sizeWhy = sizeWhy
	write := we.writeStmts(t.writeTo.Body.List)
	if t.st != nil {
		fmt.Fprintf(&sb, "structure %s where\n", t.name)
		n := 0
		for _, f := range t.st.Fields.List {
			for _, nm := range f.Names {
				fmt.Fprintf(&sb, "  %s : %s\n", nm.Name, c.leanType(f.Type))
				n++
				if t.nilFlags[nm.Name] {
					fmt.Fprintf(&sb, "  %s_isNil : Bool\n", nm.Name)
				}
			}
		}
		if n == 0 {
			sb.WriteString("  mk ::\n")
		}
	} else {
		fmt.Fprintf(&sb, "structure %s where\n  items : List %s\n  isNil : Bool\n", t.name, c.leanType(t.slice))
	}
	if sizeWhy != "" {
		fmt.Fprintf(&sb, "/-- size() of %s is not translated (%s): structure and writeTo only, no `legacy_size` -/\n", t.name, strings.ReplaceAll(sizeWhy, "-/", "- /"))
		fmt.Fprintf(&sb, "def %s.writeTo (t : %s) : Bytes :=\n  %s\n", t.name, t.name, write)
		return sb.String(), nil
	}
	fmt.Fprintf(&sb, "def %s.size (t : %s) : Int :=\n  %s\n", t.name, t.name, size)
	fmt.Fprintf(&sb, "def %s.writeTo (t : %s) : Bytes :=\n  %s\n", t.name, t.name, write)
	fmt.Fprintf(&sb, "@[simp] theorem %s.legacy_size (t : %s) : ((%s.writeTo t).length : Int) = %s.size t := by\n  legacy_size_tac %s.size %s.writeTo\n",
		t.name, t.name, t.name, t.name, t.name, t.name)
	return sb.String(), nil
}

// deps: struct types mentioned in the fields (for the emission order)
func (c *lgCtx) deps(t *lgType) []string {
	var out []string
	add := func(e ast.Expr) {
		ast.Inspect(e, func(n ast.Node) bool {
			if id, ok := n.(*ast.Ident); ok {
				if _, ok := c.types[id.Name]; ok && id.Name != t.name {
					out = append(out, id.Name)
				}
			}
			return true
		})
	}
	if t.st != nil {
		for _, f := range t.st.Fields.List {
			add(f.Type)
		}
	} else {
		add(t.slice)
	}
	return out
}

func extractLegacy(repo, root string) error {
	fset := token.NewFileSet()
	pkgs, err := parser.ParseDir(fset, repo, func(fi os.FileInfo) bool {
		return !strings.HasSuffix(fi.Name(), "_test.go") && !strings.HasPrefix(fi.Name(), "verif_")
	}, 0)
	if err != nil {
		return err
	}
	pkg, ok := pkgs["kafka"]
	if !ok {
		return fmt.Errorf("package kafka not found in %s", repo)
	}
	c := &lgCtx{fset: fset, types: map[string]*lgType{}, apiKeys: map[string]int{}, versioned: map[string]bool{}}
	decls := map[string]*lgType{}
	var emitted []string
	var writers []*ast.FuncDecl
	msgFuncs := map[string]*ast.FuncDecl{}
	varintFuncs := map[string]*ast.FuncDecl{}
	type emission struct {
		typ      string
		key      int
		versions []int
	}
	var emissions []emission
	var respEmissions []emission
	for _, f := range pkg.Files {
		for _, d := range f.Decls {
			switch x := d.(type) {
			case *ast.GenDecl:
				if x.Tok == token.CONST {
					for _, sp := range x.Specs {
						vs := sp.(*ast.ValueSpec)
						if id, ok := vs.Type.(*ast.Ident); ok && id.Name == "apiKey" {
							for i, n := range vs.Names {
								if i < len(vs.Values) {
									if lit, ok := vs.Values[i].(*ast.BasicLit); ok {
										var k int
										fmt.Sscan(lit.Value, &k)
										c.apiKeys[n.Name] = k
									}
								}
							}
						}
					}
				}
				if x.Tok != token.TYPE {
					continue
				}
				for _, s := range x.Specs {
					ts := s.(*ast.TypeSpec)
					t := &lgType{name: ts.Name.Name}
					switch u := ts.Type.(type) {
					case *ast.StructType:
						t.st = u
					case *ast.ArrayType:
						if u.Len == nil {
							t.slice = u.Elt
						}
					}
					if t.st != nil || t.slice != nil {
						if prev, ok := decls[t.name]; ok {
							t.size, t.writeTo, t.readFrom = prev.size, prev.writeTo, prev.readFrom
						}
						decls[t.name] = t
					}
				}
			case *ast.FuncDecl:
				_, rt := recvOf(x)
				if x.Body != nil && ((rt == "" && x.Name.Name == "varIntLen") || (rt == "writeBuffer" && x.Name.Name == "writeVarInt")) {
					varintFuncs[x.Name.Name] = x
				}
				if x.Body != nil && ((rt == "" && (x.Name.Name == "messageSize" || x.Name.Name == "messageSetSize" || x.Name.Name == "compressMessageSet")) ||
					(rt == "writeBuffer" && x.Name.Name == "writeMessage")) {
					msgFuncs[x.Name.Name] = x
					continue
				}
				if rt == "" || x.Body == nil {
					continue
				}
				if rt == "writeBuffer" && strings.HasPrefix(x.Name.Name, "write") && strings.Contains(x.Name.Name, "RequestV") {
					writers = append(writers, x)
					continue
				}
				t, ok := decls[rt]
				if !ok {
					t = &lgType{name: rt}
					decls[rt] = t
				}
				switch x.Name.Name {
				case "size":
					t.size = x
				case "writeTo":
					t.writeTo = x
				case "readFrom":
					t.readFrom = x
				}
			}
		}
	}
	for n, t := range decls {
		if t.size != nil && t.writeTo != nil && (t.st != nil || t.slice != nil) {
			c.types[n] = t
			if t.st != nil {
				for _, f := range t.st.Fields.List {
					for _, nm := range f.Names {
						if nm.Name == "v" {
							c.versioned[n] = true
						}
					}
				}
			}
		}
	}
	// emitted types: 4th argument of c.writeRequest(apiKey, version, id, REQ)
	for _, f := range pkg.Files {
		for _, d := range f.Decls {
			fd, ok := d.(*ast.FuncDecl)
			if !ok || fd.Body == nil {
				continue
			}
			locals := map[string]string{}
			note := func(names []*ast.Ident, t ast.Expr) {
				tn := ""
				switch u := t.(type) {
				case *ast.Ident:
					tn = u.Name
				case *ast.StarExpr:
					if id, ok := u.X.(*ast.Ident); ok {
						tn = id.Name
					}
				}
				for _, n := range names {
					locals[n.Name] = tn
				}
			}
			if fd.Type.Params != nil {
				for _, p := range fd.Type.Params.List {
					note(p.Names, p.Type)
				}
			}
			nEm := len(emissions)
			ast.Inspect(fd.Body, func(n ast.Node) bool {
				switch x := n.(type) {
				case *ast.ValueSpec:
					for i, nm := range x.Names {
						if x.Type != nil {
							note([]*ast.Ident{nm}, x.Type)
						} else if i < len(x.Values) {
							if cl, ok := x.Values[i].(*ast.CompositeLit); ok {
								if tid, ok := cl.Type.(*ast.Ident); ok {
									locals[nm.Name] = tid.Name
								}
							}
						}
					}
				case *ast.AssignStmt:
					if len(x.Lhs) == 1 && len(x.Rhs) == 1 {
						if id, ok := x.Lhs[0].(*ast.Ident); ok {
							r := x.Rhs[0]
							if u, ok := r.(*ast.UnaryExpr); ok {
								r = u.X
							}
							if cl, ok := r.(*ast.CompositeLit); ok {
								if tid, ok := cl.Type.(*ast.Ident); ok {
									locals[id.Name] = tid.Name
								}
							}
						}
					}
				case *ast.CallExpr:
					sel, ok := x.Fun.(*ast.SelectorExpr)
					if !ok || sel.Sel.Name != "writeRequest" || len(x.Args) != 4 {
						return true
					}
					a := x.Args[3]
					if u, ok := a.(*ast.UnaryExpr); ok {
						a = u.X
					}
					tn := ""
					switch v := a.(type) {
					case *ast.CompositeLit:
						if id, ok := v.Type.(*ast.Ident); ok {
							tn = id.Name
						}
					case *ast.CallExpr: // conversion T(x)
						if id, ok := v.Fun.(*ast.Ident); ok {
							tn = id.Name
						}
					case *ast.Ident:
						tn = locals[v.Name]
					}
					if tn == "" {
						tn = "?" + strings.Join(strings.Fields(func() string { var sb strings.Builder; printer.Fprint(&sb, fset, x.Args[3]); return sb.String() }()), " ")
					}
					emitted = append(emitted, tn)
					// api key constant and the version(s) this call site sends: a literal vN, or the versions passed to
					// negotiateVersion(<same key>, …) in the same function
					if kid, ok := x.Args[0].(*ast.Ident); ok {
						if kn, ok := c.apiKeys[kid.Name]; ok {
							var vs []int
							if vid, ok := x.Args[1].(*ast.Ident); ok && len(vid.Name) > 1 && vid.Name[0] == 'v' {
								var k int
								if _, err := fmt.Sscanf(vid.Name[1:], "%d", &k); err == nil {
									vs = []int{k}
								}
							}
							if vs == nil {
								ast.Inspect(fd.Body, func(m ast.Node) bool {
									if ce, ok := m.(*ast.CallExpr); ok {
										if se, ok := ce.Fun.(*ast.SelectorExpr); ok && se.Sel.Name == "negotiateVersion" && len(ce.Args) >= 2 {
											if k0, ok := ce.Args[0].(*ast.Ident); ok && k0.Name == kid.Name {
												for _, a := range ce.Args[1:] {
													if ai, ok := a.(*ast.Ident); ok && len(ai.Name) > 1 && ai.Name[0] == 'v' {
														var k int
														if _, err := fmt.Sscanf(ai.Name[1:], "%d", &k); err == nil {
															vs = append(vs, k)
														}
													}
												}
											}
										}
									}
									return true
								})
							}
							emissions = append(emissions, emission{tn, kn, vs})
						}
					}
				}
				return true
			})
			// the response read in the same function: a local of a type that has a reader
			if len(emissions) == nEm+1 {
				em := emissions[nEm]
				var names []string
				for _, tn := range locals {
					names = append(names, tn)
				}
				sort.Strings(names)
				for _, tn := range uniq(names) {
					if t, ok := c.types[tn]; ok && tn != em.typ && (t.readFrom != nil || strings.Contains(tn, "Response")) {
						respEmissions = append(respEmissions, emission{tn, em.key, em.versions})
					}
				}
			}
		}
	}
	sort.Strings(emitted)
	emitted = uniq(emitted)
	// topological order
	var names []string
	for n := range c.types {
		names = append(names, n)
	}
	sort.Strings(names)
	var order []string
	state := map[string]int{}
	var visit func(n string)
	visit = func(n string) {
		if state[n] != 0 {
			return
		}
		state[n] = 1
		for _, d := range c.deps(c.types[n]) {
			visit(d)
		}
		state[n] = 2
		order = append(order, n)
	}
	for _, n := range names {
		visit(n)
	}
	var sb strings.Builder
	sb.WriteString("-- GENERATED by /verif/go/extract (legacy) from /repo/*.go — do not edit\n")
	sb.WriteString("import KafkaVerif.Base.LegacyWire\nimport KafkaVerif.Base.LegacyRead\nimport KafkaVerif.Lemmas.LegacyModel\nimport KafkaVerif.Lemmas.LegacyFlat\nnamespace KV.Gen.Legacy\nopen KV KV.Legacy KV.Codec\n\n")
	sb.WriteString("/-- proves `encode (T.ty t) (T.val t) = T.writeTo t`: unfold, split the version tests, rewrite the model encoder into the\nwriteBuffer primitives (nested `legacy_model` theorems are simp lemmas) -/\n")
	sb.WriteString("syntax \"legacy_model_rest\" : tactic\nmacro_rules\n  | `(tactic| legacy_model_rest) => `(tactic|\n      (repeat' split\n       all_goals (first | rfl | (simp [enc_struct, encFields_cons, encFields_nil, enc_int8, enc_int16, enc_int32, enc_int64, enc_bool, enc_string, enc_bytes, enc_array, enc_array_null] <;> try (simp [writeStringArray, writeInt32Array, writeArray, writeArrayLen, writeInt32, writeString, writeInt32_fun, writeString_fun])))))\n\n")
	sb.WriteString("syntax \"legacy_model_tac \" ident ident ident : tactic\nmacro_rules\n  | `(tactic| legacy_model_tac $a $b $w) => `(tactic|\n      (simp only [$a:ident, $b:ident, $w:ident]\n       repeat' split\n       all_goals (first | rfl | (simp [enc_struct, encFields_cons, encFields_nil, enc_int8, enc_int16, enc_int32, enc_int64, enc_bool, enc_string, enc_bytes, enc_array, enc_array_null] <;> try (simp [writeStringArray, writeInt32Array, writeArray, writeArrayLen, writeInt32, writeString, writeInt32_fun, writeString_fun])))))\n\n")
	sb.WriteString("/-- the one tactic that proves every `legacy_size`: unfold the two methods, rewrite written lengths into announced\nsizes (nested `legacy_size` theorems are simp lemmas), close the linear arithmetic -/\n")
	sb.WriteString("syntax \"legacy_size_tac \" ident ident : tactic\nmacro_rules\n  | `(tactic| legacy_size_tac $s $w) => `(tactic|\n      (simp only [$s:ident, $w:ident]\n       repeat' split\n       all_goals ((try simp_all [len_writeArray', len_writeEach, sizeofArray, sumInt_const,\n         sizeofInt8, sizeofInt16, sizeofInt32, sizeofInt64, sizeofBool, sizeofInt32Array, sizeofStringArray, sumInt]) <;> (try omega))))\n\n")
	translated := map[string]bool{}
	writeOnly := map[string]bool{}
	readerOK := map[string]bool{}
	var noReader []string
	// types read by the reflective read(): locals passed to (*Conn).readResponse(size, &x), and the struct types they contain
	reflReach := map[string]bool{}
	for _, f := range pkg.Files {
		for _, d := range f.Decls {
			fd, ok := d.(*ast.FuncDecl)
			if !ok || fd.Body == nil {
				continue
			}
			locals := map[string]string{}
			ast.Inspect(fd.Body, func(n ast.Node) bool {
				switch x := n.(type) {
				case *ast.ValueSpec:
					if id, ok := x.Type.(*ast.Ident); ok {
						for _, nm := range x.Names {
							locals[nm.Name] = id.Name
						}
					}
				case *ast.CallExpr:
					if sel, ok := x.Fun.(*ast.SelectorExpr); ok && sel.Sel.Name == "readResponse" && len(x.Args) == 2 {
						if u, ok := x.Args[1].(*ast.UnaryExpr); ok && u.Op == token.AND {
							if id, ok := u.X.(*ast.Ident); ok && locals[id.Name] != "" {
								reflReach[locals[id.Name]] = true
							}
						}
					}
				}
				return true
			})
		}
	}
	for changed := true; changed; {
		changed = false
		for n := range reflReach {
			if t, ok := c.types[n]; ok {
				for _, d := range c.deps(t) {
					if !reflReach[d] {
						reflReach[d] = true
						changed = true
					}
				}
			}
		}
	}
	schemaOK := map[string]bool{}
	var noSchema []string
	var failed []string
	for _, n := range order {
		t := c.types[n]
		okDeps := true
		for _, d := range c.deps(t) {
			if !translated[d] {
				okDeps = false
			}
		}
		if !okDeps {
			failed = append(failed, fmt.Sprintf("(%q, %q)", n, "depends on an untranslated type"))
			continue
		}
		src, err := c.translate(t)
		if err != nil {
			failed = append(failed, fmt.Sprintf("(%q, %q)", n, err.Error()))
			continue
		}
		if t.sizeWhy != "" {
			failed = append(failed, fmt.Sprintf("(%q, %q)", n, "size(): "+t.sizeWhy))
			writeOnly[n] = true
		} else {
			translated[n] = true
		}
		sb.WriteString(src + "\n")
		if sch, err := c.translateSchema(t); err == nil {
			schemaOK[n] = true
			sb.WriteString(sch + "\n")
		} else {
			noSchema = append(noSchema, fmt.Sprintf("(%q, %q)", n, err.Error()))
		}
		// the reader: readFrom, or (types reached from a value passed to (*Conn).readResponse) the reflective read
		switch {
		case t.readFrom != nil && reflReach[n]:
			noReader = append(noReader, fmt.Sprintf("(%q, %q)", n, "has readFrom but is read reflectively"))
		case t.readFrom != nil || reflReach[n]:
			if rd, err := c.translateReader(t, readerOK, t.readFrom == nil); err == nil {
				readerOK[n] = true
				sb.WriteString(rd + "\n")
			} else {
				noReader = append(noReader, fmt.Sprintf("(%q, %q)", n, err.Error()))
			}
		}
	}
	if ms, err := c.translateMsgSet(msgFuncs); err == nil {
		sb.WriteString(ms + "\n")
		c.msgSetOK = true
	} else {
		failed = append(failed, fmt.Sprintf("(%q, %q)", "message-set writer (messageSize, messageSetSize, writeMessage, compressMessageSet)", err.Error()))
	}
	sort.Slice(writers, func(i, j int) bool { return writers[i].Name.Name < writers[j].Name.Name })
	var wl []string
	for _, fd := range writers {
		if !translated["requestHeader"] {
			failed = append(failed, fmt.Sprintf("(%q, %q)", fd.Name.Name, "requestHeader untranslated"))
			continue
		}
		src, err := c.translateWriter(fd)
		if err != nil {
			failed = append(failed, fmt.Sprintf("(%q, %q)", fd.Name.Name, err.Error()))
			continue
		}
		wl = append(wl, fmt.Sprintf("%q", fd.Name.Name))
		sb.WriteString(src + "\n")
	}
	{
		// varIntLen (recordbatch sizes) must count the bytes writeVarInt writes: same zig-zag value `u`, one byte per 7 bits
		zz := func(fd *ast.FuncDecl) string {
			if fd == nil || fd.Body == nil || len(fd.Body.List) == 0 {
				return "?"
			}
			as, ok := fd.Body.List[0].(*ast.AssignStmt)
			if !ok || len(as.Lhs) != 1 || len(as.Rhs) != 1 || c.src(as.Lhs[0]) != "u" {
				return "?"
			}
			return strings.Join(strings.Fields(c.src(as.Rhs[0])), " ")
		}
		loop := func(fd *ast.FuncDecl) string {
			out := "?"
			if fd == nil || fd.Body == nil {
				return out
			}
			ast.Inspect(fd.Body, func(n ast.Node) bool {
				if f, ok := n.(*ast.ForStmt); ok && out == "?" && f.Cond != nil {
					cond := strings.Join(strings.Fields(c.src(f.Cond)), " ")
					shift := ""
					for _, st := range f.Body.List {
						if t := strings.Join(strings.Fields(c.src(st)), " "); strings.HasPrefix(t, "u >>=") {
							shift = t
						}
					}
					out = strings.TrimSuffix(cond, " && n < len(wb.b)") + " :: " + shift
				}
				return true
			})
			return out
		}
		a, b := zz(varintFuncs["varIntLen"]), zz(varintFuncs["writeVarInt"])
		la, lb := loop(varintFuncs["varIntLen"]), loop(varintFuncs["writeVarInt"])
		fmt.Fprintf(&sb, "/-- write.go: the zig-zag value and the 7-bit loop of `varIntLen` (sizes of record batches, hence of Produce requests) and of\n`writeVarInt` (the bytes): %q / %q, loops %q / %q -/\n", a, b, la, lb)
		fmt.Fprintf(&sb, "def varIntLenCountsWrittenBytes : Bool := %v\n", a == b && a == "uint64((i << 1) ^ (i >> 63))" && la == lb && la == "u >= 0x80 :: u >>= 7")
		sb.WriteString("/-- the length `varIntLen` announces for a (possibly negative: timestamp deltas) varint is the number of bytes `writeVarInt` writes -/\ntheorem varint_len_counts_written_bytes : varIntLenCountsWrittenBytes = true := by decide\n\n")
	}
	fmt.Fprintf(&sb, "/-- write.go request writers translated (each has `legacy_size` and `legacy_header_version`) -/\ndef writers : List String := [%s]\n", strings.Join(wl, ", "))
	var tl []string
	for _, n := range order {
		if translated[n] {
			tl = append(tl, fmt.Sprintf("%q", n))
		}
	}
	var el []string
	for _, n := range emitted {
		el = append(el, fmt.Sprintf("%q", n))
	}
	fmt.Fprintf(&sb, "/-- types with both size() and writeTo() that were translated (each has a `legacy_size` theorem above) -/\ndef translated : List String := [%s]\n", strings.Join(tl, ", "))
	fmt.Fprintf(&sb, "/-- translated types whose writeTo could not be read as a schema, with the reason -/\ndef noSchema : List (String × String) := [%s]\n", strings.Join(noSchema, ", "))
	var rl []string
	for _, n := range order {
		if readerOK[n] {
			rl = append(rl, n)
		}
	}
	var rq, rt []string
	for _, n := range rl {
		rq = append(rq, fmt.Sprintf("%q", n))
		z := n + ".zero"
		if c.versioned[n] {
			z = "(" + n + ".zero v)"
		}
		rt = append(rt, fmt.Sprintf("(%q, fun %s bs => (%s.readFrom %s bs).map fun (t, r) => (%s.writeTo t, r))", n, map[bool]string{true: "v", false: "_"}[c.versioned[n]], n, z, n))
	}
	fmt.Fprintf(&sb, "/-- types whose reader was translated (each has `read_write` above) -/\ndef readers : List String := [%s]\n", strings.Join(rq, ", "))
	fmt.Fprintf(&sb, "/-- types with a readFrom / read reflectively whose reader is not translated, with the reason -/\ndef noReader : List (String × String) := [%s]\n", strings.Join(noReader, ", "))
	fmt.Fprintf(&sb, "/-- the translated readers followed by the same type's writer, for the oracle: version, body ↦ (re-encoded bytes, bytes left) -/\ndef rewriters : List (String × (Int → Bytes → Option (Bytes × Bytes))) := [\n  %s]\n", strings.Join(rt, ",\n  "))
	fmt.Fprintf(&sb, "/-- types passed to (*Conn).writeRequest -/\ndef emitted : List String := [%s]\n", strings.Join(el, ", "))
	fmt.Fprintf(&sb, "/-- types the translator does not handle, with the reason -/\ndef untranslated : List (String × String) := [%s]\n", strings.Join(failed, ", "))
	sb.WriteString("/-- every emitted type has its theorem -/\ntheorem emitted_covered : emitted.all (fun n => translated.contains n) = true := by decide\n")
	sb.WriteString("\nend KV.Gen.Legacy\n")
	if err := os.WriteFile(filepath.Join(root, "lean", "KafkaVerif", "Gen", "Legacy.lean"), []byte(sb.String()), 0o644); err != nil {
		return err
	}
	// ---- Gen/LegacyGolden.lean: what Conn emits is the reference encoding under the golden schema
	var gb strings.Builder
	gb.WriteString("-- GENERATED by /verif/go/extract (legacy) from /repo/*.go — do not edit\n")
	gb.WriteString("import KafkaVerif.Gen.Legacy\nimport KafkaVerif.Props.C04\nimport KafkaVerif.Spec.KafkaSchemas\nnamespace KV.Gen.Legacy\nopen KV KV.Legacy KV.Codec\n\n")
	gb.WriteString("/-- from `goldenTy … = some g` with `g` equal (decidably) to the writer's own schema, and the writer being the model\nencoder at that schema: the bytes are the reference encoding under the golden schema (strings written non-null: `Spec.denull`) -/\n")
	gb.WriteString("theorem eq_spec_of {ty : Ty} {v : Val} {bytes : Bytes} {og : Option Ty}\n    (hg : og.map (fun g => Ty.beq ty (Spec.denull g)) = some true) (hm : encode ty v = bytes) (hwf : ty.wf = true) (hwt : wt ty v = true) :\n    ∃ g, og = some g ∧ bytes = Spec.encode (Spec.denull g) v := by\n  cases og with\n  | none => simp at hg\n  | some g =>\n    simp only [Option.map_some, Option.some.injEq] at hg\n    have := Ty.eq_of_beq ty (Spec.denull g) hg\n    exact ⟨g, rfl, by rw [← hm, ← this]; exact KV.C04.encode_eq_spec ty v hwf hwt⟩\n\n")
	gb.WriteString(`/-- conn.go writeRequest: the header (Size = hdr.size() + req.size() - 4) followed by the request body is the Kafka
request frame (header v1, non-null client id) around that body -/
theorem legacy_frame_eq_spec (h : requestHeader) (body : Bytes)
    (hsize : h.Size = requestHeader.size h + body.length - 4)
    (hk : KV.Codec.inRange 16 h.ApiKey = true) (hv : KV.Codec.inRange 16 h.ApiVersion = true)
    (hc : KV.Codec.inRange 32 h.CorrelationID = true) (hcid : h.ClientID.length < 2 ^ 15)
    (hlen : requestHeader.size h + body.length - 4 < 2 ^ 31) :
    requestHeader.writeTo h ++ body =
      Spec.frameRequest false h.ApiKey h.ApiVersion h.CorrelationID h.ClientID body := by
  have e16 : ∀ i, KV.Codec.inRange 16 i = true → Wire.encInt 2 i = Spec.sint 2 i :=
    fun i hi => KV.C04.encInt_eq_sint_of_inRange 2 (by decide) i hi
  have e32 : ∀ i, KV.Codec.inRange 32 i = true → Wire.encInt 4 i = Spec.sint 4 i :=
    fun i hi => KV.C04.encInt_eq_sint_of_inRange 4 (by decide) i hi
  have hsz : requestHeader.size h = 12 + (2 + (h.ClientID.length : Int)) := by
    simp [requestHeader.size, sizeofString]
  have hcl : KV.Codec.inRange 16 (h.ClientID.length : Int) = true := by
    simp only [KV.Codec.inRange, Bool.and_eq_true, decide_eq_true_eq]; constructor <;> omega
  have hS' : h.Size = 12 + (2 + (h.ClientID.length : Int)) + body.length - 4 := by rw [hsize, hsz]
  have hlen' : 12 + (2 + (h.ClientID.length : Int)) + body.length - 4 < 2 ^ 31 := by rw [hsz] at hlen; exact hlen
  have hS : KV.Codec.inRange 32 h.Size = true := by
    rw [hS']
    simp only [KV.Codec.inRange, Bool.and_eq_true, decide_eq_true_eq]; constructor <;> omega
  have sl : ∀ (k : Nat) (i : Int), (Spec.sint k i).length = k := by
    intro k i; simp [Spec.sint, Spec.unsignedBE]
  have hw : requestHeader.writeTo h ++ body =
      Spec.sint 4 h.Size ++ (Spec.sint 2 h.ApiKey ++ Spec.sint 2 h.ApiVersion ++ Spec.sint 4 h.CorrelationID ++
        (Spec.sint 2 (h.ClientID.length : Int) ++ h.ClientID) ++ body) := by
    simp only [requestHeader.writeTo, writeInt32, writeInt16, writeString, List.append_assoc]
    rw [e32 _ hS, e16 _ hk, e16 _ hv, e32 _ hc, e16 _ hcl]
  rw [hw]
  have hks : Spec.kString false false h.ClientID = Spec.sint 2 (h.ClientID.length : Int) ++ h.ClientID := by
    simp [Spec.kString]
  unfold Spec.frameRequest Spec.frame
  simp only [Bool.false_eq_true, if_false, hks]
  have key : ∀ (X : Bytes), ((X.length : Nat) : Int) = h.Size → Spec.sint 4 h.Size ++ X = Spec.sint 4 (X.length : Int) ++ X := by
    intro X hx; rw [hx]
  apply key
  simp only [List.length_append, sl]
  rw [hS']
  omega

`)
	sort.Slice(emissions, func(i, j int) bool {
		if emissions[i].typ != emissions[j].typ {
			return emissions[i].typ < emissions[j].typ
		}
		return emissions[i].key < emissions[j].key
	})
	seenE := map[string]bool{}
	var gl []string
	for _, e := range emissions {
		if !schemaOK[e.typ] {
			continue
		}
		for _, k := range e.versions {
			id := fmt.Sprintf("%s.v%d", e.typ, k)
			if seenE[id] {
				continue
			}
			seenE[id] = true
			hv, simpv := "", ""
			if c.versioned[e.typ] {
				hv = fmt.Sprintf(" (hv : t.v = %d)", k)
				simpv = ", hv"
			}
			fmt.Fprintf(&gb, "/-- %s sent as api key %d version %d: schema = golden table, bytes = reference encoding -/\n", e.typ, e.key, k)
			fmt.Fprintf(&gb, "theorem %s.legacy_eq_spec_v%d (t : %s)%s (hwt : wt (%s.ty t) (%s.val t) = true) :\n    ∃ g, Spec.goldenTy %d true %d (%s.ty t) = some g ∧ %s.writeTo t = Spec.encode (Spec.denull g) (%s.val t) := by\n",
				e.typ, k, e.typ, hv, e.typ, e.typ, e.key, k, e.typ, e.typ, e.typ)
			fmt.Fprintf(&gb, "  apply eq_spec_of (ty := %s.ty t) (v := %s.val t) ?_ (%s.legacy_model t) ?_ hwt\n", e.typ, e.typ, e.typ)
			fmt.Fprintf(&gb, "  · simp only [%s.ty%s]; decide\n  · simp only [%s.ty%s]; decide\n\n", e.typ, simpv, e.typ, simpv)
			gl = append(gl, fmt.Sprintf("(%q, %d, %d)", e.typ, e.key, k))
		}
	}
	// responses: the type read in the function that sends (key, versions)
	sort.Slice(respEmissions, func(i, j int) bool {
		if respEmissions[i].typ != respEmissions[j].typ {
			return respEmissions[i].typ < respEmissions[j].typ
		}
		return respEmissions[i].key < respEmissions[j].key
	})
	var rgl, rskip []string
	for _, e := range respEmissions {
		if !schemaOK[e.typ] || !readerOK[e.typ] {
			rskip = append(rskip, fmt.Sprintf("%q", e.typ))
			continue
		}
		for _, k := range e.versions {
			id := fmt.Sprintf("resp %s.v%d", e.typ, k)
			if seenE[id] {
				continue
			}
			seenE[id] = true
			hv, simpv, zero := "", "", e.typ+".zero"
			if c.versioned[e.typ] {
				hv = fmt.Sprintf(" (hv : t.v = %d)", k)
				simpv = ", hv"
				zero = fmt.Sprintf("(%s.zero %d)", e.typ, k)
			}
			fmt.Fprintf(&gb, "/-- %s read as the response of api key %d version %d: the writer's schema is the golden response schema (up to string\nnullability), its bytes are the reference encoding, and the reader Conn uses gives the value back from exactly those bytes -/\n", e.typ, e.key, k)
			fmt.Fprintf(&gb, "theorem %s.legacy_read_spec_v%d (t : %s)%s (hwt : wt (%s.ty t) (%s.val t) = true) (hok : %s.Ok t) (rest : Bytes) :\n    ∃ g, Spec.goldenTy %d false %d (%s.ty t) = some g ∧\n      %s.readFrom %s (Spec.encode (Spec.denull g) (%s.val t) ++ rest) = some (t, rest) := by\n",
				e.typ, k, e.typ, hv, e.typ, e.typ, e.typ, e.key, k, e.typ, e.typ, zero, e.typ)
			fmt.Fprintf(&gb, "  have h1 : ∃ g, Spec.goldenTy %d false %d (%s.ty t) = some g ∧ %s.writeTo t = Spec.encode (Spec.denull g) (%s.val t) := by\n", e.key, k, e.typ, e.typ, e.typ)
			fmt.Fprintf(&gb, "    apply eq_spec_of (ty := %s.ty t) (v := %s.val t) ?_ (%s.legacy_model t) ?_ hwt\n", e.typ, e.typ, e.typ)
			fmt.Fprintf(&gb, "    · simp only [%s.ty%s]; decide\n    · simp only [%s.ty%s]; decide\n", e.typ, simpv, e.typ, simpv)
			fmt.Fprintf(&gb, "  obtain ⟨g, hg, hw⟩ := h1\n  refine ⟨g, hg, ?_⟩\n  rw [← hw]\n")
			if c.versioned[e.typ] {
				fmt.Fprintf(&gb, "  have := %s.read_write t hok rest\n  rwa [hv] at this\n\n", e.typ)
			} else {
				fmt.Fprintf(&gb, "  exact %s.read_write t hok rest\n\n", e.typ)
			}
			rgl = append(rgl, fmt.Sprintf("(%q, %d, %d)", e.typ, e.key, k))
		}
	}
	fmt.Fprintf(&gb, "/-- (type, api key, version) of every response type covered by `legacy_read_spec` -/\ndef goldenReadCovered : List (String × Nat × Nat) := [%s]\n", strings.Join(rgl, ", "))
	fmt.Fprintf(&gb, "/-- response types seen next to a writeRequest call whose schema or reader is not translated -/\ndef goldenReadSkipped : List String := [%s]\n\n", strings.Join(uniq(rskip), ", "))
	for _, wi := range c.writerInfo {
		name, key, ver := wi[0], wi[1], wi[2]
		hyp, rw := "", ""
		if strings.Contains(name, "Produce") {
			hyp = " (hnil : a.transactionalID = none)"
			rw = ", hnil"
		}
		fmt.Fprintf(&gb, "/-- the body %s writes reads as a value of the golden schema of api key %s version %s, and is the model (hence, for\nwell-typed values, the reference) encoding of that value under a type equal to the golden one up to string nullability -/\n", name, key, ver)
		fmt.Fprintf(&gb, "theorem %s.legacy_eq_spec (a : %s.Args)%s :\n    ∃ g tw v, Spec.goldenTy %s true %s .bool = some g ∧ unflatten g (%s.prims a) = some (tw, v, []) ∧\n      Spec.denull tw = Spec.denull g ∧ flat (%s.prims a) = encode tw v := by\n", name, name, hyp, key, ver, name, name)
		fmt.Fprintf(&gb, "  have hg : (Spec.goldenTy %s true %s .bool).isSome = true := by decide\n", key, ver)
		fmt.Fprintf(&gb, "  obtain ⟨g, hgg⟩ := Option.isSome_iff_exists.mp hg\n")
		fmt.Fprintf(&gb, "  have hu : ∃ tw v, unflatten g (%s.prims a) = some (tw, v, []) := by\n    have : g = (Spec.goldenTy %s true %s .bool).getD .bool := by rw [hgg]; rfl\n    subst this\n    simp only [%s.prims%s]\n    exact ⟨_, _, rfl⟩\n", name, key, ver, name, rw)
		fmt.Fprintf(&gb, "  obtain ⟨tw, v, hu⟩ := hu\n  obtain ⟨h1, h2⟩ := unflatten_sound g _ tw v hu\n  exact ⟨g, tw, v, hgg, hu, h2, h1⟩\n\n")
	}
	fmt.Fprintf(&gb, "/-- (type, api key, version) of every `(*Conn).writeRequest` call site covered above -/\ndef goldenCovered : List (String × Nat × Nat) := [%s]\n\nend KV.Gen.Legacy\n", strings.Join(gl, ", "))
	return os.WriteFile(filepath.Join(root, "lean", "KafkaVerif", "Gen", "LegacyGolden.lean"), []byte(gb.String()), 0o644)
}

func uniq(s []string) []string {
	var out []string
	for i, x := range s {
		if i == 0 || x != s[i-1] {
			out = append(out, x)
		}
	}
	return out
}

// ---------------------------------------------------------------------------------------------------------
// write.go `write*RequestV<N>` functions: header literal + hand-computed h.Size + body writes

var writerAPIs = map[string]int{"Produce": 0, "Fetch": 1, "ListOffset": 2, "ListOffsets": 2, "Metadata": 3}

type wEnv struct {
	c      *lgCtx
	params map[string]string // Go parameter name -> Lean type
	locals map[string]bool   // `var size int32` …: values fixed by the statements before the header (fields of Args)
}

func (e *wEnv) val(x ast.Expr) string {
	switch v := x.(type) {
	case *ast.ParenExpr:
		return "(" + e.val(v.X) + ")"
	case *ast.BasicLit:
		if v.Kind == token.INT {
			return "(" + v.Value + " : Int)"
		}
	case *ast.UnaryExpr:
		if v.Op == token.SUB {
			return "(-" + e.val(v.X) + ")"
		}
	case *ast.Ident:
		if _, ok := e.params[v.Name]; ok {
			return "a." + v.Name
		}
		if e.locals[v.Name] {
			return "a." + v.Name
		}
	case *ast.CallExpr:
		if id, ok := v.Fun.(*ast.Ident); ok && len(v.Args) == 1 {
			switch id.Name {
			case "int8", "int16", "int32", "int64", "int":
				return e.val(v.Args[0])
			case "milliseconds":
				return "(milliseconds " + e.val(v.Args[0]) + ")"
			case "sizeofString", "sizeofNullableString", "sizeofBytes", "sizeofInt32Array", "sizeofStringArray":
				return "(" + id.Name + " " + e.val(v.Args[0]) + ")"
			}
		}
	case *ast.SelectorExpr: // recordBatch.size
		if id, ok := v.X.(*ast.Ident); ok && e.params[id.Name] == "RecordBatchBlob" && v.Sel.Name == "size" {
			return "a." + id.Name + ".size"
		}
	case *ast.BinaryExpr:
		if v.Op == token.ADD || v.Op == token.SUB || v.Op == token.MUL {
			return "(" + e.val(v.X) + " " + v.Op.String() + " " + e.val(v.Y) + ")"
		}
	}
	bad("writer expression %s", e.c.src(x))
	return ""
}

// translateWriter returns the Lean text for one write*RequestV<N> function.
func (c *lgCtx) translateWriter(fd *ast.FuncDecl) (out string, err error) {
	defer func() {
		if r := recover(); r != nil {
			if u, ok := r.(untranslatable); ok {
				err = u
				return
			}
			panic(r)
		}
	}()
	name := fd.Name.Name
	// expected api key and version from the function's NAME
	i := len(name)
	for i > 0 && name[i-1] >= '0' && name[i-1] <= '9' {
		i--
	}
	if i == len(name) || i < 1 || name[i-1] != 'V' {
		bad("function name %s does not end in V<N>", name)
	}
	wantVer := name[i:]
	api := strings.TrimSuffix(strings.TrimPrefix(name[:i-1], "write"), "Request")
	wantKey, ok := writerAPIs[api]
	if !ok {
		bad("unknown API %q in function name %s", api, name)
	}
	e := &wEnv{c: c, params: map[string]string{}, locals: map[string]bool{}}
	var order []string
	codecParam := ""
	sizeInv := false // the codec branch established `size = messageSetSize(msgs)`
	msgLoop := false
	sizeVar, attrVar, bufVar, msgsParam := "", "", "", ""
	for _, p := range fd.Type.Params.List {
		lt := ""
		switch t := p.Type.(type) {
		case *ast.Ident:
			switch t.Name {
			case "int8", "int16", "int32", "int64", "int":
				lt = "Int"
			case "string":
				lt = "Bytes"
			}
		case *ast.SelectorExpr:
			if c.src(t) == "time.Duration" {
				lt = "Int"
			}
		case *ast.StarExpr:
			switch c.src(t.X) {
			case "string":
				lt = "(Option Bytes)"
			case "recordBatch":
				lt = "RecordBatchBlob"
			}
		case *ast.Ellipsis:
			if c.src(t.Elt) == "Message" && c.msgSetOK && len(p.Names) == 1 {
				lt = "(List Message)"
				msgsParam = p.Names[0].Name
			}
		}
		if id, ok := p.Type.(*ast.Ident); ok && id.Name == "CompressionCodec" && c.msgSetOK && len(p.Names) == 1 {
			codecParam = p.Names[0].Name // replaced by the values the codec branch leaves in size / attributes / msgs
			continue
		}
		if lt == "" {
			bad("parameter type %s", c.src(p.Type))
		}
		for _, n := range p.Names {
			e.params[n.Name] = lt
			order = append(order, n.Name)
		}
	}
	hdr := map[string]string{}
	size := ""
	var writes []string
	var prims []string
	for _, st := range fd.Body.List {
		switch s := st.(type) {
		case *ast.DeclStmt:
			// var size int32 / var attributes int8 / var compressed *bytes.Buffer
			gd, ok := s.Decl.(*ast.GenDecl)
			if !ok || gd.Tok != token.VAR || codecParam == "" {
				bad("statement %s", c.src(st))
			}
			for _, sp := range gd.Specs {
				vs := sp.(*ast.ValueSpec)
				if len(vs.Values) != 0 {
					bad("statement %s", c.src(st))
				}
				if id, ok := vs.Type.(*ast.Ident); ok && (id.Name == "int32" || id.Name == "int8") {
					for _, n := range vs.Names {
						e.locals[n.Name] = true
						order = append(order, n.Name)
						e.params[n.Name] = "Int"
						if id.Name == "int32" {
							sizeVar = n.Name
						} else {
							attrVar = n.Name
						}
					}
				} else if c.src(vs.Type) == "*bytes.Buffer" && len(vs.Names) == 1 {
					bufVar = vs.Names[0].Name
				}
			}
			continue
		case *ast.IfStmt:
			// if codec == nil { size = messageSetSize(msgs...) } else { compressed, attributes, size, err = compressMessageSet(codec, msgs...); …; msgs = []Message{{Value: compressed.Bytes()}} }
			norm := func(n ast.Node) string { return strings.Join(strings.Fields(c.src(n)), " ") }
			blk, isBlk := s.Else.(*ast.BlockStmt)
			if codecParam == "" || sizeVar == "" || attrVar == "" || bufVar == "" || msgsParam == "" || s.Init != nil || !isBlk ||
				norm(s.Cond) != codecParam+" == nil" || len(s.Body.List) != 1 ||
				norm(s.Body.List[0]) != sizeVar+" = messageSetSize("+msgsParam+"...)" {
				bad("statement %s", c.src(st))
			}
			okCall, okMsgs := false, false
			for _, es := range blk.List {
				n := norm(es)
				switch {
				case strings.HasPrefix(n, bufVar+", "+attrVar+", "+sizeVar+", ") && strings.HasSuffix(n, " = compressMessageSet("+codecParam+", "+msgsParam+"...)"):
					okCall = true
				case n == msgsParam+" = []Message{{Value: "+bufVar+".Bytes()}}":
					okMsgs = okCall
				default:
					if is, ok := es.(*ast.IfStmt); !ok || !strings.HasSuffix(norm(is.Cond), " != nil") {
						bad("statement %s", c.src(es))
					}
				}
			}
			if !okCall || !okMsgs {
				bad("codec branch does not leave size = messageSetSize(msgs): %s", c.src(st))
			}
			sizeInv = true
			continue
		case *ast.RangeStmt:
			// for _, msg := range msgs { wb.writeMessage(msg.Offset, attributes, msg.Time, msg.Key, msg.Value, cw) }
			norm := func(n ast.Node) string { return strings.Join(strings.Fields(c.src(n)), " ") }
			if codecParam == "" || norm(s.Key) != "_" || s.Value == nil || norm(s.X) != msgsParam || len(s.Body.List) != 1 || attrVar == "" {
				bad("statement %s", c.src(st))
			}
			m := norm(s.Value)
			body := norm(s.Body.List[0])
			if !strings.HasPrefix(body, "wb.writeMessage("+m+".Offset, "+attrVar+", "+m+".Time, "+m+".Key, "+m+".Value, ") {
				bad("statement %s", c.src(st))
			}
			writes = append(writes, "(writeEach a."+msgsParam+" (fun msg => writeMessage a.crc msg.Offset a."+attrVar+" msg.Time msg.Key msg.Value))")
			msgLoop = true
			continue
		case *ast.AssignStmt:
			if codecParam != "" && s.Tok == token.DEFINE && len(s.Rhs) == 1 && strings.HasPrefix(strings.Join(strings.Fields(c.src(s.Rhs[0])), " "), "&crc32Writer{") {
				continue
			}
			if len(s.Lhs) != 1 || len(s.Rhs) != 1 {
				bad("statement %s", c.src(st))
			}
			if id, ok := s.Lhs[0].(*ast.Ident); ok && id.Name == "h" && s.Tok == token.DEFINE {
				cl, ok := s.Rhs[0].(*ast.CompositeLit)
				if !ok || c.src(cl.Type) != "requestHeader" {
					bad("header literal %s", c.src(st))
				}
				for _, el := range cl.Elts {
					kv, ok := el.(*ast.KeyValueExpr)
					if !ok {
						bad("header literal %s", c.src(st))
					}
					k := c.src(kv.Key)
					switch k {
					case "ApiKey", "ApiVersion":
						// int16(<const>)
						ce, ok := kv.Value.(*ast.CallExpr)
						if !ok || len(ce.Args) != 1 {
							bad("header field %s", c.src(kv))
						}
						cn := c.src(ce.Args[0])
						if k == "ApiVersion" {
							if !strings.HasPrefix(cn, "v") {
								bad("header version %s", cn)
							}
							hdr[k] = "(" + cn[1:] + " : Int)"
						} else {
							kv2, ok := c.apiKeys[cn]
							if !ok {
								bad("api key constant %s", cn)
							}
							hdr[k] = fmt.Sprintf("(%d : Int)", kv2)
						}
					case "CorrelationID", "ClientID":
						hdr[k] = e.val(kv.Value)
					default:
						bad("header field %s", k)
					}
				}
				continue
			}
			if c.src(s.Lhs[0]) == "h.Size" && s.Tok == token.ASSIGN {
				// (h.size() - 4) + …
				txt := e.sizeSum(s.Rhs[0])
				size = txt
				continue
			}
			bad("statement %s", c.src(st))
		case *ast.ExprStmt:
			call, ok := s.X.(*ast.CallExpr)
			if !ok {
				bad("statement %s", c.src(st))
			}
			if codecParam != "" && c.src(st) == "releaseBuffer("+bufVar+")" {
				continue
			}
			sel, ok := call.Fun.(*ast.SelectorExpr)
			if !ok {
				bad("statement %s", c.src(st))
			}
			recv := c.src(sel.X)
			switch {
			case recv == "h" && sel.Sel.Name == "writeTo":
				writes = append(writes, "(requestHeader.writeTo { "+name+".hdr0 a with Size := "+name+".announced a })")
			case recv == "wb":
				switch sel.Sel.Name {
				case "writeInt8", "writeInt16", "writeInt32", "writeInt64", "writeString", "writeNullableString", "writeBytes", "writeArrayLen":
					if len(call.Args) != 1 {
						bad("statement %s", c.src(st))
					}
					writes = append(writes, "("+sel.Sel.Name+" "+e.val(call.Args[0])+")")
					pk := map[string]string{"writeInt8": ".i8", "writeInt16": ".i16", "writeInt32": ".i32", "writeInt64": ".i64", "writeString": ".str",
						"writeNullableString": ".nstr", "writeBytes": ".bytes", "writeArrayLen": ".alen"}[sel.Sel.Name]
					prims = append(prims, "("+pk+" "+e.val(call.Args[0])+")")
				default:
					bad("statement %s", c.src(st))
				}
			case e.params[recv] == "RecordBatchBlob" && sel.Sel.Name == "writeTo":
				writes = append(writes, "(writeInt32 a."+recv+".size ++ a."+recv+".body)")
				prims = append(prims, "(.blob a."+recv+")")
			default:
				bad("statement %s", c.src(st))
			}
		case *ast.ReturnStmt:
			if len(s.Results) == 1 && c.src(s.Results[0]) == "wb.Flush()" {
				continue
			}
			bad("statement %s", c.src(st))
		default:
			bad("statement %s", c.src(st))
		}
	}
	for _, k := range []string{"ApiKey", "ApiVersion", "CorrelationID", "ClientID"} {
		if hdr[k] == "" {
			bad("header field %s missing", k)
		}
	}
	if size == "" || len(writes) == 0 {
		bad("no h.Size assignment / no writes")
	}
	if codecParam != "" && (!sizeInv || !msgLoop) {
		bad("message-set writer without codec branch / message loop")
	}
	var sb strings.Builder
	fmt.Fprintf(&sb, "structure %s.Args where\n", name)
	for _, n := range order {
		fmt.Fprintf(&sb, "  %s : %s\n", n, e.params[n])
	}
	if codecParam != "" {
		fmt.Fprintf(&sb, "  crc : Bytes → Int\n")
		fmt.Fprintf(&sb, "/-- the `requestHeader{…}` literal of %s -/\n", name)
		fmt.Fprintf(&sb, "def %s.hdr0 (a : %s.Args) : requestHeader :=\n  { Size := 0, ApiKey := %s, ApiVersion := %s, CorrelationID := %s, ClientID := %s }\n",
			name, name, hdr["ApiKey"], hdr["ApiVersion"], hdr["CorrelationID"], hdr["ClientID"])
		fmt.Fprintf(&sb, "/-- `h.Size = …` (size, attributes, msgs: the values the `codec == nil` / compressed branch leaves) -/\ndef %s.announced (a : %s.Args) : Int :=\n  %s\n", name, name, strings.ReplaceAll(size, "HSIZE", "(requestHeader.size ("+name+".hdr0 a))"))
		fmt.Fprintf(&sb, "def %s.bytes (a : %s.Args) : Bytes :=\n  %s\n", name, name, strings.Join(writes, " ++\n  "))
		fmt.Fprintf(&sb, "/-- both branches of `if codec == nil` establish `size = messageSetSize(msgs)` (checked on the source: the plain branch assigns it,\ncompressMessageSet returns `messageSetSize(Message{Value: compressed})` and msgs becomes that one message); under it the size\nprefix announces exactly the bytes that follow -/\n")
		fmt.Fprintf(&sb, "theorem %s.legacy_size (a : %s.Args) (hsize : a.SIZEVAR = messageSetSize a.MSGSVAR) : ((%s.bytes a).length : Int) = 4 + %s.announced a := by\n  have hm := messageSet_len a.crc a.ATTRVAR a.MSGSVAR\n  simp only [%s.bytes, %s.announced, %s.hdr0, requestHeader.size, milliseconds, hsize, List.length_append, Int.natCast_add]\n  simp only [requestHeader.writeTo, List.length_append, Int.natCast_add, len_writeInt16, len_writeInt32, len_writeString, len_writeArrayLen, hm, sizeofString]\n  omega\n",
			name, name, name, name, name, name, name)
		fmt.Fprintf(&sb, "theorem %s.legacy_header_version (a : %s.Args) : (%s.hdr0 a).ApiVersion = %s ∧ (%s.hdr0 a).ApiKey = %d := by\n  simp [%s.hdr0]\n",
			name, name, name, wantVer, name, wantKey, name)
		return strings.NewReplacer("SIZEVAR", sizeVar, "ATTRVAR", attrVar, "MSGSVAR", msgsParam).Replace(sb.String()), nil
	}
	fmt.Fprintf(&sb, "/-- the `requestHeader{…}` literal of %s (Size is assigned afterwards) -/\n", name)
	fmt.Fprintf(&sb, "def %s.hdr0 (a : %s.Args) : requestHeader :=\n  { Size := 0, ApiKey := %s, ApiVersion := %s, CorrelationID := %s, ClientID := %s }\n",
		name, name, hdr["ApiKey"], hdr["ApiVersion"], hdr["CorrelationID"], hdr["ClientID"])
	fmt.Fprintf(&sb, "/-- `h.Size = …` -/\ndef %s.announced (a : %s.Args) : Int :=\n  %s\n", name, name, strings.ReplaceAll(size, "HSIZE", "(requestHeader.size ("+name+".hdr0 a))"))
	fmt.Fprintf(&sb, "def %s.bytes (a : %s.Args) : Bytes :=\n  %s\n", name, name, strings.Join(writes, " ++\n  "))
	fmt.Fprintf(&sb, "/-- the body as the flat sequence of writeBuffer calls after the header -/\ndef %s.prims (a : %s.Args) : List Prim :=\n  [%s]\n", name, name, strings.Join(prims, ", "))
	fmt.Fprintf(&sb, "theorem %s.bytes_flat (a : %s.Args) : %s.bytes a = requestHeader.writeTo { %s.hdr0 a with Size := %s.announced a } ++ flat (%s.prims a) := by\n  simp [%s.bytes, %s.prims, flat, Prim.out]\n", name, name, name, name, name, name, name, name)
	c.writerInfo = append(c.writerInfo, [3]string{name, fmt.Sprint(wantKey), wantVer})
	fmt.Fprintf(&sb, "/-- the size prefix announces exactly the bytes that follow it -/\ntheorem %s.legacy_size (a : %s.Args) : ((%s.bytes a).length : Int) = 4 + %s.announced a := by\n  simp [%s.bytes, %s.announced, %s.hdr0, requestHeader.size, milliseconds]\n  try omega\n",
		name, name, name, name, name, name, name)
	fmt.Fprintf(&sb, "/-- the header carries the api key and the version the function is named after -/\ntheorem %s.legacy_header_version (a : %s.Args) : (%s.hdr0 a).ApiVersion = %s ∧ (%s.hdr0 a).ApiKey = %d := by\n  simp [%s.hdr0]\n",
		name, name, name, wantVer, name, wantKey, name)
	return sb.String(), nil
}

func (e *wEnv) sizeSum(x ast.Expr) string {
	// h.size() appears as a call on h
	switch v := x.(type) {
	case *ast.BinaryExpr:
		if v.Op == token.ADD || v.Op == token.SUB {
			return "(" + e.sizeSum(v.X) + " " + v.Op.String() + " " + e.sizeSum(v.Y) + ")"
		}
	case *ast.ParenExpr:
		return "(" + e.sizeSum(v.X) + ")"
	case *ast.CallExpr:
		if e.c.src(v) == "h.size()" {
			return "HSIZE"
		}
	}
	return e.val(x)
}

// ---------------------------------------------------------------------------------------------------------
// the writeTo() body read a second time, as a schema: which Kafka type each write emits and which value it carries.
// `T.ty t : Ty` / `T.val t : Val` (Model/Schema.lean) with `T.legacy_model : encode (T.ty t) (T.val t) = T.writeTo t`
// make the hand-written writer an instance of the model encoder, hence (encode_eq_spec) of the Kafka reference.

type tv struct{ ty, val string } // Lean expressions of type List Ty / List Val

func cat(parts []tv) tv {
	if len(parts) == 0 {
		return tv{"([] : List Ty)", "([] : List Val)"}
	}
	var a, b []string
	for _, p := range parts {
		a = append(a, p.ty)
		b = append(b, p.val)
	}
	return tv{"(" + strings.Join(a, " ++ ") + ")", "(" + strings.Join(b, " ++ ") + ")"}
}

func one(ty, val string) tv { return tv{"[" + ty + "]", "[" + val + "]"} }

// schemaStmts mirrors writeStmts.
func (e *lgEnv) schemaStmts(list []ast.Stmt) tv {
	var parts []tv
	for i := 0; i < len(list); i++ {
		// `wb.writeInt32(int32(len(X)))` / `wb.writeArrayLen(len(X))` followed by `for _, y := range X { … }` is an array
		if i+1 < len(list) {
			if x, ok := e.lenWrite(list[i]); ok {
				if rs, ok := list[i+1].(*ast.RangeStmt); ok && e.c.src(rs.X) == x {
					if v, ok := rs.Value.(*ast.Ident); ok {
						inner := &lgEnv{c: e.c, t: e.t, recv: e.recv, vars: map[string]string{}}
						for k, vv := range e.vars {
							inner.vars[k] = vv
						}
						inner.vars[v.Name] = "y"
						el := inner.schemaStmts(rs.Body.List)
						parts = append(parts, one("(.array false false "+elemTy(el)+")", "(.arr (some ("+e.expr(rs.X)+".map fun y => "+elemVal(el)+")))"))
						i++
						continue
					}
				}
			}
		}
		parts = append(parts, e.schemaStmt(list[i]))
	}
	return cat(parts)
}

// lenWrite recognises a write of len(X) and returns the source text of X.
func (e *lgEnv) lenWrite(st ast.Stmt) (string, bool) {
	es, ok := st.(*ast.ExprStmt)
	if !ok {
		return "", false
	}
	call, ok := es.X.(*ast.CallExpr)
	if !ok || len(call.Args) != 1 {
		return "", false
	}
	sel, ok := call.Fun.(*ast.SelectorExpr)
	if !ok || (sel.Sel.Name != "writeInt32" && sel.Sel.Name != "writeArrayLen") {
		return "", false
	}
	a := call.Args[0]
	for {
		c, ok := a.(*ast.CallExpr)
		if !ok || len(c.Args) != 1 {
			return "", false
		}
		if id, ok := c.Fun.(*ast.Ident); ok {
			if id.Name == "len" {
				return e.c.src(c.Args[0]), true
			}
			if id.Name == "int32" || id.Name == "int" {
				a = c.Args[0]
				continue
			}
		}
		return "", false
	}
}

// an array element described by a field list: a single field stands for itself, several for a struct
func elemTy(el tv) string {
	if strings.HasPrefix(el.ty, "([") && strings.HasSuffix(el.ty, "])") && !strings.Contains(el.ty, "] ++ ") {
		return el.ty[2 : len(el.ty)-2]
	}
	return "(.struct false " + el.ty + " [] [])"
}
func elemVal(el tv) string {
	if strings.HasPrefix(el.ty, "([") && strings.HasSuffix(el.ty, "])") && !strings.Contains(el.ty, "] ++ ") {
		return el.val[2 : len(el.val)-2]
	}
	return "(.struct " + el.val + " [])"
}

func (e *lgEnv) schemaStmt(st ast.Stmt) tv {
	switch s := st.(type) {
	case *ast.ExprStmt:
		call, ok := s.X.(*ast.CallExpr)
		if !ok {
			break
		}
		sel, ok := call.Fun.(*ast.SelectorExpr)
		if !ok {
			break
		}
		if id, ok := sel.X.(*ast.Ident); ok && id.Name == "wb" && len(call.Args) >= 1 {
			a := ""
			if sel.Sel.Name != "writeArray" {
				a = e.arg(call.Args[0])
			}
			switch sel.Sel.Name {
			case "writeInt8":
				return one(".int8", "(.int "+a+")")
			case "writeInt16":
				return one(".int16", "(.int "+a+")")
			case "writeInt32":
				return one(".int32", "(.int "+a+")")
			case "writeInt64":
				return one(".int64", "(.int "+a+")")
			case "writeBool":
				return one(".bool", "(.bool "+a+")")
			case "writeString":
				return one("(.string false false)", "(.str "+a+")")
			case "writeBytes":
				return one("(.bytes false false)", "(.bytes (some "+a+"))")
			case "writeStringArray":
				return one("(.array false false (.string false false))", "(.arr (some ("+a+".map .str)))")
			case "writeInt32Array":
				return one("(.array false false .int32)", "(.arr (some ("+a+".map .int)))")
			case "writeArray":
				if len(call.Args) == 2 {
					arr, _, body, inner := e.arrayClosure(call.Args[0], call.Args[1])
					el := inner.schemaStmts(body.List)
					return one("(.array false false "+elemTy(el)+")", "(.arr (some ("+arr+".map fun x => "+elemVal(el)+")))")
				}
			}
		}
		if sel.Sel.Name == "writeTo" && len(call.Args) == 1 {
			if l, ok := e.indexed(sel.X); ok {
				ix := sel.X.(*ast.IndexExpr)
				if n := elemTypeName(e.typeOfExpr(ix.X)); n != "" {
					if e.c.versioned[n] {
						bad("nested versioned type %s", n)
					}
					return one(n+".tyC", "("+n+".val "+l+")")
				}
			}
			if t := e.typeOfExpr(sel.X); t != nil {
				if id, ok := t.(*ast.Ident); ok {
					if e.c.versioned[id.Name] {
						bad("nested versioned type %s", id.Name)
					}
					e.t.nested = append(e.t.nested, id.Name)
					return tv{id.Name + ".tyFs", "(" + id.Name + ".valFs " + e.expr(sel.X) + ")"}
				}
			}
		}
	case *ast.IfStmt:
		if s.Init == nil && s.Else == nil {
			in := e.schemaStmts(s.Body.List)
			c := e.cond(s.Cond)
			return tv{"(if " + c + " then " + in.ty + " else [])", "(if " + c + " then " + in.val + " else [])"}
		}
		// `if X == nil { wb.writeArrayLen(-1) } else { <one array write> }`: a nullable array
		if blk, ok := s.Else.(*ast.BlockStmt); ok && s.Init == nil && len(s.Body.List) == 1 && len(blk.List) == 1 {
			if strings.Contains(e.c.src(s.Body.List[0]), "writeArrayLen(-1)") {
				in := e.schemaStmt(blk.List[0])
				if strings.HasPrefix(in.ty, "[(.array false false ") && strings.HasPrefix(in.val, "[(.arr (some ") {
					c := e.cond(s.Cond)
					ty := "[(.array false true " + strings.TrimPrefix(in.ty, "[(.array false false ")
					inner := strings.TrimSuffix(strings.TrimPrefix(in.val, "[(.arr "), ")]")
					return tv{ty, "[(.arr (if " + c + " then none else " + inner + "))]"}
				}
			}
		}
	}
	bad("schema of statement %s", e.c.src(st))
	return tv{}
}

// nestedUnfold: the definitions of the struct fields spliced into t's schema (transitively), as simp-only arguments
func (c *lgCtx) nestedUnfold(t *lgType) string {
	seen := map[string]bool{}
	var out []string
	var walk func(names []string)
	walk = func(names []string) {
		for _, m := range names {
			if seen[m] {
				continue
			}
			seen[m] = true
			out = append(out, m)
			if mt, ok := c.types[m]; ok {
				walk(mt.nested)
			}
		}
	}
	walk(t.nested)
	sort.Strings(out)
	r := ""
	for _, m := range out {
		r += fmt.Sprintf(", %s.tyFs, %s.valFs, %s.writeTo", m, m, m)
	}
	return r
}

// translateSchema emits T.ty / T.val and the theorem tying writeTo to the model encoder.
func (c *lgCtx) translateSchema(t *lgType) (out string, err error) {
	defer func() {
		if r := recover(); r != nil {
			if u, ok := r.(untranslatable); ok {
				err = u
				return
			}
			panic(r)
		}
	}()
	rw, _ := recvOf(t.writeTo)
	we := &lgEnv{c: c, t: t, recv: rw, vars: map[string]string{}}
	f := we.schemaStmts(t.writeTo.Body.List)
	var sb strings.Builder
	n := t.name
	fmt.Fprintf(&sb, "/-- the Kafka type %s.writeTo emits (for the version in `t.v`, if any) and the value it carries -/\n", n)
	if c.versioned[n] {
		fmt.Fprintf(&sb, "def %s.ty (t : %s) : Ty := .struct false %s [] []\n", n, n, f.ty)
	} else {
		if regexp.MustCompile(`\bt\.`).MatchString(f.ty) {
			bad("schema of a type without version field depends on the value: %s", f.ty)
		}
		fmt.Fprintf(&sb, "def %s.tyFs : List Ty := %s\n", n, f.ty)
		fmt.Fprintf(&sb, "def %s.valFs (t : %s) : List Val := %s\n", n, n, f.val)
		fmt.Fprintf(&sb, "def %s.tyC : Ty := .struct false %s.tyFs [] []\n", n, n)
		fmt.Fprintf(&sb, "@[simp] theorem %s.tyC_zeroSize : %s.tyC.zeroSize = false := rfl\n", n, n)
		fmt.Fprintf(&sb, "def %s.ty (_ : %s) : Ty := %s.tyC\n", n, n, n)
	}
	if c.versioned[n] {
		fmt.Fprintf(&sb, "def %s.val (t : %s) : Val := .struct %s []\n", n, n, f.val)
	} else {
		fmt.Fprintf(&sb, "def %s.val (t : %s) : Val := .struct (%s.valFs t) []\n", n, n, n)
	}
	if c.versioned[n] {
		fmt.Fprintf(&sb, "@[simp] theorem %s.legacy_model (t : %s) : encode (%s.ty t) (%s.val t) = %s.writeTo t := by\n  simp only [%s.ty, %s.val, %s.writeTo%s]\n  legacy_model_rest\n", n, n, n, n, n, n, n, n, c.nestedUnfold(t))
	} else {
		unfold := fmt.Sprintf("%s.tyC, %s.val, %s.writeTo, %s.tyFs, %s.valFs", n, n, n, n, n) + c.nestedUnfold(t)
		fmt.Fprintf(&sb, "@[simp] theorem %s.legacy_modelC (t : %s) : encode %s.tyC (%s.val t) = %s.writeTo t := by\n  simp only [%s]\n  legacy_model_rest\n", n, n, n, n, n, unfold)
		fmt.Fprintf(&sb, "theorem %s.legacy_model (t : %s) : encode (%s.ty t) (%s.val t) = %s.writeTo t := %s.legacy_modelC t\n", n, n, n, n, n, n)
	}
	return sb.String(), nil
}
