package main

import (
	"fmt"
	"go/ast"
	"go/parser"
	"go/token"
	"os"
	"path/filepath"
	"sort"
	"strings"
)

func init() { extractors["group"] = extractGroup }

// extractGroup re-reads the syntactic facts of the commit path and of the Generation accounting that the Lean
// models of C03/C15 depend on, and writes them to Gen/GroupFacts.lean (theorems in Props/C03, Props/C15 compare the
// models against them, so a change of one of these statements breaks `lake build`).
//
//	commit.go    makeCommit:            offset: msg.Offset + <k>
//	reader.go    defaultCommitRetries = <n>
//	reader.go    offsetStash.merge:     `!ok || c.offset <op> offset`
//	consumergroup.go fetchOffsets:      `if offset <op> <lit> { offset = cg.config.StartOffset }`
//	consumergroup.go Generation.close:  `if r <op> <lit> { <-g.joined }`
//	consumergroup.go Generation.Start:  exit section closes `joined` when `g.routines == <lit>`
func extractGroup(repo, root string) error {
	fset := token.NewFileSet()
	parse := func(name string) (*ast.File, error) {
		return parser.ParseFile(fset, filepath.Join(repo, name), nil, 0)
	}
	funcOf := func(f *ast.File, recv, name string) *ast.FuncDecl {
		for _, d := range f.Decls {
			fd, ok := d.(*ast.FuncDecl)
			if !ok || fd.Body == nil || fd.Name.Name != name {
				continue
			}
			r := ""
			if fd.Recv != nil && len(fd.Recv.List) == 1 {
				switch t := fd.Recv.List[0].Type.(type) {
				case *ast.Ident:
					r = t.Name
				case *ast.StarExpr:
					if id, ok := t.X.(*ast.Ident); ok {
						r = id.Name
					}
				}
			}
			if r == recv {
				return fd
			}
		}
		return nil
	}
	render := func(e ast.Expr) string {
		switch x := e.(type) {
		case *ast.Ident:
			return x.Name
		case *ast.SelectorExpr:
			if id, ok := x.X.(*ast.Ident); ok {
				return id.Name + "." + x.Sel.Name
			}
		case *ast.BasicLit:
			return x.Value
		}
		return "?"
	}

	// sel returns the final selector name of an expression ("r.config.X" -> "X", "x" -> "x", "f()" -> "f()"):
	// facts are compared by shape, never by the names of receivers or locals.
	var sel func(e ast.Expr) string
	sel = func(e ast.Expr) string {
		switch x := e.(type) {
		case *ast.Ident:
			return x.Name
		case *ast.SelectorExpr:
			return x.Sel.Name
		case *ast.CallExpr:
			return sel(x.Fun) + "()"
		case *ast.BasicLit:
			return x.Value
		case *ast.ParenExpr:
			return sel(x.X)
		}
		return "?"
	}
	isLit := func(e ast.Expr) bool { _, ok := e.(*ast.BasicLit); return ok }
	contains := func(n ast.Node, pred func(ast.Node) bool) bool {
		hit := false
		ast.Inspect(n, func(m ast.Node) bool {
			if m != nil && pred(m) {
				hit = true
			}
			return !hit
		})
		return hit
	}

	// commit.go
	cf, err := parse("commit.go")
	if err != nil {
		return err
	}
	addend := ""
	if fd := funcOf(cf, "", "makeCommit"); fd != nil {
		ast.Inspect(fd.Body, func(n ast.Node) bool {
			if kv, ok := n.(*ast.KeyValueExpr); ok && render(kv.Key) == "offset" {
				if b, ok := kv.Value.(*ast.BinaryExpr); ok && b.Op == token.ADD && sel(b.X) == "Offset" && isLit(b.Y) {
					addend = render(b.Y)
				}
			}
			return true
		})
	}
	if addend == "" || addend == "?" {
		return fmt.Errorf("untranslated: makeCommit is not `offset: msg.Offset + <literal>`")
	}

	// reader.go
	rf, err := parse("reader.go")
	if err != nil {
		return err
	}
	retries := ""
	ast.Inspect(rf, func(n ast.Node) bool {
		if vs, ok := n.(*ast.ValueSpec); ok {
			for i, nm := range vs.Names {
				if nm.Name == "defaultCommitRetries" && i < len(vs.Values) {
					retries = render(vs.Values[i])
				}
			}
		}
		return true
	})
	mergeOp := ""
	if fd := funcOf(rf, "offsetStash", "merge"); fd != nil {
		ast.Inspect(fd.Body, func(n ast.Node) bool {
			// `<commit>.offset <op> <stored offset>`: a comparison of a selector named offset with a plain identifier
			if b, ok := n.(*ast.BinaryExpr); ok && sel(b.X) == "offset" {
				if _, isSel := b.X.(*ast.SelectorExpr); isSel {
					if _, isId := b.Y.(*ast.Ident); isId && (b.Op == token.GTR || b.Op == token.LSS || b.Op == token.GEQ || b.Op == token.LEQ) {
						mergeOp = b.Op.String()
					}
				}
			}
			return true
		})
	}
	if retries == "" || mergeOp == "" {
		return fmt.Errorf("untranslated: defaultCommitRetries (%q) or the comparison of offsetStash.merge (%q) not found", retries, mergeOp)
	}

	// consumergroup.go
	gf, err := parse("consumergroup.go")
	if err != nil {
		return err
	}
	negOp, negLit := "", ""
	if fd := funcOf(gf, "ConsumerGroup", "fetchOffsets"); fd != nil {
		ast.Inspect(fd.Body, func(n ast.Node) bool {
			// `if <ident> <op> <literal> { <ident> = ….StartOffset }`
			if is, ok := n.(*ast.IfStmt); ok {
				if b, ok := is.Cond.(*ast.BinaryExpr); ok && isLit(b.Y) && contains(is.Body, func(m ast.Node) bool {
					a, ok := m.(*ast.AssignStmt)
					return ok && len(a.Rhs) == 1 && sel(a.Rhs[0]) == "StartOffset"
				}) {
					negOp, negLit = b.Op.String(), render(b.Y)
				}
			}
			return true
		})
	}
	waitOp, waitLit := "", ""
	if fd := funcOf(gf, "Generation", "close"); fd != nil {
		ast.Inspect(fd.Body, func(n ast.Node) bool {
			// `if <ident> <op> <literal> { <-….joined }`
			if is, ok := n.(*ast.IfStmt); ok {
				if b, ok := is.Cond.(*ast.BinaryExpr); ok && isLit(b.Y) && contains(is.Body, func(m ast.Node) bool {
					u, ok := m.(*ast.UnaryExpr)
					return ok && u.Op == token.ARROW && sel(u.X) == "joined"
				}) {
					waitOp, waitLit = b.Op.String(), render(b.Y)
				}
			}
			return true
		})
	}
	lastOp, lastLit, incs, decs := "", "", 0, 0
	if fd := funcOf(gf, "Generation", "Start"); fd != nil {
		ast.Inspect(fd.Body, func(n ast.Node) bool {
			switch x := n.(type) {
			case *ast.IfStmt:
				if b, ok := x.Cond.(*ast.BinaryExpr); ok && sel(b.X) == "routines" {
					lastOp, lastLit = b.Op.String(), render(b.Y)
				}
			case *ast.IncDecStmt:
				if sel(x.X) == "routines" {
					if x.Tok == token.INC {
						incs++
					} else {
						decs++
					}
				}
			}
			return true
		})
	}
	if negOp == "" || waitOp == "" || lastOp == "" {
		return fmt.Errorf("untranslated: fetchOffsets negative test (%q), close wait test (%q) or Start last-routine test (%q) not found", negOp, waitOp, lastOp)
	}

	// reader.go FetchMessage: the generation filter `<message>.version <op> <sampled version>`
	versionOp := ""
	if fd := funcOf(rf, "Reader", "FetchMessage"); fd != nil {
		ast.Inspect(fd.Body, func(n ast.Node) bool {
			if b, ok := n.(*ast.BinaryExpr); ok && sel(b.X) == "version" {
				if _, isSel := b.X.(*ast.SelectorExpr); isSel {
					if _, isId := b.Y.(*ast.Ident); isId {
						versionOp = b.Op.String()
					}
				}
			}
			return true
		})
	}
	if versionOp == "" {
		return fmt.Errorf("untranslated: the version filter of Reader.FetchMessage was not found")
	}

	// request literals: which Generation field feeds which request field
	litPairs := func(f *ast.File, recv, fn, typ string) []string {
		var out []string
		if fd := funcOf(f, recv, fn); fd != nil {
			ast.Inspect(fd.Body, func(n ast.Node) bool {
				if cl, ok := n.(*ast.CompositeLit); ok && sel(cl.Type) == typ {
					for _, el := range cl.Elts {
						if kv, ok := el.(*ast.KeyValueExpr); ok {
							v := sel(kv.Value)
							if _, plain := kv.Value.(*ast.Ident); plain {
								v = "·" // a local or parameter: its name is not a fact
							}
							out = append(out, fmt.Sprintf("(%q, %q)", sel(kv.Key), v))
						}
					}
				}
				return true
			})
		}
		sort.Strings(out)
		return out
	}
	commitReq := litPairs(gf, "Generation", "CommitOffsets", "offsetCommitRequestV2")
	hbReq := litPairs(gf, "Generation", "heartbeatLoop", "heartbeatRequestV0")
	leaveReq := litPairs(gf, "ConsumerGroup", "leaveGroup", "leaveGroupRequestV0")
	genLit := litPairs(gf, "ConsumerGroup", "nextGeneration", "Generation")
	if len(commitReq) == 0 || len(hbReq) == 0 || len(leaveReq) == 0 || len(genLit) == 0 {
		return fmt.Errorf("untranslated: request literals of CommitOffsets (%d) / heartbeatLoop (%d) / leaveGroup (%d) / Generation literal (%d) not found",
			len(commitReq), len(hbReq), len(leaveReq), len(genLit))
	}

	// reader.go unsubscribe: does it cancel a func it was GIVEN (parameter) or the Reader's current one (selector)?
	unsubCancels := ""
	if fd := funcOf(rf, "Reader", "unsubscribe"); fd != nil {
		params := map[string]bool{}
		for _, f := range fd.Type.Params.List {
			for _, n := range f.Names {
				params[n.Name] = true
			}
		}
		ast.Inspect(fd.Body, func(n ast.Node) bool {
			if c, ok := n.(*ast.CallExpr); ok && len(c.Args) == 0 {
				switch f := c.Fun.(type) {
				case *ast.Ident:
					if params[f.Name] && unsubCancels == "" {
						unsubCancels = "parameter"
					}
				case *ast.SelectorExpr:
					if f.Sel.Name == "cancel" && unsubCancels == "" {
						unsubCancels = "reader-field"
					}
				}
			}
			return true
		})
	}
	if unsubCancels == "" {
		return fmt.Errorf("untranslated: Reader.unsubscribe does not call a cancel func")
	}

	// consumergroup.go nextGeneration: which collection the partition watchers are started over
	watcherRange := ""
	if fd := funcOf(gf, "ConsumerGroup", "nextGeneration"); fd != nil {
		ast.Inspect(fd.Body, func(n ast.Node) bool {
			if rs, ok := n.(*ast.RangeStmt); ok && contains(rs.Body, func(m ast.Node) bool {
				c, ok := m.(*ast.CallExpr)
				return ok && sel(c.Fun) == "partitionWatcher"
			}) {
				watcherRange = sel(rs.X)
			}
			return true
		})
	}
	if watcherRange == "" {
		return fmt.Errorf("untranslated: no `for … range … { …partitionWatcher(…) }` in nextGeneration")
	}

	// consumergroup.go coordinator(): what the second `connect` dials — the address is built from the FindCoordinator
	// answer: `<join>(<…>.Host, <…(…>.Port…)>)`, directly or through one local variable.
	var coordDial []string
	if fd := funcOf(gf, "ConsumerGroup", "coordinator"); fd != nil {
		defs := map[string]ast.Expr{}
		var last *ast.CallExpr
		ast.Inspect(fd.Body, func(n ast.Node) bool {
			switch x := n.(type) {
			case *ast.AssignStmt:
				if len(x.Lhs) == 1 && len(x.Rhs) == 1 {
					if id, ok := x.Lhs[0].(*ast.Ident); ok {
						defs[id.Name] = x.Rhs[0]
					}
				}
			case *ast.CallExpr:
				if sel(x.Fun) == "connect" {
					last = x
				}
			}
			return true
		})
		var inner func(e ast.Expr) string // the selector at the bottom of conversions / formatting calls
		inner = func(e ast.Expr) string {
			if c, ok := e.(*ast.CallExpr); ok && len(c.Args) == 1 {
				return inner(c.Args[0])
			}
			return sel(e)
		}
		if last != nil && len(last.Args) == 2 && !last.Ellipsis.IsValid() {
			arg := last.Args[1]
			if id, ok := arg.(*ast.Ident); ok && defs[id.Name] != nil {
				arg = defs[id.Name]
			}
			if c, ok := arg.(*ast.CallExpr); ok {
				coordDial = append(coordDial, fmt.Sprintf("%q", sel(c.Fun)))
				for _, a := range c.Args {
					coordDial = append(coordDial, fmt.Sprintf("%q", inner(a)))
				}
			} else {
				coordDial = append(coordDial, fmt.Sprintf("%q", sel(arg)))
			}
		}
	}
	if len(coordDial) == 0 {
		return fmt.Errorf("untranslated: coordinator() does not end in connect(dialer, <one address>)")
	}

	// consumergroup.go ConsumerGroupConfig.Validate: `if config.<F> == 0 { config.<F> = <default> }` (also `len(config.<F>)
	// == 0`), the default resolved to milliseconds through the package's `default… = <n> * time.<Unit>` constants where it is
	// a duration, otherwise its name (composite literal: the element types).
	constMs := map[string]string{}
	unitMs := map[string]int64{"Millisecond": 1, "Second": 1000, "Minute": 60000, "Hour": 3600000}
	var evalMs func(e ast.Expr) (int64, bool)
	evalMs = func(e ast.Expr) (int64, bool) {
		switch x := e.(type) {
		case *ast.ParenExpr:
			return evalMs(x.X)
		case *ast.BasicLit:
			var n int64
			if _, err := fmt.Sscanf(x.Value, "%d", &n); err == nil && x.Kind == token.INT {
				return n, true
			}
		case *ast.UnaryExpr:
			if n, ok := evalMs(x.X); ok && x.Op == token.SUB {
				return -n, true
			}
		case *ast.SelectorExpr:
			if id, ok := x.X.(*ast.Ident); ok && id.Name == "time" {
				if u, ok := unitMs[x.Sel.Name]; ok {
					return u, true
				}
			}
		case *ast.BinaryExpr:
			a, oka := evalMs(x.X)
			b, okb := evalMs(x.Y)
			if oka && okb && x.Op == token.MUL {
				return a * b, true
			}
		}
		return 0, false
	}
	for _, d := range gf.Decls {
		if gd, ok := d.(*ast.GenDecl); ok && gd.Tok == token.CONST {
			for _, sp := range gd.Specs {
				if vs, ok := sp.(*ast.ValueSpec); ok && len(vs.Names) == 1 && len(vs.Values) == 1 {
					if hasUnit := contains(vs.Values[0], func(m ast.Node) bool {
						se, ok := m.(*ast.SelectorExpr)
						return ok && sel(se.X) == "time"
					}); hasUnit {
						if n, ok := evalMs(vs.Values[0]); ok {
							constMs[vs.Names[0].Name] = fmt.Sprint(n)
						}
					}
				}
			}
		}
	}
	var validateDefaults []string
	if fd := funcOf(gf, "ConsumerGroupConfig", "Validate"); fd != nil {
		for _, st := range fd.Body.List {
			is, ok := st.(*ast.IfStmt)
			if !ok || len(is.Body.List) != 1 {
				continue
			}
			be, ok := is.Cond.(*ast.BinaryExpr)
			if !ok || be.Op != token.EQL {
				continue
			}
			if z, ok := be.Y.(*ast.BasicLit); !ok || (z.Value != "0" && z.Value != `""`) {
				continue
			}
			as, ok := is.Body.List[0].(*ast.AssignStmt)
			if !ok || len(as.Lhs) != 1 || len(as.Rhs) != 1 {
				continue
			}
			tested := be.X
			if c, ok := tested.(*ast.CallExpr); ok && sel(c.Fun) == "len" && len(c.Args) == 1 {
				tested = c.Args[0]
			}
			if sel(tested) != sel(as.Lhs[0]) {
				continue // not "a zero field gets its default"
			}
			val := sel(as.Rhs[0])
			if ms, ok := constMs[val]; ok {
				val = ms
			}
			if cl, ok := as.Rhs[0].(*ast.CompositeLit); ok {
				var ts []string
				for _, el := range cl.Elts {
					if ecl, ok := el.(*ast.CompositeLit); ok {
						ts = append(ts, sel(ecl.Type))
					}
				}
				val = strings.Join(ts, ",")
			}
			validateDefaults = append(validateDefaults, fmt.Sprintf("(%q, %q)", sel(as.Lhs[0]), val))
		}
	}
	if len(validateDefaults) == 0 {
		return fmt.Errorf("untranslated: ConsumerGroupConfig.Validate sets no defaults")
	}

	// consumergroup.go timeoutCoordinator: per method the terms of the deadline `time.Now().Add(<a> + <b> …)` (final selector
	// names, sorted), and makeConnect: which config field feeds which time-out field of the timeoutCoordinator literal.
	var deadlineFacts, connectFacts []string
	for _, d := range gf.Decls {
		fd, ok := d.(*ast.FuncDecl)
		if !ok || fd.Body == nil || fd.Recv == nil || len(fd.Recv.List) != 1 {
			continue
		}
		if st, ok := fd.Recv.List[0].Type.(*ast.StarExpr); !ok || sel(st.X) != "timeoutCoordinator" {
			continue
		}
		var terms []string
		ast.Inspect(fd.Body, func(n ast.Node) bool {
			c, ok := n.(*ast.CallExpr)
			if !ok || sel(c.Fun) != "SetDeadline" || len(c.Args) != 1 {
				return true
			}
			if add, ok := c.Args[0].(*ast.CallExpr); ok && sel(add.Fun) == "Add" && len(add.Args) == 1 {
				var flat func(e ast.Expr)
				flat = func(e ast.Expr) {
					if be, ok := e.(*ast.BinaryExpr); ok && be.Op == token.ADD {
						flat(be.X)
						flat(be.Y)
						return
					}
					if pe, ok := e.(*ast.ParenExpr); ok {
						flat(pe.X)
						return
					}
					terms = append(terms, sel(e))
				}
				flat(add.Args[0])
			}
			return true
		})
		if len(terms) > 0 {
			sort.Strings(terms)
			for i := range terms {
				terms[i] = fmt.Sprintf("%q", terms[i])
			}
			deadlineFacts = append(deadlineFacts, fmt.Sprintf("(%q, [%s])", fd.Name.Name, strings.Join(terms, ", ")))
		}
	}
	sort.Strings(deadlineFacts)
	if fd := funcOf(gf, "", "makeConnect"); fd != nil {
		ast.Inspect(fd.Body, func(n ast.Node) bool {
			if cl, ok := n.(*ast.CompositeLit); ok && sel(cl.Type) == "timeoutCoordinator" {
				for _, el := range cl.Elts {
					if kv, ok := el.(*ast.KeyValueExpr); ok && sel(kv.Key) != "conn" {
						connectFacts = append(connectFacts, fmt.Sprintf("(%q, %q)", sel(kv.Key), sel(kv.Value)))
					}
				}
			}
			return true
		})
	}
	sort.Strings(connectFacts)
	if len(deadlineFacts) == 0 || len(connectFacts) == 0 {
		return fmt.Errorf("untranslated: no SetDeadline(time.Now().Add(…)) in timeoutCoordinator / no timeoutCoordinator literal in makeConnect")
	}

	// conn.go Conn.offsetCommit / Conn.offsetFetch: the loops that look for a per-partition error code in the answer must
	// run over EVERY topic and partition — the only `return` allowed inside a `for … range` is the one guarded by an
	// `if <…>.ErrorCode != 0`.  Fact: number of loops, number of other returns inside them.
	connf, err := parse("conn.go")
	if err != nil {
		return err
	}
	var answerLoops []string
	for _, name := range []string{"offsetCommit", "offsetFetch"} {
		fd := funcOf(connf, "Conn", name)
		if fd == nil {
			return fmt.Errorf("untranslated: no (*Conn).%s", name)
		}
		loops, early := 0, 0
		var walk func(n ast.Node, inLoop, guarded bool)
		walk = func(n ast.Node, inLoop, guarded bool) {
			ast.Inspect(n, func(m ast.Node) bool {
				if m == nil || m == n {
					return true
				}
				switch x := m.(type) {
				case *ast.FuncLit:
					return false // closures handed to readOperation: their returns are not the method's
				case *ast.RangeStmt:
					loops++
					walk(x.Body, true, guarded)
					return false
				case *ast.ForStmt:
					loops++
					walk(x.Body, true, guarded)
					return false
				case *ast.IfStmt:
					g := guarded || contains(x.Cond, func(c ast.Node) bool {
						se, ok := c.(*ast.SelectorExpr)
						return ok && se.Sel.Name == "ErrorCode"
					})
					walk(x.Body, inLoop, g)
					if x.Else != nil {
						walk(x.Else, inLoop, guarded)
					}
					return false
				case *ast.ReturnStmt:
					if inLoop && !guarded {
						early++
					}
				}
				return true
			})
		}
		walk(fd.Body, false, false)
		answerLoops = append(answerLoops, fmt.Sprintf("(%q, %d, %d)", name, loops, early))
	}

	// reader.go (*reader).run: the restart position.  `conn, <start>, err := r.initialize(ctx, <offset>)` is followed by an
	// assignment `<x> = <start>`: it must be a plain assignment (not a `:=` that shadows) to the function's own offset
	// parameter, so that the next (re)initialisation starts from where the fetcher stands.
	restartTok, restartToParam := "", false
	if fd := funcOf(rf, "reader", "run"); fd != nil {
		param := ""
		if ps := fd.Type.Params.List; len(ps) > 0 {
			if last := ps[len(ps)-1]; len(last.Names) > 0 {
				param = last.Names[len(last.Names)-1].Name
			}
		}
		startVar := ""
		ast.Inspect(fd.Body, func(n ast.Node) bool {
			if a, ok := n.(*ast.AssignStmt); ok && len(a.Rhs) == 1 {
				if c, ok := a.Rhs[0].(*ast.CallExpr); ok && sel(c.Fun) == "initialize" && len(a.Lhs) == 3 {
					startVar = sel(a.Lhs[1])
				}
				if id, ok := a.Rhs[0].(*ast.Ident); ok && startVar != "" && id.Name == startVar && len(a.Lhs) == 1 && restartTok == "" {
					restartTok = a.Tok.String()
					restartToParam = sel(a.Lhs[0]) == param
				}
			}
			return true
		})
	}
	if restartTok == "" {
		return fmt.Errorf("untranslated: (*reader).run has no `<offset> = <start>` after r.initialize")
	}

	// reader.go NewReader: the ConsumerGroupConfig literal — which ReaderConfig field feeds which ConsumerGroupConfig field
	var optPairs []string
	if fd := funcOf(rf, "", "NewReader"); fd != nil {
		ast.Inspect(fd.Body, func(n ast.Node) bool {
			if cl, ok := n.(*ast.CompositeLit); ok && sel(cl.Type) == "ConsumerGroupConfig" {
				for _, el := range cl.Elts {
					if kv, ok := el.(*ast.KeyValueExpr); ok {
						optPairs = append(optPairs, fmt.Sprintf("(%q, %q)", sel(kv.Key), sel(kv.Value)))
					}
				}
			}
			return true
		})
	}
	if len(optPairs) == 0 {
		return fmt.Errorf("untranslated: no ConsumerGroupConfig literal found in NewReader")
	}
	sort.Strings(optPairs)

	var b strings.Builder
	b.WriteString("-- GENERATED by /verif/go/extract (group) from /repo/commit.go, reader.go, consumergroup.go — do not edit\n")
	b.WriteString("namespace KV.Gen.Group\n")
	fmt.Fprintf(&b, "def makeCommitAddend : Int := %s\n", addend)
	fmt.Fprintf(&b, "def commitRetries : Nat := %s\n", retries)
	fmt.Fprintf(&b, "def mergeOp : String := %q\n", mergeOp)
	fmt.Fprintf(&b, "def fetchNegativeTest : String × String := (%q, %q)\n", negOp, negLit)
	fmt.Fprintf(&b, "def closeWaitTest : String × String := (%q, %q)\n", waitOp, waitLit)
	fmt.Fprintf(&b, "def startLastRoutineTest : String × String := (%q, %q)\n", lastOp, lastLit)
	fmt.Fprintf(&b, "def startRoutinesIncDec : Nat × Nat := (%d, %d)\n", incs, decs)
	fmt.Fprintf(&b, "def commitRequestFields : List (String × String) := [%s]\n", strings.Join(commitReq, ", "))
	fmt.Fprintf(&b, "def heartbeatRequestFields : List (String × String) := [%s]\n", strings.Join(hbReq, ", "))
	fmt.Fprintf(&b, "def leaveRequestFields : List (String × String) := [%s]\n", strings.Join(leaveReq, ", "))
	fmt.Fprintf(&b, "def generationLiteral : List (String × String) := [%s]\n", strings.Join(genLit, ", "))
	fmt.Fprintf(&b, "def unsubscribeCancels : String := %q\n", unsubCancels)
	fmt.Fprintf(&b, "def restartAssign : String × Bool := (%q, %v)\n", restartTok, restartToParam)
	fmt.Fprintf(&b, "def watcherRange : String := %q\n", watcherRange)
	fmt.Fprintf(&b, "def coordinatorDial : List String := [%s]\n", strings.Join(coordDial, ", "))
	fmt.Fprintf(&b, "def coordinatorDeadlines : List (String × List String) := [%s]\n", strings.Join(deadlineFacts, ", "))
	fmt.Fprintf(&b, "def connectTimeouts : List (String × String) := [%s]\n", strings.Join(connectFacts, ", "))
	fmt.Fprintf(&b, "def connAnswerLoops : List (String × Nat × Nat) := [%s]\n", strings.Join(answerLoops, ", "))
	fmt.Fprintf(&b, "def validateDefaults : List (String × String) := [%s]\n", strings.Join(validateDefaults, ", "))
	fmt.Fprintf(&b, "def fetchVersionFilter : String := %q\n", versionOp)
	fmt.Fprintf(&b, "def readerGroupOptions : List (String × String) := [%s]\n", strings.Join(optPairs, ", "))
	b.WriteString("end KV.Gen.Group\n")
	return os.WriteFile(filepath.Join(root, "lean/KafkaVerif/Gen/GroupFacts.lean"), []byte(b.String()), 0o644)
}
