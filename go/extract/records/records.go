package main

// Extractor "records": constants of the record-batch / page / xerial code by constant evaluation of the Go
// sources (go/ast + go/constant; nothing is executed) → lean/KafkaVerif/Gen/RecordConsts.lean.
// Props/C05.lean and Props/C16.lean state that these values are the ones the Spec / models use, so a changed
// header size, patch offset, attribute mask, page size or xerial block size breaks a theorem on the next run.

import (
	"fmt"
	"go/ast"
	"go/constant"
	"go/parser"
	"go/token"
	"os"
	"path/filepath"
	"sort"
	"strings"
)

func init() { extractors["records"] = extractRecords }

type constEnv map[string]constant.Value

// directory of every parsed file (attrMasks looks for helpers in the sibling files)
var fileDir = map[*ast.File]string{}

func (env constEnv) eval(e ast.Expr) (constant.Value, bool) {
	switch x := e.(type) {
	case *ast.BasicLit:
		v := constant.MakeFromLiteral(x.Value, x.Kind, 0)
		return v, v.Kind() == constant.Int
	case *ast.ParenExpr:
		return env.eval(x.X)
	case *ast.Ident:
		v, ok := env[x.Name]
		return v, ok
	case *ast.CallExpr: // conversion such as Attributes(compress.Gzip) / int32(…)
		if len(x.Args) == 1 {
			return env.eval(x.Args[0])
		}
	case *ast.UnaryExpr:
		if v, ok := env.eval(x.X); ok {
			return constant.UnaryOp(x.Op, v, 0), true
		}
	case *ast.BinaryExpr:
		a, ok1 := env.eval(x.X)
		b, ok2 := env.eval(x.Y)
		if ok1 && ok2 {
			if x.Op == token.SHL || x.Op == token.SHR {
				s, _ := constant.Uint64Val(b)
				return constant.Shift(a, x.Op, uint(s)), true
			}
			return constant.BinaryOp(a, x.Op, b), true
		}
	}
	return nil, false
}

// fileConsts evaluates every package-level and function-level const of a file that has an integer value.
func fileConsts(path string) (constEnv, *ast.File, error) {
	fset := token.NewFileSet()
	f, err := parser.ParseFile(fset, path, nil, 0)
	if err != nil {
		return nil, nil, err
	}
	fileDir[f] = filepath.Dir(path)
	env := constEnv{}
	ast.Inspect(f, func(n ast.Node) bool {
		gd, ok := n.(*ast.GenDecl)
		if !ok || gd.Tok != token.CONST {
			return true
		}
		for _, sp := range gd.Specs {
			vs := sp.(*ast.ValueSpec)
			for i, name := range vs.Names {
				if i < len(vs.Values) {
					if v, ok := env.eval(vs.Values[i]); ok {
						env[name.Name] = v
					}
				}
			}
		}
		return true
	})
	return env, f, nil
}

func funcBody(f *ast.File, recv, name string) *ast.BlockStmt {
	for _, d := range f.Decls {
		fd, ok := d.(*ast.FuncDecl)
		if !ok || fd.Name.Name != name || fd.Body == nil {
			continue
		}
		r := ""
		if fd.Recv != nil && len(fd.Recv.List) == 1 {
			t := fd.Recv.List[0].Type
			if s, ok := t.(*ast.StarExpr); ok {
				t = s.X
			}
			if id, ok := t.(*ast.Ident); ok {
				r = id.Name
			}
		}
		if r == recv {
			return fd.Body
		}
	}
	return nil
}

// literalsOf collects the integer literal operands Y of binary expressions `X op Y` with the given operator.
func literalsOf(body ast.Node, op token.Token, env constEnv) (vals []uint64) {
	if body == nil {
		return
	}
	ast.Inspect(body, func(n ast.Node) bool {
		if b, ok := n.(*ast.BinaryExpr); ok && b.Op == op {
			if v, ok := env.eval(b.Y); ok {
				if u, ok := constant.Uint64Val(v); ok {
					vals = append(vals, u)
				}
			}
		}
		return true
	})
	return
}

// attrMasks: the constants Y of every `X & Y` whose X mentions an identifier or field named like the batch/message
// attributes, in the body of the function and (so that a test moved into a helper is still found) in the bodies of the
// same-file functions it calls, transitively.
func attrMasks(f *ast.File, body *ast.BlockStmt, env0 constEnv) (vals []uint64) {
	decls := map[string]*ast.FuncDecl{}
	env := constEnv{}
	for k, v := range env0 {
		env[k] = v
	}
	files := []*ast.File{f}
	if dir := fileDir[f]; dir != "" { // helpers and constants of the other files of the package
		if names, err := filepath.Glob(filepath.Join(dir, "*.go")); err == nil {
			for _, n := range names {
				if strings.HasSuffix(n, "_test.go") {
					continue
				}
				if e2, f2, err := fileConsts(n); err == nil {
					files = append(files, f2)
					for k, v := range e2 {
						if _, ok := env[k]; !ok {
							env[k] = v
						}
					}
				}
			}
		}
	}
	for _, ff := range files {
		for _, d := range ff.Decls {
			if fd, ok := d.(*ast.FuncDecl); ok && fd.Body != nil {
				if _, dup := decls[fd.Name.Name]; !dup {
					decls[fd.Name.Name] = fd
				}
			}
		}
	}
	mentionsAttributes := func(e ast.Expr) bool {
		found := false
		ast.Inspect(e, func(n ast.Node) bool {
			if id, ok := n.(*ast.Ident); ok && strings.Contains(strings.ToLower(id.Name), "attr") {
				found = true
			}
			return !found
		})
		return found
	}
	seen := map[*ast.BlockStmt]bool{}
	var walk func(b *ast.BlockStmt, all bool)
	walk = func(b *ast.BlockStmt, all bool) {
		if b == nil || seen[b] {
			return
		}
		seen[b] = true
		ast.Inspect(b, func(n ast.Node) bool {
			switch x := n.(type) {
			case *ast.BinaryExpr:
				if x.Op == token.AND && (all || mentionsAttributes(x.X)) {
					if v, ok := env.eval(x.Y); ok {
						if u, ok := constant.Uint64Val(v); ok {
							vals = append(vals, u)
						}
					}
				}
			case *ast.CallExpr:
				name := ""
				switch fn := x.Fun.(type) {
				case *ast.Ident:
					name = fn.Name
				case *ast.SelectorExpr:
					name = fn.Sel.Name
				}
				if fd, ok := decls[name]; ok {
					// a helper that is handed the attributes (argument or receiver): every mask test in it counts
					handed := false
					if sel, ok := x.Fun.(*ast.SelectorExpr); ok && mentionsAttributes(sel.X) {
						handed = true
					}
					for _, a := range x.Args {
						if mentionsAttributes(a) {
							handed = true
						}
					}
					if handed || strings.Contains(strings.ToLower(name), "append") || strings.Contains(strings.ToLower(name), "timestamp") {
						walk(fd.Body, handed)
					}
				}
			}
			return true
		})
	}
	walk(body, false)
	sort.Slice(vals, func(i, j int) bool { return vals[i] < vals[j] })
	out := vals[:0]
	for i, v := range vals {
		if i == 0 || v != vals[i-1] {
			out = append(out, v)
		}
	}
	return out
}

func u(env constEnv, name string) (uint64, error) {
	v, ok := env[name]
	if !ok {
		return 0, fmt.Errorf("constant %s not found / not evaluable", name)
	}
	x, ok := constant.Uint64Val(v)
	if !ok {
		return 0, fmt.Errorf("constant %s is not a small non-negative integer", name)
	}
	return x, nil
}

func natList(xs []uint64) string {
	s := make([]string, len(xs))
	for i, x := range xs {
		s[i] = fmt.Sprint(x)
	}
	return "[" + strings.Join(s, ", ") + "]"
}

func extractRecords(repo, root string) error {
	var out strings.Builder
	out.WriteString("-- GENERATED by /verif/go/extract (records) from /repo/{recordbatch.go,message_reader.go,protocol/record.go,\n")
	out.WriteString("-- protocol/record_v2.go,protocol/buffer.go,compress/snappy/xerial.go} — do not edit\n")
	out.WriteString("namespace KV.Gen.RecordConsts\n")
	def := func(name string, v uint64, doc string) {
		fmt.Fprintf(&out, "/-- %s -/\ndef %s : Nat := %d\n", doc, name, v)
	}

	env, _, err := fileConsts(filepath.Join(repo, "recordbatch.go"))
	if err != nil {
		return err
	}
	v, err := u(env, "recordBatchHeaderSize")
	if err != nil {
		return err
	}
	def("recordBatchHeaderSize", v, "recordbatch.go `recordBatchHeaderSize` (sum of the field widths)")

	env, f, err := fileConsts(filepath.Join(repo, "message_reader.go"))
	if err != nil {
		return err
	}
	subs := literalsOf(funcBody(f, "messageSetReader", "readHeader"), token.SUB, env)
	subs = append(subs, literalsOf(funcBody(f, "messageSetReader", "readMessageV2"), token.SUB, env)...)
	sort.Slice(subs, func(i, j int) bool { return subs[i] < subs[j] })
	if len(subs) == 0 {
		return fmt.Errorf("message_reader.go: no `length - <n>` found")
	}
	for _, s := range subs {
		if s != subs[0] {
			return fmt.Errorf("message_reader.go: different header remainders %v", subs)
		}
	}
	def("legacyHeaderAfterLength", subs[0], "message_reader.go `header.length - 49`: bytes of a v2 batch after the length field, before the records")
	if v, err = u(env, "compressionCodecMask"); err != nil {
		return err
	}
	def("legacyCompressionMask", v, "message_reader.go `compressionCodecMask`")
	codecMask := v
	without := func(xs []uint64, drop uint64) []uint64 {
		ys := []uint64{}
		for _, x := range xs {
			if x != drop {
				ys = append(ys, x)
			}
		}
		return ys
	}
	fmt.Fprintf(&out, "/-- message_reader.go readMessageV2: the `attributes & <mask>` tests (timestamp type: LogAppendTime) -/\ndef legacyStampMasksV2 : List Nat := %s\n",
		natList(without(attrMasks(f, funcBody(f, "messageSetReader", "readMessageV2"), env), codecMask)))
	fmt.Fprintf(&out, "/-- message_reader.go readHeader: the `attributes & <mask>` tests other than the codec's (control batches are passed over since fix 314fa1c) -/\ndef legacyHeaderMasks : List Nat := %s\n",
		natList(without(attrMasks(f, funcBody(f, "messageSetReader", "readHeader"), env), codecMask)))
	fmt.Fprintf(&out, "/-- message_reader.go readMessageV1: the `attributes & <mask>` tests other than the codec's -/\ndef legacyStampMasksV1 : List Nat := %s\n",
		natList(without(attrMasks(f, funcBody(f, "messageSetReader", "readMessageV1"), env), codecMask)))

	env, f, err = fileConsts(filepath.Join(repo, "protocol", "record.go"))
	if err != nil {
		return err
	}
	var txnBit, controlBit uint64
	for _, n := range []string{"Transactional", "Control", "magicByteOffset"} {
		if v, err = u(env, n); err != nil {
			return err
		}
		def(strings.ToLower(n[:1])+n[1:]+"Const", v, "protocol/record.go `"+n+"`")
		switch n {
		case "Transactional":
			txnBit = v
		case "Control":
			controlBit = v
		}
	}
	masks := literalsOf(funcBody(f, "Attributes", "Compression"), token.AND, env)
	if len(masks) != 1 {
		return fmt.Errorf("protocol/record.go Compression(): expected one `a & <mask>`, found %v", masks)
	}
	def("compressionMask", masks[0], "protocol/record.go `Attributes.Compression`: `a & 7`")
	compMask := masks[0]

	penv := env
	for _, name := range []string{"record_v2.go", "record_v1.go"} {
		env, f, err = fileConsts(filepath.Join(repo, "protocol", name))
		if err != nil {
			return err
		}
		for k, x := range penv {
			if _, ok := env[k]; !ok {
				env[k] = x
			}
		}
		fn, dn := "readFromVersion2", "stampMasksV2"
		if name == "record_v1.go" {
			fn, dn = "readFromVersion1", "stampMasksV1"
		}
		fmt.Fprintf(&out, "/-- protocol/%s %s: the `attributes & <mask>` tests other than codec / control / transactional (timestamp type: LogAppendTime) -/\ndef %s : List Nat := %s\n",
			name, fn, dn, natList(without(without(without(attrMasks(f, funcBody(f, "RecordSet", fn), env), compMask), controlBit), txnBit)))
	}
	env, f, err = fileConsts(filepath.Join(repo, "protocol", "record_v2.go"))
	if err != nil {
		return err
	}
	adds := literalsOf(funcBody(f, "RecordSet", "writeToVersion2"), token.ADD, env)
	fmt.Fprintf(&out, "/-- protocol/record_v2.go writeToVersion2: the `bufferOffset+<n>` positions (back-patched fields, CRC start), in source order -/\ndef v2PatchOffsets : List Nat := %s\n", natList(adds))
	subs = literalsOf(funcBody(f, "RecordSet", "writeToVersion2"), token.SUB, env)
	fmt.Fprintf(&out, "/-- protocol/record_v2.go writeToVersion2: `totalLength - <n>` (base offset + length field) -/\ndef v2LengthPrefix : List Nat := %s\n", natList(subs))

	env, _, err = fileConsts(filepath.Join(repo, "protocol", "buffer.go"))
	if err != nil {
		return err
	}
	if v, err = u(env, "pageSize"); err != nil {
		return err
	}
	def("pageSize", v, "protocol/buffer.go `pageSize`")

	env, f, err = fileConsts(filepath.Join(repo, "compress", "snappy", "xerial.go"))
	if err != nil {
		return err
	}
	if v, err = u(env, "defaultBufferSize"); err != nil {
		return err
	}
	def("xerialBlockSize", v, "compress/snappy/xerial.go `defaultBufferSize`")
	lss := literalsOf(funcBody(f, "xerialWriter", "fullEnough"), token.LSS, env)
	if len(lss) != 1 {
		return fmt.Errorf("xerial.go fullEnough: expected one `< <n>`, found %v", lss)
	}
	def("xerialSlack", lss[0], "compress/snappy/xerial.go `fullEnough`: `cap-len < 1024`")
	out.WriteString("end KV.Gen.RecordConsts\n")
	return os.WriteFile(filepath.Join(root, "lean", "KafkaVerif", "Gen", "RecordConsts.lean"), []byte(out.String()), 0o644)
}
