package main

// Extractor "closeproto": structural facts of the close / use-after-close / cancellation protocol that the C09 models
// take for granted (writer.go, reader.go, consumergroup.go, transport.go) → lean/KafkaVerif/Gen/CloseFacts.lean.
// Props/C09.lean proves that every extracted fact is `true` and instantiates `Cfg.fixed` of Model/WriterClose with the
// extracted fact `batchRechecksClosed`, so the termination theorems are stated about the protocol the source has now.
//
// The recognisers compare *shapes*, not names of locals: receivers and local variables may be renamed, statements may
// move into helper methods of the same type (calls to methods of the package are inlined, depth ≤ 3), conditions may be
// written `if x.closed` / `if closed := x.closed; closed` / via a local read under the mutex.  What is relied upon by
// name: the methods of the public API and the struct fields named in the property's anchors (closed, group, writers,
// mutex, join, done, msgs, wg, timer, idleConns …).

import (
	"bytes"
	"fmt"
	"go/ast"
	"go/parser"
	"go/printer"
	"go/token"
	"os"
	"path/filepath"
	"sort"
	"strings"
)

func init() { extractors["closeproto"] = extractCloseProto }

type fnKey struct{ recv, name string }

type pkgIndex struct {
	fset *token.FileSet
	fns  map[fnKey]*ast.FuncDecl
}

func recvType(d *ast.FuncDecl) string {
	if d.Recv == nil || len(d.Recv.List) != 1 {
		return ""
	}
	t := d.Recv.List[0].Type
	if s, ok := t.(*ast.StarExpr); ok {
		t = s.X
	}
	if id, ok := t.(*ast.Ident); ok {
		return id.Name
	}
	return ""
}

func (p *pkgIndex) src(n ast.Node) string {
	var b bytes.Buffer
	printer.Fprint(&b, p.fset, n)
	return b.String()
}

// atom: one statement (or the head of a compound statement) in flattened source order.
type atom struct {
	node  ast.Node
	depth int // nesting depth inside loops/ifs (0 = function body)
	inIf  ast.Expr
	text  string
}

// flatten lists the statements of fn in source order, descending into compound statements and inlining calls to
// functions / methods of the package (statement-level calls, assignments from calls, if-inits), depth-limited.
func (p *pkgIndex) flatten(d *ast.FuncDecl, inline int) []atom {
	var out []atom
	var walk func(stmts []ast.Stmt, depth int, cond ast.Expr, inl int)
	callee := func(e ast.Expr) *ast.FuncDecl {
		c, ok := e.(*ast.CallExpr)
		if !ok {
			return nil
		}
		switch f := c.Fun.(type) {
		case *ast.Ident:
			return p.fns[fnKey{"", f.Name}]
		case *ast.SelectorExpr:
			for k, v := range p.fns {
				if k.name == f.Sel.Name && k.recv != "" {
					// a method of the package with that name; unique names only (avoids guessing receivers)
					n := 0
					for k2 := range p.fns {
						if k2.name == f.Sel.Name {
							n++
						}
					}
					if n == 1 {
						return v
					}
				}
			}
		}
		return nil
	}
	var inlineCalls func(n ast.Node, depth int, cond ast.Expr, inl int)
	inlineCalls = func(n ast.Node, depth int, cond ast.Expr, inl int) {
		if inl <= 0 || n == nil {
			return
		}
		ast.Inspect(n, func(m ast.Node) bool {
			if _, isLit := m.(*ast.FuncLit); isLit {
				return false
			}
			if c, ok := m.(*ast.CallExpr); ok {
				if cd := callee(c); cd != nil && cd != d && cd.Body != nil {
					walk(cd.Body.List, depth+1, cond, inl-1)
				}
			}
			return true
		})
	}
	walk = func(stmts []ast.Stmt, depth int, cond ast.Expr, inl int) {
		for _, s := range stmts {
			switch x := s.(type) {
			case *ast.BlockStmt:
				walk(x.List, depth, cond, inl)
			case *ast.IfStmt:
				if x.Init != nil {
					walk([]ast.Stmt{x.Init}, depth, cond, inl)
				}
				out = append(out, atom{node: x, depth: depth, inIf: cond, text: "if " + p.src(x.Cond)})
				inlineCalls(x.Cond, depth, cond, inl)
				walk(x.Body.List, depth+1, x.Cond, inl)
				if x.Else != nil {
					walk([]ast.Stmt{x.Else}, depth+1, cond, inl)
				}
			case *ast.ForStmt:
				out = append(out, atom{node: x, depth: depth, inIf: cond, text: "for"})
				walk(x.Body.List, depth+1, cond, inl)
			case *ast.RangeStmt:
				out = append(out, atom{node: x, depth: depth, inIf: cond, text: "range " + p.src(x.X)})
				walk(x.Body.List, depth+1, cond, inl)
			case *ast.SelectStmt:
				out = append(out, atom{node: x, depth: depth, inIf: cond, text: "select"})
				for _, cc := range x.Body.List {
					c := cc.(*ast.CommClause)
					if c.Comm != nil {
						out = append(out, atom{node: c.Comm, depth: depth + 1, inIf: cond, text: "case " + p.src(c.Comm)})
					}
					walk(c.Body, depth+1, cond, inl)
				}
			case *ast.SwitchStmt:
				out = append(out, atom{node: x, depth: depth, inIf: cond, text: "switch"})
				for _, cc := range x.Body.List {
					walk(cc.(*ast.CaseClause).Body, depth+1, cond, inl)
				}
			case *ast.LabeledStmt:
				walk([]ast.Stmt{x.Stmt}, depth, cond, inl)
			default:
				out = append(out, atom{node: s, depth: depth, inIf: cond, text: p.src(s)})
				inlineCalls(s, depth, cond, inl)
			}
		}
	}
	if d != nil && d.Body != nil {
		walk(d.Body.List, 0, nil, inline)
	}
	return out
}

// ---- recognisers on atoms ------------------------------------------------------------------------------------

// endsWith reports whether expression e is a selector chain ending with the given names, e.g. x.group.Add.
func endsWith(e ast.Expr, names ...string) bool {
	for i := len(names) - 1; i >= 0; i-- {
		s, ok := e.(*ast.SelectorExpr)
		if !ok || s.Sel.Name != names[i] {
			return false
		}
		e = s.X
	}
	return true
}

// callsIn returns every call expression inside n (not inside function literals unless lits is set).
func callsIn(n ast.Node, lits bool) (cs []*ast.CallExpr) {
	ast.Inspect(n, func(m ast.Node) bool {
		if _, ok := m.(*ast.FuncLit); ok && !lits {
			return false
		}
		if c, ok := m.(*ast.CallExpr); ok {
			cs = append(cs, c)
		}
		return true
	})
	return
}

func hasCall(n ast.Node, lits bool, names ...string) bool {
	for _, c := range callsIn(n, lits) {
		if endsWith(c.Fun, names...) {
			return true
		}
		if len(names) == 1 {
			if id, ok := c.Fun.(*ast.Ident); ok && id.Name == names[0] {
				return true
			}
		}
	}
	return false
}

// stmtOnly: the atom is a plain statement (not the head of a compound one)
func stmtOnly(a atom) bool {
	switch a.node.(type) {
	case *ast.IfStmt, *ast.ForStmt, *ast.RangeStmt, *ast.SelectStmt, *ast.SwitchStmt:
		return false
	}
	return true
}

func firstIdx(as []atom, pred func(atom) bool) int {
	for i, a := range as {
		if pred(a) {
			return i
		}
	}
	return -1
}

func lastIdx(as []atom, pred func(atom) bool) int {
	r := -1
	for i, a := range as {
		if pred(a) {
			r = i
		}
	}
	return r
}

func callAtom(lits bool, names ...string) func(atom) bool {
	return func(a atom) bool { return stmtOnly(a) && hasCall(a.node, lits, names...) }
}

// mentionsField: the node reads a selector `.field`
func mentionsField(n ast.Node, field string) bool {
	found := false
	ast.Inspect(n, func(m ast.Node) bool {
		if s, ok := m.(*ast.SelectorExpr); ok && s.Sel.Name == field {
			found = true
		}
		return !found
	})
	return found
}

// closedLocals: names of locals assigned from a `.closed` field (x := r.closed), so that `if x {` counts as a test of it
func closedLocals(as []atom, field string) map[string]bool {
	m := map[string]bool{}
	for _, a := range as {
		if as2, ok := a.node.(*ast.AssignStmt); ok && len(as2.Lhs) == 1 && len(as2.Rhs) == 1 {
			if id, ok := as2.Lhs[0].(*ast.Ident); ok && endsWith(as2.Rhs[0], field) {
				m[id.Name] = true
			}
		}
	}
	return m
}

// testsField: cond tests `.field` (or a local read from it); neg = under a `!`
func testsField(cond ast.Expr, field string, locals map[string]bool) (tests, neg bool) {
	var rec func(e ast.Expr, n bool)
	rec = func(e ast.Expr, n bool) {
		switch x := e.(type) {
		case *ast.ParenExpr:
			rec(x.X, n)
		case *ast.UnaryExpr:
			if x.Op == token.NOT {
				rec(x.X, !n)
			}
		case *ast.BinaryExpr:
			if x.Op == token.LAND {
				// `false && …` tests nothing
				for _, o := range []ast.Expr{x.X, x.Y} {
					if id, ok := o.(*ast.Ident); ok && id.Name == "false" {
						return
					}
				}
			}
			rec(x.X, n)
			rec(x.Y, n)
		case *ast.SelectorExpr:
			if x.Sel.Name == field {
				tests, neg = true, n
			}
		case *ast.Ident:
			if locals[x.Name] {
				tests, neg = true, n
			}
		}
	}
	rec(cond, false)
	return
}

// ifFieldReturns: index of an `if <.field is set> { … return <something matching ret> … }`
func (p *pkgIndex) ifFieldReturns(as []atom, field string, ret func(string) bool) int {
	locals := closedLocals(as, field)
	for i, a := range as {
		ifs, ok := a.node.(*ast.IfStmt)
		if !ok {
			continue
		}
		t, neg := testsField(ifs.Cond, field, locals)
		if !t || neg {
			continue
		}
		okRet := false
		ast.Inspect(ifs.Body, func(m ast.Node) bool {
			if r, ok := m.(*ast.ReturnStmt); ok && ret(p.src(r)) {
				okRet = true
			}
			return !okRet
		})
		if okRet {
			return i
		}
	}
	return -1
}

func isAssignTrue(a atom, field string) bool {
	as2, ok := a.node.(*ast.AssignStmt)
	if !ok || len(as2.Lhs) != 1 || len(as2.Rhs) != 1 {
		return false
	}
	id, ok := as2.Rhs[0].(*ast.Ident)
	return ok && id.Name == "true" && endsWith(as2.Lhs[0], field)
}

func before(i, j int) bool { return i >= 0 && j >= 0 && i < j }

// ---- the facts ---------------------------------------------------------------------------------------------

type fact struct {
	name, doc string
	val       bool
}

func extractCloseProto(repo, root string) error {
	p := &pkgIndex{fset: token.NewFileSet(), fns: map[fnKey]*ast.FuncDecl{}}
	for _, f := range []string{"writer.go", "reader.go", "consumergroup.go", "transport.go", "dialer.go"} {
		af, err := parser.ParseFile(p.fset, filepath.Join(repo, f), nil, 0)
		if err != nil {
			return err
		}
		for _, d := range af.Decls {
			if fd, ok := d.(*ast.FuncDecl); ok {
				p.fns[fnKey{recvType(fd), fd.Name.Name}] = fd
			}
		}
	}
	get := func(recv, name string) []atom { return p.flatten(p.fns[fnKey{recv, name}], 3) }
	var facts []fact
	add := func(name, doc string, v bool) { facts = append(facts, fact{name, doc, v}) }
	lock := callAtom(false, "mutex", "Lock")
	contains := func(sub string) func(string) bool { return func(s string) bool { return strings.Contains(s, sub) } }

	// ---- Writer
	en := get("Writer", "enter")
	iLock, iChk, iAdd := firstIdx(en, lock), p.ifFieldReturns(en, "closed", contains("false")), firstIdx(en, callAtom(false, "group", "Add"))
	add("enterChecksClosedUnderMutex", "(*Writer).enter: w.mutex held; `if w.closed { return false }` before w.group.Add(1)",
		before(iLock, iChk) && before(iChk, iAdd))
	add("leaveIsGroupDone", "(*Writer).leave: w.group.Done()", firstIdx(get("Writer", "leave"), callAtom(false, "group", "Done")) >= 0)
	sp := get("Writer", "spawn")
	iAdd = firstIdx(sp, callAtom(false, "group", "Add"))
	iGo := firstIdx(sp, func(a atom) bool {
		g, ok := a.node.(*ast.GoStmt)
		if !ok {
			return false
		}
		lit, ok := g.Call.Fun.(*ast.FuncLit)
		if !ok {
			return false
		}
		hasDefer := false
		ast.Inspect(lit.Body, func(m ast.Node) bool {
			if d, ok := m.(*ast.DeferStmt); ok && endsWith(d.Call.Fun, "group", "Done") {
				hasDefer = true
			}
			return !hasDefer
		})
		return hasDefer
	})
	add("spawnBracketsGroup", "(*Writer).spawn: w.group.Add(1) before `go func() { defer w.group.Done(); f() }()`", before(iAdd, iGo))
	wm := get("Writer", "WriteMessages")
	iEnter := firstIdx(wm, func(a atom) bool {
		ifs, ok := a.node.(*ast.IfStmt)
		if !ok || !hasCall(ifs.Cond, false, "enter") {
			return false
		}
		u, ok := ifs.Cond.(*ast.UnaryExpr)
		return ok && u.Op == token.NOT && strings.Contains(p.src(ifs.Body), "ErrClosedPipe")
	})
	iLeave := firstIdx(wm, func(a atom) bool {
		d, ok := a.node.(*ast.DeferStmt)
		return ok && endsWith(d.Call.Fun, "leave")
	})
	iBatch := firstIdx(wm, callAtom(false, "batchMessages"))
	add("writeMessagesEntersAndLeaves", "WriteMessages: `if !w.enter() { return io.ErrClosedPipe }`, then `defer w.leave()`, before batchMessages",
		before(iEnter, iLeave) && before(iLeave, iBatch))
	iSel := firstIdx(wm, func(a atom) bool {
		return strings.HasPrefix(a.text, "case ") && strings.Contains(a.text, "<-") && !strings.Contains(a.text, ".done")
	})
	iCtxRet := firstIdx(wm, func(a atom) bool {
		r, ok := a.node.(*ast.ReturnStmt)
		return ok && strings.Contains(p.src(r), ".Err()")
	})
	add("writeMessagesWaitsOnContext", "WriteMessages: the wait for a batch selects on the context's Done channel and returns ctx.Err()",
		iSel >= 0 && before(iSel, iCtxRet))
	bm := p.flatten(p.fns[fnKey{"Writer", "batchMessages"}], 0)
	iLock = firstIdx(bm, lock)
	iChk = p.ifFieldReturns(bm, "closed", contains("ErrClosedPipe"))
	iNew := firstIdx(bm, func(a atom) bool {
		return stmtOnly(a) && (hasCall(a.node, false, "newPartitionWriter") || hasCall(a.node, false, "writeMessages"))
	})
	add("batchRechecksClosed", "batchMessages: under w.mutex `if w.closed { return …, io.ErrClosedPipe }` before any partition writer is created or fed (D1 repair)",
		before(iLock, iChk) && before(iChk, iNew))
	cl := get("Writer", "Close")
	iLock = firstIdx(cl, lock)
	iMark := firstIdx(cl, func(a atom) bool { return isAssignTrue(a, "closed") })
	iRange := firstIdx(cl, func(a atom) bool {
		r, ok := a.node.(*ast.RangeStmt)
		return ok && endsWith(r.X, "writers") && hasCall(r.Body, false, "close")
	})
	iDel := firstIdx(cl, func(a atom) bool {
		if !stmtOnly(a) {
			return false
		}
		if hasCall(a.node, false, "delete") && mentionsField(a.node, "writers") {
			return true
		}
		as2, ok := a.node.(*ast.AssignStmt)
		return ok && len(as2.Lhs) == 1 && endsWith(as2.Lhs[0], "writers")
	})
	iUnlock := firstIdx(cl, callAtom(false, "mutex", "Unlock"))
	iWait := firstIdx(cl, callAtom(false, "group", "Wait"))
	add("closeMarksClosesAllThenWaits", "(*Writer).Close: under w.mutex closed = true, every partition writer closed and removed from w.writers; unlock; then w.group.Wait()",
		before(iLock, iMark) && before(iMark, iUnlock) && before(iLock, iRange) && before(iRange, iUnlock) && before(iLock, iDel) && before(iDel, iWait) && before(iUnlock, iWait))
	pc := get("partitionWriter", "close")
	iPut := firstIdx(pc, callAtom(false, "queue", "Put"))
	iQC := firstIdx(pc, callAtom(false, "queue", "Close"))
	iTrig := firstIdx(pc, callAtom(false, "trigger"))
	add("partitionWriterCloseFlushesThenClosesQueue", "(*partitionWriter).close: the open batch is queued (and triggered) before the queue is closed",
		before(iPut, iQC) && iTrig >= 0 && firstIdx(pc, lock) >= 0)
	add("partitionWriterSpawnsSender", "newPartitionWriter: w.spawn(writer.writeBatches)", firstIdx(get("", "newPartitionWriter"), callAtom(false, "spawn")) >= 0)
	add("newWriteBatchSpawnsAwaiter", "(*partitionWriter).newWriteBatch: w.spawn(awaitBatch)", firstIdx(p.flatten(p.fns[fnKey{"partitionWriter", "newWriteBatch"}], 0), callAtom(false, "spawn")) >= 0)
	wb := get("partitionWriter", "writeBatches")
	add("senderExitsOnNilBatch", "(*partitionWriter).writeBatches: returns when queue.Get() yields nil (queue closed and empty)",
		firstIdx(wb, callAtom(false, "queue", "Get")) >= 0 && firstIdx(wb, func(a atom) bool {
			ifs, ok := a.node.(*ast.IfStmt)
			return ok && strings.Contains(p.src(ifs.Cond), "nil") && strings.Contains(p.src(ifs.Body), "return")
		}) >= 0)

	// ---- Reader
	fm := get("Reader", "FetchMessage")
	iChk = p.ifFieldReturns(fm, "closed", contains("EOF"))
	iSelect := firstIdx(fm, func(a atom) bool { return strings.HasPrefix(a.text, "case ") && mentionsField(a.node, "msgs") })
	add("fetchMessageReturnsEOFWhenClosed", "FetchMessage: a reader marked closed answers io.EOF before waiting on its channels (fix 52a5df9)",
		before(iChk, iSelect))
	add("fetchMessageWaitsOnContext", "FetchMessage: selects on ctx.Done() and returns ctx.Err()",
		firstIdx(fm, func(a atom) bool { return strings.HasPrefix(a.text, "case ") && strings.Contains(a.text, "Done()") }) >= 0 &&
			firstIdx(fm, func(a atom) bool {
				r, ok := a.node.(*ast.ReturnStmt)
				return ok && strings.Contains(p.src(r), ".Err()")
			}) >= 0)
	rc := p.flatten(p.fns[fnKey{"Reader", "Close"}], 0)
	iMark = firstIdx(rc, func(a atom) bool { return isAssignTrue(a, "closed") })
	iCancel := firstIdx(rc, callAtom(false, "cancel"))
	iStop := firstIdx(rc, callAtom(false, "stop"))
	iJoin := firstIdx(rc, callAtom(false, "join", "Wait"))
	iDone := firstIdx(rc, func(a atom) bool {
		return stmtOnly(a) && strings.Contains(a.text, "<-") && mentionsField(a.node, "done")
	})
	iCloseMsgs := firstIdx(rc, func(a atom) bool {
		return stmtOnly(a) && hasCall(a.node, false, "close") && mentionsField(a.node, "msgs")
	})
	add("readerCloseOrder", "(*Reader).Close: closed = true, cancel fetchers, stop the group loop, join.Wait(), <-done, then close(msgs)",
		before(iMark, iCancel) && before(iMark, iStop) && before(iCancel, iJoin) && before(iStop, iJoin) && before(iJoin, iCloseMsgs) && before(iDone, iCloseMsgs))
	cm := get("Reader", "CommitMessages")
	add("commitMessagesWaitsOnContext", "CommitMessages: both waits select on ctx.Done() and return ctx.Err()",
		len(filterIdx(cm, func(a atom) bool { return strings.HasPrefix(a.text, "case ") && strings.Contains(a.text, "ctx.Done()") })) >= 2)
	rn := p.flatten(p.fns[fnKey{"Reader", "run"}], 0)
	add("readerRunClosesGroupThenDone", "(*Reader).run: `defer close(r.done)` is registered before `defer cg.Close()`, so the group is torn down (LeaveGroup) before done is closed",
		before(firstIdx(rn, func(a atom) bool { d, ok := a.node.(*ast.DeferStmt); return ok && strings.Contains(p.src(d), "done") }),
			firstIdx(rn, func(a atom) bool { d, ok := a.node.(*ast.DeferStmt); return ok && endsWith(d.Call.Fun, "Close") })))

	// fetchers: (*Reader).start accounts them in r.join; (*reader).run leaves at every cancelled sleep, closes its
	// connection before every return taken while it owns one, and its hand-over to the application selects on ctx
	st := p.flatten(p.fns[fnKey{"Reader", "start"}], 0)
	iJoinAdd := firstIdx(st, callAtom(false, "join", "Add"))
	iGoFetch := firstIdx(st, func(a atom) bool {
		g, ok := a.node.(*ast.GoStmt)
		if !ok {
			return false
		}
		lit, ok := g.Call.Fun.(*ast.FuncLit)
		if !ok {
			return false
		}
		hasDone, hasRun := false, false
		ast.Inspect(lit.Body, func(m ast.Node) bool {
			if d, ok := m.(*ast.DeferStmt); ok && endsWith(d.Call.Fun, "Done") {
				hasDone = true
			}
			if c, ok := m.(*ast.CallExpr); ok && endsWith(c.Fun, "run") {
				hasRun = true
			}
			return true
		})
		return hasDone && hasRun
	})
	iStartChk := p.ifFieldReturns(st, "closed", func(string) bool { return true })
	add("startAccountsFetchersAndRefusesWhenClosed", "(*Reader).start: returns at once when r.closed; r.join.Add(n) before `go func() { defer join.Done(); (&reader{…}).run(ctx, offset) }()`",
		before(iStartChk, iJoinAdd) && before(iJoinAdd, iGoFetch))
	frun := p.fns[fnKey{"reader", "run"}]
	okSleep, nSleep := true, 0
	okConnClose, nRetInLoop := true, 0
	if frun != nil && frun.Body != nil {
		// every `if !sleep(ctx, …) { … return }`
		ast.Inspect(frun.Body, func(m ast.Node) bool {
			if ifs, ok := m.(*ast.IfStmt); ok && hasCall(ifs.Cond, false, "sleep") {
				nSleep++
				if _, neg := ifs.Cond.(*ast.UnaryExpr); !neg || !strings.Contains(p.src(ifs.Body), "return") {
					okSleep = false
				}
			}
			return true
		})
		// inside the labelled read loop (the fetcher owns a connection there) every return and every `break <label>`
		// — other than the codec error, whose Batch already closed the connection — is preceded by conn.Close()
		ast.Inspect(frun.Body, func(m ast.Node) bool {
			lbl, ok := m.(*ast.LabeledStmt)
			if !ok {
				return true
			}
			var visit func(list []ast.Stmt)
			visit = func(list []ast.Stmt) {
				for i, st := range list {
					switch x := st.(type) {
					case *ast.ReturnStmt:
						nRetInLoop++
						closed := false
						for j := i - 1; j >= 0; j-- {
							if hasCall(list[j], false, "Close") {
								closed = true
							}
						}
						if !closed {
							okConnClose = false
						}
					case *ast.IfStmt:
						visit(x.Body.List)
						if b, ok := x.Else.(*ast.BlockStmt); ok {
							visit(b.List)
						}
					case *ast.BlockStmt:
						visit(x.List)
					case *ast.ForStmt:
						visit(x.Body.List)
					case *ast.SwitchStmt:
						for _, cc := range x.Body.List {
							visit(cc.(*ast.CaseClause).Body)
						}
					}
				}
			}
			visit([]ast.Stmt{lbl.Stmt})
			return false
		})
	}
	add("fetcherLeavesAtCancelledSleep", "(*reader).run: both back-off waits are `if !sleep(ctx, …) { … return }`", okSleep && nSleep >= 2)
	add("fetcherClosesConnBeforeReturnInReadLoop", "(*reader).run: every return inside the read loop (where the fetcher owns a connection) is preceded by conn.Close()", okConnClose && nRetInLoop >= 2)
	for _, fnm := range []string{"sendMessage", "sendError"} {
		sm := p.flatten(p.fns[fnKey{"reader", fnm}], 0)
		add(fnm+"SelectsOnContext", "(*reader)."+fnm+": the hand-over on r.msgs selects on ctx.Done() and returns ctx.Err()",
			firstIdx(sm, func(a atom) bool { return strings.HasPrefix(a.text, "case ") && strings.Contains(a.text, "Done()") }) >= 0 &&
				firstIdx(sm, func(a atom) bool {
					r, ok := a.node.(*ast.ReturnStmt)
					return ok && strings.Contains(p.src(r), ".Err()")
				}) >= 0)
	}
	// the batch queue of a partition writer: a condition variable; Put and Close wake the sender, Get waits for either
	qp := p.flatten(p.fns[fnKey{"batchQueue", "Put"}], 0)
	qc := p.flatten(p.fns[fnKey{"batchQueue", "Close"}], 0)
	qg := p.flatten(p.fns[fnKey{"batchQueue", "Get"}], 0)
	bcast := func(as []atom) bool {
		return firstIdx(as, func(a atom) bool { return hasCall(a.node, true, "cond", "Broadcast") }) >= 0
	}
	add("queuePutAndCloseWakeTheSender", "batchQueue.Put / Close: cond.Broadcast() (deferred) under the queue's lock; Put refuses when closed; Close sets closed",
		bcast(qp) && bcast(qc) && p.ifFieldReturns(qp, "closed", contains("false")) >= 0 && firstIdx(qc, func(a atom) bool { return isAssignTrue(a, "closed") }) >= 0)
	add("queueGetWaitsForPutOrClose", "batchQueue.Get: `for <empty> && !closed { cond.Wait() }`, then nil when still empty",
		firstIdx(qg, func(a atom) bool {
			f, ok := a.node.(*ast.ForStmt)
			return ok && f.Cond != nil && strings.Contains(p.src(f.Cond), "!") && mentionsField(f.Cond, "closed") && hasCall(f.Body, false, "cond", "Wait")
		}) >= 0 && firstIdx(qg, func(a atom) bool { r, ok := a.node.(*ast.ReturnStmt); return ok && strings.Contains(p.src(r), "nil") }) >= 0)

	// ---- ConsumerGroup
	gc := get("ConsumerGroup", "Close")
	add("groupCloseSignalsThenWaits", "(*ConsumerGroup).Close: close(cg.done) (once) before cg.wg.Wait()",
		before(firstIdx(gc, func(a atom) bool { return mentionsField(a.node, "done") && hasCall(a.node, true, "close") }), firstIdx(gc, callAtom(false, "wg", "Wait"))))
	// leaveGroup: after the coordinator connection was obtained no return precedes its Close()
	lg := p.flatten(p.fns[fnKey{"ConsumerGroup", "leaveGroup"}], 0)
	iCoord := firstIdx(lg, callAtom(false, "coordinator"))
	connVar := ""
	if iCoord >= 0 {
		if as2, ok := lg[iCoord].node.(*ast.AssignStmt); ok && len(as2.Lhs) >= 1 {
			connVar = p.src(as2.Lhs[0])
		}
	}
	iCloseConn := firstIdx(lg, func(a atom) bool {
		if connVar == "" {
			return false
		}
		for _, c := range callsIn(a.node, false) {
			if s, ok := c.Fun.(*ast.SelectorExpr); ok && s.Sel.Name == "Close" && p.src(s.X) == connVar {
				if _, isDefer := a.node.(*ast.DeferStmt); isDefer {
					return true
				}
				return stmtOnly(a)
			}
		}
		return false
	})
	okLeave := iCoord >= 0 && iCloseConn >= 0
	if okLeave {
		if _, isDefer := lg[iCloseConn].node.(*ast.DeferStmt); !isDefer {
			// every return between obtaining the connection and closing it must be the error return of coordinator() itself
			for i := iCoord + 1; i < iCloseConn; i++ {
				if _, ok := lg[i].node.(*ast.ReturnStmt); ok {
					// allowed only directly under `if err != nil` that immediately follows the coordinator() call
					if !(i <= iCoord+2) {
						okLeave = false
					}
				}
			}
			// the Close must not itself sit under a condition
			if lg[iCloseConn].depth != 0 {
				okLeave = false
			}
		}
	}
	add("leaveGroupClosesConnectionOnEveryPath", "(*ConsumerGroup).leaveGroup: once cg.coordinator() succeeded no return precedes coordinator.Close() (answered, rejected or failed LeaveGroup)", okLeave)
	ng := p.flatten(p.fns[fnKey{"ConsumerGroup", "nextGeneration"}], 0)
	iCoord = firstIdx(ng, callAtom(false, "coordinator"))
	iDefer := firstIdx(ng, func(a atom) bool { d, ok := a.node.(*ast.DeferStmt); return ok && endsWith(d.Call.Fun, "Close") })
	onlyErrBlock := true
	for i := iCoord + 1; i >= 1 && i < iDefer; i++ {
		if _, isIf := ng[i].node.(*ast.IfStmt); !isIf && ng[i].depth == 0 {
			onlyErrBlock = false
		}
	}
	add("nextGenerationDefersConnClose", "nextGeneration: `defer conn.Close()` right after cg.coordinator() succeeded (only its error return in between)", before(iCoord, iDefer) && onlyErrBlock)
	co := p.flatten(p.fns[fnKey{"ConsumerGroup", "coordinator"}], 0)
	add("coordinatorDefersBootstrapClose", "(*ConsumerGroup).coordinator: the bootstrap connection is closed by a defer",
		firstIdx(co, func(a atom) bool { d, ok := a.node.(*ast.DeferStmt); return ok && endsWith(d.Call.Fun, "Close") }) >= 0)
	ru := p.flatten(p.fns[fnKey{"ConsumerGroup", "run"}], 0)
	// every return of run is preceded, within the 3 preceding atoms, by leaveGroup(...) — or sits in the back-off select
	okRun := true
	nRet := 0
	for i, a := range ru {
		if _, ok := a.node.(*ast.ReturnStmt); !ok {
			continue
		}
		nRet++
		near := false
		for j := i - 1; j >= 0 && j >= i-3; j-- {
			if hasCall(ru[j].node, false, "leaveGroup") {
				near = true
			}
		}
		inBackoff := false
		for j := i - 1; j >= 0 && j >= i-4; j-- {
			if strings.Contains(ru[j].text, "backoff") || strings.Contains(ru[j].text, "Backoff") {
				inBackoff = true
			}
		}
		if !near && !inBackoff {
			okRun = false
		}
	}
	add("runLeavesGroupBeforeEveryExit", "(*ConsumerGroup).run: every return is preceded by leaveGroup(memberID), except the one in the back-off wait (member id already cleared)", okRun && nRet >= 2)

	// ---- Transport
	cr := p.flatten(p.fns[fnKey{"conn", "run"}], 0)
	add("connRunDefersClose", "(*conn).run: defer pc.Close()", firstIdx(cr, func(a atom) bool { d, ok := a.node.(*ast.DeferStmt); return ok && endsWith(d.Call.Fun, "Close") }) >= 0)
	okRel := false
	for _, a := range cr {
		ifs, ok := a.node.(*ast.IfStmt)
		if !ok || !hasCall(ifs.Cond, false, "releaseConn") {
			continue
		}
		// `!releaseConn(c)` alone or as a disjunct (`!releaseConn(c) || …`)
		neg := false
		var disj func(e ast.Expr)
		disj = func(e ast.Expr) {
			switch x := e.(type) {
			case *ast.ParenExpr:
				disj(x.X)
			case *ast.BinaryExpr:
				if x.Op == token.LOR {
					disj(x.X)
					disj(x.Y)
				}
			case *ast.UnaryExpr:
				if x.Op == token.NOT && hasCall(x.X, false, "releaseConn") {
					neg = true
				}
			}
		}
		disj(ifs.Cond)
		leaves := false
		ast.Inspect(ifs.Body, func(m ast.Node) bool {
			switch x := m.(type) {
			case *ast.BranchStmt:
				if x.Tok == token.BREAK {
					leaves = true
				}
			case *ast.ReturnStmt:
				leaves = true
			}
			return !leaves
		})
		if neg && leaves {
			okRel = true
		}
	}
	// or: ok := releaseConn(c); if !ok { break }
	if !okRel {
		for i, a := range cr {
			as2, ok := a.node.(*ast.AssignStmt)
			if !ok || !hasCall(as2, false, "releaseConn") || len(as2.Lhs) != 1 {
				continue
			}
			v := p.src(as2.Lhs[0])
			for j := i + 1; j < len(cr) && j <= i+2; j++ {
				if ifs, ok := cr[j].node.(*ast.IfStmt); ok && strings.Contains(p.src(ifs.Cond), "!"+v) &&
					(strings.Contains(p.src(ifs.Body), "break") || strings.Contains(p.src(ifs.Body), "return")) {
					okRel = true
				}
			}
		}
	}
	add("connRunLeavesWhenReleaseRefused", "(*conn).run: the loop is left when releaseConn reports that the group is closed", okRel)
	rl := p.flatten(p.fns[fnKey{"connGroup", "releaseConn"}], 0)
	iChk = p.ifFieldReturns(rl, "closed", contains("false"))
	iIdle := firstIdx(rl, func(a atom) bool { return stmtOnly(a) && mentionsField(a.node, "idleConns") })
	add("releaseConnRefusesWhenClosed", "(*connGroup).releaseConn: under g.mutex `if g.closed { return false }` before the connection is pushed on idleConns",
		before(firstIdx(rl, lock), iChk) && before(iChk, iIdle))
	ci := p.flatten(p.fns[fnKey{"connGroup", "closeIdleConns"}], 0)
	add("closeIdleConnsMarksClosed", "(*connGroup).closeIdleConns: g.closed = true under g.mutex and every idle connection is closed",
		firstIdx(ci, func(a atom) bool { return isAssignTrue(a, "closed") }) >= 0 && firstIdx(ci, func(a atom) bool {
			r, ok := a.node.(*ast.RangeStmt)
			return ok && hasCall(r.Body, false, "close")
		}) >= 0)
	// every select of grabConnOrConnect (the caller's wait and the two hand-over selects of the background connect)
	// has a ctx.Done() branch, and the caller's returns ctx.Err(); a connection that nobody takes is released or closed
	allSel, nSel := true, 0
	if d := p.fns[fnKey{"connGroup", "grabConnOrConnect"}]; d != nil && d.Body != nil {
		ast.Inspect(d.Body, func(m ast.Node) bool {
			if sel, ok := m.(*ast.SelectStmt); ok {
				nSel++
				has := false
				for _, cc := range sel.Body.List {
					if c := cc.(*ast.CommClause); c.Comm != nil && strings.Contains(p.src(c.Comm), "Done()") {
						has = true
					}
				}
				if !has {
					allSel = false
				}
			}
			return true
		})
	}
	gcc := p.flatten(p.fns[fnKey{"connGroup", "grabConnOrConnect"}], 0)
	add("grabConnWaitsOnContext", "(*connGroup).grabConnOrConnect: every select (the caller's wait, the hand-over of the background connect) has a ctx.Done() branch; the caller's returns ctx.Err()",
		nSel >= 1 && allSel &&
			firstIdx(gcc, func(a atom) bool {
				r, ok := a.node.(*ast.ReturnStmt)
				return ok && strings.Contains(p.src(r), ".Err()")
			}) >= 0)
	aw := p.flatten(p.fns[fnKey{"async", "await"}], 0)
	add("awaitReturnsContextError", "(async).await: selects on ctx.Done() and returns ctx.Err()",
		firstIdx(aw, func(a atom) bool { return strings.HasPrefix(a.text, "case ") && strings.Contains(a.text, "Done()") }) >= 0 &&
			firstIdx(aw, func(a atom) bool {
				r, ok := a.node.(*ast.ReturnStmt)
				return ok && strings.Contains(p.src(r), ".Err()")
			}) >= 0)

	// ---- round 4: waits that only Close / the context may end, and connections on error paths
	// everySelect: the function exists, has at least `min` select statements, and each of them has a receive branch
	// whose channel expression contains one of `subs`
	everySelect := func(recv, name string, min int, subs ...string) bool {
		d := p.fns[fnKey{recv, name}]
		if d == nil || d.Body == nil {
			return false
		}
		n, all := 0, true
		ast.Inspect(d.Body, func(m ast.Node) bool {
			if sel, ok := m.(*ast.SelectStmt); ok {
				n++
				has := false
				for _, cc := range sel.Body.List {
					if c := cc.(*ast.CommClause); c.Comm != nil {
						for _, s := range subs {
							if strings.Contains(p.src(c.Comm), s) {
								has = true
							}
						}
					}
				}
				if !has {
					all = false
				}
			}
			return true
		})
		return n >= min && all
	}
	// (*reader).initialize: once the leader connection exists, every error branch closes it
	initOK, nInit := true, 0
	if d := p.fns[fnKey{"reader", "initialize"}]; d != nil && d.Body != nil {
		ast.Inspect(d.Body, func(m ast.Node) bool {
			ifs, ok := m.(*ast.IfStmt)
			if !ok || !strings.Contains(p.src(ifs.Cond), "err != nil") {
				return true
			}
			onlyContinue := len(ifs.Body.List) == 1
			if onlyContinue {
				_, onlyContinue = ifs.Body.List[0].(*ast.BranchStmt)
			}
			if onlyContinue {
				return true // the dial itself failed: there is no connection
			}
			nInit++
			if !hasCall(ifs.Body, false, "Close") {
				initOK = false
			}
			return true
		})
	} else {
		initOK = false
	}
	add("initializeClosesConnOnError", "(*reader).initialize: when reading the offsets or the seek fails, the leader connection is closed before the error is reported", initOK && nInit >= 2)
	// (*Reader).ReadLag: the probe's connection is closed in every iteration (unconditional statement of the loop body)
	lagClose := false
	if d := p.fns[fnKey{"Reader", "ReadLag"}]; d != nil && d.Body != nil {
		ast.Inspect(d.Body, func(m ast.Node) bool {
			if rs, ok := m.(*ast.RangeStmt); ok && hasCall(rs.Body, false, "DialLeader") {
				for _, st := range rs.Body.List {
					switch x := st.(type) {
					case *ast.ExprStmt:
						if c, ok := x.X.(*ast.CallExpr); ok && endsWith(c.Fun, "Close") {
							lagClose = true
						}
					case *ast.DeferStmt:
						if endsWith(x.Call.Fun, "Close") {
							lagClose = true
						}
					}
				}
			}
			return true
		})
	}
	add("readLagClosesItsConnection", "(*Reader).ReadLag: the connection dialled for a probe is closed unconditionally in the same iteration", lagClose)
	add("readLagLoopEndsWithContext", "(*Reader).readLag: the wait between two probes selects on ctx.Done()", everySelect("Reader", "readLag", 1, "Done()"))
	add("runWaitsSelectOnDone", "(*ConsumerGroup).run: delivering the error and the back-off both select on cg.done", everySelect("ConsumerGroup", "run", 2, "done"))
	add("sleepEndsWithContext", "sleep(ctx, d): every select has a ctx.Done() branch", everySelect("", "sleep", 1, "Done()"))
	add("nextSelectsOnDone", "(*ConsumerGroup).Next: selects on cg.done (ErrGroupClosed) and on ctx.Done()", everySelect("ConsumerGroup", "Next", 1, "cg.done") && everySelect("ConsumerGroup", "Next", 1, "Done()"))
	add("generationLoopsEndWithGeneration", "(*Generation).heartbeatLoop / partitionWatcher: their loops select on ctx.Done()",
		everySelect("Generation", "heartbeatLoop", 1, "Done()") && everySelect("Generation", "partitionWatcher", 1, "Done()"))
	gcl := p.flatten(p.fns[fnKey{"Generation", "close"}], 0)
	add("generationCloseWaitsForRoutines", "(*Generation).close: waits on g.joined when goroutines were started",
		firstIdx(gcl, func(a atom) bool { return strings.Contains(a.text, "<-") && strings.Contains(a.text, "joined") }) >= 0)
	// grabConnOrConnect: a connect that completes after the caller's context ended releases the connection or closes it
	late := false
	if d := p.fns[fnKey{"connGroup", "grabConnOrConnect"}]; d != nil && d.Body != nil {
		ast.Inspect(d.Body, func(m ast.Node) bool {
			if fl, ok := m.(*ast.FuncLit); ok {
				ast.Inspect(fl.Body, func(k ast.Node) bool {
					if c, ok := k.(*ast.CommClause); ok && c.Comm != nil && strings.Contains(p.src(c.Comm), "Done()") {
						for _, st := range c.Body {
							if hasCall(st, false, "releaseConn") || hasCall(st, false, "close") || hasCall(st, false, "Close") {
								late = true
							}
						}
					}
					return true
				})
			}
			return true
		})
	}
	add("lateConnectReleasesOrCloses", "(*connGroup).grabConnOrConnect: the background connect, when nobody waits any more, releases the connection to the pool or closes it", late)
	un := p.flatten(p.fns[fnKey{"connPool", "unref"}], 0)
	nIdle := len(filterIdx(un, func(a atom) bool { return stmtOnly(a) && hasCall(a.node, false, "closeIdleConns") }))
	add("poolUnrefClosesConnectionsAndCancels", "(*connPool).unref: the last reference closes the idle connections of every broker group and of the control group, and cancels the pool's context",
		nIdle >= 2 && firstIdx(un, func(a atom) bool { return stmtOnly(a) && hasCall(a.node, false, "cancel") }) >= 0)
	wc := get("Writer", "Close")
	add("writerCloseClosesItsOwnTransport", "(*Writer).Close: after group.Wait(), the connections of the writer's own transport are closed",
		before(firstIdx(wc, callAtom(false, "group", "Wait")), firstIdx(wc, callAtom(false, "CloseIdleConnections"))))

	// ---- round 6: every blocking network operation inside (*reader).run has a deadline
	// Source-order walk of run with the reader's own helpers (initialize, read, readOffsets, …) inlined to depth 3:
	// `armed` follows conn.SetDeadline (non-zero time ⇒ armed, time.Time{} ⇒ cleared); every offsets request
	// (ReadOffsets / ReadFirstOffset / ReadLastOffset / ReadOffset, and a Seek that checks against them) must happen
	// while a deadline is armed — a blocked socket read does not observe the context, only a deadline or Close of the
	// connection ends it, and the fetcher itself is the only one that closes its connection.
	type netop struct {
		what  string
		armed bool
	}
	var ops []netop
	var walkDeadlines func(d *ast.FuncDecl, depth int, armed *bool)
	walkDeadlines = func(d *ast.FuncDecl, depth int, armed *bool) {
		if d == nil || d.Body == nil {
			return
		}
		ast.Inspect(d.Body, func(m ast.Node) bool {
			c, ok := m.(*ast.CallExpr)
			if !ok {
				return true
			}
			sel, ok := c.Fun.(*ast.SelectorExpr)
			if !ok {
				return true
			}
			switch sel.Sel.Name {
			case "SetDeadline":
				*armed = len(c.Args) == 1 && !strings.Contains(p.src(c.Args[0]), "time.Time{}")
			case "ReadOffsets", "ReadFirstOffset", "ReadLastOffset", "ReadOffset":
				ops = append(ops, netop{sel.Sel.Name, *armed})
			case "Seek":
				if !strings.Contains(p.src(c), "SeekDontCheck") {
					ops = append(ops, netop{"Seek", *armed})
				}
			default:
				if h := p.fns[fnKey{"reader", sel.Sel.Name}]; h != nil && depth < 3 && h != d {
					walkDeadlines(h, depth+1, armed)
				}
			}
			return true
		})
	}
	armed := false
	walkDeadlines(p.fns[fnKey{"reader", "run"}], 0, &armed)
	allArmed := true
	for _, o := range ops {
		if !o.armed {
			allArmed = false
		}
	}
	add("fetcherOffsetRequestsHaveDeadline", "(*reader).run with its helpers inlined: every offsets request (readOffsets in initialize, the Seek that follows it, readOffsets after an OffsetOutOfRange fetch) happens while a connection deadline set by SetDeadline is armed", allArmed && len(ops) >= 3)
	rd := p.flatten(p.fns[fnKey{"reader", "read"}], 0)
	add("fetcherReadHasDeadline", "(*reader).read: conn.SetReadDeadline(…) before ReadBatchWith", before(firstIdx(rd, callAtom(false, "SetReadDeadline")), firstIdx(rd, func(a atom) bool { return hasCall(a.node, false, "ReadBatchWith") })))

	// every request method of timeoutCoordinator arms the connection deadline before it delegates to the connection
	nCoord, coordOK := 0, true
	for k, d := range p.fns {
		if k.recv != "timeoutCoordinator" || k.name == "Close" || d.Body == nil {
			continue
		}
		nCoord++
		as := p.flatten(d, 0)
		iDl := firstIdx(as, func(a atom) bool { return hasCall(a.node, false, "SetDeadline") })
		iReq := firstIdx(as, func(a atom) bool {
			r, ok := a.node.(*ast.ReturnStmt)
			return ok && (hasCall(r, false, k.name) || hasCall(r, false, strings.ToUpper(k.name[:1])+k.name[1:]))
		})
		if !before(iDl, iReq) {
			coordOK = false
		}
	}
	add("coordinatorCallsHaveDeadline", "timeoutCoordinator: every request method (findCoordinator, joinGroup, syncGroup, leaveGroup, heartbeat, offsetFetch, offsetCommit, readPartitions) calls conn.SetDeadline before it delegates to the connection", coordOK && nCoord >= 8)

	pr := p.flatten(p.fns[fnKey{"Writer", "produce"}], 0)
	add("produceRunsUnderWriteTimeout", "(*Writer).produce: the request context comes from context.WithTimeout(…, w.writeTimeout()) (or WithDeadline) before client.Produce",
		before(firstIdx(pr, func(a atom) bool { return hasCall(a.node, false, "WithTimeout") || hasCall(a.node, false, "WithDeadline") }),
			firstIdx(pr, func(a atom) bool { return hasCall(a.node, false, "Produce") })))

	// ---- round 7: every request the pool queues for itself (background metadata refresh) carries a bounded context
	ownBounded, nOwn := true, 0
	if d := p.fns[fnKey{"connPool", "discover"}]; d != nil && d.Body != nil {
		boundedVars := map[string]bool{}
		ast.Inspect(d.Body, func(m ast.Node) bool {
			if as, ok := m.(*ast.AssignStmt); ok && len(as.Rhs) == 1 && len(as.Lhs) >= 1 {
				if c, ok := as.Rhs[0].(*ast.CallExpr); ok && (strings.HasSuffix(p.src(c.Fun), "WithTimeout") || strings.HasSuffix(p.src(c.Fun), "WithDeadline")) {
					if id, ok := as.Lhs[0].(*ast.Ident); ok {
						boundedVars[id.Name] = true
					}
				}
			}
			return true
		})
		ast.Inspect(d.Body, func(m ast.Node) bool {
			cl, ok := m.(*ast.CompositeLit)
			if !ok || !strings.Contains(p.src(cl.Type), "connRequest") {
				return true
			}
			nOwn++
			found := false
			for _, el := range cl.Elts {
				if kv, ok := el.(*ast.KeyValueExpr); ok && p.src(kv.Key) == "ctx" {
					if id, ok := kv.Value.(*ast.Ident); ok && boundedVars[id.Name] {
						found = true
					}
				}
			}
			if !found {
				ownBounded = false
			}
			return true
		})
	} else {
		ownBounded = false
	}
	add("poolOwnRequestsAreBounded", "(*connPool).discover: the metadata request the pool queues for itself carries the context returned by context.WithTimeout(ctx, p.metadataTTL) — conn.roundTrip arms the socket deadline only from the request's context", ownBounded && nOwn >= 1)
	crt := p.flatten(p.fns[fnKey{"conn", "roundTrip"}], 0)
	add("connRoundTripArmsDeadlineFromContext", "(*conn).roundTrip: when the request context has a deadline, pc.SetDeadline(deadline) before pc.RoundTrip",
		before(firstIdx(crt, func(a atom) bool { return hasCall(a.node, false, "SetDeadline") }), firstIdx(crt, func(a atom) bool {
			r, ok := a.node.(*ast.ReturnStmt)
			return ok && hasCall(r, false, "RoundTrip")
		})))

	// ---- emit
	sort.SliceStable(facts, func(i, j int) bool { return false })
	var b strings.Builder
	b.WriteString("/- GENERATED by go/extract closeproto from /repo/{writer,reader,consumergroup,transport}.go — do not edit (overwritten on every run). -/\n")
	b.WriteString("namespace KV.Gen.CloseFacts\n\n")
	for _, f := range facts {
		fmt.Fprintf(&b, "/-- %s -/\ndef %s : Bool := %v\n\n", strings.ReplaceAll(f.doc, "-/", "- /"), f.name, f.val)
	}
	b.WriteString("def all : List (String × Bool) := [\n")
	for i, f := range facts {
		sep := ","
		if i == len(facts)-1 {
			sep = ""
		}
		fmt.Fprintf(&b, "  (%q, %s)%s\n", f.name, f.name, sep)
	}
	b.WriteString("]\n\nend KV.Gen.CloseFacts\n")
	return os.WriteFile(filepath.Join(root, "lean", "KafkaVerif", "Gen", "CloseFacts.lean"), []byte(b.String()), 0o644)
}

func filterIdx(as []atom, pred func(atom) bool) (r []int) {
	for i, a := range as {
		if pred(a) {
			r = append(r, i)
		}
	}
	return
}
