package main

import (
	"fmt"
	"go/ast"
	"go/parser"
	"go/token"
	"os"
	"path/filepath"
	"strconv"
	"strings"
)

func init() { extractors["saslplain"] = extractSaslPlain }

// extractSaslPlain re-reads, without executing anything,
//   - sasl/plain/plain.go: the format string and argument order of Mechanism.Start, the constant result of Next;
//   - dialer.go / transport.go: the order of the authentication-relevant calls inside connect / authenticateSASL
//
// and writes lean/KafkaVerif/Gen/SaslPlainFmt.lean.
func extractSaslPlain(repo, root string) error {
	fset := token.NewFileSet()
	f, err := parser.ParseFile(fset, filepath.Join(repo, "sasl", "plain", "plain.go"), nil, 0)
	if err != nil {
		return err
	}
	var segs []string
	sprintfArgs := 0
	nextCompleted := ""
	for _, d := range f.Decls {
		fd, ok := d.(*ast.FuncDecl)
		if !ok || fd.Body == nil || fd.Recv == nil {
			continue
		}
		switch fd.Name.Name {
		case "Start":
			ast.Inspect(fd.Body, func(n ast.Node) bool {
				call, ok := n.(*ast.CallExpr)
				if !ok {
					return true
				}
				sel, ok := call.Fun.(*ast.SelectorExpr)
				if !ok || sel.Sel.Name != "Sprintf" || len(call.Args) < 1 {
					return true
				}
				lit, ok := call.Args[0].(*ast.BasicLit)
				if !ok || lit.Kind != token.STRING {
					return true
				}
				format, err := strconv.Unquote(lit.Value)
				if err != nil {
					return true
				}
				var args []string
				for _, a := range call.Args[1:] {
					if s, ok := a.(*ast.SelectorExpr); ok {
						args = append(args, s.Sel.Name)
					} else {
						args = append(args, "?")
					}
				}
				sprintfArgs = len(call.Args) - 1
				segs = formatSegs(format, args)
				return false
			})
		case "Next":
			ast.Inspect(fd.Body, func(n ast.Node) bool {
				if r, ok := n.(*ast.ReturnStmt); ok && len(r.Results) == 3 {
					if id, ok := r.Results[0].(*ast.Ident); ok {
						nextCompleted = id.Name
					}
				}
				return true
			})
		}
	}
	// the credentials must be ARGUMENTS of a literal format: exactly the verbs `%s %s` fed by Username, Password
	nf, names := 0, []string{}
	for _, sg := range segs {
		if strings.HasPrefix(sg, ".field ") {
			nf++
			names = append(names, strings.Trim(strings.TrimPrefix(sg, ".field "), `"`))
		}
	}
	untranslated := ""
	if segs == nil {
		untranslated = "no fmt.Sprintf with a LITERAL format string in Mechanism.Start"
	} else if nf != 2 || names[0] != "Username" || names[1] != "Password" || sprintfArgs != 2 {
		untranslated = fmt.Sprintf("sasl/plain/plain.go: Mechanism.Start formats %d verbs %v with %d arguments; expected the literal format with exactly two %%s verbs fed by Username, Password", nf, names, sprintfArgs)
	}
	if untranslated != "" {
		// outside the translated subset: the generated definition renders to nothing, so `plain_format_extracted`
		// no longer checks, while the oracle still builds and the correspondence can look for a failing input
		fmt.Fprintln(os.Stderr, "saslplain: UNTRANSLATED:", untranslated)
		segs = []string{`.field "?untranslated"`}
	}
	if nextCompleted != "true" && nextCompleted != "false" {
		return fmt.Errorf("sasl/plain/plain.go: Mechanism.Next does not return a literal completed flag (untranslated)")
	}

	interesting := map[string]bool{"saslHandshake": true, "saslAuthenticate": true, "Start": true, "Next": true, "authenticateSASL": true,
		"Close": true, "RoundTrip": true, "saslHandshakeRoundTrip": true, "saslAuthenticateRoundTrip": true, "NewConnWith": true, "run": true,
		"dialContext": true, "dial": true, "SetVersions": true}
	calls := func(file, recv, name string) ([]string, error) {
		f, err := parser.ParseFile(fset, filepath.Join(repo, file), nil, 0)
		if err != nil {
			return nil, err
		}
		for _, d := range f.Decls {
			fd, ok := d.(*ast.FuncDecl)
			if !ok || fd.Body == nil || fd.Name.Name != name {
				continue
			}
			r := ""
			if fd.Recv != nil && len(fd.Recv.List) == 1 {
				if st, ok := fd.Recv.List[0].Type.(*ast.StarExpr); ok {
					if id, ok := st.X.(*ast.Ident); ok {
						r = id.Name
					}
				}
			}
			if r != recv {
				continue
			}
			// helpers declared in the same file are looked through (an "extract function" refactoring must not change
			// the recorded order): a call to a non-interesting same-file function contributes that function's calls
			local := map[string]*ast.FuncDecl{}
			for _, d2 := range f.Decls {
				if fd2, ok := d2.(*ast.FuncDecl); ok && fd2.Body != nil {
					local[fd2.Name.Name] = fd2
				}
			}
			var out []string
			var walk func(body ast.Node, depth int)
			walk = func(body ast.Node, depth int) {
				ast.Inspect(body, func(n ast.Node) bool {
					call, ok := n.(*ast.CallExpr)
					if !ok {
						return true
					}
					nm := ""
					switch fn := call.Fun.(type) {
					case *ast.SelectorExpr:
						nm = fn.Sel.Name
					case *ast.Ident:
						nm = fn.Name
					}
					if interesting[nm] {
						out = append(out, nm)
					} else if h, isLocal := local[nm]; isLocal && depth > 0 && h != fd {
						walk(h.Body, depth-1)
					}
					return true
				})
			}
			walk(fd.Body, 2)
			return out, nil
		}
		return nil, fmt.Errorf("%s: func (%s) %s not found", file, recv, name)
	}
	type fn struct{ lean, file, recv, name string }
	var lines []string
	for _, x := range []fn{
		{"dialerConnectCalls", "dialer.go", "Dialer", "connect"},
		{"dialerAuthCalls", "dialer.go", "Dialer", "authenticateSASL"},
		{"transportConnectCalls", "transport.go", "connGroup", "connect"},
		{"transportAuthCalls", "transport.go", "", "authenticateSASL"},
	} {
		cs, err := calls(x.file, x.recv, x.name)
		if err != nil {
			return err
		}
		q := make([]string, len(cs))
		for i, c := range cs {
			q[i] = strconv.Quote(c)
		}
		lines = append(lines, fmt.Sprintf("def %s : List String := [%s]", x.lean, strings.Join(q, ", ")))
	}

	var b strings.Builder
	b.WriteString("-- GENERATED by /verif/go/extract (saslplain) from /repo/sasl/plain/plain.go, dialer.go, transport.go — do not edit\n")
	b.WriteString("import KafkaVerif.Base.Bytes\nnamespace KV.Gen\n")
	b.WriteString("/-- one segment of the format string of `plain.Mechanism.Start` -/\n")
	b.WriteString("inductive PlainSeg | lit (b : List UInt8) | field (name : String)\n  deriving DecidableEq, Repr\n")
	b.WriteString("def plainFmt : List PlainSeg := [" + strings.Join(segs, ", ") + "]\n")
	b.WriteString("/-- the `completed` result of `plain.Mechanism.Next` -/\n")
	b.WriteString("def plainNextCompleted : Bool := " + nextCompleted + "\n")
	b.WriteString("/-- authentication-relevant calls, in source order -/\n")
	b.WriteString(strings.Join(lines, "\n") + "\n")
	// control flow of the two authenticateSASL functions, by symbolic execution over call outcomes
	for _, x := range []struct{ lean, file, recv, name string }{
		{"dialerAuthFlow", "dialer.go", "Dialer", "authenticateSASL"},
		{"transportAuthFlow", "transport.go", "", "authenticateSASL"},
	} {
		rows, unhandled, err := authFlowTable(repo, x.file, x.recv, x.name)
		if err != nil {
			return err
		}
		if len(unhandled) > 0 {
			fmt.Fprintln(os.Stderr, "saslplain: UNTRANSLATED in", x.name, ":", unhandled)
			rows = append(rows, fmt.Sprintf("([%q], [%q], %q)", "untranslated", strings.Join(unhandled, "; "), "?"))
		}
		b.WriteString("/-- (scenario of call outcomes, calls made in order, value returned) -/\n")
		b.WriteString("def " + x.lean + " : List (List String × List String × String) := [\n  " + strings.Join(rows, ",\n  ") + "]\n")
	}
	sf, err := scramFacts(repo)
	if err != nil {
		return err
	}
	b.WriteString(sf)
	tf, err := tlsFacts(repo)
	if err != nil {
		return err
	}
	b.WriteString(tf)
	b.WriteString("end KV.Gen\n")
	return os.WriteFile(filepath.Join(root, "lean", "KafkaVerif", "Gen", "SaslPlainFmt.lean"), []byte(b.String()), 0o644)
}

// formatSegs splits a Sprintf format that uses only %s verbs into literal byte runs and fields.
func formatSegs(format string, args []string) []string {
	var segs []string
	var lit []byte
	flush := func() {
		if len(lit) > 0 {
			n := make([]string, len(lit))
			for i, c := range lit {
				n[i] = strconv.Itoa(int(c))
			}
			segs = append(segs, ".lit ["+strings.Join(n, ", ")+"]")
			lit = nil
		}
	}
	ai := 0
	for i := 0; i < len(format); i++ {
		if format[i] == '%' && i+1 < len(format) {
			i++
			switch format[i] {
			case 's':
				flush()
				name := "?"
				if ai < len(args) {
					name = args[ai]
				}
				ai++
				segs = append(segs, ".field "+strconv.Quote(name))
			case '%':
				lit = append(lit, '%')
			default:
				flush()
				segs = append(segs, ".field "+strconv.Quote("?verb-"+string(format[i])))
			}
			continue
		}
		lit = append(lit, format[i])
	}
	flush()
	return segs
}
