package main

// tlsfacts.go — where the two dial paths put the TLS wrap (dialer.go, transport.go), read from the syntax tree.
//
//   transportTlsWrapsBeforeProtocolConn  (*connGroup).connect: the variable handed to protocol.NewConn is the one that was
//                                        re-assigned `x = tls.Client(x, …)` under the `… != nil` test of the TLS config,
//                                        earlier in the function, and nothing is written on it in between
//   dialerHandshakesInDialContext        (*Dialer).dialContext: under `d.TLS != nil` it returns d.connectTLS(…), and
//                                        connectTLS calls Handshake / HandshakeContext on tls.Client(conn, …)
//   dialerConnUsesDialContextResult      (*Dialer).connect: NewConnWith is given the first result of d.dialContext(…)
//   dialerFailedHandshakeCloses          connectTLS closes the raw conn when the handshake's error is not nil

import (
	"fmt"
	"go/ast"
	"go/parser"
	"go/token"
	"path/filepath"
	"sort"
	"strings"
)

func tlsFacts(repo string) (string, error) {
	fset := token.NewFileSet()
	parse := func(name string) (*ast.File, error) { return parser.ParseFile(fset, filepath.Join(repo, name), nil, 0) }
	df, err := parse("dialer.go")
	if err != nil {
		return "", err
	}
	tf, err := parse("transport.go")
	if err != nil {
		return "", err
	}
	txt := func(n ast.Node) string { return scramText(fset, n.(ast.Expr)) }
	find := func(f *ast.File, recv, name string) *ast.FuncDecl {
		for _, d := range f.Decls {
			fd, ok := d.(*ast.FuncDecl)
			if !ok || fd.Body == nil || fd.Name.Name != name {
				continue
			}
			r := ""
			if fd.Recv != nil && len(fd.Recv.List) == 1 {
				t := fd.Recv.List[0].Type
				if st, ok := t.(*ast.StarExpr); ok {
					t = st.X
				}
				if id, ok := t.(*ast.Ident); ok {
					r = id.Name
				}
			}
			if r == recv {
				return fd
			}
		}
		return nil
	}
	callee := func(c *ast.CallExpr) string {
		switch fn := c.Fun.(type) {
		case *ast.SelectorExpr:
			return txt(fn)
		case *ast.Ident:
			return fn.Name
		}
		return ""
	}
	facts := map[string]bool{"transportTlsWrapsBeforeProtocolConn": false, "dialerHandshakesInDialContext": false,
		"dialerConnUsesDialContextResult": false, "dialerFailedHandshakeCloses": false}

	// ---- transport
	if fd := find(tf, "connGroup", "connect"); fd != nil {
		var wrapVar string
		var wrapPos, newPos token.Pos
		newArg := ""
		ast.Inspect(fd.Body, func(n ast.Node) bool {
			switch x := n.(type) {
			case *ast.IfStmt:
				// `if cfg := …; cfg != nil { … x = tls.Client(x, cfg) }`
				if !strings.Contains(txt(x.Cond), "!= nil") {
					return true
				}
				ast.Inspect(x.Body, func(m ast.Node) bool {
					as, ok := m.(*ast.AssignStmt)
					if !ok || as.Tok != token.ASSIGN || len(as.Lhs) != 1 || len(as.Rhs) != 1 {
						return true
					}
					if c, ok := as.Rhs[0].(*ast.CallExpr); ok && callee(c) == "tls.Client" && len(c.Args) == 2 && txt(c.Args[0]) == txt(as.Lhs[0]) {
						wrapVar, wrapPos = txt(as.Lhs[0]), as.Pos()
					}
					return true
				})
			case *ast.CallExpr:
				if callee(x) == "protocol.NewConn" && len(x.Args) >= 1 && newPos == 0 {
					newArg, newPos = txt(x.Args[0]), x.Pos()
				}
			}
			return true
		})
		usedBetween := false
		ast.Inspect(fd.Body, func(n ast.Node) bool {
			if c, ok := n.(*ast.CallExpr); ok && wrapPos != 0 && c.Pos() > wrapPos && c.Pos() < newPos {
				if sel, ok := c.Fun.(*ast.SelectorExpr); ok && txt(sel.X) == wrapVar && (sel.Sel.Name == "Write" || sel.Sel.Name == "Read") {
					usedBetween = true
				}
			}
			return true
		})
		facts["transportTlsWrapsBeforeProtocolConn"] = wrapVar != "" && newArg == wrapVar && wrapPos < newPos && !usedBetween
	}

	// ---- dialer
	if fd := find(df, "Dialer", "dialContext"); fd != nil {
		ret := false
		ast.Inspect(fd.Body, func(n ast.Node) bool {
			is, ok := n.(*ast.IfStmt)
			if !ok || !strings.HasSuffix(txt(is.Cond), ".TLS != nil") {
				return true
			}
			ast.Inspect(is.Body, func(m ast.Node) bool {
				if r, ok := m.(*ast.ReturnStmt); ok && len(r.Results) == 1 {
					if c, ok := r.Results[0].(*ast.CallExpr); ok && strings.HasSuffix(callee(c), ".connectTLS") {
						ret = true
					}
				}
				return true
			})
			return true
		})
		hs, closes := false, false
		if ct := find(df, "Dialer", "connectTLS"); ct != nil {
			ps := []string{}
			for _, p := range ct.Type.Params.List {
				for _, nm := range p.Names {
					ps = append(ps, nm.Name)
				}
			}
			rawConn := ""
			if len(ps) >= 2 {
				rawConn = ps[1]
			}
			wrapped := ""
			ast.Inspect(ct.Body, func(n ast.Node) bool {
				switch x := n.(type) {
				case *ast.AssignStmt:
					if len(x.Rhs) == 1 && len(x.Lhs) == 1 {
						if c, ok := x.Rhs[0].(*ast.CallExpr); ok && callee(c) == "tls.Client" && len(c.Args) == 2 && txt(c.Args[0]) == rawConn {
							wrapped = txt(x.Lhs[0])
						}
					}
				case *ast.CallExpr:
					if sel, ok := x.Fun.(*ast.SelectorExpr); ok && wrapped != "" && txt(sel.X) == wrapped && strings.HasPrefix(sel.Sel.Name, "Handshake") {
						hs = true
					}
				case *ast.IfStmt:
					// `if err != nil { conn.Close() }` on the handshake's outcome
					if strings.HasSuffix(txt(x.Cond), "!= nil") {
						ast.Inspect(x.Body, func(m ast.Node) bool {
							if c, ok := m.(*ast.CallExpr); ok && callee(c) == rawConn+".Close" {
								closes = true
							}
							return true
						})
					}
				}
				return true
			})
		}
		facts["dialerHandshakesInDialContext"] = ret && hs
		facts["dialerFailedHandshakeCloses"] = closes
	}
	if fd := find(df, "Dialer", "connect"); fd != nil {
		dialVar, ok2 := "", false
		ast.Inspect(fd.Body, func(n ast.Node) bool {
			switch x := n.(type) {
			case *ast.AssignStmt:
				if len(x.Rhs) == 1 && len(x.Lhs) == 2 {
					if c, ok := x.Rhs[0].(*ast.CallExpr); ok && strings.HasSuffix(callee(c), ".dialContext") {
						dialVar = txt(x.Lhs[0])
					}
				}
			case *ast.CallExpr:
				if callee(x) == "NewConnWith" && len(x.Args) >= 1 && dialVar != "" && txt(x.Args[0]) == dialVar {
					ok2 = true
				}
			}
			return true
		})
		facts["dialerConnUsesDialContextResult"] = ok2
	}
	// ---- the third connection path: kafka.NewWriter(WriterConfig{Dialer: …}) converts the pre-0.4 Dialer into a Transport.
	// The security settings must be copied whatever the other settings are: `SASL: <dialer>.SASLMechanism` and
	// `TLS: <dialer>.TLS` as fields of the Transport literal, or as assignments that are not under any `if`
	// (seed C18-m11 copied both only when TLS was set: SASL without TLS went out unauthenticated).
	facts["newWriterCopiesSaslAndTlsUnconditionally"] = false
	if wf, err := parse("writer.go"); err == nil {
		if fd := find(wf, "", "NewWriter"); fd != nil {
			saslOK, tlsOK := false, false
			check := func(key string, val ast.Expr) {
				v := txt(val)
				if key == "SASL" && strings.HasSuffix(v, ".SASLMechanism") {
					saslOK = true
				}
				if key == "TLS" && strings.HasSuffix(v, ".TLS") {
					tlsOK = true
				}
			}
			var walk func(n ast.Node, underIf bool)
			walk = func(n ast.Node, underIf bool) {
				ast.Inspect(n, func(x ast.Node) bool {
					switch y := x.(type) {
					case *ast.IfStmt:
						if y.Init != nil {
							walk(y.Init, underIf)
						}
						walk(y.Body, true)
						if y.Else != nil {
							walk(y.Else, true)
						}
						return false
					case *ast.CompositeLit:
						if !underIf && strings.HasSuffix(txt(y.Type), "Transport") {
							for _, el := range y.Elts {
								if kv, ok := el.(*ast.KeyValueExpr); ok {
									check(txt(kv.Key), kv.Value)
								}
							}
						}
					case *ast.AssignStmt:
						if !underIf && len(y.Lhs) == 1 && len(y.Rhs) == 1 {
							if sel, ok := y.Lhs[0].(*ast.SelectorExpr); ok {
								check(sel.Sel.Name, y.Rhs[0])
							}
						}
					}
					return true
				})
			}
			walk(fd.Body, false)
			facts["newWriterCopiesSaslAndTlsUnconditionally"] = saslOK && tlsOK
		}
	}
	var names []string
	for k := range facts {
		names = append(names, k)
	}
	sort.Strings(names)
	var b strings.Builder
	b.WriteString("/-- where the dial paths put the TLS wrap (tlsfacts.go) -/\n")
	for _, k := range names {
		b.WriteString(fmt.Sprintf("def %s : Bool := %v\n", k, facts[k]))
	}
	return b.String(), nil
}
