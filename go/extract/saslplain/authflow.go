package main

import (
	"fmt"
	"go/ast"
	"go/parser"
	"go/printer"
	"go/token"
	"path/filepath"
	"strings"
)

// Symbolic execution of the two authenticateSASL functions (dialer.go, transport.go).
//
// The functions are straight-line code around four calls — handshake, Mechanism.Start, authenticate (in a loop),
// StateMachine.Next — whose outcomes are the only inputs.  A scenario fixes those outcomes; the walker follows the
// function's control flow (if / tagless switch / for / return, conditions over `err == nil`, `err != nil`,
// `errors.Is(err, io.EOF)`, `!completed`) and records the calls made and the value returned.  Nothing is matched
// by spelling except the four callee names; a switch rewritten as nested ifs, a renamed local or an extracted
// same-file helper give the same table.

type outcome struct {
	kind      string // ok | eof | err
	completed bool   // Next only
}

type flowState struct {
	fset      *token.FileSet
	file      *ast.File
	plan      map[string][]outcome // per callee role: outcomes in call order
	used      map[string]int
	errOf     map[string]string // variable → nil | eof | other
	boolOf    map[string]bool
	calls     []string
	ret       string
	done      bool
	steps     int
	unhandled []string
}

func roleOf(name string) string {
	switch name {
	case "saslHandshake", "saslHandshakeRoundTrip":
		return "hs"
	case "Start":
		return "start"
	case "saslAuthenticate", "saslAuthenticateRoundTrip":
		return "auth"
	case "Next":
		return "next"
	}
	return ""
}

func calleeName(c *ast.CallExpr) string {
	switch f := c.Fun.(type) {
	case *ast.SelectorExpr:
		return f.Sel.Name
	case *ast.Ident:
		return f.Name
	}
	return ""
}

func (s *flowState) str(n ast.Node) string {
	var b strings.Builder
	printer.Fprint(&b, s.fset, n)
	return strings.Join(strings.Fields(b.String()), " ")
}

// doCall consumes the next planned outcome of a role and binds the call's results.
func (s *flowState) doCall(c *ast.CallExpr, lhs []ast.Expr) {
	role := roleOf(calleeName(c))
	s.calls = append(s.calls, calleeName(c))
	i := s.used[role]
	s.used[role] = i + 1
	o := outcome{kind: "ok"}
	if i < len(s.plan[role]) {
		o = s.plan[role][i]
	}
	e := map[string]string{"ok": "nil", "eof": "eof", "err": "other"}[o.kind]
	if len(lhs) > 0 {
		if id, ok := lhs[len(lhs)-1].(*ast.Ident); ok {
			s.errOf[id.Name] = e
		}
		if role == "next" {
			if id, ok := lhs[0].(*ast.Ident); ok {
				s.boolOf[id.Name] = o.completed
			}
		}
	}
}

func (s *flowState) findRoleCall(n ast.Node) *ast.CallExpr {
	var found *ast.CallExpr
	ast.Inspect(n, func(x ast.Node) bool {
		if c, ok := x.(*ast.CallExpr); ok && found == nil && roleOf(calleeName(c)) != "" {
			found = c
			return false
		}
		return found == nil
	})
	return found
}

func (s *flowState) cond(e ast.Expr) (bool, bool) {
	switch x := e.(type) {
	case *ast.ParenExpr:
		return s.cond(x.X)
	case *ast.UnaryExpr:
		if x.Op == token.NOT {
			v, ok := s.cond(x.X)
			return !v, ok
		}
	case *ast.Ident:
		if v, ok := s.boolOf[x.Name]; ok {
			return v, true
		}
	case *ast.BinaryExpr:
		switch x.Op {
		case token.LAND, token.LOR:
			a, ok1 := s.cond(x.X)
			b, ok2 := s.cond(x.Y)
			if x.Op == token.LAND {
				return a && b, ok1 && ok2
			}
			return a || b, ok1 && ok2
		case token.EQL, token.NEQ:
			l, r := s.str(x.X), s.str(x.Y)
			if r == "nil" {
				if v, ok := s.errOf[l]; ok {
					return (v == "nil") == (x.Op == token.EQL), true
				}
			}
			if l == "nil" {
				if v, ok := s.errOf[r]; ok {
					return (v == "nil") == (x.Op == token.EQL), true
				}
			}
		}
	case *ast.CallExpr:
		if s.str(x.Fun) == "errors.Is" && len(x.Args) == 2 && s.str(x.Args[1]) == "io.EOF" {
			if v, ok := s.errOf[s.str(x.Args[0])]; ok {
				return v == "eof", true
			}
		}
	}
	s.unhandled = append(s.unhandled, "condition "+s.str(e))
	return false, false
}

func (s *flowState) block(list []ast.Stmt) {
	for _, st := range list {
		if s.done {
			return
		}
		s.stmt(st)
	}
}

func (s *flowState) simple(st ast.Stmt) {
	switch x := st.(type) {
	case *ast.AssignStmt:
		if len(x.Rhs) == 1 {
			if c, ok := x.Rhs[0].(*ast.CallExpr); ok && roleOf(calleeName(c)) != "" {
				s.doCall(c, x.Lhs)
				return
			}
			// `completed := false` and friends
			if id, ok := x.Lhs[0].(*ast.Ident); ok && len(x.Lhs) == 1 {
				switch s.str(x.Rhs[0]) {
				case "false":
					s.boolOf[id.Name] = false
				case "true":
					s.boolOf[id.Name] = true
				}
			}
		}
		if c := s.findRoleCall(x); c != nil && len(x.Rhs) != 1 {
			s.unhandled = append(s.unhandled, "call inside "+s.str(x))
		}
	case *ast.ExprStmt:
		if c, ok := x.X.(*ast.CallExpr); ok && roleOf(calleeName(c)) != "" {
			s.doCall(c, nil)
		}
	case *ast.DeclStmt:
	}
}

func (s *flowState) stmt(st ast.Stmt) {
	s.steps++
	if s.steps > 400 {
		s.done, s.ret = true, "<diverges>"
		return
	}
	switch x := st.(type) {
	case *ast.ReturnStmt:
		s.done = true
		if len(x.Results) == 0 {
			s.ret = ""
			return
		}
		r := x.Results[len(x.Results)-1]
		switch {
		case s.str(r) == "nil":
			s.ret = "nil"
		case strings.Contains(s.str(r), "SASLAuthenticationFailed"):
			s.ret = "SASLAuthenticationFailed"
		default:
			s.ret = "err"
		}
	case *ast.IfStmt:
		if x.Init != nil {
			s.simple(x.Init)
		}
		v, _ := s.cond(x.Cond)
		if v {
			s.block(x.Body.List)
		} else if x.Else != nil {
			switch e := x.Else.(type) {
			case *ast.BlockStmt:
				s.block(e.List)
			default:
				s.stmt(e)
			}
		}
	case *ast.SwitchStmt:
		if x.Init != nil {
			s.simple(x.Init)
		}
		if x.Tag != nil {
			s.unhandled = append(s.unhandled, "switch with a tag")
			return
		}
		var def *ast.CaseClause
		for _, cc := range x.Body.List {
			cl := cc.(*ast.CaseClause)
			if cl.List == nil {
				def = cl
				continue
			}
			hit := false
			for _, e := range cl.List {
				if v, _ := s.cond(e); v {
					hit = true
				}
			}
			if hit {
				s.block(cl.Body)
				return
			}
		}
		if def != nil {
			s.block(def.Body)
		}
	case *ast.ForStmt:
		if x.Init != nil {
			s.simple(x.Init)
		}
		for !s.done {
			if x.Cond != nil {
				if v, _ := s.cond(x.Cond); !v {
					break
				}
			}
			s.block(x.Body.List)
			if x.Post != nil && !s.done {
				s.simple(x.Post)
			}
			s.steps++
			if s.steps > 400 {
				s.done, s.ret = true, "<diverges>"
			}
		}
	case *ast.BlockStmt:
		s.block(x.List)
	default:
		s.simple(st)
	}
}

type scenario struct {
	name string
	plan map[string][]outcome
}

func authScenarios() []scenario {
	ok, eof, er := outcome{kind: "ok"}, outcome{kind: "eof"}, outcome{kind: "err"}
	more, done := outcome{kind: "ok"}, outcome{kind: "ok", completed: true}
	nerr := outcome{kind: "err"}
	nerrDone := outcome{kind: "err", completed: true} // a failing step that nevertheless reports completed
	return []scenario{
		{"hs:err", map[string][]outcome{"hs": {er}}},
		{"hs:eof", map[string][]outcome{"hs": {eof}}},
		{"hs:ok,start:err", map[string][]outcome{"hs": {ok}, "start": {er}}},
		{"hs:ok,start:ok,auth:eof", map[string][]outcome{"hs": {ok}, "start": {ok}, "auth": {eof}}},
		{"hs:ok,start:ok,auth:err", map[string][]outcome{"hs": {ok}, "start": {ok}, "auth": {er}}},
		{"hs:ok,start:ok,auth:ok,next:err", map[string][]outcome{"hs": {ok}, "start": {ok}, "auth": {ok}, "next": {nerr}}},
		{"hs:ok,start:ok,auth:ok,next:done", map[string][]outcome{"hs": {ok}, "start": {ok}, "auth": {ok}, "next": {done}}},
		{"hs:ok,start:ok,auth:ok,next:errdone", map[string][]outcome{"hs": {ok}, "start": {ok}, "auth": {ok}, "next": {nerrDone}}},
		{"hs:ok,start:ok,auth:ok,next:more,auth:ok,next:done", map[string][]outcome{"hs": {ok}, "start": {ok}, "auth": {ok, ok}, "next": {more, done}}},
		{"hs:ok,start:ok,auth:ok,next:more,auth:eof", map[string][]outcome{"hs": {ok}, "start": {ok}, "auth": {ok, eof}, "next": {more}}},
		{"hs:ok,start:ok,auth:ok,next:more,auth:ok,next:more,auth:ok,next:err", map[string][]outcome{"hs": {ok}, "start": {ok}, "auth": {ok, ok, ok}, "next": {more, more, nerr}}},
		{"hs:ok,start:ok,auth:ok,next:more,auth:ok,next:more,auth:ok,next:done", map[string][]outcome{"hs": {ok}, "start": {ok}, "auth": {ok, ok, ok}, "next": {more, more, done}}},
	}
}

// authFlowTable runs every scenario through func (recv) name of file and renders Lean list entries.
func authFlowTable(repo, file, recv, name string) ([]string, []string, error) {
	fset := token.NewFileSet()
	f, err := parser.ParseFile(fset, filepath.Join(repo, file), nil, 0)
	if err != nil {
		return nil, nil, err
	}
	var fd *ast.FuncDecl
	for _, d := range f.Decls {
		if x, ok := d.(*ast.FuncDecl); ok && x.Body != nil && x.Name.Name == name {
			r := ""
			if x.Recv != nil && len(x.Recv.List) == 1 {
				if st, ok := x.Recv.List[0].Type.(*ast.StarExpr); ok {
					if id, ok := st.X.(*ast.Ident); ok {
						r = id.Name
					}
				}
			}
			if r == recv {
				fd = x
			}
		}
	}
	if fd == nil {
		return nil, nil, fmt.Errorf("%s: func (%s) %s not found", file, recv, name)
	}
	var rows, unhandled []string
	for _, sc := range authScenarios() {
		s := &flowState{fset: fset, file: f, plan: sc.plan, used: map[string]int{}, errOf: map[string]string{}, boolOf: map[string]bool{}}
		s.block(fd.Body.List)
		if !s.done {
			s.ret = "<falls off>"
		}
		var roles []string
		for _, c := range s.calls {
			roles = append(roles, roleOf(c))
		}
		q := func(l []string) string {
			for i := range l {
				l[i] = fmt.Sprintf("%q", l[i])
			}
			return "[" + strings.Join(l, ", ") + "]"
		}
		rows = append(rows, fmt.Sprintf("(%s, %s, %q)", q(strings.Split(sc.name, ",")), q(roles), s.ret))
		unhandled = append(unhandled, s.unhandled...)
	}
	return rows, unhandled, nil
}
