package main

// scramfacts.go — shape facts of the SCRAM adaptor (sasl/scram/scram.go), read from the syntax tree only.
//
// The adaptor is a thin wrapper around a conversation object of xdg-go/scram: Start performs the first Step(""),
// Next performs Step(challenge) and reports the conversation's Done().  What C18 needs from it (Model/Auth.lean,
// `scramNext`): the completed flag IS the conversation's Done() evaluated AFTER the step on the broker's challenge,
// and an error of that step is returned (so a refused server signature makes the dial fail).  The facts are
// established by resolving identifiers through the function's assignments, so renaming variables, introducing
// temporaries or splitting the return do not change them.

import (
	"fmt"
	"go/ast"
	"go/parser"
	"go/printer"
	"go/token"
	"path/filepath"
	"sort"
	"strings"
)

// binding: an identifier stands for result #idx of a call, or for a plain expression
type scramBinding struct {
	expr ast.Expr
	idx  int
}

func scramBindings(fd *ast.FuncDecl) map[string]scramBinding {
	env := map[string]scramBinding{}
	ast.Inspect(fd.Body, func(n ast.Node) bool {
		as, ok := n.(*ast.AssignStmt)
		if !ok {
			return true
		}
		if len(as.Rhs) == 1 && len(as.Lhs) > 1 {
			for i, l := range as.Lhs {
				if id, ok := l.(*ast.Ident); ok && id.Name != "_" {
					env[id.Name] = scramBinding{as.Rhs[0], i}
				}
			}
		} else if len(as.Rhs) == len(as.Lhs) {
			for i, l := range as.Lhs {
				if id, ok := l.(*ast.Ident); ok && id.Name != "_" {
					env[id.Name] = scramBinding{as.Rhs[i], -1}
				}
			}
		}
		return true
	})
	return env
}

func scramResolve(env map[string]scramBinding, e ast.Expr) scramBinding {
	for i := 0; i < 8; i++ {
		switch x := e.(type) {
		case *ast.ParenExpr:
			e = x.X
			continue
		case *ast.Ident:
			if b, ok := env[x.Name]; ok {
				if b.idx >= 0 {
					return b
				}
				e = b.expr
				continue
			}
		}
		break
	}
	return scramBinding{e, -1}
}

// methodCall: e is a call <recv>.<name>(args)
func scramMethodCall(e ast.Expr, name string) (*ast.CallExpr, ast.Expr) {
	c, ok := e.(*ast.CallExpr)
	if !ok {
		return nil, nil
	}
	sel, ok := c.Fun.(*ast.SelectorExpr)
	if !ok || sel.Sel.Name != name {
		return nil, nil
	}
	return c, sel.X
}

func scramText(fset *token.FileSet, e ast.Expr) string {
	var b strings.Builder
	printer.Fprint(&b, fset, e)
	return b.String()
}

func mentions(e ast.Node, name string) bool {
	found := false
	ast.Inspect(e, func(n ast.Node) bool {
		if id, ok := n.(*ast.Ident); ok && id.Name == name {
			found = true
		}
		return true
	})
	return found
}

func scramFacts(repo string) (string, error) {
	fset := token.NewFileSet()
	f, err := parser.ParseFile(fset, filepath.Join(repo, "sasl", "scram", "scram.go"), nil, 0)
	if err != nil {
		return "", err
	}
	facts := map[string]bool{
		"scramNextCompletedIsDoneAfterStep": false,
		"scramNextReturnsStepError":         false,
		"scramNextStepsOnChallenge":         false,
		"scramNextReturnsStepOutput":        false,
		"scramStartStepsOnEmpty":            false,
		"scramStartReturnsStepError":        false,
	}
	for _, d := range f.Decls {
		fd, ok := d.(*ast.FuncDecl)
		if !ok || fd.Body == nil || fd.Recv == nil {
			continue
		}
		env := scramBindings(fd)
		// every Step call of the function
		var steps []*ast.CallExpr
		ast.Inspect(fd.Body, func(n ast.Node) bool {
			if c, _ := scramMethodCall(exprOf(n), "Step"); c != nil {
				steps = append(steps, c)
			}
			return true
		})
		var rets []*ast.ReturnStmt
		ast.Inspect(fd.Body, func(n ast.Node) bool {
			if r, ok := n.(*ast.ReturnStmt); ok && len(r.Results) == 3 {
				rets = append(rets, r)
			}
			return true
		})
		switch fd.Name.Name {
		case "Next":
			if len(steps) != 1 || len(rets) == 0 || fd.Type.Params == nil {
				continue
			}
			step := steps[0]
			_, stepRecv := scramMethodCall(step, "Step")
			// the challenge parameter: the []byte parameter
			chal := ""
			for _, p := range fd.Type.Params.List {
				if _, ok := p.Type.(*ast.ArrayType); ok && len(p.Names) == 1 {
					chal = p.Names[0].Name
				}
			}
			facts["scramNextStepsOnChallenge"] = chal != "" && len(step.Args) == 1 && mentions(scramResolve(env, step.Args[0]).expr, chal)
			allDone, allErr, allOut := true, true, true
			for _, r := range rets {
				b0 := scramResolve(env, r.Results[0])
				done, doneRecv := scramMethodCall(b0.expr, "Done")
				if !(done != nil && b0.idx < 0 && scramText(fset, doneRecv) == scramText(fset, stepRecv) && done.Pos() > step.End()) {
					allDone = false
				}
				b2 := scramResolve(env, r.Results[2])
				if !(b2.idx == 1 && b2.expr == ast.Expr(step)) {
					allErr = false
				}
				// the output: a conversion of result 0 of the step
				out := false
				ast.Inspect(r.Results[1], func(n ast.Node) bool {
					if e := exprOf(n); e != nil {
						if b := scramResolve(env, e); b.idx == 0 && b.expr == ast.Expr(step) {
							out = true
						}
					}
					return true
				})
				if !out {
					allOut = false
				}
			}
			facts["scramNextCompletedIsDoneAfterStep"] = allDone
			facts["scramNextReturnsStepError"] = allErr
			facts["scramNextReturnsStepOutput"] = allOut
		case "Start":
			if len(steps) != 1 {
				continue
			}
			step := steps[0]
			if len(step.Args) == 1 {
				if lit, ok := scramResolve(env, step.Args[0]).expr.(*ast.BasicLit); ok && lit.Value == `""` {
					facts["scramStartStepsOnEmpty"] = true
				}
			}
			// some return hands the step's error back, guarded by a test of that error
			ast.Inspect(fd.Body, func(n ast.Node) bool {
				is, ok := n.(*ast.IfStmt)
				if !ok {
					return true
				}
				be, ok := is.Cond.(*ast.BinaryExpr)
				if !ok || be.Op != token.NEQ {
					return true
				}
				b := scramResolve(env, be.X)
				if !(b.idx == 1 && b.expr == ast.Expr(step)) {
					return true
				}
				for _, st := range is.Body.List {
					if r, ok := st.(*ast.ReturnStmt); ok && len(r.Results) == 3 {
						if b2 := scramResolve(env, r.Results[2]); b2.idx == 1 && b2.expr == ast.Expr(step) {
							facts["scramStartReturnsStepError"] = true
						}
					}
				}
				return true
			})
		}
	}
	var names []string
	for k := range facts {
		names = append(names, k)
	}
	sort.Strings(names)
	var b strings.Builder
	b.WriteString("/-- shape facts of the SCRAM adaptor sasl/scram/scram.go (scramfacts.go) -/\n")
	for _, k := range names {
		b.WriteString(fmt.Sprintf("def %s : Bool := %v\n", k, facts[k]))
	}
	return b.String(), nil
}

func exprOf(n ast.Node) ast.Expr {
	if e, ok := n.(ast.Expr); ok {
		return e
	}
	return nil
}
