package main

// C10 — the lock-set access table.
//
// For the struct types listed in access_annotations.json (the documented goroutine-safe types of
// kafka-go and the helper structs reachable from them) this translator tabulates every syntactic
// read/write site of a field, anywhere in the (non-test, untagged) sources of the listed packages,
// together with
//   * the must-lockset at the site: Lock()/RLock() … Unlock()/RUnlock() brackets inside the function
//     (flow-sensitive walk, intersection at joins, `defer Unlock` = held to the end), plus the locks
//     every static caller holds ("caller holds" propagation, greatest fixpoint over the static call
//     graph; only for functions that cannot be entered from outside the package and are never used
//     as a value or started with `go`), plus the reviewed annotations;
//   * whether the access is a sync/atomic operation (atomic.* on &x.f, or a method of a sync.* /
//     atomic.* / annotated-atomic typed field);
//   * the phase: `ctor` while the object is a fresh local of its constructor (before the first `go`).
// It only parses and type-checks (go/parser, go/types, source importer); nothing is executed.
//
// Abstractions (all listed in docs/notes/C10.md): field identity aliasing (a lock or field is
// identified by Type.field, not by instance); element writes of a slice/map field count as writes of
// the field; taking the address of a field of an untracked non-sync type counts as a write; calls
// through interfaces and function values are not followed (their callees are analysed on their own,
// with the empty entry lockset unless all static callers hold more).

import (
	"encoding/json"
	"fmt"
	"go/ast"
	"go/build"
	"go/importer"
	"go/parser"
	"go/token"
	"go/types"
	"os"
	"path/filepath"
	"regexp"
	"sort"
	"strings"
)

func init() { extractors["accesses"] = extractAccesses }

type accAnnotations struct {
	Packages     []string                         `json:"packages"`
	TrackedTypes map[string]any                   `json:"tracked_types"`
	AtomicTypes  struct{ Types []string }         `json:"atomic_types"`
	UnsafePointeeTypes struct{ Types []string } `json:"unsafe_pointee_types"`
	LockAliases  []struct{ Expr, Is, Why string } `json:"lock_aliases"`
	ResultLocks  []struct {
		Callee string
		Result int
		Is     string
		Why    string
	} `json:"result_locks"`
	ClosureLocks []struct {
		Callee string
		Arg    int
		Holds  []string
		Why    string
	} `json:"closure_locks"`
	CallAcquires []struct {
		Callee string
		Holds  []string
		Why    string
	} `json:"call_acquires"`
	FuncHolds []struct {
		Func  string
		Holds []string
		Why   string
	} `json:"func_holds"`
	Tokens []struct {
		Field      string
		Token      string
		ConfinedTo []string `json:"confined_to"`
		// Scoped: the token is held only at the sites inside ConfinedTo; sites of the field elsewhere are
		// allowed but get no token — they have to be protected by real locks against the token-holding sites
		Scoped bool
		// Guard: the token stands for the closed-flag barrier on this mutex (guarded accesses under Guard while
		// !closed; the closing goroutine's access after its exclusive critical section of Guard that sets closed):
		// emitted as Gen.barrierTokens, the ordering claim is then derived from lock events (BarrierProtocol)
		Guard string
		Why   string
	} `json:"tokens"`
	CtorFuncs []struct {
		Func    string
		Callers []string
		Why     string
	} `json:"ctor_funcs"`
	Exclusions []struct {
		Finding string
		Field   string
		Func    string
		Why     string
	} `json:"exclusions"`
}

type lmode int

const (
	lExcl lmode = iota
	lShared
)

// symbolic lockset relative to the function's entry lockset
type lockset struct {
	added   map[string]lmode
	removed map[string]bool
	fresh   bool // true: the base is the empty set (goroutine / async closure), not the entry set
	// pub: expressions (local `x` or field path `w.enc`) whose pointee was handed to other goroutines on
	// SOME path to this point (may-information, union at joins): sync.Pool.Put(x), atomic.Value.Store(x), ch <- x
	pub map[string]pubInfo
}

type pubInfo struct {
	container string // "global:partitionsCache", "compress/zstd.Codec.encoderPool", "chan:<expr>"
	anyUse    bool   // Pool.Put: the object is no longer ours, any later use counts; otherwise only writes
	longLived bool   // the name is a field of a TRACKED struct (an object that lives across calls): retaining it matters
	direct    bool   // the name IS the address of the tracked field `container` (v := &x.f): uses are accesses of the field itself
	// guard (unsafe pointees, v := x.f with x.f e.g. a hash.Hash32): the locks held on every path on which the
	// name still refers to the field's pointee — the lockset at the assignment, updated by later lock / unlock
	// operations, met at joins only with the arms where the alias survives (path-sensitive in the alias fact:
	// `if v != nil { lock } else { v = pool.Get() }` leaves guard = {lock}).  Method calls through the name
	// are writes of pointee:<container> under the guard.
	guard *lockset
}

func newLS(fresh bool) *lockset {
	return &lockset{added: map[string]lmode{}, removed: map[string]bool{}, fresh: fresh, pub: map[string]pubInfo{}}
}
func (l *lockset) clone() *lockset {
	n := newLS(l.fresh)
	for k, v := range l.added {
		n.added[k] = v
	}
	for k := range l.removed {
		n.removed[k] = true
	}
	for k, v := range l.pub {
		if v.guard != nil {
			v.guard = v.guard.snapshot()
		}
		n.pub[k] = v
	}
	return n
}

// snapshot: the lock part only (no publication facts)
func (l *lockset) snapshot() *lockset {
	n := newLS(l.fresh)
	for k, v := range l.added {
		n.added[k] = v
	}
	for k := range l.removed {
		n.removed[k] = true
	}
	return n
}
func (l *lockset) lock(id string, m lmode) {
	l.added[id] = m
	delete(l.removed, id)
	for _, p := range l.pub {
		if p.guard != nil {
			p.guard.added[id] = m
			delete(p.guard.removed, id)
		}
	}
}
func (l *lockset) unlock(id string) {
	delete(l.added, id)
	l.removed[id] = true
	for _, p := range l.pub {
		if p.guard != nil {
			delete(p.guard.added, id)
			p.guard.removed[id] = true
		}
	}
}

// meet: must-information at a join
func meet(a, b *lockset) *lockset {
	n := newLS(a.fresh || b.fresh)
	for k, v := range a.added {
		if w, ok := b.added[k]; ok {
			if w == lShared {
				v = lShared
			}
			n.added[k] = v
		}
	}
	for k := range a.removed {
		n.removed[k] = true
	}
	for k := range b.removed {
		n.removed[k] = true
	}
	for k, v := range a.pub {
		if v.guard != nil {
			v.guard = v.guard.snapshot()
		}
		n.pub[k] = v
	}
	for k, v := range b.pub {
		if v.guard != nil {
			if u, both := a.pub[k]; both && u.guard != nil && u.container == v.container {
				v.guard = meet(u.guard, v.guard) // the alias holds on both arms: what is held on both
			} else {
				v.guard = v.guard.snapshot() // the alias holds on this arm only
			}
		}
		n.pub[k] = v
	}
	return n
}

type accRow struct {
	Field   string   `json:"field"`
	Write   bool     `json:"write"`
	Atomic  bool     `json:"atomic"`
	Locks   []string `json:"locks"` // "id" (exclusive) or "id:R" (shared); resolved after the fixpoint
	Phase   string   `json:"phase"`
	File    string   `json:"file"`
	Line    int      `json:"line"`
	Func    string   `json:"func"`
	Finding string   `json:"finding,omitempty"`
	Occ     int      `json:"occ"` // occurrence id in the program skeletons (= Access.site in Lean)
	ls      *lockset
	owner   *funcNode
	pos     token.Pos
	guarded bool // lockset = alias guard (path-sensitive in the alias fact): not re-derivable by the skeleton analysis
}

// closureInfo: how a function literal is run (recorded by the walker, used by the skeleton builder)
type closureInfo struct {
	name   string
	ls     *lockset // lockset it starts from (fresh = nothing assumed), annotation locks included
	owner  *funcNode
	annots []string // locks added by a closure_locks annotation
	sync   bool     // run by the enclosing code itself (immediately invoked, or by a callee that calls its parameter directly)
	pkg    *pkgInfo
	lit    *ast.FuncLit
	idx    int // skeleton number
}

type callEdge struct {
	caller *funcNode
	ls     *lockset
	spawn  bool
}

type funcNode struct {
	name      string // "Recv.method" or "func"; closures "outer$n"
	obj       *types.Func
	decl      *ast.FuncDecl
	pkg       *pkgInfo
	propagate bool
	edges     []callEdge
	entry     map[string]lmode // resolved entry lockset
	top       bool             // entry = ⊤ (not yet constrained)
	extra     []string         // func_holds annotation
}

type pkgInfo struct {
	dir   string // relative dir ("." for root)
	pkg   *types.Package
	info  *types.Info
	files []*ast.File
}

type accExtractor struct {
	repo          string
	fset          *token.FileSet
	ann           accAnnotations
	pkgs          []*pkgInfo
	tracked       map[*types.TypeName]string // type → display name
	atomicTy      map[string]bool
	unsafePointee map[string]bool       // field types whose pointee is not safe for concurrent use (annotation)
	copyVars      map[types.Object]bool // receivers / parameters of a struct VALUE type: a private copy per call
	funcs         map[*types.Func]*funcNode
	rows          []*accRow
	unresolved    []string
	copiedLocks   []string
	copiedSeen    map[string]bool
	usedAnn       map[string]bool
	nclosure      map[string]int
	methodsNamed  map[string][]*funcNode // declared methods by name (interface-call targets)
	chaEdges      int
	aliases       map[string]map[string]bool // "Type.field" (pointer-typed field) → tracked fields it may point to
	aliasWhy      []string
	ourPkgs       map[*types.Package]*pkgInfo
	trackedNames  map[string]bool
	confinedCache map[string]map[string]bool
	closures      map[token.Pos]*closureInfo
	lockVars      map[types.Object]string        // local *sync.Mutex variables → the mutex they point to
	putsParam     map[*types.Func]map[int]string // function → parameter index → pool it hands the argument to
	skLockOps     int                            // lock operations (on named mutexes) the skeleton builder translated
}

func (x *accExtractor) typeDisplay(tn *types.TypeName) string {
	if tn.Pkg() == nil {
		return tn.Name()
	}
	for _, p := range x.pkgs {
		if p.pkg.Path() == tn.Pkg().Path() {
			if p.dir == "." {
				return tn.Name()
			}
			return p.dir + "." + tn.Name()
		}
	}
	return tn.Pkg().Path() + "." + tn.Name()
}

func namedOf(t types.Type) *types.Named {
	for {
		switch u := t.(type) {
		case *types.Pointer:
			t = u.Elem()
		case *types.Named:
			return u
		case *types.Alias:
			t = types.Unalias(u)
		default:
			return nil
		}
	}
}

func isSyncType(t types.Type) bool {
	n := namedOf(t)
	if n == nil || n.Obj().Pkg() == nil {
		return false
	}
	p := n.Obj().Pkg().Path()
	return p == "sync" || p == "sync/atomic"
}

func isMutexType(t types.Type) (rw bool, ok bool) {
	n := namedOf(t)
	if n == nil || n.Obj().Pkg() == nil || n.Obj().Pkg().Path() != "sync" {
		return false, false
	}
	switch n.Obj().Name() {
	case "Mutex", "Locker":
		return false, true
	case "RWMutex":
		return true, true
	}
	return false, false
}

// ---------------------------------------------------------------------------------------------

func extractAccesses(repo, root string) error {
	x := &accExtractor{repo: repo, fset: token.NewFileSet(), tracked: map[*types.TypeName]string{}, atomicTy: map[string]bool{},
		funcs: map[*types.Func]*funcNode{}, usedAnn: map[string]bool{}, nclosure: map[string]int{},
		methodsNamed: map[string][]*funcNode{}, aliases: map[string]map[string]bool{}, ourPkgs: map[*types.Package]*pkgInfo{}, trackedNames: map[string]bool{}, closures: map[token.Pos]*closureInfo{}, lockVars: map[types.Object]string{}, putsParam: map[*types.Func]map[int]string{}}
	ab, err := os.ReadFile(filepath.Join(root, "go", "extract", "accesses", "access_annotations.json"))
	if err != nil {
		return err
	}
	if err := json.Unmarshal(ab, &x.ann); err != nil {
		return fmt.Errorf("access_annotations.json: %v", err)
	}
	if err := os.Chdir(repo); err != nil { // the source importer resolves module imports relative to cwd
		return err
	}
	// every listed package is type-checked on its own (the source importer supplies the dependencies, incl. its
	// own instances of the other listed packages): types and packages are therefore matched by path + name
	imp := importer.ForCompiler(x.fset, "source", nil)
	for _, dir := range x.ann.Packages {
		p, err := x.load(dir, imp)
		if err != nil {
			return fmt.Errorf("load %s: %v", dir, err)
		}
		x.pkgs = append(x.pkgs, p)
		x.ourPkgs[p.pkg] = p
	}
	for _, t := range x.ann.AtomicTypes.Types {
		x.atomicTy[t] = true
	}
	x.unsafePointee = map[string]bool{}
	x.copiedSeen = map[string]bool{}
	for _, t := range x.ann.UnsafePointeeTypes.Types {
		x.unsafePointee[t] = true
	}
	// receivers and parameters passed BY VALUE: a mutex inside is a fresh copy on every call
	x.copyVars = map[types.Object]bool{}
	for _, p := range x.pkgs {
		for _, f := range p.files {
			ast.Inspect(f, func(n ast.Node) bool {
				var lists []*ast.FieldList
				switch n := n.(type) {
				case *ast.FuncDecl:
					lists = append(lists, n.Recv, n.Type.Params)
				case *ast.FuncLit:
					lists = append(lists, n.Type.Params)
				}
				for _, fl := range lists {
					if fl == nil {
						continue
					}
					for _, fd := range fl.List {
						for _, nm := range fd.Names {
							if o := p.info.Defs[nm]; o != nil {
								if _, isStruct := o.Type().Underlying().(*types.Struct); isStruct {
									x.copyVars[o] = true
								}
							}
						}
					}
				}
				return true
			})
		}
	}
	// tracked types
	for grp, v := range x.ann.TrackedTypes {
		lst, ok := v.([]any)
		if !ok {
			continue
		}
		for _, nv := range lst {
			name := nv.(string)
			tn := x.lookupType(name)
			if tn == nil {
				return fmt.Errorf("tracked type %s (%s) not found in the tree", name, grp)
			}
			if _, ok := tn.Type().Underlying().(*types.Struct); !ok {
				return fmt.Errorf("tracked type %s is not a struct", name)
			}
			x.tracked[tn] = name
			x.trackedNames[name] = true
		}
	}
	// function nodes
	for _, p := range x.pkgs {
		for _, f := range p.files {
			for _, d := range f.Decls {
				fd, ok := d.(*ast.FuncDecl)
				if !ok || fd.Body == nil {
					continue
				}
				obj, _ := p.info.Defs[fd.Name].(*types.Func)
				if obj == nil {
					continue
				}
				fn := &funcNode{name: x.funcName(p, fd), obj: obj, decl: fd, pkg: p, top: true}
				// caller-holds propagation only for unexported names: an exported method, even of an unexported type,
				// can be entered from other packages through an interface
				fn.propagate = !ast.IsExported(fd.Name.Name)
				if fd.Name.Name == "init" || fd.Name.Name == "main" {
					fn.propagate = false
				}
				for _, a := range x.ann.FuncHolds {
					if globMatch(a.Func, fn.name) {
						fn.extra = append(fn.extra, a.Holds...)
						x.usedAnn["func_holds "+a.Func] = true
					}
				}
				x.funcs[obj] = fn
				if fd.Recv != nil {
					x.methodsNamed[fd.Name.Name] = append(x.methodsNamed[fd.Name.Name], fn)
				}
			}
		}
	}
	x.aliasPrepass()
	x.lockVarPrepass()
	x.poolPutPrepass()
	// walk every function body
	for _, p := range x.pkgs {
		for _, f := range p.files {
			for _, d := range f.Decls {
				fd, ok := d.(*ast.FuncDecl)
				if !ok || fd.Body == nil {
					continue
				}
				obj, _ := p.info.Defs[fd.Name].(*types.Func)
				fn := x.funcs[obj]
				if fn == nil {
					continue
				}
				w := &walker{x: x, p: p, fn: fn, fname: fn.name, ctor: map[types.Object]bool{}, deferred: map[string]lmode{}, firstGo: firstGoPos(fd.Body)}
				ls := newLS(false)
				if end, term := w.block(fd.Body.List, ls); !term {
					w.retained(end, fd.Body.Rbrace)
				}
			}
		}
	}
	x.fixpoint()
	x.resolveRows()
	return x.emit(root)
}

func recvTypeName(fd *ast.FuncDecl) string {
	t := fd.Recv.List[0].Type
	for {
		switch u := t.(type) {
		case *ast.StarExpr:
			t = u.X
		case *ast.IndexExpr:
			t = u.X
		case *ast.Ident:
			return u.Name
		default:
			return ""
		}
	}
}

func (x *accExtractor) funcName(p *pkgInfo, fd *ast.FuncDecl) string {
	n := fd.Name.Name
	if fd.Recv != nil {
		n = recvTypeName(fd) + "." + n
	}
	if p.dir != "." {
		n = p.dir + "." + n
	}
	return n
}

func globMatch(pat, s string) bool {
	re := "^" + strings.ReplaceAll(regexp.QuoteMeta(pat), `\*`, ".*") + "$"
	ok, _ := regexp.MatchString(re, s)
	return ok
}

func (x *accExtractor) lookupType(name string) *types.TypeName {
	dir, tname := ".", name
	if i := strings.LastIndex(name, "."); i >= 0 {
		dir, tname = name[:i], name[i+1:]
	}
	for _, p := range x.pkgs {
		if p.dir == dir {
			if tn, ok := p.pkg.Scope().Lookup(tname).(*types.TypeName); ok {
				return tn
			}
		}
	}
	return nil
}

func (x *accExtractor) load(dir string, imp types.Importer) (*pkgInfo, error) {
	abs := filepath.Join(x.repo, dir)
	ents, err := os.ReadDir(abs)
	if err != nil {
		return nil, err
	}
	ctxt := build.Default
	ctxt.BuildTags = nil
	var files []*ast.File
	for _, e := range ents {
		n := e.Name()
		if e.IsDir() || !strings.HasSuffix(n, ".go") || strings.HasSuffix(n, "_test.go") {
			continue
		}
		if ok, err := ctxt.MatchFile(abs, n); err != nil || !ok {
			continue
		}
		f, err := parser.ParseFile(x.fset, filepath.Join(abs, n), nil, parser.SkipObjectResolution)
		if err != nil {
			return nil, err
		}
		files = append(files, f)
	}
	info := &types.Info{Types: map[ast.Expr]types.TypeAndValue{}, Defs: map[*ast.Ident]types.Object{}, Uses: map[*ast.Ident]types.Object{},
		Selections: map[*ast.SelectorExpr]*types.Selection{}}
	var terrs []string
	conf := types.Config{Importer: imp, Error: func(err error) { terrs = append(terrs, err.Error()) }}
	path := "github.com/segmentio/kafka-go"
	if dir != "." {
		path += "/" + dir
	}
	pkg, _ := conf.Check(path, x.fset, files, info)
	if len(terrs) > 0 {
		return nil, fmt.Errorf("type errors: %s", strings.Join(terrs[:min(len(terrs), 5)], "; "))
	}
	return &pkgInfo{dir: dir, pkg: pkg, info: info, files: files}, nil
}

func firstGoPos(body *ast.BlockStmt) token.Pos {
	var pos token.Pos
	ast.Inspect(body, func(n ast.Node) bool {
		if g, ok := n.(*ast.GoStmt); ok && (pos == token.NoPos || g.Pos() < pos) {
			pos = g.Pos()
		}
		return true
	})
	return pos
}

// ---------------------------------------------------------------------------------------------
// the walker

type walker struct {
	x        *accExtractor
	p        *pkgInfo
	fn       *funcNode // the declared function whose entry lockset is the base
	fname    string    // display name (closures: outer$n)
	ctor     map[types.Object]bool
	deferred map[string]lmode // locks with a pending deferred unlock
	firstGo  token.Pos
}

type amode int

const (
	mRead amode = iota
	mWrite
	mAddr
)

// block walks statements in order; returns (lockset after, terminated)
func (w *walker) block(list []ast.Stmt, ls *lockset) (*lockset, bool) {
	for _, s := range list {
		var term bool
		ls, term = w.stmt(s, ls)
		if term {
			return ls, true
		}
	}
	return ls, false
}

func (w *walker) stmt(s ast.Stmt, ls *lockset) (*lockset, bool) {
	switch s := s.(type) {
	case nil:
		return ls, false
	case *ast.BlockStmt:
		return w.block(s.List, ls)
	case *ast.ExprStmt:
		w.expr(s.X, ls, mRead)
		if c, ok := s.X.(*ast.CallExpr); ok {
			if id, ok := c.Fun.(*ast.Ident); ok && id.Name == "panic" {
				return ls, true
			}
		}
		return ls, false
	case *ast.AssignStmt:
		for _, r := range s.Rhs {
			w.expr(r, ls, mRead)
		}
		for i, l := range s.Lhs {
			if s.Tok != token.ASSIGN && s.Tok != token.DEFINE {
				w.expr(l, ls, mRead)
			} else if k := exprKey(l); k != "" {
				delete(ls.pub, k) // overwritten: the name no longer refers to the published object
			}
			w.expr(l, ls, mWrite)
			if (s.Tok == token.DEFINE || s.Tok == token.ASSIGN) && len(s.Lhs) == len(s.Rhs) {
				// v := x.f with x.f a pointer field of a tracked type to an untracked struct (a configuration
				// object such as Transport.TLS that the CALLER owns and other pools/connections share): from
				// here on writes through v are writes to shared memory, until v is reassigned (v = v.Clone())
				if k := exprKey(l); k != "" && !strings.Contains(k, ".") {
					if c, ok := w.sharedPtrField(s.Rhs[i]); ok {
						ls.pub[k] = pubInfo{container: c, anyUse: false}
					} else if c, ok := w.addrOfTrackedField(s.Rhs[i]); ok {
						// v := &x.f — the address of a tracked field in a local: every later use of v (after the
						// lock was released, say) is an access of x.f with the lockset held THERE
						ls.pub[k] = pubInfo{container: c, anyUse: true, direct: true}
					} else if c, ok := w.unsafePointeeField(s.Rhs[i]); ok {
						// v := x.f with x.f an object that is not safe for concurrent use (hash.Hash32, io.Writer …)
						ls.pub[k] = pubInfo{container: c, guard: ls.snapshot()}
					}
				}
			}
			if s.Tok == token.DEFINE || s.Tok == token.ASSIGN {
				if id, ok := l.(*ast.Ident); ok && len(s.Lhs) == len(s.Rhs) && isFresh(s.Rhs[i]) {
					if o := w.p.info.Defs[id]; o != nil {
						w.ctor[o] = true
					} else if o := w.p.info.Uses[id]; o != nil && s.Tok == token.ASSIGN {
						w.ctor[o] = true
					}
				}
			}
		}
		return ls, false
	case *ast.IncDecStmt:
		w.expr(s.X, ls, mRead)
		w.expr(s.X, ls, mWrite)
		return ls, false
	case *ast.DeclStmt:
		if gd, ok := s.Decl.(*ast.GenDecl); ok {
			for _, sp := range gd.Specs {
				if vs, ok := sp.(*ast.ValueSpec); ok {
					for i, v := range vs.Values {
						w.expr(v, ls, mRead)
						if i < len(vs.Names) && isFresh(v) {
							if o := w.p.info.Defs[vs.Names[i]]; o != nil {
								w.ctor[o] = true
							}
						}
					}
				}
			}
		}
		return ls, false
	case *ast.ReturnStmt:
		for _, r := range s.Results {
			w.expr(r, ls, mRead)
		}
		w.retained(ls, s.Pos())
		return ls, true
	case *ast.BranchStmt:
		// break/continue/goto: leave the straight-line flow (treated like a terminator of this arm;
		// the join at the loop exit uses the loop-entry lockset, see ForStmt)
		return ls, s.Tok != token.FALLTHROUGH
	case *ast.IfStmt:
		ls, _ = w.stmt(s.Init, ls)
		w.expr(s.Cond, ls, mRead)
		a, ta := w.block(s.Body.List, ls.clone())
		var b *lockset
		tb := false
		if s.Else != nil {
			b, tb = w.stmt(s.Else, ls.clone())
		} else {
			b = ls
		}
		switch {
		case ta && tb:
			return ls, true
		case ta:
			return b, false
		case tb:
			return a, false
		}
		return meet(a, b), false
	case *ast.ForStmt:
		ls, _ = w.stmt(s.Init, ls)
		if s.Cond != nil {
			w.expr(s.Cond, ls, mRead)
		}
		// the body is analysed with the entry lockset met with one iteration's exit (two passes)
		body, _ := w.quiet(func(q *walker) (*lockset, bool) { return q.block(s.Body.List, ls.clone()) })
		in := meet(ls, body)
		out, _ := w.block(s.Body.List, in.clone())
		w.stmt(s.Post, out)
		if s.Cond == nil && !hasBreak(s.Body) {
			return in, true
		}
		return meet(in, out), false
	case *ast.RangeStmt:
		w.expr(s.X, ls, mRead)
		if s.Key != nil {
			w.expr(s.Key, ls, mWrite)
		}
		if s.Value != nil {
			w.expr(s.Value, ls, mWrite)
		}
		body, _ := w.quiet(func(q *walker) (*lockset, bool) { return q.block(s.Body.List, ls.clone()) })
		in := meet(ls, body)
		out, _ := w.block(s.Body.List, in.clone())
		return meet(in, out), false
	case *ast.SwitchStmt:
		ls, _ = w.stmt(s.Init, ls)
		if s.Tag != nil {
			w.expr(s.Tag, ls, mRead)
		}
		return w.clauses(s.Body, ls)
	case *ast.TypeSwitchStmt:
		ls, _ = w.stmt(s.Init, ls)
		ls, _ = w.stmt(s.Assign, ls)
		return w.clauses(s.Body, ls)
	case *ast.SelectStmt:
		return w.clauses(s.Body, ls)
	case *ast.LabeledStmt:
		return w.stmt(s.Stmt, ls)
	case *ast.SendStmt:
		w.expr(s.Chan, ls, mRead)
		w.expr(s.Value, ls, mRead)
		w.publish(s.Value, "chan:"+exprKey(s.Chan), false, ls)
		return ls, false
	case *ast.GoStmt:
		w.call(s.Call, ls, "go")
		return ls, false
	case *ast.DeferStmt:
		w.call(s.Call, ls, "defer")
		return ls, false
	case *ast.EmptyStmt:
		return ls, false
	}
	return ls, false
}

func hasBreak(b *ast.BlockStmt) bool {
	found := false
	ast.Inspect(b, func(n ast.Node) bool {
		switch n := n.(type) {
		case *ast.BranchStmt:
			if n.Tok == token.BREAK || n.Tok == token.GOTO {
				found = true
			}
		case *ast.ReturnStmt:
			_ = n
		case *ast.FuncLit:
			return false
		}
		return true
	})
	return found
}

// quiet runs f on a copy of the walker that records nothing (used for the first loop pass)
func (w *walker) quiet(f func(q *walker) (*lockset, bool)) (*lockset, bool) {
	q := *w
	qx := *w.x
	qx.rows = nil
	qx.funcs = map[*types.Func]*funcNode{} // call edges of the dry pass are dropped
	qx.usedAnn = map[string]bool{}
	qx.nclosure = map[string]int{}
	for k, v := range w.x.nclosure {
		qx.nclosure[k] = v
	}
	q.x = &qx
	q.ctor = map[types.Object]bool{}
	for k, v := range w.ctor {
		q.ctor[k] = v
	}
	q.deferred = map[string]lmode{}
	for k, v := range w.deferred {
		q.deferred[k] = v
	}
	return f(&q)
}

func (w *walker) clauses(body *ast.BlockStmt, ls *lockset) (*lockset, bool) {
	var outs []*lockset
	hasDefault := false
	for _, c := range body.List {
		var stmts []ast.Stmt
		in := ls.clone()
		switch c := c.(type) {
		case *ast.CaseClause:
			if c.List == nil {
				hasDefault = true
			}
			for _, e := range c.List {
				w.expr(e, in, mRead)
			}
			stmts = c.Body
		case *ast.CommClause:
			if c.Comm == nil {
				hasDefault = true
			}
			in, _ = w.stmt(c.Comm, in)
			stmts = c.Body
		}
		o, t := w.block(stmts, in)
		if !t {
			outs = append(outs, o)
		} else if len(stmts) > 0 {
			// `break` inside a switch/select arm leaves the switch, not the function
			if br, ok := stmts[len(stmts)-1].(*ast.BranchStmt); ok && br.Tok == token.BREAK && br.Label == nil {
				outs = append(outs, o)
			}
		}
	}
	_, isSelect := interface{}(body).(*ast.BlockStmt)
	_ = isSelect
	if !hasDefault {
		outs = append(outs, ls)
	}
	if len(outs) == 0 {
		return ls, true
	}
	r := outs[0]
	for _, o := range outs[1:] {
		r = meet(r, o)
	}
	return r, false
}

func isFresh(e ast.Expr) bool {
	switch e := e.(type) {
	case *ast.UnaryExpr:
		if e.Op == token.AND {
			_, ok := e.X.(*ast.CompositeLit)
			return ok
		}
	case *ast.CompositeLit:
		return true
	case *ast.CallExpr:
		if id, ok := e.Fun.(*ast.Ident); ok && id.Name == "new" {
			return true
		}
	case *ast.ParenExpr:
		return isFresh(e.X)
	}
	return false
}

// rootObj returns the variable at the root of a selector/index/star chain
func (w *walker) rootObj(e ast.Expr) types.Object {
	for {
		switch u := e.(type) {
		case *ast.Ident:
			return w.p.info.Uses[u]
		case *ast.SelectorExpr:
			e = u.X
		case *ast.IndexExpr:
			e = u.X
		case *ast.StarExpr:
			e = u.X
		case *ast.ParenExpr:
			e = u.X
		default:
			return nil
		}
	}
}

func (w *walker) record(field string, sel ast.Node, root ast.Expr, write, atomic bool, ls *lockset) {
	pos := w.x.fset.Position(sel.Pos())
	phase := "published"
	if o := w.rootObj(root); o != nil && w.ctor[o] && (w.firstGo == token.NoPos || sel.Pos() < w.firstGo) {
		phase = "ctor"
	}
	rel, _ := filepath.Rel(w.x.repo, pos.Filename)
	w.x.rows = append(w.x.rows, &accRow{Field: field, Write: write, Atomic: atomic, Phase: phase, File: rel, Line: pos.Line,
		Func: w.fname, ls: ls.clone(), owner: w.fn, pos: sel.Pos()})
}

func (w *walker) trackedStruct(t types.Type) (string, bool) {
	n := namedOf(t)
	if n == nil {
		return "", false
	}
	if name, ok := w.x.tracked[n.Obj()]; ok {
		return name, true
	}
	if n.Obj().Pkg() == nil {
		return "", false
	}
	d := w.x.typeDisplay(n.Obj())
	if w.x.trackedNames[d] {
		return d, true
	}
	return "", false
}

func (w *walker) isAtomicNamed(t types.Type) bool {
	if isSyncType(t) {
		return true
	}
	n := namedOf(t)
	if n == nil {
		return false
	}
	return w.x.atomicTy[w.x.typeDisplay(n.Obj())]
}

// selector handles x.f (field selections, possibly through embedded fields)
func (w *walker) selector(e *ast.SelectorExpr, ls *lockset, mode amode, atomic bool) {
	sel := w.p.info.Selections[e]
	if sel == nil || sel.Kind() != types.FieldVal {
		// qualified identifier or method value/expression
		if sel != nil {
			w.expr(e.X, ls, mRead)
		}
		return
	}
	// walk the implicit path
	t := sel.Recv()
	idx := sel.Index()
	viaPointer := false
	for i, k := range idx {
		st, ok := derefStruct(t)
		if !ok {
			break
		}
		f := st.Field(k)
		owner, tracked := w.trackedStruct(t)
		last := i == len(idx)-1
		if n := namedOf(t); n != nil && len(w.x.aliases) > 0 {
			// a pointer-typed field known to hold the address of a tracked field: any mention may go
			// through the pointer and mutate the target (conservative: a write of every possible target)
			for target := range w.x.aliases[w.x.typeDisplay(n.Obj())+"."+f.Name()] {
				w.record(target, e, e.X, true, false, ls)
			}
		}
		if tracked {
			fm, fa := mode, atomic
			if !last {
				// embedded step: a read of the embedded field (pointer) or a partial access (value)
				if _, isPtr := f.Type().(*types.Pointer); isPtr {
					fm, fa = mRead, false
				}
			}
			ft := f.Type()
			if _, isPtr := types.Unalias(ft).(*types.Pointer); w.isAtomicNamed(ft) && !(isPtr && isSyncType(ft)) {
				// a value field of a sync / atomic type is only touched through its methods; a POINTER to
				// a sync object (r.joinGen *sync.WaitGroup) is an ordinary word: `x.f = p` is a plain write
				fa = true
			}
			switch fm {
			case mAddr:
				// &x.f : no access for tracked struct / sync / atomic typed fields; otherwise a write
				if _, tr := w.trackedStruct(ft); tr {
					if _, isPtr := ft.(*types.Pointer); !isPtr {
						goto next
					}
				}
				if fa {
					w.record(owner+"."+f.Name(), e, e.X, true, true, ls)
				} else {
					w.record(owner+"."+f.Name(), e, e.X, true, false, ls)
				}
			case mWrite:
				w.record(owner+"."+f.Name(), e, e.X, true, fa, ls)
			default:
				w.record(owner+"."+f.Name(), e, e.X, false, fa, ls)
			}
		}
	next:
		_ = viaPointer
		t = f.Type()
	}
	if mode == mWrite {
		if c, ok := w.sharedPtrField(e.X); ok {
			w.pubRow(c, e.Pos(), ls) // x.f.g = … through the shared pointer x.f
		}
	}
	// the operand: a value-struct operand is accessed in the same mode, a pointer operand is read
	xm := mRead
	if xt := w.p.info.TypeOf(e.X); xt != nil {
		if _, isPtr := xt.Underlying().(*types.Pointer); !isPtr && mode != mRead {
			if _, isStruct := xt.Underlying().(*types.Struct); isStruct {
				xm = mode
				if xm == mAddr {
					xm = mRead
				}
			}
		}
	}
	if xm == mWrite {
		// partial write of an enclosing value struct field: only a read of the path is recorded
		// (the inner field row carries the write; both live under the same instance)
		xm = mRead
	}
	w.expr(e.X, ls, xm)
}

// valueFieldOf: e selects a non-pointer field of a tracked struct type (possibly through embedding);
// returns the owner's display name and the field name
func (w *walker) valueFieldOf(e *ast.SelectorExpr) (string, string, bool) {
	sel := w.p.info.Selections[e]
	if sel == nil || sel.Kind() != types.FieldVal {
		return "", "", false
	}
	t := sel.Recv()
	idx := sel.Index()
	for i, k := range idx {
		st, ok := derefStruct(t)
		if !ok {
			return "", "", false
		}
		f := st.Field(k)
		if i == len(idx)-1 {
			owner, tracked := w.trackedStruct(t)
			if _, isPtr := types.Unalias(f.Type()).(*types.Pointer); !tracked || isPtr {
				return "", "", false
			}
			return owner, f.Name(), true
		}
		t = f.Type()
	}
	return "", "", false
}

func derefStruct(t types.Type) (*types.Struct, bool) {
	if p, ok := t.Underlying().(*types.Pointer); ok {
		t = p.Elem()
	}
	st, ok := t.Underlying().(*types.Struct)
	return st, ok
}

func (w *walker) expr(e ast.Expr, ls *lockset, mode amode) {
	if len(ls.pub) > 0 && e != nil {
		w.pubUse(e, ls, mode)
	}
	switch e := e.(type) {
	case nil:
	case *ast.BasicLit:
	case *ast.Ident:
		w.global(e, ls, mode)
	case *ast.ParenExpr:
		w.expr(e.X, ls, mode)
	case *ast.SelectorExpr:
		w.selector(e, ls, mode, false)
	case *ast.StarExpr:
		w.expr(e.X, ls, mRead)
	case *ast.IndexExpr:
		// element write of a slice/map field counts as a write of the field
		w.expr(e.Index, ls, mRead)
		if mode == mWrite || mode == mAddr {
			if t := w.p.info.TypeOf(e.X); t != nil {
				switch t.Underlying().(type) {
				case *types.Map:
					w.expr(e.X, ls, mWrite)
					return
				case *types.Slice:
					if mode == mWrite {
						w.expr(e.X, ls, mWrite)
						return
					}
				}
			}
		}
		w.expr(e.X, ls, mRead)
	case *ast.IndexListExpr:
		w.expr(e.X, ls, mRead)
	case *ast.SliceExpr:
		w.expr(e.X, ls, mRead)
		w.expr(e.Low, ls, mRead)
		w.expr(e.High, ls, mRead)
		w.expr(e.Max, ls, mRead)
	case *ast.TypeAssertExpr:
		w.expr(e.X, ls, mRead)
	case *ast.UnaryExpr:
		if e.Op == token.AND {
			if _, ok := e.X.(*ast.CompositeLit); ok {
				w.expr(e.X, ls, mRead)
			} else {
				w.expr(e.X, ls, mAddr)
			}
			return
		}
		w.expr(e.X, ls, mRead)
	case *ast.BinaryExpr:
		w.expr(e.X, ls, mRead)
		w.expr(e.Y, ls, mRead)
	case *ast.KeyValueExpr:
		w.expr(e.Value, ls, mRead)
	case *ast.CompositeLit:
		owner, tracked := "", false
		if t := w.p.info.TypeOf(e); t != nil {
			owner, tracked = w.trackedStruct(t)
		}
		for _, el := range e.Elts {
			if kv, ok := el.(*ast.KeyValueExpr); ok {
				if id, ok := kv.Key.(*ast.Ident); ok && tracked {
					pos := w.x.fset.Position(kv.Pos())
					rel, _ := filepath.Rel(w.x.repo, pos.Filename)
					w.x.rows = append(w.x.rows, &accRow{Field: owner + "." + id.Name, Write: true, Phase: "ctor", File: rel, Line: pos.Line,
						Func: w.fname, ls: ls.clone(), owner: w.fn, pos: kv.Pos()})
				}
				w.expr(kv.Value, ls, mRead)
			} else {
				w.expr(el, ls, mRead)
			}
		}
	case *ast.FuncLit:
		// a function value that is not an immediate argument: analysed with the empty lockset
		w.closure(e, newLS(true))
	case *ast.CallExpr:
		w.call(e, ls, "")
	}
}

func (w *walker) closure(fl *ast.FuncLit, ls *lockset, annots ...string) {
	w.closureS(fl, ls, false, annots...)
}

func (w *walker) closureS(fl *ast.FuncLit, ls *lockset, sync bool, annots ...string) {
	base := w.fn.name
	w.x.nclosure[base]++
	q := &walker{x: w.x, p: w.p, fn: w.fn, fname: fmt.Sprintf("%s$%d", base, w.x.nclosure[base]), ctor: w.ctor, deferred: map[string]lmode{}, firstGo: w.firstGo}
	w.x.closures[fl.Pos()] = &closureInfo{name: q.fname, ls: ls.clone(), owner: w.fn, annots: annots, pkg: w.p, lit: fl, sync: sync}
	if ls.fresh {
		// a goroutine / stored function does not see the constructor's private phase
		q.ctor = map[types.Object]bool{}
	}
	q.block(fl.Body.List, ls)
}

// lockID renders the receiver expression of a Lock/Unlock call as Type.field
func (w *walker) lockID(recv ast.Expr) string {
	var parts []string
	e := recv
	if id, ok := recv.(*ast.Ident); ok {
		// a local *sync.Mutex variable: which mutex it points to was derived from its assignments (lockVars)
		if o := w.p.info.Uses[id]; o != nil {
			if l, ok := w.x.lockVars[o]; ok {
				return l
			}
		}
	}
	for {
		switch u := e.(type) {
		case *ast.ParenExpr:
			e = u.X
			continue
		case *ast.UnaryExpr:
			e = u.X
			continue
		case *ast.StarExpr:
			e = u.X
			continue
		case *ast.SelectorExpr:
			parts = append([]string{u.Sel.Name}, parts...)
			if t := w.p.info.TypeOf(u.X); t != nil {
				if n := namedOf(t); n != nil {
					if _, ok := n.Underlying().(*types.Struct); ok && n.Obj().Pkg() != nil && n.Obj().Pkg().Path() != "sync" {
						id := w.x.typeDisplay(n.Obj()) + "." + strings.Join(parts, ".")
						if w.copiedBase(u.X) {
							// h.lock with h a by-value receiver / parameter: every call locks ITS OWN copy of the
							// mutex — it excludes nobody (go vet copylocks).  Not a lock of the table.
							msg := fmt.Sprintf("%s: %s is reached through a by-value copy (value receiver / struct parameter): the lock protects nothing", w.x.fset.Position(recv.Pos()), id)
							if !w.x.copiedSeen[msg] {
								w.x.copiedSeen[msg] = true
								w.x.copiedLocks = append(w.x.copiedLocks, msg)
							}
							return ""
						}
						for _, a := range w.x.ann.LockAliases {
							if a.Expr == id {
								w.x.usedAnn["lock_alias "+a.Expr] = true
								return a.Is
							}
						}
						return id
					}
				}
			}
			e = u.X
			continue
		}
		return ""
	}
}

// copiedBase: e is a by-value receiver / parameter (or a chain of value fields below one)
func (w *walker) copiedBase(e ast.Expr) bool {
	for {
		switch u := e.(type) {
		case *ast.ParenExpr:
			e = u.X
			continue
		case *ast.SelectorExpr:
			if t := w.p.info.TypeOf(u.X); t != nil {
				if _, isPtr := t.Underlying().(*types.Pointer); isPtr {
					return false
				}
			}
			e = u.X
			continue
		case *ast.Ident:
			o := w.p.info.Uses[u]
			return o != nil && w.x.copyVars[o]
		}
		return false
	}
}

func (w *walker) calleeOf(c *ast.CallExpr) (*types.Func, ast.Expr) {
	switch f := c.Fun.(type) {
	case *ast.Ident:
		if o, ok := w.p.info.Uses[f].(*types.Func); ok {
			return o, nil
		}
	case *ast.SelectorExpr:
		if sel := w.p.info.Selections[f]; sel != nil {
			if sel.Kind() == types.MethodVal {
				if o, ok := sel.Obj().(*types.Func); ok {
					return o, f.X
				}
			}
			return nil, f.X
		}
		if o, ok := w.p.info.Uses[f.Sel].(*types.Func); ok { // pkg.Func
			return o, nil
		}
	}
	return nil, nil
}

func (w *walker) calleeName(o *types.Func) string {
	if fn := w.x.funcs[o]; fn != nil {
		return fn.name
	}
	if o.Pkg() != nil {
		sig := o.Type().(*types.Signature)
		if sig.Recv() != nil {
			if n := namedOf(sig.Recv().Type()); n != nil {
				return o.Pkg().Path() + "." + n.Obj().Name() + "." + o.Name()
			}
		}
		return o.Pkg().Path() + "." + o.Name()
	}
	return o.Name()
}

// paramOnlyCalled: is parameter #i of fn only ever called directly (outside closures/go/defer)?
func (w *walker) paramOnlyCalled(fn *funcNode, i int) bool {
	var params []*ast.Ident
	for _, f := range fn.decl.Type.Params.List {
		if len(f.Names) == 0 {
			params = append(params, nil)
		}
		params = append(params, f.Names...)
	}
	if i >= len(params) || params[i] == nil {
		return false
	}
	obj := fn.pkg.info.Defs[params[i]]
	ok := true
	var visit func(n ast.Node, inner bool)
	visit = func(n ast.Node, inner bool) {
		ast.Inspect(n, func(m ast.Node) bool {
			switch m := m.(type) {
			case *ast.FuncLit:
				if m != n {
					visit(m.Body, true)
					return false
				}
			case *ast.GoStmt:
				visit(m.Call, true)
				return false
			case *ast.DeferStmt:
				visit(m.Call, true)
				return false
			case *ast.CallExpr:
				if id, isId := m.Fun.(*ast.Ident); isId && fn.pkg.info.Uses[id] == obj {
					if inner {
						ok = false
					}
					for _, a := range m.Args {
						visit(a, inner)
					}
					return false
				}
			case *ast.Ident:
				if fn.pkg.info.Uses[m] == obj {
					ok = false
				}
			}
			return true
		})
	}
	visit(fn.decl.Body, false)
	return ok
}

var syncExternal = map[string]bool{"sync.Once.Do": true, "sort.Slice": true, "sort.SliceStable": true, "sort.Sort": true, "sort.Search": true, "strings.Map": true}

func (w *walker) call(c *ast.CallExpr, ls *lockset, kind string) {
	callee, recv := w.calleeOf(c)
	// builtins
	if id, ok := c.Fun.(*ast.Ident); ok && callee == nil {
		if _, isBuiltin := w.p.info.Uses[id].(*types.Builtin); isBuiltin {
			switch id.Name {
			case "delete":
				if len(c.Args) > 0 {
					w.expr(c.Args[0], ls, mWrite)
					for _, a := range c.Args[1:] {
						w.expr(a, ls, mRead)
					}
				}
				return
			case "new", "make":
				for _, a := range c.Args[1:] {
					w.expr(a, ls, mRead)
				}
				return
			}
			for _, a := range c.Args {
				w.expr(a, ls, mRead)
			}
			return
		}
	}
	// immediately invoked function literal
	if fl, ok := c.Fun.(*ast.FuncLit); ok {
		for _, a := range c.Args {
			w.expr(a, ls, mRead)
		}
		switch kind {
		case "go":
			w.closure(fl, newLS(true))
		case "defer":
			w.closure(fl, newLS(true))
		default:
			w.closureS(fl, ls.clone(), true)
		}
		return
	}
	name := ""
	if callee != nil {
		name = w.calleeName(callee)
	}
	// mutex operations
	if callee != nil && recv != nil && callee.Pkg() != nil && callee.Pkg().Path() == "sync" {
		if _, isMu := isMutexType(w.p.info.TypeOf(recv)); isMu {
			id := w.lockID(recv)
			w.expr(recv, ls, mRead) // sync-typed field: atomic row
			switch callee.Name() {
			case "Lock", "RLock":
				m := lExcl
				if callee.Name() == "RLock" {
					m = lShared
				}
				if id == "" {
					w.x.unresolved = append(w.x.unresolved, fmt.Sprintf("%s: %s of an unnamed lock", w.x.fset.Position(c.Pos()), callee.Name()))
				} else if kind == "" {
					ls.lock(id, m)
				}
			case "Unlock", "RUnlock":
				if id == "" {
					w.x.unresolved = append(w.x.unresolved, fmt.Sprintf("%s: %s of an unnamed lock (ignored)", w.x.fset.Position(c.Pos()), callee.Name()))
				} else if kind == "defer" {
					if m, held := ls.added[id]; held {
						w.deferred[id] = m
					}
				} else if kind == "" {
					ls.unlock(id)
				}
			}
			return
		}
	}
	// sync.WaitGroup reuse contract ("calls with a positive delta that occur when the counter is zero
	// must happen before a Wait"): Add/Go of a WaitGroup VALUE field of a tracked type is a write, Wait a
	// read, of the virtual field T.f/reuse; Done is not recorded (it never starts from zero). Add ∥ Wait
	// without a common lock (or a recorded ordering token) is then rejected like any other pair.
	if callee != nil && recv != nil && callee.Pkg() != nil && callee.Pkg().Path() == "sync" {
		if n := namedOf(w.p.info.TypeOf(recv)); n != nil && n.Obj().Name() == "WaitGroup" {
			re := recv
			for {
				pe, ok := re.(*ast.ParenExpr)
				if !ok {
					break
				}
				re = pe.X
			}
			if se, ok := re.(*ast.SelectorExpr); ok {
				if owner, fname, ok := w.valueFieldOf(se); ok {
					switch callee.Name() {
					case "Add", "Go":
						w.record(owner+"."+fname+"/reuse", se, se.X, true, false, ls)
					case "Wait":
						w.record(owner+"."+fname+"/reuse", se, se.X, false, false, ls)
					}
				}
			}
		}
	}
	// sync/atomic functions on &x.f
	if callee != nil && callee.Pkg() != nil && callee.Pkg().Path() == "sync/atomic" && recv == nil {
		for i, a := range c.Args {
			if u, ok := a.(*ast.UnaryExpr); ok && i == 0 && u.Op == token.AND {
				if se, ok := u.X.(*ast.SelectorExpr); ok {
					write := !strings.HasPrefix(callee.Name(), "Load")
					if write {
						w.selector(se, ls, mWrite, true)
					} else {
						w.selector(se, ls, mRead, true)
					}
					continue
				}
			}
			w.expr(a, ls, mRead)
		}
		return
	}
	w.pointeeUses(c, recv, ls)
	// receiver / function expression
	recvMode := mRead
	if callee != nil && recv != nil {
		// pointer-receiver method on an addressable value field of an untracked, non-sync struct type:
		// the method may mutate the field in place
		sig := callee.Type().(*types.Signature)
		if sig.Recv() != nil {
			if _, ptrRecv := sig.Recv().Type().(*types.Pointer); ptrRecv {
				if rt := w.p.info.TypeOf(recv); rt != nil {
					if _, isPtr := rt.Underlying().(*types.Pointer); !isPtr {
						recvMode = mAddr
					}
				}
			}
		}
	}
	switch f := c.Fun.(type) {
	case *ast.SelectorExpr:
		if sel := w.p.info.Selections[f]; sel != nil && sel.Kind() == types.FieldVal {
			w.expr(f, ls, mRead) // calling a function-typed field reads the field
		} else if recv != nil {
			w.expr(recv, ls, recvMode)
		}
	default:
		w.expr(c.Fun, ls, mRead)
	}
	// arguments; function literals get the lockset the callee runs them under
	fn := w.x.funcs[callee]
	for i, a := range c.Args {
		fl, isLit := a.(*ast.FuncLit)
		if !isLit {
			// method value passed as an argument: the method is used as a value
			w.noteFuncValue(a)
			w.expr(a, ls, mRead)
			continue
		}
		var cls *lockset
		isSync := false
		switch {
		case kind == "go":
			cls = newLS(true)
		case kind == "defer":
			cls = newLS(true) // deferred: runs at return, nothing assumed
		case fn != nil && w.paramOnlyCalled(fn, i):
			cls, isSync = ls.clone(), true
		case fn == nil && syncExternal[name]:
			cls, isSync = ls.clone(), true
		default:
			cls = newLS(true)
		}
		var annots []string
		for _, an := range w.x.ann.ClosureLocks {
			if an.Callee == name && an.Arg == i {
				for _, h := range an.Holds {
					cls.lock(h, lExcl)
					annots = append(annots, h)
				}
				w.x.usedAnn[fmt.Sprintf("closure_locks %s#%d", an.Callee, an.Arg)] = true
			}
		}
		w.closureS(fl, cls, isSync, annots...)
	}
	// publication of a pointer-like value: from here on its pointee is shared with other goroutines
	if kind == "" && len(c.Args) == 1 && callee != nil && recv != nil {
		switch name {
		case "sync.Pool.Put":
			w.publish(c.Args[0], w.containerName(recv), true, ls)
		case "sync/atomic.Value.Store", "sync/atomic.Pointer.Store":
			w.publish(c.Args[0], w.containerName(recv), false, ls)
		}
	}
	// a package-local helper that hands its parameter to a sync.Pool (releaseBuffer(b)): the call publishes the argument
	if kind == "" && callee != nil {
		for i, pool := range w.x.putsParam[callee] {
			if i < len(c.Args) {
				w.publish(c.Args[i], pool, true, ls)
			}
		}
	}
	// interface method call: every declared method of that name whose receiver type implements the
	// interface may be the callee (class-hierarchy approximation) and gets a call edge with this lockset
	if fn == nil && callee != nil && recv != nil {
		if rt := w.p.info.TypeOf(recv); rt != nil {
			if iface, isIface := rt.Underlying().(*types.Interface); isIface {
				for _, cand := range w.x.methodsNamed[callee.Name()] {
					rtype := cand.obj.Type().(*types.Signature).Recv().Type()
					if types.Implements(rtype, iface) || types.Implements(types.NewPointer(rtype), iface) {
						w.x.chaEdges++
						switch kind {
						case "go":
							cand.edges = append(cand.edges, callEdge{caller: w.fn, ls: newLS(true), spawn: true})
						case "defer":
							cand.edges = append(cand.edges, callEdge{caller: w.fn, ls: newLS(true)})
						default:
							cand.edges = append(cand.edges, callEdge{caller: w.fn, ls: ls.clone()})
						}
					}
				}
			}
		}
	}
	// call edge
	if fn != nil {
		switch kind {
		case "go":
			fn.edges = append(fn.edges, callEdge{caller: w.fn, ls: newLS(true), spawn: true})
		case "defer":
			fn.edges = append(fn.edges, callEdge{caller: w.fn, ls: newLS(true)})
		default:
			fn.edges = append(fn.edges, callEdge{caller: w.fn, ls: ls.clone()})
		}
	}
	// locks the callee hands to the caller
	if kind == "" {
		for _, an := range w.x.ann.CallAcquires {
			if an.Callee == name {
				for _, h := range an.Holds {
					ls.lock(h, lExcl)
				}
				w.x.usedAnn["call_acquires "+an.Callee] = true
			}
		}
	}
}

// deferredLS: what is still held when deferred calls run = the locks with a pending deferred unlock
func (w *walker) deferredLS(ls *lockset) *lockset {
	n := newLS(ls.fresh)
	for k, m := range w.deferred {
		if _, ok := ls.added[k]; ok {
			n.added[k] = m
		}
	}
	for k := range ls.removed {
		n.removed[k] = true
	}
	// entry locks survive too (they are the caller's)
	return n
}

// noteFuncValue: a declared function or method used as a value is callable from anywhere
func (w *walker) noteFuncValue(e ast.Expr) {
	switch f := e.(type) {
	case *ast.Ident:
		if o, ok := w.p.info.Uses[f].(*types.Func); ok {
			if fn := w.x.funcs[o]; fn != nil {
				fn.propagate = false
			}
		}
	case *ast.SelectorExpr:
		if sel := w.p.info.Selections[f]; sel != nil && sel.Kind() != types.FieldVal {
			if o, ok := sel.Obj().(*types.Func); ok {
				if fn := w.x.funcs[o]; fn != nil {
					fn.propagate = false
				}
			}
		}
	}
}

// ---------------------------------------------------------------------------------------------
// caller-holds propagation

// eff: entry lockset ∪ func_holds annotation
func (fn *funcNode) eff() map[string]lmode {
	if len(fn.extra) == 0 {
		return fn.entry
	}
	r := map[string]lmode{}
	for k, v := range fn.entry {
		r[k] = v
	}
	for _, h := range fn.extra {
		r[h] = lExcl
	}
	return r
}

func evalLS(ls *lockset, entry map[string]lmode) map[string]lmode {
	r := map[string]lmode{}
	if !ls.fresh {
		for k, m := range entry {
			if !ls.removed[k] {
				r[k] = m
			}
		}
	}
	for k, m := range ls.added {
		r[k] = m
	}
	return r
}

func (x *accExtractor) fixpoint() {
	// function values assigned anywhere (not only call arguments) also disable propagation
	for _, p := range x.pkgs {
		for _, f := range p.files {
			ast.Inspect(f, func(n ast.Node) bool {
				switch n := n.(type) {
				case *ast.AssignStmt:
					for _, r := range n.Rhs {
						x.noteValueUse(p, r)
					}
				case *ast.KeyValueExpr:
					x.noteValueUse(p, n.Value)
				case *ast.ReturnStmt:
					for _, r := range n.Results {
						x.noteValueUse(p, r)
					}
				}
				return true
			})
		}
	}
	for _, fn := range x.funcs {
		if !fn.propagate || len(fn.edges) == 0 {
			fn.top, fn.entry = false, map[string]lmode{}
		}
		for _, e := range fn.edges {
			if e.spawn {
				fn.top, fn.entry = false, map[string]lmode{}
			}
		}
	}
	for changed := true; changed; {
		changed = false
		for _, fn := range x.funcs {
			if !fn.propagate || len(fn.edges) == 0 {
				continue
			}
			var acc map[string]lmode
			first := true
			for _, e := range fn.edges {
				if e.caller.top && !e.ls.fresh {
					continue // ⊤ caller: no constraint yet
				}
				v := evalLS(e.ls, e.caller.eff())
				if first {
					acc, first = v, false
					continue
				}
				for k := range acc {
					if m2, ok := v[k]; !ok {
						delete(acc, k)
					} else if m2 == lShared {
						acc[k] = lShared
					}
				}
			}
			if first {
				continue
			}
			if fn.top || !sameLS(acc, fn.entry) {
				fn.top, fn.entry, changed = false, acc, true
			}
		}
	}
	for _, fn := range x.funcs {
		if fn.top { // only reachable through ⊤ cycles: unreachable code, be conservative
			fn.top, fn.entry = false, map[string]lmode{}
		}
	}
}

func (x *accExtractor) noteValueUse(p *pkgInfo, e ast.Expr) {
	w := &walker{x: x, p: p}
	w.noteFuncValue(e)
}

func sameLS(a, b map[string]lmode) bool {
	if len(a) != len(b) {
		return false
	}
	for k, v := range a {
		if w, ok := b[k]; !ok || w != v {
			return false
		}
	}
	return true
}

func (x *accExtractor) resolveRows() {
	for _, r := range x.rows {
		held := evalLS(r.ls, r.owner.eff())
		// tokens
		for _, t := range x.ann.Tokens {
			if !globMatch(t.Field, r.Field) {
				continue
			}
			if t.Scoped {
				base := r.Func
				if i := strings.Index(base, "$"); i >= 0 {
					base = base[:i]
				}
				in := false
				for _, c := range t.ConfinedTo {
					in = in || globMatch(c, base)
				}
				if !in || (r.ls.fresh && base != r.Func) { // not in scope; goroutine closures never are
					continue
				}
			}
			held[t.Token] = lExcl
			x.usedAnn["token "+t.Field] = true
		}
		for _, cf := range x.ann.CtorFuncs {
			if r.Func == cf.Func && !r.ls.fresh {
				r.Phase = "ctor"
				x.usedAnn["ctor_func "+cf.Func] = true
			}
		}
		var ids []string
		for k, m := range held {
			if m == lShared {
				k += ":R"
			}
			ids = append(ids, k)
		}
		sort.Strings(ids)
		r.Locks = ids
		for _, ex := range x.ann.Exclusions {
			if globMatch(ex.Field, r.Field) && globMatch(ex.Func, r.Func) {
				r.Finding = ex.Finding
			}
		}
	}
}

// ---------------------------------------------------------------------------------------------
// emission

func rowConflict(a, b *accRow) bool {
	return a.Field == b.Field && (a.Write || b.Write) && !(a.Atomic && b.Atomic) && a.Phase == "published" && b.Phase == "published"
}

func rowShares(a, b *accRow) bool {
	for _, h := range a.Locks {
		for _, k := range b.Locks {
			hm, km := strings.TrimSuffix(h, ":R"), strings.TrimSuffix(k, ":R")
			if hm == km && !(strings.HasSuffix(h, ":R") && strings.HasSuffix(k, ":R")) {
				return true
			}
		}
	}
	return false
}

func (x *accExtractor) emit(root string) error {
	// token confinement: every published access of a token-protected field must sit in a listed function
	var confinement []string
	for _, t := range x.ann.Tokens {
		if t.Scoped {
			continue
		}
		for _, r := range x.rows {
			if !globMatch(t.Field, r.Field) || r.Phase == "ctor" {
				continue
			}
			base := r.Func
			if i := strings.Index(base, "$"); i >= 0 {
				base = base[:i]
			}
			ok := x.confined(t.ConfinedTo)[base]
			if !ok {
				confinement = append(confinement, fmt.Sprintf("%s accessed in %s (%s:%d), outside the functions the token %s is confined to", r.Field, r.Func, r.File, r.Line, t.Token))
			}
		}
	}
	for _, cf := range x.ann.CtorFuncs {
		for _, fn := range x.funcs {
			if fn.name != cf.Func {
				continue
			}
			for _, e := range fn.edges {
				ok := false
				for _, c := range cf.Callers {
					ok = ok || c == e.caller.name
				}
				if !ok {
					confinement = append(confinement, fmt.Sprintf("%s is annotated as running before publication but is also called from %s", cf.Func, e.caller.name))
				}
			}
		}
	}
	// translation completeness (R1): every selector expression that selects a field of a tracked struct type, anywhere
	// in the analysed sources, must have produced a row at its position
	rowPos := map[token.Pos]bool{}
	for _, r := range x.rows {
		rowPos[r.pos] = true
	}
	var missed []string
	for _, p := range x.pkgs {
		w := &walker{x: x, p: p}
		for _, f := range p.files {
			ast.Inspect(f, func(n ast.Node) bool {
				switch n := n.(type) {
				case *ast.SelectorExpr:
					sel := p.info.Selections[n]
					if sel == nil || sel.Kind() != types.FieldVal {
						return true
					}
					t := sel.Recv()
					idx := sel.Index()
					for _, k := range idx[:len(idx)-1] {
						st, ok := derefStruct(t)
						if !ok {
							return true
						}
						t = st.Field(k).Type()
					}
					if _, tracked := w.trackedStruct(t); tracked && !rowPos[n.Pos()] {
						ft := sel.Obj().Type()
						if _, tr := w.trackedStruct(ft); tr {
							if _, isPtr := ft.(*types.Pointer); !isPtr {
								return true // &x.f / x.f.g of a tracked value struct: the inner field carries the row
							}
						}
						missed = append(missed, fmt.Sprintf("%s: field selection %s.%s without a row", x.fset.Position(n.Pos()), n.Sel.Name, ""))
					}
				}
				return true // (a function literal the walker never saw, e.g. a package-level sync.Pool New function, is
				// covered through its selectors: they would be missing rows)
			})
		}
	}
	sort.Strings(missed)
	// every Lock/RLock/Unlock/RUnlock call on a mutex the extractor can name must have been translated into a skeleton
	srcLockOps := 0
	for _, p := range x.pkgs {
		w := &walker{x: x, p: p}
		for _, f := range p.files {
			var cur *funcNode
			ast.Inspect(f, func(n ast.Node) bool {
				if fd, ok := n.(*ast.FuncDecl); ok {
					if o, _ := p.info.Defs[fd.Name].(*types.Func); o != nil {
						cur = x.funcs[o]
					}
				}
				c, ok := n.(*ast.CallExpr)
				if !ok {
					return true
				}
				callee, recv := w.calleeOf(c)
				if callee == nil || recv == nil || callee.Pkg() == nil || callee.Pkg().Path() != "sync" {
					return true
				}
				if _, isMu := isMutexType(p.info.TypeOf(recv)); !isMu {
					return true
				}
				w.fn = cur
				if w.lockID(recv) != "" {
					srcLockOps++
				}
				return true
			})
		}
	}
	// dedupe identical rows at the same site
	seen := map[string]bool{}
	var rows []*accRow
	for _, r := range x.rows {
		k := fmt.Sprintf("%s|%v|%v|%s|%s|%s|%d|%s", r.Field, r.Write, r.Atomic, strings.Join(r.Locks, ","), r.Phase, r.File, r.Line, r.Func)
		if !seen[k] {
			seen[k] = true
			rows = append(rows, r)
		}
	}
	sort.SliceStable(rows, func(i, j int) bool {
		if rows[i].Field != rows[j].Field {
			return rows[i].Field < rows[j].Field
		}
		if rows[i].File != rows[j].File {
			return rows[i].File < rows[j].File
		}
		return rows[i].Line < rows[j].Line
	})
	fieldID, lockIDs := map[string]int{}, map[string]int{}
	var fields, locks, sites []string
	id := func(m map[string]int, l *[]string, k string) int {
		if v, ok := m[k]; ok {
			return v
		}
		m[k] = len(*l)
		*l = append(*l, k)
		return m[k]
	}
	// all fields of tracked types get an id (also the never-accessed ones) — sorted for stable output
	for _, r := range rows {
		id(fieldID, &fields, r.Field)
	}
	type pair struct{ A, B *accRow }
	var racy []pair
	byField := map[string][]*accRow{}
	for _, r := range rows {
		byField[r.Field] = append(byField[r.Field], r)
	}
	for _, f := range fields {
		g := byField[f]
		for i, a := range g {
			for _, b := range g[i:] {
				if a.Finding == "" && b.Finding == "" && rowConflict(a, b) && !rowShares(a, b) {
					racy = append(racy, pair{a, b})
				}
			}
		}
	}
	var sb strings.Builder
	sb.WriteString("/-\nGen/Accesses.lean — GENERATED by go/extract/accesses/accesses.go from the working tree of kafka-go. DO NOT EDIT.\n")
	sb.WriteString("The lock-set access table of the goroutine-safe types (C10), grouped by field.\n-/\nimport KafkaVerif.Model.Lockset\n\nnamespace KV.Gen\nopen KV.Lockset\n\n")
	render := func(r *accRow) string {
		var hs []string
		for _, l := range r.Locks {
			mode := ".excl"
			if strings.HasSuffix(l, ":R") {
				mode = ".shared"
				l = strings.TrimSuffix(l, ":R")
			}
			hs = append(hs, fmt.Sprintf("⟨%d, %s⟩", id(lockIDs, &locks, l), mode))
		}
		site := fmt.Sprintf("%s:%d %s", r.File, r.Line, r.Func)
		for len(sites) <= r.Occ {
			sites = append(sites, "")
		}
		sites[r.Occ] = site
		ph := ".published"
		if r.Phase == "ctor" {
			ph = ".ctor"
		}
		return fmt.Sprintf("{ field := %d, write := %v, atomic := %v, locks := [%s], phase := %s, site := %d }",
			fieldID[r.Field], r.Write, r.Atomic, strings.Join(hs, ", "), ph, r.Occ)
	}
	// program skeletons first: rendering them numbers the access occurrences (Access.site)
	for _, r := range x.rows {
		r.Occ = -1
	}
	sks := x.buildSkeletons()
	var sk strings.Builder
	em := &skEmitter{lockID: func(l string) int { return id(lockIDs, &locks, strings.TrimSuffix(l, ":R")) }}
	sk.WriteString("/-\nGen/Skeletons.lean — GENERATED by go/extract/accesses (skeleton.go). DO NOT EDIT.\nProgram skeletons of the functions that matter for locksets (see Model/LockProg.lean).\n-/\nimport KafkaVerif.Model.LockProg\n\nnamespace KV.Gen\nopen KV.Lockset KV.LockProg\n\n")
	var skNames []string
	exemptFn := map[string]bool{}
	for _, s := range sks {
		fmt.Fprintf(&sk, "/-- %s -/\ndef sk%d : Cmd :=\n  %s\n\n", s.name, s.idx, em.render(s.body))
		skNames = append(skNames, s.name)
		if s.exempt {
			exemptFn[s.name] = true
		}
	}
	sk.WriteString("def skeletons : List (Nat × Cmd) := [")
	for i := range sks {
		if i > 0 {
			sk.WriteString(", ")
		}
		fmt.Fprintf(&sk, "(%d, sk%d)", i, i)
	}
	sk.WriteString("]\n\n")
	holdsLit := func(ls []string) string {
		var hs []string
		for _, l := range ls {
			if strings.HasSuffix(l, ":R") {
				hs = append(hs, fmt.Sprintf("⟨%d, .shared⟩", em.lockID(strings.TrimSuffix(l, ":R"))))
			} else { // holding exclusively includes holding shared (see render of acq)
				hs = append(hs, fmt.Sprintf("⟨%d, .excl⟩", em.lockID(l)), fmt.Sprintf("⟨%d, .shared⟩", em.lockID(l)))
			}
		}
		return "[" + strings.Join(hs, ", ") + "]"
	}
	// binary-heap indexed trie literal: node i has children 2i+1 and 2i+2
	// (Trie.get decodes the LAST step first: position n>0 lives in child (n-1)%2 at position (n-1)/2, so the
	// subtree reached by a path holds the indices mul·n'+add)
	var trieAt func(mul, add int, val func(int) string) string
	trieAt = func(mul, add int, val func(int) string) string {
		if add >= len(sks) {
			return ".nil"
		}
		return fmt.Sprintf("(.node (some %s) %s %s)", val(add), trieAt(2*mul, mul+add, val), trieAt(2*mul, 2*mul+add, val))
	}
	trie := func(_ int, val func(int) string) string { return trieAt(1, 0, val) }
	sk.WriteString("/-- entry locksets (what every static caller holds; ∅ for functions that can be entered from elsewhere) -/\ndef skEntry : Trie LS :=\n  ")
	sk.WriteString(trie(0, func(i int) string { return holdsLit(sks[i].entry) }))
	sk.WriteString("\n\n")
	// relOf: least fixpoint of local releases ∪ callees' releases
	relOf := make([]map[string]bool, len(sks))
	callsOf := make([]map[*skFunc]bool, len(sks))
	for i, s := range sks {
		relOf[i], callsOf[i] = map[string]bool{}, map[*skFunc]bool{}
		skLocalRels(s.body, relOf[i], callsOf[i])
	}
	for changed := true; changed; {
		changed = false
		for i := range sks {
			for c := range callsOf[i] {
				for m := range relOf[c.idx] {
					if !relOf[i][m] {
						relOf[i][m], changed = true, true
					}
				}
			}
		}
	}
	sk.WriteString("/-- what each skeleton (with its callees) may release -/\ndef skRel : Trie (List Mutex) :=\n  ")
	sk.WriteString(trie(0, func(i int) string {
		var ms []int
		for m := range relOf[i] {
			ms = append(ms, em.lockID(m))
		}
		sort.Ints(ms)
		var ss []string
		for _, m := range ms {
			ss = append(ss, fmt.Sprint(m))
		}
		return "[" + strings.Join(ss, ", ") + "]"
	}))
	sk.WriteString("\n\n")
	// rows never reached by a skeleton, and rows of untranslated functions, stay on the Go-side dataflow
	nextOcc := em.occ
	var exempt []int
	for _, r := range rows {
		base := r.Func
		if i := strings.Index(base, "$"); i >= 0 {
			base = base[:i]
		}
		if r.Occ < 0 {
			r.Occ = nextOcc
			nextOcc++
			if len(r.Locks) > 0 {
				exempt = append(exempt, r.Occ)
			}
		} else if exemptFn[r.Func] || exemptFn[base] || (r.guarded && len(r.Locks) > 0) {
			exempt = append(exempt, r.Occ)
		}
	}
	sort.Ints(exempt)
	var tokenIDs, plainIDs, barrierIDs []string
	seenTok := map[string]bool{}
	for _, t := range x.ann.Tokens {
		if !seenTok[t.Token] {
			seenTok[t.Token] = true
			tokenIDs = append(tokenIDs, fmt.Sprint(em.lockID(t.Token)))
			if t.Guard != "" {
				barrierIDs = append(barrierIDs, fmt.Sprintf("(%d, %d)", em.lockID(t.Token), em.lockID(t.Guard)))
			} else {
				plainIDs = append(plainIDs, fmt.Sprint(em.lockID(t.Token)))
			}
		}
	}
	fmt.Fprintf(&sk, "/-- Lock / Unlock calls whose mutex is reached through a by-value receiver or struct parameter: the call locks a\n    private copy, which excludes nobody; such a call contributes no hold to the table and is reported -/\ndef copiedLockOps : Nat := %d\n\n", len(x.copiedLocks))
	fmt.Fprintf(&sk, "/-- tokens whose ordering claim is an assumption (ownership hand-offs, sync.Once) -/\ndef plainTokenIds : List Mutex := [%s]\n\n", strings.Join(plainIDs, ", "))
	fmt.Fprintf(&sk, "/-- closed-flag barrier tokens with their guard mutex: (token, guard) -/\ndef barrierTokens : List (Mutex × Mutex) := [%s]\n\n", strings.Join(barrierIDs, ", "))
	fmt.Fprintf(&sk, "/-- ordering-protocol tokens: not locks, not subject to the lockset analysis -/\ndef tokenIds : List Mutex := [%s]\n\n", strings.Join(tokenIDs, ", "))
	var exs []string
	for _, e := range exempt {
		exs = append(exs, fmt.Sprint(e))
	}
	fmt.Fprintf(&sk, "/-- occurrences whose locksets are NOT re-derived (untranslated control flow: goto / fallthrough, or a site the skeleton builder did not reach) -/\ndef exemptOcc : List Nat := [%s]\n\n", strings.Join(exs, ", "))
	fmt.Fprintf(&sk, "def skeletonNames : List String := [\n")
	for i, n := range skNames {
		sep := ","
		if i == len(skNames)-1 {
			sep = ""
		}
		fmt.Fprintf(&sk, "  %q%s\n", n, sep)
	}
	sk.WriteString("]\n\nend KV.Gen\n")
	if err := os.WriteFile(filepath.Join(root, "lean", "KafkaVerif", "Gen", "Skeletons.lean"), []byte(sk.String()), 0o644); err != nil {
		return err
	}
	sb.WriteString("def groups : List Group := [\n")
	var excluded []*accRow
	for gi, f := range fields {
		fmt.Fprintf(&sb, "  -- %s\n  { field := %d, rows := [\n", f, fieldID[f])
		first := true
		for _, r := range byField[f] {
			if r.Finding != "" {
				excluded = append(excluded, r)
				continue
			}
			if !first {
				sb.WriteString(",\n")
			}
			first = false
			sb.WriteString("    " + render(r))
		}
		sb.WriteString(" ] }")
		if gi != len(fields)-1 {
			sb.WriteString(",")
		}
		sb.WriteString("\n")
	}
	sb.WriteString("]\n\n/-- the access table -/\ndef accesses : List Access := flatten groups\n\n")
	sb.WriteString("/-- rows left out of `accesses` because a recorded finding (access_annotations.json `exclusions`) says they are unprotected -/\ndef excluded : List Access := [\n")
	for i, r := range excluded {
		sb.WriteString("  " + render(r))
		if i != len(excluded)-1 {
			sb.WriteString(",")
		}
		sb.WriteString("\n")
	}
	sb.WriteString("]\n\n")
	lst := func(name string, l []string) {
		fmt.Fprintf(&sb, "def %s : List String := [\n", name)
		for i, s := range l {
			fmt.Fprintf(&sb, "  %q", s)
			if i != len(l)-1 {
				sb.WriteString(",")
			}
			sb.WriteString("\n")
		}
		sb.WriteString("]\n\n")
	}
	lst("fieldNames", fields)
	lst("lockNames", locks)
	lst("siteNames", sites)
	var used []string
	for k := range x.usedAnn {
		used = append(used, k)
	}
	sort.Strings(used)
	lst("annotationsUsed", used)
	var al []string
	for k, v := range x.aliases {
		for t := range v {
			al = append(al, k+" -> "+t)
		}
	}
	sort.Strings(al)
	lst("pointerAliases", al)
	sb.WriteString("end KV.Gen\n")
	if err := os.WriteFile(filepath.Join(root, "lean", "KafkaVerif", "Gen", "Accesses.lean"), []byte(sb.String()), 0o644); err != nil {
		return err
	}
	// side table for the check (race-report mapping, reporting)
	type jpair struct {
		Field string
		A, B  *accRow
	}
	out := struct {
		Rows        []*accRow           `json:"rows"`
		Racy        []jpair             `json:"racy"`
		Excluded    []*accRow           `json:"excluded"`
		Unresolved  []string            `json:"unresolved"`
		CopiedLocks []string            `json:"copied_locks"`
		Confinement []string            `json:"confinement"`
		Used        []string            `json:"annotations_used"`
		Entry       map[string][]string `json:"entry_locksets"`
		Fields      int                 `json:"fields"`
		Locks       []string            `json:"locks"`
		Exported    []string            `json:"exported_methods"`
		Missed      []string            `json:"missed_sites"`
		SrcLockOps  int                 `json:"lock_ops_in_source"`
		SkLockOps   int                 `json:"lock_ops_in_skeletons"`
		Aliases     []string            `json:"pointer_aliases"`
		CHAEdges    int                 `json:"interface_call_edges"`
	}{Rows: rows, Excluded: excluded, Unresolved: x.unresolved, CopiedLocks: x.copiedLocks, Confinement: confinement, Used: used, Entry: map[string][]string{}, Fields: len(fields), Locks: locks}
	for _, p := range racy {
		out.Racy = append(out.Racy, jpair{p.A.Field, p.A, p.B})
	}
	for _, fn := range x.funcs {
		if len(fn.entry) > 0 {
			var l []string
			for k, m := range fn.entry {
				if m == lShared {
					k += ":R"
				}
				l = append(l, k)
			}
			sort.Strings(l)
			out.Entry[fn.name] = l
		}
	}
	for _, fn := range x.funcs {
		if fn.decl.Recv == nil || !ast.IsExported(fn.decl.Name.Name) {
			continue
		}
		if obj := fn.pkg.pkg.Scope().Lookup(recvTypeName(fn.decl)); obj != nil {
			if tn, ok := obj.(*types.TypeName); ok {
				if _, tracked := x.tracked[tn]; tracked && ast.IsExported(tn.Name()) {
					out.Exported = append(out.Exported, fn.name)
				}
			}
		}
	}
	sort.Strings(out.Exported)
	sort.Strings(x.aliasWhy)
	out.Aliases, out.CHAEdges = x.aliasWhy, x.chaEdges
	out.Missed = missed
	out.SrcLockOps, out.SkLockOps = srcLockOps, x.skLockOps
	jb, _ := json.MarshalIndent(out, "", " ")
	os.MkdirAll(filepath.Join(root, ".build", "c10"), 0o755)
	if err := os.WriteFile(filepath.Join(root, ".build", "c10", "accesses.json"), jb, 0o644); err != nil {
		return err
	}
	fmt.Printf("accesses: %d rows, %d fields, %d locks, %d unprotected pairs, %d excluded rows, %d unresolved lock ops, %d confinement breaks\n",
		len(rows), len(fields), len(locks), len(racy), len(excluded), len(x.unresolved), len(confinement))
	return nil
}

// global records an access to a package-level variable of one of the analysed packages
// (field id "global:<pkgdir>.<name>"); inside init() it is construction phase.
func (w *walker) global(id *ast.Ident, ls *lockset, mode amode) {
	v, ok := w.p.info.Uses[id].(*types.Var)
	if !ok || v.IsField() || v.Pkg() == nil || v.Parent() != v.Pkg().Scope() {
		return
	}
	p := w.x.ourPkgs[v.Pkg()]
	if p == nil {
		return
	}
	name := "global:" + v.Name()
	if p.dir != "." {
		name = "global:" + p.dir + "." + v.Name()
	}
	atomic := w.isAtomicNamed(v.Type())
	write := mode == mWrite
	if mode == mAddr {
		if _, tr := w.trackedStruct(v.Type()); tr {
			return
		}
		write = true
	}
	pos := w.x.fset.Position(id.Pos())
	rel, _ := filepath.Rel(w.x.repo, pos.Filename)
	phase := "published"
	if w.fn != nil && w.fn.decl != nil && w.fn.decl.Recv == nil && w.fn.decl.Name.Name == "init" && !ls.fresh {
		phase = "ctor"
	}
	w.x.rows = append(w.x.rows, &accRow{Field: name, Write: write, Atomic: atomic, Phase: phase, File: rel, Line: pos.Line,
		Func: w.fname, ls: ls.clone(), owner: w.fn, pos: id.Pos()})
}

// aliasPrepass follows the address of a tracked field of an untracked, non-sync type (`&c.rbuf`) that is
// passed to a package-local function into the struct fields it is stored in (composite literal `g: p`,
// assignment `y.g = p`) — transitively through further calls that pass the parameter on.  Result:
// x.aliases["readerStack.reader"] = {"Conn.rbuf"}.  Purely syntactic + go/types; flows through returned
// values, maps, slices, channels or interfaces are NOT followed.
func (x *accExtractor) aliasPrepass() {
	type flow struct {
		fn    *funcNode
		idx   int
		field string
	}
	var work []flow
	seen := map[string]bool{}
	push := func(f flow) {
		k := fmt.Sprintf("%s#%d#%s", f.fn.name, f.idx, f.field)
		if !seen[k] {
			seen[k] = true
			work = append(work, f)
		}
	}
	staticCallee := func(p *pkgInfo, c *ast.CallExpr) *funcNode {
		switch f := c.Fun.(type) {
		case *ast.Ident:
			if o, ok := p.info.Uses[f].(*types.Func); ok {
				return x.funcs[o]
			}
		case *ast.SelectorExpr:
			if sel := p.info.Selections[f]; sel != nil {
				if sel.Kind() == types.MethodVal {
					if o, ok := sel.Obj().(*types.Func); ok {
						return x.funcs[o]
					}
				}
				return nil
			}
			if o, ok := p.info.Uses[f.Sel].(*types.Func); ok {
				return x.funcs[o]
			}
		}
		return nil
	}
	// seeds: f(..., &x.fld, ...)
	for _, p := range x.pkgs {
		w := &walker{x: x, p: p}
		for _, file := range p.files {
			ast.Inspect(file, func(n ast.Node) bool {
				c, ok := n.(*ast.CallExpr)
				if !ok {
					return true
				}
				fn := staticCallee(p, c)
				if fn == nil {
					return true
				}
				for i, a := range c.Args {
					u, ok := a.(*ast.UnaryExpr)
					if !ok || u.Op != token.AND {
						continue
					}
					se, ok := u.X.(*ast.SelectorExpr)
					if !ok {
						continue
					}
					sel := p.info.Selections[se]
					if sel == nil || sel.Kind() != types.FieldVal || len(sel.Index()) != 1 {
						continue
					}
					owner, tracked := w.trackedStruct(sel.Recv())
					if !tracked {
						continue
					}
					ft := sel.Obj().Type()
					if _, tr := w.trackedStruct(ft); tr || w.isAtomicNamed(ft) {
						continue
					}
					push(flow{fn, i, owner + "." + sel.Obj().Name()})
				}
				return true
			})
		}
	}
	for len(work) > 0 {
		f := work[0]
		work = work[1:]
		var params []*ast.Ident
		for _, fl := range f.fn.decl.Type.Params.List {
			if len(fl.Names) == 0 {
				params = append(params, nil)
			}
			params = append(params, fl.Names...)
		}
		if f.idx >= len(params) || params[f.idx] == nil {
			continue
		}
		info := f.fn.pkg.info
		pobj := info.Defs[params[f.idx]]
		isP := func(e ast.Expr) bool {
			id, ok := e.(*ast.Ident)
			return ok && info.Uses[id] == pobj
		}
		add := func(t types.Type, field string, pos token.Pos) {
			n := namedOf(t)
			if n == nil {
				return
			}
			k := x.typeDisplay(n.Obj()) + "." + field
			if x.aliases[k] == nil {
				x.aliases[k] = map[string]bool{}
			}
			if !x.aliases[k][f.field] {
				x.aliases[k][f.field] = true
				x.aliasWhy = append(x.aliasWhy, fmt.Sprintf("%s may point to %s (stored in %s, %s)", k, f.field, f.fn.name, x.fset.Position(pos)))
			}
		}
		ast.Inspect(f.fn.decl.Body, func(n ast.Node) bool {
			switch n := n.(type) {
			case *ast.CompositeLit:
				for _, el := range n.Elts {
					if kv, ok := el.(*ast.KeyValueExpr); ok && isP(kv.Value) {
						if id, ok := kv.Key.(*ast.Ident); ok {
							if t := info.TypeOf(n); t != nil {
								add(t, id.Name, kv.Pos())
							}
						}
					}
				}
			case *ast.AssignStmt:
				for i, r := range n.Rhs {
					if isP(r) && i < len(n.Lhs) {
						if se, ok := n.Lhs[i].(*ast.SelectorExpr); ok {
							if sel := info.Selections[se]; sel != nil && sel.Kind() == types.FieldVal {
								// owner = the struct that declares the field
								t := sel.Recv()
								for _, k := range sel.Index()[:len(sel.Index())-1] {
									if st, ok := derefStruct(t); ok {
										t = st.Field(k).Type()
									}
								}
								add(t, se.Sel.Name, se.Pos())
							}
						}
					}
				}
			case *ast.CallExpr:
				if callee := staticCallee(f.fn.pkg, n); callee != nil {
					for i, a := range n.Args {
						if isP(a) {
							push(flow{callee, i, f.field})
						}
					}
				}
			}
			return true
		})
	}
}

// exprKey renders a local variable or a field path (x, w.enc, w.c.pool) — "" for anything else
func exprKey(e ast.Expr) string {
	switch u := e.(type) {
	case *ast.Ident:
		if u.Name == "_" || u.Name == "nil" {
			return ""
		}
		return u.Name
	case *ast.ParenExpr:
		return exprKey(u.X)
	case *ast.SelectorExpr:
		if k := exprKey(u.X); k != "" {
			return k + "." + u.Sel.Name
		}
	}
	return ""
}

func pointerLike(t types.Type) bool {
	if t == nil {
		return false
	}
	switch t.Underlying().(type) {
	case *types.Pointer, *types.Slice, *types.Map, *types.Interface:
		return true
	}
	return false
}

func (w *walker) containerName(recv ast.Expr) string {
	if id, ok := recv.(*ast.Ident); ok {
		if v, ok := w.p.info.Uses[id].(*types.Var); ok && v.Pkg() != nil && v.Parent() == v.Pkg().Scope() {
			if p := w.x.ourPkgs[v.Pkg()]; p != nil && p.dir != "." {
				return "global:" + p.dir + "." + v.Name()
			}
			return "global:" + v.Name()
		}
	}
	if id := w.lockID(recv); id != "" {
		return id
	}
	return exprKey(recv)
}

// publish: Pool.Put(x) / atomic.Value.Store(x) / ch <- x with a pointer-like x named by a local or a field path
func (w *walker) publish(arg ast.Expr, container string, anyUse bool, ls *lockset) {
	k := exprKey(arg)
	if k == "" || !pointerLike(w.p.info.TypeOf(arg)) {
		return
	}
	if id, ok := arg.(*ast.Ident); ok {
		if _, isVar := w.p.info.Uses[id].(*types.Var); !isVar {
			return
		}
	}
	longLived := false
	if se, ok := arg.(*ast.SelectorExpr); ok {
		if sel := w.p.info.Selections[se]; sel != nil && sel.Kind() == types.FieldVal {
			t := sel.Recv()
			idx := sel.Index()
			for _, i := range idx[:len(idx)-1] {
				if st, ok := derefStruct(t); ok {
					t = st.Field(i).Type()
				}
			}
			_, longLived = w.trackedStruct(t)
		}
	}
	ls.pub[k] = pubInfo{container: container, anyUse: anyUse, longLived: longLived}
}

func (w *walker) pubRow(container string, pos token.Pos, ls *lockset) {
	w.pubRowD(container, false, pos, ls)
}

func (w *walker) pubRowD(container string, direct bool, pos token.Pos, ls *lockset) {
	p := w.x.fset.Position(pos)
	rel, _ := filepath.Rel(w.x.repo, p.Filename)
	field := "pointee:" + container
	if direct {
		field = container
	}
	w.x.rows = append(w.x.rows, &accRow{Field: field, Write: true, Phase: "published", File: rel, Line: p.Line,
		Func: w.fname, ls: ls.clone(), owner: w.fn, pos: pos})
}

// pubUse: a mention of a published name.  After Pool.Put every use counts (the object may already belong to
// another goroutine); after an atomic Store / channel send only writes through the name do (readers of the
// shared pointee are legitimate).  Rows go to the pseudo-field "pointee:<container>" as writes, so an
// unlocked one conflicts with itself (the same statement run by two goroutines, or by the new owner).
func (w *walker) pubUse(e ast.Expr, ls *lockset, mode amode) {
	b := e
	through := false
	for {
		switch u := b.(type) {
		case *ast.ParenExpr:
			b = u.X
			continue
		case *ast.IndexExpr:
			b, through = u.X, true
			continue
		case *ast.SliceExpr:
			b = u.X
			continue
		case *ast.StarExpr:
			b, through = u.X, true
			continue
		}
		break
	}
	k := exprKey(b)
	if k == "" {
		return
	}
	// the name itself or a field of the published object (x.f = …)
	for key, info := range ls.pub {
		isField := strings.HasPrefix(k, key+".")
		if k != key && !isField {
			continue
		}
		write := (mode == mWrite || mode == mAddr) && (through || isField)
		if info.anyUse || write {
			w.pubRowD(info.container, info.direct, e.Pos(), ls)
		}
	}
}

// retained: at a return, a FIELD that still refers to an object given to a sync.Pool keeps it reachable for
// the next call (double Put / use after Put across calls)
func (w *walker) retained(ls *lockset, pos token.Pos) {
	for k, info := range ls.pub {
		if info.anyUse && !info.direct && info.longLived && strings.Contains(k, ".") {
			w.pubRow(info.container, pos, ls)
		}
	}
}

// confined: the functions a token is confined to = those matching the annotation's globs, closed under the call
// graph: an unexported function that is never used as a value, never started with `go`, and whose static callers
// are all confined is itself confined (an extracted helper inherits the confinement of its only callers — the same
// propagation as caller-holds for locks).
func (x *accExtractor) confined(globs []string) map[string]bool {
	key := strings.Join(globs, "|")
	if x.confinedCache == nil {
		x.confinedCache = map[string]map[string]bool{}
	}
	if c, ok := x.confinedCache[key]; ok {
		return c
	}
	set := map[string]bool{}
	for _, fn := range x.funcs {
		for _, g := range globs {
			if globMatch(g, fn.name) {
				set[fn.name] = true
			}
		}
	}
	for changed := true; changed; {
		changed = false
		for _, fn := range x.funcs {
			if set[fn.name] || !fn.propagate || len(fn.edges) == 0 {
				continue
			}
			all := true
			for _, e := range fn.edges {
				if e.spawn || !set[e.caller.name] {
					all = false
				}
			}
			if all {
				set[fn.name], changed = true, true
			}
		}
	}
	x.confinedCache[key] = set
	return set
}

// unsafePointeeField: e is `x.f` with f a field of a tracked type whose type is listed in the annotation
// unsafe_pointee_types (interfaces / pointers whose implementations are not safe for concurrent use by contract:
// hash.Hash32, io.Writer, …).  The field holds a reference: the object behind it is shared by everybody who reads
// the field, and calling its methods mutates it.
func (w *walker) unsafePointeeField(e ast.Expr) (string, bool) {
	if len(w.x.unsafePointee) == 0 {
		return "", false
	}
	for {
		if p, ok := e.(*ast.ParenExpr); ok {
			e = p.X
			continue
		}
		break
	}
	se, ok := e.(*ast.SelectorExpr)
	if !ok {
		return "", false
	}
	sel := w.p.info.Selections[se]
	if sel == nil || sel.Kind() != types.FieldVal {
		return "", false
	}
	t := sel.Recv()
	idx := sel.Index()
	for i, k := range idx {
		st, ok := derefStruct(t)
		if !ok {
			return "", false
		}
		f := st.Field(k)
		if i == len(idx)-1 {
			owner, tracked := w.trackedStruct(t)
			if !tracked {
				return "", false
			}
			ts := types.TypeString(f.Type(), func(p *types.Package) string { return p.Path() })
			if !w.x.unsafePointee[ts] {
				return "", false
			}
			w.x.usedAnn["unsafe_pointee "+ts] = true
			return owner + "." + f.Name(), true
		}
		t = f.Type()
	}
	return "", false
}

// pointeeUses: a method call on, or the passing on of, an unsafe pointee — directly (`x.f.Reset()`) or through a
// local that still refers to it (`v := x.f; …; v.Reset()`): a write of pointee:<T.f> under the current lockset,
// resp. under the alias guard.
func (w *walker) pointeeUses(c *ast.CallExpr, recv ast.Expr, ls *lockset) {
	if len(w.x.unsafePointee) == 0 {
		return
	}
	use := func(e ast.Expr) {
		for {
			if p, ok := e.(*ast.ParenExpr); ok {
				e = p.X
				continue
			}
			break
		}
		if cont, ok := w.unsafePointeeField(e); ok {
			w.pubRowD(cont, false, e.Pos(), ls)
			return
		}
		if k := exprKey(e); k != "" && !strings.Contains(k, ".") {
			if info, ok := ls.pub[k]; ok && info.guard != nil {
				g := info.guard.snapshot()
				g.fresh = ls.fresh
				w.pubRowD(info.container, false, e.Pos(), g)
				w.x.rows[len(w.x.rows)-1].guarded = true
			}
		}
	}
	if f, ok := c.Fun.(*ast.SelectorExpr); ok && recv != nil {
		if sel := w.p.info.Selections[f]; sel != nil && sel.Kind() == types.MethodVal {
			use(recv)
		}
	}
	for _, a := range c.Args {
		use(a)
	}
}

// sharedPtrField: e is `x.f` where f is a field of a tracked type whose type is a pointer to a named struct that
// is neither tracked nor a sync/atomic type — e.g. connPool.tls, Transport.TLS, Dialer.TLS (*tls.Config),
// Batch.msgs (*messageSetReader).  Returns the container name "Owner.f".
func (w *walker) sharedPtrField(e ast.Expr) (string, bool) {
	for {
		if p, ok := e.(*ast.ParenExpr); ok {
			e = p.X
			continue
		}
		break
	}
	se, ok := e.(*ast.SelectorExpr)
	if !ok {
		return "", false
	}
	sel := w.p.info.Selections[se]
	if sel == nil || sel.Kind() != types.FieldVal {
		return "", false
	}
	// owner of the last step
	t := sel.Recv()
	idx := sel.Index()
	for _, k := range idx[:len(idx)-1] {
		st, ok := derefStruct(t)
		if !ok {
			return "", false
		}
		t = st.Field(k).Type()
	}
	owner, tracked := w.trackedStruct(t)
	if !tracked {
		return "", false
	}
	ft := sel.Obj().Type()
	ptr, isPtr := ft.(*types.Pointer)
	if !isPtr {
		return "", false
	}
	n := namedOf(ptr.Elem())
	if n == nil {
		return "", false
	}
	if _, isStruct := n.Underlying().(*types.Struct); !isStruct {
		return "", false
	}
	if _, tr := w.trackedStruct(ft); tr || w.isAtomicNamed(ft) {
		return "", false
	}
	return owner + "." + sel.Obj().Name(), true
}

// lockVarPrepass: local variables of type *sync.Mutex / *sync.RWMutex and the mutex they point to, by OBJECT (names
// do not matter): `l := x.f` / `l = &x.f` with x.f a mutex field (through lock_aliases), or the i-th result of a call
// that a reviewed `result_locks` annotation identifies (`_, _, lock, _ := c.waitResponse(…)` = &c.rlock).
// A variable assigned two different mutexes is dropped.
func (x *accExtractor) lockVarPrepass() {
	conflict := map[types.Object]bool{}
	set := func(o types.Object, l string) {
		if o == nil || l == "" {
			return
		}
		if old, ok := x.lockVars[o]; ok && old != l {
			conflict[o] = true
		}
		x.lockVars[o] = l
	}
	for _, p := range x.pkgs {
		w := &walker{x: x, p: p}
		obj := func(e ast.Expr) types.Object {
			id, ok := e.(*ast.Ident)
			if !ok {
				return nil
			}
			if o := p.info.Defs[id]; o != nil {
				return o
			}
			return p.info.Uses[id]
		}
		isMu := func(o types.Object) bool {
			if o == nil {
				return false
			}
			_, ok := isMutexType(o.Type())
			_, isPtr := o.Type().(*types.Pointer)
			return ok && isPtr
		}
		for _, f := range p.files {
			ast.Inspect(f, func(n ast.Node) bool {
				as, ok := n.(*ast.AssignStmt)
				if !ok {
					return true
				}
				if len(as.Rhs) == 1 && len(as.Lhs) > 1 {
					if c, ok := as.Rhs[0].(*ast.CallExpr); ok {
						if callee, _ := w.calleeOf(c); callee != nil {
							name := w.calleeName(callee)
							for _, an := range x.ann.ResultLocks {
								if an.Callee == name && an.Result < len(as.Lhs) {
									if o := obj(as.Lhs[an.Result]); isMu(o) {
										set(o, an.Is)
										x.usedAnn["result_locks "+an.Callee] = true
									}
								}
							}
						}
					}
					return true
				}
				for i, l := range as.Lhs {
					if i >= len(as.Rhs) {
						break
					}
					if o := obj(l); isMu(o) {
						r := as.Rhs[i]
						if u, ok := r.(*ast.UnaryExpr); ok && u.Op == token.AND {
							r = u.X
						}
						if _, ok := r.(*ast.SelectorExpr); ok {
							set(o, w.lockID(r))
						}
					}
				}
				return true
			})
		}
	}
	for o := range conflict {
		delete(x.lockVars, o)
	}
}

// addrOfTrackedField: e is `&x.f` with f a field of a tracked type whose own type is neither tracked nor sync/atomic
// (bufio.Reader, writeBuffer, …).  Returns "Owner.f".
func (w *walker) addrOfTrackedField(e ast.Expr) (string, bool) {
	u, ok := e.(*ast.UnaryExpr)
	if !ok || u.Op != token.AND {
		return "", false
	}
	se, ok := u.X.(*ast.SelectorExpr)
	if !ok {
		return "", false
	}
	sel := w.p.info.Selections[se]
	if sel == nil || sel.Kind() != types.FieldVal || len(sel.Index()) != 1 {
		return "", false
	}
	owner, tracked := w.trackedStruct(sel.Recv())
	if !tracked {
		return "", false
	}
	ft := sel.Obj().Type()
	if _, tr := w.trackedStruct(ft); tr || w.isAtomicNamed(ft) {
		return "", false
	}
	if _, isMu := isMutexType(ft); isMu {
		return "", false
	}
	return owner + "." + sel.Obj().Name(), true
}

// poolPutPrepass: declared functions that pass one of their parameters straight to `X.Put(p)` of a sync.Pool
// (outside function literals and deferred calls) — `releaseBuffer(b)`.  One level, no transitive closure.
func (x *accExtractor) poolPutPrepass() {
	for obj, fn := range x.funcs {
		var params []types.Object
		for _, f := range fn.decl.Type.Params.List {
			if len(f.Names) == 0 {
				params = append(params, nil)
			}
			for _, n := range f.Names {
				params = append(params, fn.pkg.info.Defs[n])
			}
		}
		w := &walker{x: x, p: fn.pkg, fn: fn}
		var visit func(n ast.Node)
		visit = func(n ast.Node) {
			ast.Inspect(n, func(m ast.Node) bool {
				switch m := m.(type) {
				case *ast.FuncLit, *ast.DeferStmt, *ast.GoStmt:
					return false
				case *ast.CallExpr:
					callee, recv := w.calleeOf(m)
					if callee == nil || recv == nil || len(m.Args) != 1 || w.calleeName(callee) != "sync.Pool.Put" {
						return true
					}
					id, ok := m.Args[0].(*ast.Ident)
					if !ok {
						return true
					}
					o := fn.pkg.info.Uses[id]
					for i, p := range params {
						if p != nil && p == o {
							if x.putsParam[obj] == nil {
								x.putsParam[obj] = map[int]string{}
							}
							x.putsParam[obj][i] = w.containerName(recv)
						}
					}
				}
				return true
			})
		}
		visit(fn.decl.Body)
	}
}
