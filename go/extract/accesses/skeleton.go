package main

// Program skeletons for the verified lockset analysis (lean/KafkaVerif/Model/LockProg.lean).
//
// For every function (and function literal) that matters for locksets — it contains a tabulated access, a lock
// operation, or calls / starts something that does — the control structure is re-emitted as a `Cmd` term:
// lock operations, access sites (`acc occ`, occ = the `site` of the table rows created at that source position),
// static calls (interface calls = alternative of all implementing methods), if/switch/select as `alt`, loops as
// `block (loop (… block body …))` with break/continue as `jump n`, return/panic as `ret`, `go` / `defer` /
// stored closures as `spawn`, closures run synchronously by their callee as `loop (call closure)`.
//
// This is a translation of SYNTAX only (positions decide the order inside a statement); the dataflow — which locks
// are held where — is recomputed by the Lean analysis and compared with the locksets the walker of accesses.go put
// into the table (`repo_table_justified`).  Annotations appear as explicit `acq` (func_holds at the start of the
// body, closure_locks around the closure call, call_acquires after the call).
//
// Not translated (the rows of such a function are listed in `exemptOcc` and stay on the Go-side dataflow):
// `goto` other than a jump back to the first statement of the enclosing loop body, `fallthrough`.

import (
	"fmt"
	"go/ast"
	"go/token"
	"go/types"
	"sort"
	"strings"
)

type cmd struct {
	op   string // skip acq rel dfr acc call seq alt loop ret block jump spawn
	lock string
	mode lmode
	row  *accRow
	to   int // call target (skeleton number), jump depth
	kids []*cmd
}

type skFunc struct {
	name    string
	fn      *funcNode    // declared function (nil for closures)
	clo     *closureInfo // closure (nil for declared functions)
	body    *cmd
	idx     int
	entry   []string // entry lockset ("id" / "id:R")
	exempt  bool
	hasOwn  bool // contains an access / lock operation / spawn itself
	callees map[*skFunc]bool
}

type skBuilder struct {
	x       *accExtractor
	p       *pkgInfo
	cur     *skFunc
	w       *walker
	rowsAt  map[token.Pos][]*accRow
	rowPos  []token.Pos // sorted
	byObj   map[*types.Func]*skFunc
	byLit   map[token.Pos]*skFunc
	blocks  []skBlock
	pending string // label of the statement being translated
	loopTop []ast.Stmt
	flow    *skFlow
}

type skBlock struct {
	kind  string // "break" / "continue"
	label string
}

func seqOf(cs []*cmd) *cmd {
	var out []*cmd
	for _, c := range cs {
		if c != nil && c.op != "skip" {
			out = append(out, c)
		}
	}
	switch len(out) {
	case 0:
		return &cmd{op: "skip"}
	case 1:
		return out[0]
	}
	mid := len(out) / 2
	return &cmd{op: "seq", kids: []*cmd{seqOf(out[:mid]), seqOf(out[mid:])}}
}

func altOf(cs []*cmd) *cmd {
	switch len(cs) {
	case 0:
		return &cmd{op: "skip"}
	case 1:
		return cs[0]
	}
	mid := len(cs) / 2
	return &cmd{op: "alt", kids: []*cmd{altOf(cs[:mid]), altOf(cs[mid:])}}
}

// buildSkeletons translates every function; returns the skeletons in their final numbering
func (x *accExtractor) buildSkeletons() []*skFunc {
	rowsAt := map[token.Pos][]*accRow{}
	for _, r := range x.rows {
		if r.pos != token.NoPos {
			rowsAt[r.pos] = append(rowsAt[r.pos], r)
		}
	}
	var rowPos []token.Pos
	for p := range rowsAt {
		rowPos = append(rowPos, p)
	}
	sort.Slice(rowPos, func(i, j int) bool { return rowPos[i] < rowPos[j] })
	byObj := map[*types.Func]*skFunc{}
	byLit := map[token.Pos]*skFunc{}
	var all []*skFunc
	for obj, fn := range x.funcs {
		s := &skFunc{name: fn.name, fn: fn, callees: map[*skFunc]bool{}}
		byObj[obj] = s
		all = append(all, s)
	}
	for pos, ci := range x.closures {
		s := &skFunc{name: ci.name, clo: ci, callees: map[*skFunc]bool{}}
		byLit[pos] = s
		all = append(all, s)
	}
	sort.Slice(all, func(i, j int) bool { return all[i].name < all[j].name })
	flow := x.funcValueFlow(byObj, byLit)
	for _, s := range all {
		var p *pkgInfo
		var body *ast.BlockStmt
		var owner *funcNode
		if s.fn != nil {
			p, body, owner = s.fn.pkg, s.fn.decl.Body, s.fn
		} else {
			p, body, owner = s.clo.pkg, s.clo.lit.Body, s.clo.owner
		}
		b := &skBuilder{x: x, p: p, cur: s, rowsAt: rowsAt, rowPos: rowPos, byObj: byObj, byLit: byLit, flow: flow,
			w: &walker{x: x, p: p, fn: owner}}
		var pre []*cmd
		if s.fn != nil {
			for _, h := range s.fn.extra { // func_holds annotation: assumed held when the body starts
				pre = append(pre, &cmd{op: "asm", lock: h, mode: lExcl})
				s.hasOwn = true
			}
		}
		s.body = seqOf(append(pre, b.stmts(body.List)))
	}
	// relevance: own content or a relevant callee
	rel := map[*skFunc]bool{}
	for changed := true; changed; {
		changed = false
		for _, s := range all {
			if rel[s] {
				continue
			}
			r := s.hasOwn
			for c := range s.callees {
				r = r || rel[c]
			}
			if r {
				rel[s], changed = true, true
			}
		}
	}
	var out []*skFunc
	for _, s := range all {
		if rel[s] {
			s.idx = len(out)
			out = append(out, s)
		} else {
			s.idx = -1
		}
	}
	// entry locksets
	for _, s := range out {
		var held map[string]lmode
		if s.fn != nil {
			held = s.fn.entry
		} else {
			held = evalLS(s.clo.ls, s.clo.owner.eff())
		}
		for k, m := range held {
			if m == lShared {
				k += ":R"
			}
			s.entry = append(s.entry, k)
		}
		sort.Strings(s.entry)
	}
	return out
}

func (b *skBuilder) stmts(list []ast.Stmt) *cmd {
	var cs []*cmd
	for _, s := range list {
		cs = append(cs, b.stmt(s))
	}
	return seqOf(cs)
}

func (b *skBuilder) jumpTo(kind, label string) *cmd {
	for i := len(b.blocks) - 1; i >= 0; i-- {
		bl := b.blocks[i]
		if bl.kind == kind && (label == "" || bl.label == label) {
			return &cmd{op: "jump", to: len(b.blocks) - 1 - i}
		}
	}
	b.cur.exempt = true
	return &cmd{op: "skip"}
}

func (b *skBuilder) stmt(s ast.Stmt) *cmd {
	label := b.pending
	b.pending = ""
	switch s := s.(type) {
	case nil:
		return &cmd{op: "skip"}
	case *ast.BlockStmt:
		return b.stmts(s.List)
	case *ast.LabeledStmt:
		b.pending = s.Label.Name
		return b.stmt(s.Stmt)
	case *ast.ExprStmt:
		c := b.leaf(s)
		if call, ok := s.X.(*ast.CallExpr); ok {
			if id, ok := call.Fun.(*ast.Ident); ok && id.Name == "panic" {
				return seqOf([]*cmd{c, {op: "ret"}})
			}
		}
		return c
	case *ast.ReturnStmt:
		return seqOf([]*cmd{b.leaf(s), {op: "ret"}})
	case *ast.BranchStmt:
		lab := ""
		if s.Label != nil {
			lab = s.Label.Name
		}
		switch s.Tok {
		case token.BREAK:
			return b.jumpTo("break", lab)
		case token.CONTINUE:
			return b.jumpTo("continue", lab)
		case token.GOTO:
			// `goto L` with L the first statement of the enclosing loop body: re-run the body = continue
			if len(b.loopTop) > 0 {
				if ls, ok := b.loopTop[len(b.loopTop)-1].(*ast.LabeledStmt); ok && ls.Label.Name == lab {
					return b.jumpTo("continue", "")
				}
			}
		}
		b.cur.exempt = true
		return &cmd{op: "skip"}
	case *ast.IfStmt:
		els := &cmd{op: "skip"}
		if s.Else != nil {
			els = b.stmt(s.Else)
		}
		return seqOf([]*cmd{b.stmt(s.Init), b.leaf(s.Cond), altOf([]*cmd{b.stmts(s.Body.List), els})})
	case *ast.ForStmt:
		init := b.stmt(s.Init)
		b.blocks = append(b.blocks, skBlock{"break", label}, skBlock{"continue", label})
		var top ast.Stmt
		if len(s.Body.List) > 0 {
			top = s.Body.List[0]
		}
		b.loopTop = append(b.loopTop, top)
		body := b.stmts(s.Body.List)
		b.loopTop = b.loopTop[:len(b.loopTop)-1]
		b.blocks = b.blocks[:len(b.blocks)-1]
		var cond *cmd
		if s.Cond != nil {
			cond = b.leaf(s.Cond)
		}
		post := b.stmt(s.Post)
		b.blocks = b.blocks[:len(b.blocks)-1]
		loop := &cmd{op: "loop", kids: []*cmd{seqOf([]*cmd{cond, {op: "block", kids: []*cmd{body}}, post})}}
		return seqOf([]*cmd{init, {op: "block", kids: []*cmd{loop}}})
	case *ast.RangeStmt:
		x := b.leaf(s.X)
		b.blocks = append(b.blocks, skBlock{"break", label}, skBlock{"continue", label})
		var top ast.Stmt
		if len(s.Body.List) > 0 {
			top = s.Body.List[0]
		}
		b.loopTop = append(b.loopTop, top)
		body := b.stmts(s.Body.List)
		b.loopTop = b.loopTop[:len(b.loopTop)-1]
		b.blocks = b.blocks[:len(b.blocks)-2]
		var kv []*cmd
		if s.Key != nil {
			kv = append(kv, b.leaf(s.Key))
		}
		if s.Value != nil {
			kv = append(kv, b.leaf(s.Value))
		}
		loop := &cmd{op: "loop", kids: []*cmd{seqOf(append(kv, &cmd{op: "block", kids: []*cmd{body}}))}}
		return seqOf([]*cmd{x, {op: "block", kids: []*cmd{loop}}})
	case *ast.SwitchStmt:
		var tag *cmd
		if s.Tag != nil {
			tag = b.leaf(s.Tag)
		}
		return seqOf([]*cmd{b.stmt(s.Init), tag, b.clauses(s.Body, label)})
	case *ast.TypeSwitchStmt:
		return seqOf([]*cmd{b.stmt(s.Init), b.stmt(s.Assign), b.clauses(s.Body, label)})
	case *ast.SelectStmt:
		return b.clauses(s.Body, label)
	case *ast.GoStmt:
		return b.leaf(s)
	case *ast.DeferStmt:
		return b.leaf(s)
	default: // assignments, inc/dec, declarations, sends, empty
		return b.leaf(s)
	}
}

func (b *skBuilder) clauses(body *ast.BlockStmt, label string) *cmd {
	b.blocks = append(b.blocks, skBlock{"break", label})
	var arms []*cmd
	hasDefault := false
	for _, c := range body.List {
		switch c := c.(type) {
		case *ast.CaseClause:
			if c.List == nil {
				hasDefault = true
			}
			var cs []*cmd
			for _, e := range c.List {
				cs = append(cs, b.leaf(e))
			}
			for _, st := range c.Body {
				if br, ok := st.(*ast.BranchStmt); ok && br.Tok == token.FALLTHROUGH {
					b.cur.exempt = true
				}
			}
			arms = append(arms, seqOf(append(cs, b.stmts(c.Body))))
		case *ast.CommClause:
			if c.Comm == nil {
				hasDefault = true
			}
			arms = append(arms, seqOf([]*cmd{b.stmt(c.Comm), b.stmts(c.Body)}))
		}
	}
	if !hasDefault {
		arms = append(arms, &cmd{op: "skip"})
	}
	b.blocks = b.blocks[:len(b.blocks)-1]
	return &cmd{op: "block", kids: []*cmd{altOf(arms)}}
}

type skEvent struct {
	pos token.Pos
	c   *cmd
}

// leaf translates a statement or expression without nested statements: the accesses, lock operations, calls and
// function literals inside it, in source order (a call counts at its closing parenthesis: after its arguments)
func (b *skBuilder) leaf(n ast.Node) *cmd {
	if n == nil {
		return &cmd{op: "skip"}
	}
	var evs []skEvent
	var lits [][2]token.Pos
	add := func(pos token.Pos, c *cmd) { evs = append(evs, skEvent{pos, c}) }
	var visit func(n ast.Node, kind string)
	visit = func(n ast.Node, kind string) {
		ast.Inspect(n, func(m ast.Node) bool {
			switch m := m.(type) {
			case *ast.FuncLit:
				lits = append(lits, [2]token.Pos{m.Pos(), m.End()})
				if c := b.closureCall(m, kind); c != nil {
					add(m.End(), c)
				}
				return false
			case *ast.GoStmt:
				for _, a := range m.Call.Args {
					visit(a, "")
				}
				if fl, ok := m.Call.Fun.(*ast.FuncLit); ok {
					visit(fl, "go")
				} else {
					visit(m.Call.Fun, "")
					if c := b.callCmd(m.Call, "go"); c != nil {
						add(m.Call.Rparen, c)
					}
				}
				return false
			case *ast.DeferStmt:
				for _, a := range m.Call.Args {
					visit(a, "")
				}
				if fl, ok := m.Call.Fun.(*ast.FuncLit); ok {
					visit(fl, "defer")
				} else {
					visit(m.Call.Fun, "")
					if c := b.callCmd(m.Call, "defer"); c != nil {
						add(m.Call.Rparen, c)
					}
				}
				return false
			case *ast.CallExpr:
				if fl, ok := m.Fun.(*ast.FuncLit); ok { // immediately invoked
					for _, a := range m.Args {
						visit(a, "")
					}
					visit(fl, "now")
					return false
				}
				if c := b.callCmd(m, ""); c != nil {
					add(m.Rparen, c)
				}
			}
			return true
		})
	}
	visit(n, "")
	// accesses in the range, outside function literals
	lo := sort.Search(len(b.rowPos), func(i int) bool { return b.rowPos[i] >= n.Pos() })
	for i := lo; i < len(b.rowPos) && b.rowPos[i] < n.End(); i++ {
		p := b.rowPos[i]
		inLit := false
		for _, l := range lits {
			if p >= l[0] && p < l[1] {
				inLit = true
			}
		}
		if inLit {
			continue
		}
		for _, r := range b.rowsAt[p] {
			add(p, &cmd{op: "acc", row: r})
			b.cur.hasOwn = true
		}
	}
	sort.SliceStable(evs, func(i, j int) bool { return evs[i].pos < evs[j].pos })
	var cs []*cmd
	for _, e := range evs {
		cs = append(cs, e.c)
	}
	return seqOf(cs)
}

// closureCall: how the function literal is run where it appears
func (b *skBuilder) closureCall(fl *ast.FuncLit, kind string) *cmd {
	s := b.byLit[fl.Pos()]
	if s == nil {
		return nil
	}
	if b.flow.viaParam[fl.Pos()] && kind == "" {
		return nil // runs where the callee calls its parameter (see callCmd), with the locks held THERE
	}
	c := b.refTo(s)
	ci := s.clo
	var cs []*cmd
	for _, a := range ci.annots {
		cs = append(cs, &cmd{op: "asm", lock: a, mode: lExcl})
	}
	cs = append(cs, c)
	if kind == "go" || kind == "defer" || !ci.sync {
		b.cur.hasOwn = true
		return &cmd{op: "spawn", kids: []*cmd{seqOf(cs)}} // nothing of ours assumed, only the annotated locks
	}
	for _, a := range ci.annots {
		cs = append(cs, &cmd{op: "rel", lock: a})
	}
	if kind == "now" {
		return seqOf(cs)
	}
	return &cmd{op: "loop", kids: []*cmd{seqOf(cs)}} // the callee may run it any number of times
}

// call references are resolved to skeleton numbers after the relevance filter
type skCallRef struct{ target *skFunc }

var skRefs = map[string]*skCallRef{}

func registerRef(r *skCallRef) string {
	k := fmt.Sprintf("ref%d", len(skRefs))
	skRefs[k] = r
	return k
}

func (b *skBuilder) refTo(s *skFunc) *cmd {
	b.cur.callees[s] = true
	return &cmd{op: "callsk", lock: registerRef(&skCallRef{target: s})}
}

// callCmd translates a call expression: lock operation, static call, interface call (all implementations)
func (b *skBuilder) callCmd(c *ast.CallExpr, kind string) *cmd {
	w := b.w
	if id, ok := c.Fun.(*ast.Ident); ok {
		if v, ok := w.p.info.Uses[id].(*types.Var); ok {
			if ts, known := b.flow.targets(v); known {
				var alts []*cmd
				for _, t := range ts {
					alts = append(alts, b.refTo(t))
				}
				if len(alts) == 0 {
					return nil
				}
				call := altOf(alts)
				if kind == "go" || kind == "defer" {
					b.cur.hasOwn = true
					return &cmd{op: "spawn", kids: []*cmd{call}}
				}
				return call
			}
		}
	}
	callee, recv := w.calleeOf(c)
	if callee == nil {
		return nil
	}
	if recv != nil && callee.Pkg() != nil && callee.Pkg().Path() == "sync" {
		if _, isMu := isMutexType(w.p.info.TypeOf(recv)); isMu {
			id := w.lockID(recv)
			if id == "" {
				return nil
			}
			b.cur.hasOwn = true
			b.x.skLockOps++
			switch callee.Name() {
			case "Lock":
				if kind == "" {
					return &cmd{op: "acq", lock: id, mode: lExcl}
				}
			case "RLock":
				if kind == "" {
					return &cmd{op: "acq", lock: id, mode: lShared}
				}
			case "Unlock", "RUnlock":
				if kind == "defer" {
					return &cmd{op: "dfr", lock: id}
				}
				if kind == "" {
					return &cmd{op: "rel", lock: id}
				}
			}
			return nil
		}
	}
	var targets []*skFunc
	if s := b.byObj[callee]; s != nil {
		targets = append(targets, s)
	} else if recv != nil {
		if rt := w.p.info.TypeOf(recv); rt != nil {
			if iface, isIface := rt.Underlying().(*types.Interface); isIface {
				for _, cand := range b.x.methodsNamed[callee.Name()] {
					rtype := cand.obj.Type().(*types.Signature).Recv().Type()
					if types.Implements(rtype, iface) || types.Implements(types.NewPointer(rtype), iface) {
						if s := b.byObj[cand.obj]; s != nil {
							targets = append(targets, s)
						}
					}
				}
				sort.Slice(targets, func(i, j int) bool { return targets[i].name < targets[j].name })
			}
		}
	}
	if len(targets) == 0 {
		return nil
	}
	var alts []*cmd
	viaIface := b.byObj[callee] == nil
	for _, t := range targets {
		r := b.refTo(t)
		if viaIface {
			r.op = "icallsk" // dynamically dispatched: assumed not to change the caller's lock state
		}
		alts = append(alts, r)
	}
	call := altOf(alts)
	if kind == "go" || kind == "defer" {
		b.cur.hasOwn = true
		return &cmd{op: "spawn", kids: []*cmd{call}}
	}
	name := w.calleeName(callee)
	cs := []*cmd{call}
	for _, an := range b.x.ann.CallAcquires {
		if an.Callee == name {
			for _, h := range an.Holds { // call_acquires annotation: assumed held when the call has returned
				cs = append(cs, &cmd{op: "asm", lock: h, mode: lExcl})
			}
		}
	}
	return seqOf(cs)
}

// ---------------------------------------------------------------------------------------------
// serialisation

type skEmitter struct {
	lockID func(string) int
	occ    int
	asms   int // annotated assumptions emitted
	sb     *strings.Builder
}

// render assigns occurrence ids in the order in which the Lean analysis lists rows (left to right)
func (e *skEmitter) render(c *cmd) string {
	switch c.op {
	case "skip":
		return ".skip"
	case "acq":
		if c.mode == lShared {
			return fmt.Sprintf("(.acq ⟨%d, .shared⟩)", e.lockID(c.lock))
		}
		// an exclusive hold also counts as a shared hold of the same mutex
		return fmt.Sprintf("(.seq (.acq ⟨%d, .excl⟩) (.acq ⟨%d, .shared⟩))", e.lockID(c.lock), e.lockID(c.lock))
	case "asm":
		e.asms++
		return fmt.Sprintf("(.seq (.asm ⟨%d, .excl⟩) (.asm ⟨%d, .shared⟩))", e.lockID(c.lock), e.lockID(c.lock))
	case "rel":
		return fmt.Sprintf("(.rel %d)", e.lockID(c.lock))
	case "dfr":
		return fmt.Sprintf("(.dfr %d)", e.lockID(c.lock))
	case "acc":
		c.row.Occ = e.occ
		e.occ++
		return fmt.Sprintf("(.acc %d)", c.row.Occ)
	case "callsk", "icallsk":
		t := skRefs[c.lock].target
		if t.idx < 0 {
			return ".skip"
		}
		if c.op == "icallsk" {
			return fmt.Sprintf("(.icall %d)", t.idx)
		}
		return fmt.Sprintf("(.call %d)", t.idx)
	case "ret":
		return ".ret"
	case "jump":
		return fmt.Sprintf("(.jump %d)", c.to)
	case "seq", "alt":
		return fmt.Sprintf("(.%s %s %s)", c.op, e.render(c.kids[0]), e.render(c.kids[1]))
	case "loop", "block", "spawn":
		return fmt.Sprintf("(.%s %s)", c.op, e.render(c.kids[0]))
	}
	return ".skip"
}

// rels collects what a skeleton may release (itself and, through relOf, its callees)
func skLocalRels(c *cmd, out map[string]bool, calls map[*skFunc]bool) {
	switch c.op {
	case "rel", "dfr":
		out[c.lock] = true
	case "callsk":
		if t := skRefs[c.lock].target; t.idx >= 0 {
			calls[t] = true
		}
	case "spawn":
		return // a spawned body does not release our locks
	}
	for _, k := range c.kids {
		skLocalRels(k, out, calls)
	}
}

// ---------------------------------------------------------------------------------------------
// function values flowing into function-typed parameters (closed world, package-local callees)

type skFlow struct {
	into     map[*types.Var]map[*skFunc]bool // parameter → the function literals / declared functions it may be bound to
	unknown  map[*types.Var]bool             // something else may flow in, or the parameter escapes
	viaParam map[token.Pos]bool              // function literals that run only through resolved parameters
}

func (f *skFlow) targets(v *types.Var) ([]*skFunc, bool) {
	m, ok := f.into[v]
	if !ok || f.unknown[v] {
		return nil, false
	}
	var out []*skFunc
	for s := range m {
		out = append(out, s)
	}
	sort.Slice(out, func(i, j int) bool { return out[i].name < out[j].name })
	return out, true
}

// funcValueFlow: for every package-local function that cannot be entered from elsewhere (unexported, never used
// as a value) and each of its function-typed parameters p: which function literals / declared functions are
// passed for p at the static call sites, following parameters that are passed on (`do(d, write, read)` →
// `doRequest(d, write)`).  p is resolved only if inside its function it is used solely as `p(…)` or as such an
// argument.  A literal all of whose uses are "argument for a resolved parameter" is then translated at the places
// where the parameter is CALLED — the lockset there is derived, not annotated.
func (x *accExtractor) funcValueFlow(byObj map[*types.Func]*skFunc, byLit map[token.Pos]*skFunc) *skFlow {
	fl := &skFlow{into: map[*types.Var]map[*skFunc]bool{}, unknown: map[*types.Var]bool{}, viaParam: map[token.Pos]bool{}}
	type edge struct{ from, to *types.Var }
	var forwards []edge
	litArg := map[token.Pos]*types.Var{} // literal → the parameter it is passed for
	paramsOf := func(fn *funcNode) []*types.Var {
		var out []*types.Var
		for _, f := range fn.decl.Type.Params.List {
			if len(f.Names) == 0 {
				out = append(out, nil)
			}
			for _, n := range f.Names {
				v, _ := fn.pkg.info.Defs[n].(*types.Var)
				out = append(out, v)
			}
		}
		return out
	}
	isFuncVar := func(v *types.Var) bool {
		if v == nil {
			return false
		}
		_, ok := v.Type().Underlying().(*types.Signature)
		return ok
	}
	// candidate parameters
	for _, fn := range x.funcs {
		for _, v := range paramsOf(fn) {
			if isFuncVar(v) {
				fl.into[v] = map[*skFunc]bool{}
				if !fn.propagate || fn.decl.Type.Params.List[len(fn.decl.Type.Params.List)-1].Type == nil {
					fl.unknown[v] = true
				}
				if _, variadic := fn.decl.Type.Params.List[len(fn.decl.Type.Params.List)-1].Type.(*ast.Ellipsis); variadic {
					fl.unknown[v] = true
				}
			}
		}
	}
	for _, p := range x.pkgs {
		w := &walker{x: x, p: p}
		for _, file := range p.files {
			okUse := map[*ast.Ident]bool{} // identifier occurrences of parameters that are fine
			ast.Inspect(file, func(n ast.Node) bool {
				c, ok := n.(*ast.CallExpr)
				if !ok {
					return true
				}
				if id, ok := c.Fun.(*ast.Ident); ok {
					if v, ok := p.info.Uses[id].(*types.Var); ok && fl.into[v] != nil {
						okUse[id] = true // p(…)
					}
				}
				callee, _ := w.calleeOf(c)
				fn := x.funcs[callee]
				if fn == nil {
					return true
				}
				ps := paramsOf(fn)
				for i, a := range c.Args {
					if i >= len(ps) || !isFuncVar(ps[i]) {
						continue
					}
					to := ps[i]
					switch a := a.(type) {
					case *ast.FuncLit:
						if s := byLit[a.Pos()]; s != nil {
							if s.clo.sync {
								continue // run by the callee while the caller's locks are held: translated where it is written
							}
							fl.into[to][s] = true
							litArg[a.Pos()] = to
						} else {
							fl.unknown[to] = true
						}
					case *ast.Ident:
						if v, ok := p.info.Uses[a].(*types.Var); ok && fl.into[v] != nil {
							forwards = append(forwards, edge{v, to})
							okUse[a] = true
						} else if o, ok := p.info.Uses[a].(*types.Func); ok && byObj[o] != nil {
							fl.into[to][byObj[o]] = true
						} else if a.Name != "nil" {
							fl.unknown[to] = true
						}
					default:
						fl.unknown[to] = true
					}
				}
				return true
			})
			// any other mention of a candidate parameter: it escapes
			ast.Inspect(file, func(n ast.Node) bool {
				if id, ok := n.(*ast.Ident); ok && !okUse[id] {
					if v, ok := p.info.Uses[id].(*types.Var); ok && fl.into[v] != nil {
						fl.unknown[v] = true
					}
				}
				return true
			})
		}
	}
	for changed := true; changed; {
		changed = false
		for _, e := range forwards {
			for s := range fl.into[e.from] {
				if !fl.into[e.to][s] {
					fl.into[e.to][s], changed = true, true
				}
			}
			if fl.unknown[e.from] && !fl.unknown[e.to] { // unknown values are passed on as well
				fl.unknown[e.to], changed = true, true
			}
		}
	}
	// a parameter that is passed on to an unresolved parameter is only partly visible: unresolved as well
	for changed := true; changed; {
		changed = false
		for _, e := range forwards {
			if fl.unknown[e.to] && !fl.unknown[e.from] {
				fl.unknown[e.from], changed = true, true
			}
		}
	}
	for pos, v := range litArg {
		if !fl.unknown[v] {
			fl.viaParam[pos] = true
		}
	}
	return fl
}
