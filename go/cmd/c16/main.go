// Driver for property C16: runs the REAL compression codecs of /repo on seeded payloads and prints one line
// per case "<op> <args…>\t<implementation output>" for the oracle (lean/Oracle/C16.lean).
//
//	xw     xerial writer: stream produced for a payload and a split into Write calls; the block partition
//	       (uncompressed block sizes, decoded with the REFERENCE golang/snappy) must be the model's and the
//	       stream must parse under Spec/Xerial
//	xr     xerial reader on reference streams: the sequence of Read return values must be the model's
//	rt     lossless round trip (library writer → library reader) under random write/read chunking
//	out    interop: library stream decoded by the reference decoder of the format
//	in     interop: reference-encoded stream decoded by the library reader
//	ovl    overlapping writers / readers (all opened before use) after each disturbance
//	cfg    Codec values of one kind with different options interleaved: each emits its own pristine bytes
//	hist   history independence of pooled readers/writers (after normal and after failed streams)
//	srcerr underlying reader fails after k bytes: error or the full payload, never wrong data
//	stress many goroutines opening/closing pooled readers and writers in tight loops
//	conc   one codec value used from many goroutines
//
// Every read-direction op feeds the codec reader from a source that uses the freedom of io.Reader's contract:
// short reads, occasional (0, nil), final bytes together with io.EOF.
package main

import (
	"bufio"
	"bytes"
	stdgzip "compress/gzip"
	"encoding/binary"
	"errors"
	"fmt"
	"hash/crc32"
	"io"
	"math/rand"
	"os"
	"os/exec"
	"strconv"
	"strings"
	"sync"
	"time"

	xerial "github.com/eapache/go-xerial-snappy"
	refsnappy "github.com/golang/snappy"
	kzstd "github.com/klauspost/compress/zstd"
	plz4 "github.com/pierrec/lz4/v4"

	"github.com/segmentio/kafka-go/compress"
	"github.com/segmentio/kafka-go/compress/gzip"
	"github.com/segmentio/kafka-go/compress/lz4"
	"github.com/segmentio/kafka-go/compress/snappy"
	"github.com/segmentio/kafka-go/compress/zstd"
	"github.com/segmentio/kafka-go/protocol"

	"kvharness/internal/gen"
)

var out = bufio.NewWriterSize(os.Stdout, 1<<20)

func emit(op, impl string) { fmt.Fprintf(out, "%s\t%s\n", op, impl) }

type codecCase struct {
	name  string
	codec compress.Codec
}

func codecs() []codecCase {
	cs := baseCodecs()
	if gen.Thorough() {
		// every non-default option of the snappy codec in every family (the quick tier has Better in both framings here
		// and all four levels x both framings in `cfg`)
		cs = append(cs,
			codecCase{"snappy-best", &snappy.Codec{Compression: snappy.BestCompression}},
			codecCase{"snappy-best-unframed", &snappy.Codec{Compression: snappy.BestCompression, Framing: snappy.Unframed}},
			codecCase{"snappy-faster-unframed", &snappy.Codec{Compression: snappy.FasterCompression, Framing: snappy.Unframed}})
	}
	return cs
}

func baseCodecs() []codecCase {
	return []codecCase{
		{"gzip", &gzip.Codec{}},
		{"snappy", &snappy.Codec{}},
		{"snappy-unframed", &snappy.Codec{Framing: snappy.Unframed}},
		{"snappy-faster", &snappy.Codec{Compression: snappy.FasterCompression}},
		{"snappy-better", &snappy.Codec{Compression: snappy.BetterCompression}},
		{"snappy-better-unframed", &snappy.Codec{Compression: snappy.BetterCompression, Framing: snappy.Unframed}},
		{"lz4", &lz4.Codec{}},
		{"zstd", &zstd.Codec{}},
		{"global-gzip", compress.Gzip.Codec()},
		{"global-snappy", compress.Snappy.Codec()},
		{"global-lz4", compress.Lz4.Codec()},
		{"global-zstd", compress.Zstd.Codec()},
	}
}

// ---------------------------------------------------------------- payloads and chunkings

func payload(r *rand.Rand, kind, n int) []byte {
	b := make([]byte, n)
	switch kind {
	case 0: // incompressible
		r.Read(b)
	case 1: // highly compressible: long runs, all zeros, a short period, repeated structured lines — inputs on which an
		// encoder finds long and repeated matches (where the S2 extensions of the snappy format would show: C16-m8)
		switch r.Intn(4) {
		case 0:
			for i := range b {
				b[i] = byte(i / 1024)
			}
		case 1: // zeros
		case 2:
			for i := range b {
				b[i] = "abc"[i%3]
			}
		default:
			p := 0
			for i := 0; p < n; i++ {
				p += copy(b[p:], fmt.Sprintf("{\"id\":%d,\"topic\":\"orders\",\"partition\":%d,\"payload\":\"xxxxxxxxxxxxxxxxxxxxxxxxxxxxxxxx\"}\n", i, i%12))
			}
		}
	default: // text-like
		words := []string{"kafka", "record", "batch", "offset", "0123456789", "\x82SNAPPY\x00", "\x00\x00\x00\x01"}
		p := 0
		for p < n {
			p += copy(b[p:], words[r.Intn(len(words))])
		}
	}
	return b
}

var sizes = []int{1, 2, 5, 15, 16, 17, 20, 100, 1023, 1024, 4096, 31743, 31744, 31745, 32767, 32768, 32769, 65535, 65536, 65537, 100000, 200000}

func chunking(r *rand.Rand, n int) []int {
	var cs []int
	mode := r.Intn(5)
	for n > 0 {
		var c int
		switch mode {
		case 0:
			c = n
		case 1:
			c = 1 + r.Intn(7)
			if n > 5000 {
				c = 1 + r.Intn(3000)
			}
		case 2:
			c = []int{1023, 1024, 1025, 31744, 31745, 32768, 32769}[r.Intn(7)]
		case 3:
			c = 1 + r.Intn(70000)
		default:
			c = 4096
		}
		if c > n {
			c = n
		}
		cs = append(cs, c)
		n -= c
	}
	return cs
}

func readSizes(r *rand.Rand) func() int {
	mode := r.Intn(5)
	return func() int {
		switch mode {
		case 0:
			return 1 + r.Intn(3)
		case 1:
			return 512
		case 2:
			return 1 + r.Intn(70000)
		case 3:
			return 100000
		default:
			return []int{1, 16, 4096, 32768, 32769}[r.Intn(5)]
		}
	}
}

func csv(xs []int) string {
	if len(xs) == 0 {
		return "-"
	}
	s := make([]string, len(xs))
	for i, x := range xs {
		s[i] = strconv.Itoa(x)
	}
	return strings.Join(s, ",")
}

func sum(b []byte) string { return fmt.Sprintf("%d:%08x", len(b), crc32.ChecksumIEEE(b)) }

// ---------------------------------------------------------------- using the codecs

func guard(f func() string) (res string) {
	defer func() {
		if p := recover(); p != nil {
			res = fmt.Sprintf("panic:%v", p)
		}
	}()
	return f()
}

func compressChunks(c compress.Codec, p []byte, chunks []int) ([]byte, error) {
	var buf bytes.Buffer
	w := c.NewWriter(&buf)
	for _, n := range chunks {
		if _, err := w.Write(p[:n]); err != nil {
			w.Close()
			return nil, err
		}
		p = p[n:]
	}
	if err := w.Close(); err != nil {
		return nil, err
	}
	return buf.Bytes(), nil
}

// Source reader behaviours allowed by io.Reader's contract: short reads of any size, (0, nil) reads now and
// then, the last bytes returned TOGETHER with io.EOF, and an error after k bytes.
type piecewise struct {
	b        []byte
	n        func() int
	dataEOF  bool // return the final bytes with io.EOF in the same call
	zeroAt   int  // every zeroAt-th call returns (0, nil); 0 = never
	failAt   int  // ≥ 0: after that many bytes return failErr
	calls    int
	lastZero bool
}

// scriptSrc is Model/Source.lean's `Src` in Go: the next answer ⟨n, eof⟩ gives min(n, len(buf), remaining) bytes
// and io.EOF together with them when it delivers the last byte and eof is set; after the script: as much as fits,
// EOF on a later call.
type scriptSrc struct {
	data   []byte
	script [][2]int
}

func (s *scriptSrc) Read(b []byte) (int, error) {
	if len(s.data) == 0 {
		return 0, io.EOF
	}
	if len(s.script) == 0 {
		n := copy(b, s.data)
		s.data = s.data[n:]
		return n, nil
	}
	a := s.script[0]
	s.script = s.script[1:]
	k := a[0]
	if k > len(b) {
		k = len(b)
	}
	last := len(s.data) <= k
	n := copy(b[:k], s.data)
	s.data = s.data[n:]
	if a[1] == 1 && last {
		return n, io.EOF
	}
	return n, nil
}

func genScript(r *rand.Rand, total int) ([][2]int, string) {
	var sc [][2]int
	var parts []string
	n := r.Intn(40)
	for i := 0; i < n; i++ {
		k := []int{0, 1, 7, 1000, 1024, 5000, 31744, 32768, 40000}[r.Intn(9)]
		if k == 0 && i > 0 && sc[i-1][0] == 0 {
			k = 3
		}
		e := r.Intn(2)
		sc = append(sc, [2]int{k, e})
		parts = append(parts, fmt.Sprintf("%d:%d", k, e))
	}
	if len(parts) == 0 {
		return sc, "-"
	}
	return sc, strings.Join(parts, ",")
}

var errSource = errors.New("source failed")

var srcMu sync.Mutex
var srcRand = rand.New(rand.NewSource(gen.Seed() + 77))

// zeroReads: (0, nil) answers are legal but "discouraged" by io.Reader; klauspost's zstd decoder (v1.15.9, third
// party) answers them with io.ErrUnexpectedEOF, so they are not generated for zstd (audit note in docs/notes/C16.md).
func newSource(stream []byte, n func() int, zeroReads bool) *piecewise {
	srcMu.Lock()
	defer srcMu.Unlock()
	p := &piecewise{b: stream, n: n, failAt: -1}
	p.dataEOF = srcRand.Intn(2) == 0
	if zeroReads && srcRand.Intn(3) == 0 {
		p.zeroAt = 2 + srcRand.Intn(5)
	}
	return p
}

func (p *piecewise) Read(b []byte) (int, error) {
	p.calls++
	if p.failAt == 0 {
		return 0, errSource
	}
	if len(p.b) == 0 {
		return 0, io.EOF
	}
	if p.zeroAt > 0 && p.calls%p.zeroAt == 0 && !p.lastZero && len(b) > 0 {
		p.lastZero = true
		return 0, nil
	}
	p.lastZero = false
	n := p.n()
	if n > len(b) {
		n = len(b)
	}
	if n > len(p.b) {
		n = len(p.b)
	}
	if p.failAt > 0 && n > p.failAt {
		n = p.failAt
	}
	copy(b, p.b[:n])
	p.b = p.b[n:]
	if p.failAt > 0 {
		p.failAt -= n
		if p.failAt == 0 {
			return n, errSource
		}
	}
	if len(p.b) == 0 && p.dataEOF {
		return n, io.EOF
	}
	return n, nil
}

func decompressChunks(c compress.Codec, stream []byte, src, dst func() int) ([]byte, []int, error) {
	return decompressFrom(c, newSource(stream, src, c.Name() != "zstd"), dst)
}

func decompressFrom(c compress.Codec, source io.Reader, dst func() int) ([]byte, []int, error) {
	r := c.NewReader(source)
	defer r.Close()
	var res []byte
	var ns []int
	k := 0
	var scratch []byte
	for {
		// the caller's buffer is a PREFIX of a larger array every other call (len(p) < cap(p): buf[:n] slicing,
		// io.LimitedReader, scratch arrays); the spare capacity is filled with a sentinel that Read must not touch
		want := dst()
		spare := 0
		switch {
		case k%2 == 0:
		case k < 8 || k%64 == 1: // a whole block (up to 32 KiB and more) fits into the spare capacity
			spare = 70000
		case k%16 == 3:
			spare = 4096
		default:
			spare = []int{1, 100}[(k/2)%2]
		}
		k++
		if cap(scratch) < want+spare {
			scratch = make([]byte, want+spare)
		}
		backing := scratch[:want+spare]
		// sentinels right behind len(p) and at the end of the capacity (the whole spare is not refilled on every call)
		guards := []int{}
		for i := want; i < len(backing) && i < want+64; i++ {
			guards = append(guards, i)
		}
		for i := len(backing) - 64; i < len(backing); i++ {
			if i >= want+64 {
				guards = append(guards, i)
			}
		}
		for _, i := range guards {
			backing[i] = 0xA5
		}
		buf := backing[:want:len(backing)]
		n, err := r.Read(buf)
		if n < 0 || n > len(buf) {
			return res, append(ns, n), fmt.Errorf("Read(p) with len(p)=%d cap(p)=%d returned n=%d: io.Reader contract violated", len(buf), cap(buf), n)
		}
		for _, i := range guards {
			if backing[i] != 0xA5 {
				return res, append(ns, n), fmt.Errorf("Read(p) with len(p)=%d cap(p)=%d wrote beyond len(p)", len(buf), cap(buf))
			}
		}
		res = append(res, buf[:n]...)
		ns = append(ns, n)
		if err != nil {
			if errors.Is(err, io.EOF) {
				return res, ns, nil
			}
			return res, ns, err
		}
		if len(ns) > 10000000 {
			return res, ns, errors.New("reader does not terminate")
		}
	}
}

// ---------------------------------------------------------------- reference encoders / decoders

func refDecode(name string, stream []byte) ([]byte, error) {
	switch {
	case strings.Contains(name, "gzip"):
		z, err := stdgzip.NewReader(bytes.NewReader(stream))
		if err != nil {
			return nil, err
		}
		return io.ReadAll(z)
	case strings.Contains(name, "unframed"):
		return refsnappy.Decode(nil, stream)
	case strings.Contains(name, "snappy"):
		return xerial.Decode(stream)
	case strings.Contains(name, "lz4"):
		return io.ReadAll(plz4.NewReader(bytes.NewReader(stream)))
	case strings.Contains(name, "zstd"):
		d, err := kzstd.NewReader(bytes.NewReader(stream))
		if err != nil {
			return nil, err
		}
		defer d.Close()
		return io.ReadAll(d)
	}
	return nil, errors.New("no reference")
}

func refEncode(r *rand.Rand, name string, p []byte) ([]byte, error) {
	var buf bytes.Buffer
	switch {
	case strings.Contains(name, "gzip"):
		z := stdgzip.NewWriter(&buf)
		z.Write(p)
		z.Close()
	case strings.Contains(name, "unframed"):
		return refsnappy.Encode(nil, p), nil
	case strings.Contains(name, "snappy"):
		if r.Intn(2) == 0 {
			return xerial.Encode(p), nil // one frame holding everything
		}
		buf.Write([]byte{0x82, 'S', 'N', 'A', 'P', 'P', 'Y', 0, 0, 0, 0, 1, 0, 0, 0, 1})
		for len(p) > 0 {
			n := 1 + r.Intn(40000)
			if n > len(p) {
				n = len(p)
			}
			blk := refsnappy.Encode(nil, p[:n])
			var l [4]byte
			binary.BigEndian.PutUint32(l[:], uint32(len(blk)))
			buf.Write(l[:])
			buf.Write(blk)
			p = p[n:]
		}
	case strings.Contains(name, "lz4"):
		z := plz4.NewWriter(&buf)
		z.Write(p)
		z.Close()
	case strings.Contains(name, "zstd"):
		z, err := kzstd.NewWriter(&buf)
		if err != nil {
			return nil, err
		}
		z.Write(p)
		z.Close()
	}
	return buf.Bytes(), nil
}

// split a xerial stream into (compressed length, uncompressed length) using the reference block decoder
func xerialBlocks(stream []byte) (string, bool) {
	if len(stream) < 16 {
		return "short", false
	}
	p := stream[16:]
	var parts []string
	for len(p) > 0 {
		if len(p) < 4 {
			return "trailing", false
		}
		n := int(binary.BigEndian.Uint32(p))
		p = p[4:]
		if n > len(p) {
			return "overrun", false
		}
		d, err := refsnappy.Decode(nil, p[:n])
		if err != nil {
			return "undecodable-block", false
		}
		parts = append(parts, strconv.Itoa(len(d)))
		p = p[n:]
	}
	if len(parts) == 0 {
		return "-", true
	}
	return strings.Join(parts, ","), true
}

type failingWriter struct{ after int }

// Write accepts `after` more bytes, then fails (a short write with an error, as io.Writer requires).
func (f *failingWriter) Write(b []byte) (int, error) {
	if f.after < len(b) {
		n := f.after
		if n < 0 {
			n = 0
		}
		f.after = 0
		return n, errors.New("sink failed")
	}
	f.after -= len(b)
	return len(b), nil
}

// disturb the pools of codec c with streams that end badly
func disturb(r *rand.Rand, c compress.Codec, good []byte, kind int) {
	defer func() { recover() }()
	switch kind {
	case 0: // normal other stream
		s, _ := compressChunks(c, payload(r, 2, 40000), []int{40000})
		decompressChunks(c, s, func() int { return 1000 }, func() int { return 777 })
	case 1: // truncated input
		for _, cut := range []int{1, 3, 8, 15, 17, 20, len(good) / 2, len(good) - 1} {
			if cut > 0 && cut < len(good) {
				decompressChunks(c, good[:cut], func() int { return 4096 }, func() int { return 999 })
			}
		}
	case 2: // corrupt input
		bad := append([]byte(nil), good...)
		for i := 0; i < 4 && len(bad) > 0; i++ {
			bad[r.Intn(len(bad))] ^= byte(1 + r.Intn(255))
		}
		decompressChunks(c, bad, func() int { return 4096 }, func() int { return 4096 })
	case 3: // reader closed mid-stream
		rd := c.NewReader(bytes.NewReader(good))
		rd.Read(make([]byte, 3))
		rd.Close()
	case 4: // writer whose sink fails, writer closed without Close of data, writer abandoned mid-block
		w := c.NewWriter(&failingWriter{after: 10})
		w.Write(payload(r, 0, 70000))
		w.Close()
		w = c.NewWriter(io.Discard)
		w.Write(payload(r, 2, 100))
		w.Close()
	case 5: // Close called twice (writer and reader), as `defer x.Close()` + explicit Close does
		w := c.NewWriter(io.Discard)
		w.Write(payload(r, 2, 3000))
		w.Close()
		w.Close()
		rd := c.NewReader(bytes.NewReader(good))
		io.Copy(io.Discard, rd)
		rd.Close()
		rd.Close()
	case 6: // the library's own v1 record-set encoder (closes its compressor twice) and v2 encoder / decoders
		for _, version := range []int8{1, 2} {
			rs := protocol.RecordSet{Version: version, Attributes: protocol.Attributes(c.Code()),
				Records: protocol.NewRecordReader(protocol.Record{Time: time.Unix(1600000000, 0), Value: protocol.NewBytes(payload(r, 2, 2000))})}
			var buf bytes.Buffer
			rs.WriteTo(&buf)
			var back protocol.RecordSet
			back.ReadFrom(bufio.NewReader(bytes.NewReader(buf.Bytes())))
			if back.Records != nil {
				for {
					rec, err := back.Records.ReadRecord()
					if err != nil {
						break
					}
					if rec.Value != nil {
						rec.Value.Close()
					}
				}
			}
		}
	}
}

// overlapping use: all writers are opened before any is written to, written to in turns, then closed; then all
// readers are opened before any is read, and read in turns.  Objects handed out by the pools must be distinct.
func overlapping(r *rand.Rand, c compress.Codec, name string, ps [][]byte) string {
	n := len(ps)
	bufs := make([]*bytes.Buffer, n)
	ws := make([]io.WriteCloser, n)
	for i := range ps {
		bufs[i] = &bytes.Buffer{}
		ws[i] = c.NewWriter(bufs[i])
	}
	rest := make([][]byte, n)
	copy(rest, ps)
	for busy := true; busy; {
		busy = false
		for i := range rest {
			if len(rest[i]) == 0 {
				continue
			}
			k := 1 + r.Intn(9000)
			if k > len(rest[i]) {
				k = len(rest[i])
			}
			if _, err := ws[i].Write(rest[i][:k]); err != nil {
				return "error:write " + err.Error()
			}
			rest[i] = rest[i][k:]
			busy = true
		}
	}
	for i := range ws {
		if err := ws[i].Close(); err != nil {
			return "error:close " + err.Error()
		}
	}
	res := "ok"
	for i := range ps {
		got, err := refDecode(name, bufs[i].Bytes())
		if err != nil {
			return fmt.Sprintf("error:stream %d not readable by the reference decoder: %v", i, err)
		}
		res += " " + sum(got)
	}
	rds := make([]io.ReadCloser, n)
	for i := range ps {
		rds[i] = c.NewReader(bytes.NewReader(bufs[i].Bytes()))
	}
	outs := make([][]byte, n)
	done := make([]bool, n)
	for left := n; left > 0; {
		for i := range rds {
			if done[i] {
				continue
			}
			b := make([]byte, 1+r.Intn(5000))
			k, err := rds[i].Read(b)
			outs[i] = append(outs[i], b[:k]...)
			if err != nil {
				done[i] = true
				left--
				if !errors.Is(err, io.EOF) {
					return fmt.Sprintf("error:reader %d: %v", i, err)
				}
			}
		}
	}
	for i := range rds {
		rds[i].Close()
		res += " " + sum(outs[i])
	}
	return res
}

// ---------------------------------------------------------------- configurations of one codec kind

// codecOfSpec builds a fresh Codec VALUE for a textual configuration: gzip:<level> zstd:<level>
// snappy:<compression 0..3>:<framing 0|1> lz4
func codecOfSpec(spec string) compress.Codec {
	f := strings.Split(spec, ":")
	atoi := func(i int) int { v, _ := strconv.Atoi(f[i]); return v }
	switch f[0] {
	case "gzip":
		return &gzip.Codec{Level: atoi(1)}
	case "zstd":
		return &zstd.Codec{Level: atoi(1)}
	case "snappy":
		return &snappy.Codec{Compression: snappy.Compression(atoi(1)), Framing: snappy.Framing(atoi(2))}
	case "lz4":
		return &lz4.Codec{}
	}
	return nil
}

func configSpecs() map[string][]string {
	m := map[string][]string{
		"gzip": {"gzip:0", "gzip:1", "gzip:6", "gzip:9", "gzip:-2"},
		"zstd": {"zstd:0", "zstd:1", "zstd:7", "zstd:12"},
		"lz4":  {"lz4"},
	}
	for c := 0; c < 4; c++ {
		for f := 0; f < 2; f++ {
			m["snappy"] = append(m["snappy"], fmt.Sprintf("snappy:%d:%d", c, f))
		}
	}
	return m
}

// pristine: what a process that never used any codec before produces for this configuration and payload (one
// Write call): the driver re-executes itself, `c16 pristine <spec>`, payload on stdin, compressed bytes on stdout
func pristine(spec string, p []byte) ([]byte, error) {
	cmd := exec.Command(os.Args[0], "pristine", spec)
	cmd.Stdin = bytes.NewReader(p)
	return cmd.Output()
}

func pristineMain(spec string) {
	p, _ := io.ReadAll(os.Stdin)
	c := codecOfSpec(spec)
	if c == nil {
		os.Exit(2)
	}
	s, err := compressChunks(c, p, []int{len(p)})
	if err != nil {
		os.Exit(3)
	}
	os.Stdout.Write(s)
}

// configs: Codec values of one kind with different options used interleaved in one process; the output of each
// must be that configuration's own pristine output whatever the others put into the pools
func configs(r *rand.Rand) {
	kinds := []string{"gzip", "snappy", "zstd", "lz4"}
	specs := configSpecs()
	for _, kind := range kinds {
		p := payload(r, 1+r.Intn(2), 40000+r.Intn(30000))
		want := map[string][]byte{}
		vals := map[string]compress.Codec{}
		for _, sp := range specs[kind] {
			w, err := pristine(sp, p)
			if err != nil {
				emit(fmt.Sprintf("cfg %s %s %s -", sp, "pristine", sum(p)), "error:pristine "+err.Error())
				continue
			}
			want[sp] = w
			vals[sp] = codecOfSpec(sp)
		}
		for round := 0; round < 3; round++ {
			order := r.Perm(len(specs[kind]))
			for _, i := range order {
				sp := specs[kind][i]
				if want[sp] == nil {
					continue
				}
				emit(fmt.Sprintf("cfg %s round%d %s %s", sp, round, sum(p), sum(want[sp])), guard(func() string {
					s, err := compressChunks(vals[sp], p, []int{len(p)})
					if err != nil {
						return "error:" + err.Error()
					}
					name := kind
					if strings.HasSuffix(sp, ":1") && kind == "snappy" {
						name = "snappy-unframed"
					}
					d, err := refDecode(name, s)
					if err != nil {
						return "error:not readable by the reference decoder: " + err.Error()
					}
					return "ok " + sum(d) + " " + sum(s)
				}))
			}
		}
	}
}

// readAllBounded is io.ReadAll that gives up on a reader making no progress (a broken reader must cost
// seconds, not minutes).
func readAllBounded(r io.Reader) ([]byte, error) {
	var out []byte
	buf := make([]byte, 8192)
	idle := 0
	for {
		n, err := r.Read(buf)
		out = append(out, buf[:n]...)
		if err != nil {
			if errors.Is(err, io.EOF) {
				return out, nil
			}
			return out, err
		}
		if n == 0 {
			idle++
			if idle > 1000 {
				return out, errors.New("reader makes no progress")
			}
		} else {
			idle = 0
		}
	}
}

// stress: many goroutines opening / closing readers and writers of one codec value in tight loops, several
// readers open per goroutine (objects then travel between goroutines through the pools' shared lists); every
// stream must decode to its own payload.
func stress(r *rand.Rand, cs []codecCase, G, iters int) {
	// wall-clock budget per codec value: on a loaded machine fewer iterations are run instead of timing out
	const budget = 2 * time.Second
	for _, cc := range cs {
		ps := make([][]byte, 4)
		streams := make([][]byte, 4)
		for i := range ps {
			ps[i] = payload(r, i%3, []int{50, 700, 5000, 33000}[i])
			streams[i], _ = compressChunks(cc.codec, ps[i], []int{len(ps[i])})
		}
		var wg sync.WaitGroup
		var mu sync.Mutex
		first := "none"
		bad := 0
		deadline := time.Now().Add(budget)
		for g := 0; g < G; g++ {
			wg.Add(1)
			go func(g int) {
				defer wg.Done()
				res := guard(func() string {
					for it := 0; it < iters && (it < 3 || time.Now().Before(deadline)); it++ {
						// several readers open at once per goroutine, closed in a different order
						i, j := (g+it)%4, (g+2*it+1)%4
						r1 := cc.codec.NewReader(bytes.NewReader(streams[i]))
						r2 := cc.codec.NewReader(bytes.NewReader(streams[j]))
						g2, e2 := readAllBounded(r2)
						g1, e1 := readAllBounded(r1)
						r1.Close()
						r2.Close()
						if e1 != nil || e2 != nil {
							return fmt.Sprintf("error:%v/%v", e1, e2)
						}
						if !bytes.Equal(g1, ps[i]) || !bytes.Equal(g2, ps[j]) {
							return fmt.Sprintf("wrong-data:%s/%s-for-%s/%s", sum(g1), sum(g2), sum(ps[i]), sum(ps[j]))
						}
						if it%4 == 0 {
							var buf bytes.Buffer
							w := cc.codec.NewWriter(&buf)
							w.Write(ps[i])
							w.Close()
							d, err := refDecode(cc.name, buf.Bytes())
							if err != nil || !bytes.Equal(d, ps[i]) {
								return "writer-output-not-readable-by-reference"
							}
						}
					}
					return "ok"
				})
				if res != "ok" {
					mu.Lock()
					bad++
					if first == "none" {
						first = strings.ReplaceAll(res, " ", "_")
					}
					mu.Unlock()
				}
			}(g)
		}
		wg.Wait()
		emit(fmt.Sprintf("stress %s %d", cc.name, G), fmt.Sprintf("ok %d %s", G-bad, first))
	}
}

func main() {
	defer out.Flush()
	r := gen.New()
	thorough := gen.Thorough()
	rounds := 1
	if thorough {
		rounds = 5
	}
	cs := codecs()
	if len(os.Args) > 2 && os.Args[1] == "pristine" {
		pristineMain(os.Args[2])
		return
	}
	stressOnly := len(os.Args) > 1 && os.Args[1] == "stress"
	if stressOnly {
		// watchdog: whatever hangs, report what was observed so far
		time.AfterFunc(60*time.Second, func() {
			emit("stress watchdog 0", "timeout")
			out.Flush()
			os.Exit(3)
		})
	}

	for round := 0; round < rounds; round++ {
		if stressOnly {
			// the race build: the non-default snappy levels share the pools of the default one and differ only in the
			// block encoder installed after Get: not repeated here
			var raceCs []codecCase
			for _, cc := range baseCodecs() {
				if !strings.Contains(cc.name, "better") {
					raceCs = append(raceCs, cc)
				}
			}
			stress(r, raceCs, 32, 120)
			continue
		}
		// --- xw: writer block structure
		for _, framed := range []bool{true, false} {
			c := &snappy.Codec{}
			if !framed {
				c.Framing = snappy.Unframed
			}
			for _, n := range sizes {
				if n > 100000 && round > 0 {
					continue
				}
				p := payload(r, r.Intn(3), n)
				chunks := chunking(r, n)
				stream, err := compressChunks(c, p, chunks)
				fr := map[bool]int{true: 1, false: 0}[framed]
				if err != nil {
					emit(fmt.Sprintf("xw %d %d %s -", fr, n, csv(chunks)), "error")
					continue
				}
				var impl string
				if framed {
					impl, _ = xerialBlocks(stream)
				} else {
					d, err := refsnappy.Decode(nil, stream)
					impl = strconv.Itoa(len(d))
					if err != nil || !bytes.Equal(d, p) {
						impl = "undecodable-block"
					}
				}
				emit(fmt.Sprintf("xw %d %d %s %s", fr, n, csv(chunks), gen.Hex(stream)), impl)
			}
		}
		// --- xwf: io.Copy INTO the framed writer (xerialWriter.ReadFrom) from a scripted source: block partition = model's
		for i := 0; i < 25; i++ {
			n := sizes[r.Intn(len(sizes))]
			p := payload(r, r.Intn(3), n)
			sc, scs := genScript(r, n)
			var buf bytes.Buffer
			impl := guard(func() string {
				w := (&snappy.Codec{}).NewWriter(&buf)
				if _, err := io.Copy(w, &scriptSrc{data: p, script: sc}); err != nil {
					return "error:" + err.Error()
				}
				if err := w.Close(); err != nil {
					return "error:" + err.Error()
				}
				got, err := xerial.Decode(buf.Bytes())
				if err != nil || !bytes.Equal(got, p) {
					return "wrong-data"
				}
				res, _ := xerialBlocks(buf.Bytes())
				return res
			})
			emit(fmt.Sprintf("xwf %d %s %s", n, scs, gen.Hex(buf.Bytes())), impl)
		}
		// --- xrt: io.Copy FROM the reader (xerialReader.WriteTo) over a scripted source
		for i := 0; i < 25; i++ {
			n := sizes[r.Intn(len(sizes))]
			p := payload(r, r.Intn(3), n)
			stream, _ := refEncode(r, "snappy", p)
			if r.Intn(4) == 0 {
				stream = refsnappy.Encode(nil, p)
			}
			sc, scs := genScript(r, len(stream))
			emit(fmt.Sprintf("rt snappy-writeto k%s %s", "0", sum(p))+" s"+fmt.Sprint(len(scs)), guard(func() string {
				rd := (&snappy.Codec{}).NewReader(&scriptSrc{data: stream, script: sc})
				defer rd.Close()
				var out bytes.Buffer
				if _, err := io.Copy(&out, rd); err != nil {
					return "error:" + err.Error()
				}
				return "ok " + sum(out.Bytes())
			}))
		}
		// --- xr: reader Read-size sequences on reference streams
		for i := 0; i < 40; i++ {
			nb := 1 + r.Intn(4)
			framed := r.Intn(4) != 0
			if !framed {
				nb = 1
			}
			var stream bytes.Buffer
			var ulens []int
			var whole []byte
			if framed {
				stream.Write([]byte{0x82, 'S', 'N', 'A', 'P', 'P', 'Y', 0, 0, 0, 0, 1, 0, 0, 0, 1})
			}
			for j := 0; j < nb; j++ {
				n := []int{1, 7, 100, 5000, 32768, 40000}[r.Intn(6)]
				p := payload(r, r.Intn(3), n)
				blk := refsnappy.Encode(nil, p)
				if framed {
					var l [4]byte
					binary.BigEndian.PutUint32(l[:], uint32(len(blk)))
					stream.Write(l[:])
				}
				stream.Write(blk)
				ulens = append(ulens, n)
				whole = append(whole, p...)
			}
			next := readSizes(r)
			var asked []int
			dst := func() int { n := next(); asked = append(asked, n); return n }
			impl := guard(func() string {
				got, ns, err := decompressChunks(&snappy.Codec{}, stream.Bytes(), func() int { return 1 + r.Intn(5000) }, dst)
				if err != nil {
					return "error:" + err.Error()
				}
				if !bytes.Equal(got, whole) {
					return "wrong-data"
				}
				return csv(ns)
			})
			fr := map[bool]int{true: 1, false: 0}[framed]
			// an unframed raw block that happens to start with the xerial magic cannot be told apart: not generated
			emit(fmt.Sprintf("xr %d %s %s", fr, csv(ulens), csv(asked)), impl)
		}
		// --- xrcut: framed reference streams that END EARLY (the source has only the first bytes): after m complete blocks
		// the cut falls on the frame boundary (kind 0), inside the 4-byte length (kind 1..3 = bytes of it present), right
		// after it (kind 4) or inside the block (kind 5); the Read return values must be the model's and the data a prefix
		// of the payload
		for i := 0; i < 24; i++ {
			nb := 1 + r.Intn(4)
			var frames [][]byte
			var ulens []int
			var whole []byte
			for j := 0; j < nb; j++ {
				n := []int{1, 7, 100, 5000, 32768, 40000}[r.Intn(6)]
				p := payload(r, r.Intn(3), n)
				blk := refsnappy.Encode(nil, p)
				var l [4]byte
				binary.BigEndian.PutUint32(l[:], uint32(len(blk)))
				frames = append(frames, append(l[:], blk...))
				ulens = append(ulens, n)
				whole = append(whole, p...)
			}
			m := r.Intn(nb)
			kind := r.Intn(6)
			stream := []byte{0x82, 'S', 'N', 'A', 'P', 'P', 'Y', 0, 0, 0, 0, 1, 0, 0, 0, 1}
			for j := 0; j < m; j++ {
				stream = append(stream, frames[j]...)
			}
			switch {
			case kind >= 1 && kind <= 3:
				stream = append(stream, frames[m][:kind]...)
			case kind == 4: // the length field and not one byte of the block
				stream = append(stream, frames[m][:4]...)
			case kind == 5: // the length field and a strict, non-empty part of the block
				stream = append(stream, frames[m][:5+r.Intn(len(frames[m])-5)]...)
			}
			next := readSizes(r)
			var asked []int
			dst := func() int { n := next(); asked = append(asked, n); return n }
			impl := guard(func() string {
				got, ns, err := decompressChunks(&snappy.Codec{}, stream, func() int { return 1 + r.Intn(5000) }, dst)
				if !bytes.HasPrefix(whole, got) {
					return "wrong-data"
				}
				if err != nil {
					ns = append(ns, 0) // the model's marker of an error: a second 0
				}
				return csv(ns)
			})
			emit(fmt.Sprintf("xrcut %s %d %d %s", csv(ulens), m, kind, csv(asked)), impl)
		}
		// --- rt / out / in
		for _, cc := range cs {
			for _, n := range sizes {
				if n > 70000 && round > 0 && r.Intn(3) != 0 {
					continue
				}
				kind := r.Intn(3)
				p := payload(r, kind, n)
				chunks := chunking(r, n)
				want := "ok " + sum(p)
				stream, err := compressChunks(cc.codec, p, chunks)
				if err != nil {
					emit(fmt.Sprintf("rt %s k%d %s", cc.name, kind, sum(p)), "error:"+err.Error())
					continue
				}
				emit(fmt.Sprintf("rt %s k%d %s w%d", cc.name, kind, sum(p), len(chunks)), guard(func() string {
					got, _, err := decompressChunks(cc.codec, stream, readSizes(r), readSizes(r))
					if err != nil {
						return "error:" + err.Error()
					}
					return "ok " + sum(got)
				}))
				emit(fmt.Sprintf("out %s k%d %s", cc.name, kind, sum(p)), guard(func() string {
					got, err := refDecode(cc.name, stream)
					if err != nil {
						return "error:" + err.Error()
					}
					return "ok " + sum(got)
				}))
				emit(fmt.Sprintf("in %s k%d %s", cc.name, kind, sum(p)), guard(func() string {
					ref, err := refEncode(r, cc.name, p)
					if err != nil {
						return "error:ref " + err.Error()
					}
					// the snappy reader accepts both framings whatever the codec's Framing option says
					got, _, err := decompressChunks(cc.codec, ref, readSizes(r), readSizes(r))
					if err != nil {
						return "error:" + err.Error()
					}
					return "ok " + sum(got)
				}))
				_ = want
			}
		}
		// --- mixed use (round 7): a few Reads, then io.Copy FROM the reader (io.Copy picks WriteTo when the reader has
		// one); a few Writes, then io.Copy INTO the writer (ReadFrom when the writer has one).  Every byte exactly once.
		for _, cc := range cs {
			for i := 0; i < 4; i++ {
				p := payload(r, r.Intn(3), []int{300, 5000, 40000, 70000}[i])
				stream, err := compressChunks(cc.codec, p, []int{len(p)})
				if err != nil {
					continue
				}
				nreads := 1 + r.Intn(3)
				sz := []int{1, 7, 100, 3000}[r.Intn(4)]
				emit(fmt.Sprintf("rt %s mixr%dx%d %s", cc.name, nreads, sz, sum(p)), guard(func() string {
					rd := cc.codec.NewReader(bytes.NewReader(stream))
					defer rd.Close()
					var got []byte
					for j := 0; j < nreads; j++ {
						buf := make([]byte, sz)
						n, err := rd.Read(buf)
						got = append(got, buf[:n]...)
						if err != nil {
							if errors.Is(err, io.EOF) {
								break
							}
							return "error:read:" + err.Error()
						}
					}
					var rest bytes.Buffer
					if _, err := io.Copy(&rest, rd); err != nil {
						return "error:copy-after-read:" + strings.ReplaceAll(err.Error(), " ", "_")
					}
					got = append(got, rest.Bytes()...)
					return "ok " + sum(got)
				}))
				nw := 1 + r.Intn(3)
				emit(fmt.Sprintf("rt %s mixw%dx%d %s", cc.name, nw, sz, sum(p)), guard(func() string {
					var buf bytes.Buffer
					w := cc.codec.NewWriter(&buf)
					rest := p
					for j := 0; j < nw && len(rest) > sz; j++ {
						if _, err := w.Write(rest[:sz]); err != nil {
							w.Close()
							return "error:write:" + err.Error()
						}
						rest = rest[sz:]
					}
					// the source must not offer WriteTo itself, or io.Copy never asks the writer for ReadFrom
					if _, err := io.Copy(w, struct{ io.Reader }{bytes.NewReader(rest)}); err != nil {
						w.Close()
						return "error:copy-after-write:" + strings.ReplaceAll(err.Error(), " ", "_")
					}
					if err := w.Close(); err != nil {
						return "error:close:" + err.Error()
					}
					d, err := refDecode(cc.name, buf.Bytes())
					if err != nil {
						return "error:not-readable-by-the-reference-decoder:" + strings.ReplaceAll(err.Error(), " ", "_")
					}
					return "ok " + sum(d)
				}))
			}
		}
		// --- srcerr: the underlying reader fails after k bytes: an error (or the full payload), never wrong data
		for _, cc := range cs {
			for i := 0; i < 6; i++ {
				p := payload(r, r.Intn(3), []int{20, 3000, 40000, 70000}[r.Intn(4)])
				stream, err := compressChunks(cc.codec, p, chunking(r, len(p)))
				if err != nil || len(stream) < 2 {
					continue
				}
				k := r.Intn(len(stream))
				emit(fmt.Sprintf("srcerr %s %s cut%d/%d", cc.name, sum(p), k, len(stream)), guard(func() string {
					src := newSource(stream, readSizes(r), cc.codec.Name() != "zstd")
					src.failAt = k
					got, _, err := decompressFrom(cc.codec, src, readSizes(r))
					switch {
					case err != nil && bytes.HasPrefix(p, got):
						return "sound" // what was handed out before the error is a prefix of the payload (Props/C16 truncated_stream_prefix)
					case err != nil:
						return "unsound:wrong-data-before-the-error-" + sum(got)
					case bytes.Equal(got, p):
						return "sound"
					}
					return "unsound:ok-with-" + sum(got)
				}))
			}
		}
		// --- wrerr: the underlying writer fails after k bytes: Write or Close must report an error
		for _, cc := range cs {
			for i := 0; i < 4; i++ {
				p := payload(r, r.Intn(3), []int{20, 3000, 40000, 70000}[r.Intn(4)])
				stream, err := compressChunks(cc.codec, p, []int{len(p)})
				if err != nil || len(stream) < 2 {
					continue
				}
				k := r.Intn(len(stream))
				chunks := chunking(r, len(p))
				emit(fmt.Sprintf("wrerr %s %s cut%d/%d", cc.name, sum(p), k, len(stream)), guard(func() string {
					w := cc.codec.NewWriter(&failingWriter{after: k})
					rest := p
					var werr error
					for _, n := range chunks {
						if _, e := w.Write(rest[:n]); e != nil && werr == nil {
							werr = e
						}
						rest = rest[n:]
					}
					if e := w.Close(); e != nil && werr == nil {
						werr = e
					}
					if werr == nil {
						return "unsound:no-error-reported"
					}
					return "sound"
				}))
			}
		}
		// --- stress: many goroutines opening / closing readers and writers in tight loops
		if thorough {
			stress(r, cs, 48, 150)
		} else {
			stress(r, cs, 24, 40)
		}
		// --- cfg: several configurations of one codec kind interleaved
		configs(r)
		// --- hist: same stream through pooled objects after disturbances; output bytes and data identical to first use
		for _, cc := range cs {
			p := payload(r, 2, 50000+r.Intn(30000))
			chunks := chunking(r, len(p))
			base, err := compressChunks(cc.codec, p, chunks)
			if err != nil {
				emit(fmt.Sprintf("hist %s base %s", cc.name, sum(p)), "error:"+err.Error())
				continue
			}
			for kind := 0; kind <= 6; kind++ {
				ps := [][]byte{payload(r, 2, 40000+r.Intn(9000)), payload(r, 0, 35000+r.Intn(5000)), payload(r, 1, 70000)}
				emit(fmt.Sprintf("ovl %s after%d %s %s %s", cc.name, kind, sum(ps[0]), sum(ps[1]), sum(ps[2])), guard(func() string {
					last := ""
					for i := 0; i < 3; i++ {
						disturb(r, cc.codec, base, kind)
						last = overlapping(r, cc.codec, cc.name, ps)
						if !strings.HasPrefix(last, "ok") {
							break
						}
					}
					return last
				}))
				emit(fmt.Sprintf("hist %s after%d %s %s", cc.name, kind, sum(p), sum(base)), guard(func() string {
					for i := 0; i < 3; i++ {
						disturb(r, cc.codec, base, kind)
					}
					again, err := compressChunks(cc.codec, p, chunks)
					if err != nil {
						return "error:" + err.Error()
					}
					got, _, err := decompressChunks(cc.codec, base, readSizes(r), readSizes(r))
					if err != nil {
						return "error:" + err.Error()
					}
					return "ok " + sum(got) + " " + sum(again)
				}))
			}
		}
		// --- conc: many goroutines on one codec value
		for _, cc := range cs {
			const G = 16
			ps := make([][]byte, G)
			res := make([]string, G)
			var wg sync.WaitGroup
			seeds := make([]int64, G)
			for g := range ps {
				ps[g] = payload(r, g%3, []int{10, 5000, 33000, 70000}[g%4])
				seeds[g] = r.Int63()
			}
			for g := 0; g < G; g++ {
				wg.Add(1)
				go func(g int) {
					defer wg.Done()
					lr := rand.New(rand.NewSource(seeds[g]))
					res[g] = guard(func() string {
						for it := 0; it < 8; it++ {
							s, err := compressChunks(cc.codec, ps[g], chunking(lr, len(ps[g])))
							if err != nil {
								return "error:" + err.Error()
							}
							got, _, err := decompressChunks(cc.codec, s, readSizes(lr), readSizes(lr))
							if err != nil {
								return "error:" + err.Error()
							}
							if !bytes.Equal(got, ps[g]) {
								return "wrong-data"
							}
						}
						return "ok"
					})
				}(g)
			}
			wg.Wait()
			bad := 0
			first := "none"
			for _, x := range res {
				if x != "ok" {
					bad++
					if first == "none" {
						first = x
					}
				}
			}
			emit(fmt.Sprintf("conc %s %d", cc.name, G), fmt.Sprintf("ok %d %s", G-bad, first))
		}
	}
}
