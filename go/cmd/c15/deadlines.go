package main

// The library's own connection path (makeConnect -> Dialer.Dial -> timeoutCoordinator -> Conn), which the mock coordinator
// and the byte-level peer both replace: a ConsumerGroup is pointed at a wire-level coordinator (groupmock.GBroker) through
// Dialer.DialFunc, no verif handler installed.  What is observed is TIME:
//
//   - a JoinGroup answer may take up to the rebalance time-out, a SyncGroup answer up to the session time-out (the
//     coordinator waits for the other members / the leader): answers held longer than Timeout but shorter than
//     Timeout+RebalanceTimeout (Timeout+SessionTimeout) must be accepted — exactly one JoinGroup / SyncGroup is sent;
//   - a JoinGroup answer held beyond Timeout+RebalanceTimeout is given up: the join fails and is retried (two JoinGroups);
//   - a coordinator that goes silent ends the generation: the heartbeat that gets no answer fails after Timeout and the
//     functions' context is cancelled ("ends it promptly … when a heartbeat fails").  The clock is generously scaled: in
//     the run that matters Timeout is 40 ms and the session / rebalance time-outs are 3 s; the generation must have ended
//     within Timeout + 1 s, and a run in which it is still alive after 2 s reports -2.
//
//	deadlines timeout=.. rebalance=.. session=.. joinheld=.. syncheld=..\tjoins=.. syncs=.. gen=ok|none hbend=<ms> leave=<member>

import (
	"context"
	"fmt"
	"sync"
	"time"

	kafka "github.com/segmentio/kafka-go"

	gm "kvharness/internal/groupmock"
)

func scenarioDeadlines(timeout, rebalance, session, joinHeld, syncHeld time.Duration) {
	kafka.VerifSetSink(nil)
	kafka.VerifSetGroupHandler(nil)
	gb := gm.NewGBroker("t")
	defer gb.Stop()
	var mu sync.Mutex
	silent := false
	var silentAt time.Time
	gb.Hold = func(method string, nth int) time.Duration {
		mu.Lock()
		defer mu.Unlock()
		switch {
		case method == "joinGroup" && nth == 1:
			return joinHeld
		case method == "syncGroup" && nth == 1:
			return syncHeld
		case method == "heartbeat" && silent:
			if silentAt.IsZero() {
				silentAt = time.Now()
			}
			return -1
		}
		return 0
	}
	cg, err := kafka.NewConsumerGroup(kafka.ConsumerGroupConfig{
		ID: "grp", Brokers: []string{"b:9092"}, Topics: []string{"t"},
		Dialer:            &kafka.Dialer{DialFunc: gb.Dial, Timeout: 300 * time.Millisecond},
		HeartbeatInterval: 10 * time.Millisecond, JoinGroupBackoff: 10 * time.Millisecond,
		Timeout:           timeout, RebalanceTimeout: rebalance, SessionTimeout: session,
	})
	if err != nil {
		fmt.Fprintf(out, "deadlines timeout=%d rebalance=%d session=%d joinheld=%d syncheld=%d\tnew-failed\n",
			timeout.Milliseconds(), rebalance.Milliseconds(), session.Milliseconds(), joinHeld.Milliseconds(), syncHeld.Milliseconds())
		return
	}
	genSt, hbEnd := "none", int64(-1)
	ctx, cancel := context.WithTimeout(context.Background(), 3*time.Second)
	var gen *kafka.Generation
	for gen == nil && ctx.Err() == nil { // errors of failed joins are delivered to Next as well
		gen, _ = cg.Next(ctx)
	}
	cancel()
	joins, syncs, leave := 0, 0, "-"
	for _, r := range gb.Requests() { // requests it took to obtain the first generation
		switch r.Method {
		case "joinGroup":
			joins++
		case "syncGroup":
			syncs++
		}
	}
	if gen != nil {
		genSt = "ok"
		ended := make(chan time.Time, 1)
		gen.Start(func(c context.Context) {
			<-c.Done()
			ended <- time.Now()
		})
		time.Sleep(30 * time.Millisecond) // some answered heartbeats first
		mu.Lock()
		silent = true
		mu.Unlock()
		select {
		case t := <-ended:
			mu.Lock()
			if !silentAt.IsZero() {
				hbEnd = t.Sub(silentAt).Milliseconds()
			}
			mu.Unlock()
		case <-time.After(2 * time.Second):
			hbEnd = -2 // the generation outlived a silent coordinator
		}
		mu.Lock()
		silent = false
		mu.Unlock()
	}
	closed := make(chan struct{})
	go func() { cg.Close(); close(closed) }()
	select {
	case <-closed:
	case <-time.After(3 * time.Second):
		genSt += ",stuck:close"
	}
	for _, r := range gb.Requests() {
		if r.Method == "leaveGroup" {
			leave = r.Member
		}
	}
	fmt.Fprintf(out, "deadlines timeout=%d rebalance=%d session=%d joinheld=%d syncheld=%d\tjoins=%d syncs=%d gen=%s hbend=%d leave=%s\n",
		timeout.Milliseconds(), rebalance.Milliseconds(), session.Milliseconds(), joinHeld.Milliseconds(), syncHeld.Milliseconds(),
		joins, syncs, genSt, hbEnd, leave)
}
