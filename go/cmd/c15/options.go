package main

// Option pass-through of a group Reader: every ReaderConfig field that feeds the ConsumerGroupConfig is set to a
// distinct non-default value and observed through behaviour — the requests the coordinator sees (group id, topics,
// balancer protocol, session / rebalance time-outs, retention), the start offset of an uncommitted partition, the
// back-off after a failed join, the heartbeat rate and the partition-watcher poll rate (wall clock, tolerance in the
// oracle).
//
//	options <configured…>\t<observed…>

import (
	"context"
	"errors"
	"fmt"
	"net"
	"strings"
	"sync"
	"time"

	kafka "github.com/segmentio/kafka-go"

	gm "kvharness/internal/groupmock"
)

func scenarioOptions() {
	const (
		hbIv, watchIv, backoff   = 10 * time.Millisecond, 70 * time.Millisecond, 40 * time.Millisecond
		session, rebalance, rete = 1234 * time.Millisecond, 2345 * time.Millisecond, 3456 * time.Millisecond
	)
	mock, log := gm.New(), gm.NewLog()
	kafka.VerifGroupResetConnIDs()
	kafka.VerifStart()
	kafka.VerifSetSink(log.Sink)
	kafka.VerifSetGroupWire(false)
	var mu sync.Mutex
	obs := map[string]string{}
	joins, hb, watch := 0, 0, 0
	var tJoinErr, tNextConnect time.Time
	counting := false
	mock.Auto = func(c kafka.VerifCoordCall) (kafka.VerifCoordReply, bool) {
		mu.Lock()
		defer mu.Unlock()
		switch c.Method {
		case "connect":
			if !tJoinErr.IsZero() && tNextConnect.IsZero() {
				tNextConnect = time.Now()
			}
			return kafka.VerifCoordReply{}, true
		case "findCoordinator":
			obs["gid"] = c.GroupID
			return kafka.VerifCoordReply{Host: "coord", Port: 9092}, true
		case "joinGroup":
			joins++
			obs["topics"] = strings.Join(c.Topics, ",")
			obs["protocols"] = strings.Join(c.Protocols, ",")
			obs["session"] = fmt.Sprint(c.SessionTimeoutMs)
			obs["rebalance"] = fmt.Sprint(c.RebalanceTimeoutMs)
			if c.GroupID != obs["gid"] {
				obs["gid"] = obs["gid"] + "/" + c.GroupID
			}
			if joins == 1 {
				tJoinErr = time.Now()
				return kafka.VerifCoordReply{Err: kafka.Error(25)}, true
			}
			return kafka.VerifCoordReply{MemberID: "m1", GenerationID: 1, Protocol: "roundrobin", LeaderID: "other"}, true
		case "syncGroup":
			return kafka.VerifCoordReply{Assignments: map[string][]int32{"ta": {0}}}, true
		case "offsetFetch":
			return kafka.VerifCoordReply{Committed: []kafka.VerifGroupOffset{{Topic: "ta", Partition: 0, Offset: -1}}}, true
		case "heartbeat":
			if counting {
				hb++
			}
			return kafka.VerifCoordReply{}, true
		case "readPartitions":
			if counting && len(c.Topics) == 1 && c.Topics[0] == "ta" {
				watch++
			}
			var ps []kafka.Partition
			for _, t := range c.Topics {
				ps = append(ps, kafka.Partition{Topic: t, ID: 0})
			}
			return kafka.VerifCoordReply{Parts: ps}, true
		case "offsetCommit":
			obs["retention"] = fmt.Sprint(c.RetentionMs)
			return kafka.VerifCoordReply{}, true
		}
		return kafka.VerifCoordReply{}, true
	}
	kafka.VerifSetGroupHandler(mock.Handle)
	r := kafka.NewReader(kafka.ReaderConfig{
		Brokers: []string{"b:9092"}, GroupID: "grp-x", GroupTopics: []string{"ta", "tb"},
		GroupBalancers:    []kafka.GroupBalancer{kafka.RoundRobinGroupBalancer{}},
		HeartbeatInterval: hbIv, PartitionWatchInterval: watchIv, WatchPartitionChanges: true,
		SessionTimeout: session, RebalanceTimeout: rebalance, JoinGroupBackoff: backoff, RetentionTime: rete,
		StartOffset: kafka.LastOffset, MaxAttempts: 1,
		ReadBackoffMin: 50 * time.Millisecond, ReadBackoffMax: 100 * time.Millisecond,
		Dialer: &kafka.Dialer{DialFunc: func(ctx context.Context, network, addr string) (net.Conn, error) {
			return nil, errors.New("no broker in this harness")
		}},
	})
	elapsed := time.Duration(0)
	if log.WaitCount(gm.Kind("R.Subscribe"), 1, 5*time.Second) {
		for _, e := range log.Snapshot() {
			if e.Kind == "R.Subscribe" {
				obs["start"] = e.Args[1]
			}
		}
		mu.Lock()
		counting = true
		mu.Unlock()
		t0 := time.Now()
		time.Sleep(300 * time.Millisecond)
		mu.Lock()
		counting = false
		elapsed = time.Since(t0)
		mu.Unlock()
		ctx, cancel := context.WithTimeout(context.Background(), 2*time.Second)
		r.CommitMessages(ctx, kafka.Message{Topic: "ta", Partition: 0, Offset: 7})
		cancel()
	}
	r.Close()
	kafka.VerifSetSink(nil)
	kafka.VerifSetGroupHandler(nil)
	kafka.VerifStop()
	mu.Lock()
	defer mu.Unlock()
	bo := int64(-1)
	if !tNextConnect.IsZero() {
		bo = tNextConnect.Sub(tJoinErr).Milliseconds()
	}
	get := func(k string) string {
		if v, ok := obs[k]; ok && v != "" {
			return v
		}
		return "?"
	}
	fmt.Fprintf(out, "options gid=grp-x topics=ta,tb protocols=roundrobin session=%d rebalance=%d retention=%d start=ta/0@-1 backoff=%d hbiv=%d wiv=%d el=%d\t"+
		"gid=%s topics=%s protocols=%s session=%s rebalance=%s retention=%s start=%s backoff=%d hb=%d watch=%d\n",
		session.Milliseconds(), rebalance.Milliseconds(), rete.Milliseconds(), backoff.Milliseconds(), hbIv.Milliseconds(), watchIv.Milliseconds(), elapsed.Milliseconds(),
		get("gid"), get("topics"), get("protocols"), get("session"), get("rebalance"), get("retention"), get("start"), bo, hb, watch)
}

// scenarioDefaults: the options a program does NOT set.  "Heartbeats are sent at the configured interval … failed joins are
// retried after the configured back-off": with nothing configured, the configured value is the documented default
// (ConsumerGroupConfig field comments: 3s heartbeat, 30s session, 30s rebalance, 5s join back-off, 5s watch interval,
// retention -1 = broker default, FirstOffset, balancers [range, roundrobin], 5s time-out).  Observed (a) on the config
// ConsumerGroupConfig.Validate leaves behind and (b) through a Reader that sets only Brokers/GroupID/Topic: what its
// JoinGroup / OffsetCommit requests carry and where an uncommitted partition starts.
//
//	defaults\t<observed…>
func scenarioDefaults() {
	cfg := kafka.ConsumerGroupConfig{ID: "grp-d", Brokers: []string{"b:9092"}, Topics: []string{"t"}}
	verr := cfg.Validate()
	var bal []string
	for _, b := range cfg.GroupBalancers {
		bal = append(bal, b.ProtocolName())
	}
	mock, log := gm.New(), gm.NewLog()
	kafka.VerifGroupResetConnIDs()
	kafka.VerifStart()
	kafka.VerifSetSink(log.Sink)
	kafka.VerifSetGroupWire(false)
	var mu sync.Mutex
	obs := map[string]string{}
	mock.Auto = func(c kafka.VerifCoordCall) (kafka.VerifCoordReply, bool) {
		mu.Lock()
		defer mu.Unlock()
		switch c.Method {
		case "findCoordinator":
			return kafka.VerifCoordReply{Host: "coord", Port: 9092}, true
		case "joinGroup":
			obs["protocols"] = strings.Join(c.Protocols, ",")
			obs["session"] = fmt.Sprint(c.SessionTimeoutMs)
			obs["rebalance"] = fmt.Sprint(c.RebalanceTimeoutMs)
			return kafka.VerifCoordReply{MemberID: "m1", GenerationID: 1, Protocol: "range", LeaderID: "other"}, true
		case "syncGroup":
			return kafka.VerifCoordReply{Assignments: map[string][]int32{"t": {0}}}, true
		case "offsetFetch":
			return kafka.VerifCoordReply{Committed: []kafka.VerifGroupOffset{{Topic: "t", Partition: 0, Offset: -1}}}, true
		case "readPartitions":
			obs["watch-polled"] = "1" // WatchPartitionChanges is off by default: no watcher may poll
			return kafka.VerifCoordReply{Parts: []kafka.Partition{{Topic: "t", ID: 0}}}, true
		case "offsetCommit":
			obs["retention"] = fmt.Sprint(c.RetentionMs)
			return kafka.VerifCoordReply{}, true
		}
		return kafka.VerifCoordReply{}, true
	}
	kafka.VerifSetGroupHandler(mock.Handle)
	r := kafka.NewReader(kafka.ReaderConfig{
		Brokers: []string{"b:9092"}, GroupID: "grp-d", Topic: "t",
		Dialer: &kafka.Dialer{DialFunc: func(ctx context.Context, network, addr string) (net.Conn, error) {
			return nil, errors.New("no broker in this harness")
		}},
	})
	if log.WaitCount(gm.Kind("R.Subscribe"), 1, 5*time.Second) {
		for _, e := range log.Snapshot() {
			if e.Kind == "R.Subscribe" {
				obs["start"] = e.Args[1]
			}
		}
		ctx, cancel := context.WithTimeout(context.Background(), 2*time.Second)
		r.CommitMessages(ctx, kafka.Message{Topic: "t", Partition: 0, Offset: 7})
		cancel()
	}
	r.Close()
	kafka.VerifSetSink(nil)
	kafka.VerifSetGroupHandler(nil)
	kafka.VerifStop()
	mu.Lock()
	defer mu.Unlock()
	get := func(k string) string {
		if v, ok := obs[k]; ok && v != "" {
			return v
		}
		return "?"
	}
	fmt.Fprintf(out, "defaults\tvalidate=%v hb=%d session=%d rebalance=%d backoff=%d watchiv=%d retention=%d start=%d timeout=%d balancers=%s watch=%v "+
		"r.protocols=%s r.session=%s r.rebalance=%s r.retention=%s r.start=%s r.watchpolled=%s\n",
		verr == nil, cfg.HeartbeatInterval.Milliseconds(), cfg.SessionTimeout.Milliseconds(), cfg.RebalanceTimeout.Milliseconds(),
		cfg.JoinGroupBackoff.Milliseconds(), cfg.PartitionWatchInterval.Milliseconds(), cfg.RetentionTime.Milliseconds(), cfg.StartOffset,
		cfg.Timeout.Milliseconds(), strings.Join(bal, ","), cfg.WatchPartitionChanges,
		get("protocols"), get("session"), get("rebalance"), get("retention"), get("start"), func() string {
			if obs["watch-polled"] == "1" {
				return "yes"
			}
			return "no"
		}())
}
