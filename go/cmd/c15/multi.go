package main

// Multi-member histories for C15: two or three ConsumerGroups against ONE simulated coordinator (groupmock.Sim):
// the rebalances a member sees are caused by the other members joining, leaving and being evicted.  The combined event
// log is split per member (by ConsumerGroup, generation and connection) and each member's trace is printed as an
// ordinary `trace` line.

import (
	"fmt"
	"math/rand"
	"strings"
	"time"

	kafka "github.com/segmentio/kafka-go"

	gm "kvharness/internal/groupmock"
)

func multiRun(rng *rand.Rand, n int, steps int) {
	topics := []string{"t", "u"}
	mock, log := gm.New(), gm.NewLog()
	sim := gm.NewSim(topics, 3)
	kafka.VerifGroupResetConnIDs()
	kafka.VerifStart()
	kafka.VerifSetSink(log.Sink)
	wire := rng.Intn(3) == 0
	kafka.VerifSetGroupWire(wire)
	kafka.VerifSetGroupHandler(mock.Handle)
	var ms []*scenario
	add := func() {
		k := len(ms)
		s := &scenario{rng: rng, mock: mock, log: log, topics: topics, nextRes: make(chan nextResult, 1), closeCh: make(chan struct{}),
			parts: map[string]int{}, member: k}
		cg, err := kafka.NewConsumerGroup(kafka.ConsumerGroupConfig{
			ID: "grp", Brokers: []string{fmt.Sprintf("b%d:9092", k)}, Topics: topics,
			HeartbeatInterval: 2 * time.Millisecond, JoinGroupBackoff: 3 * time.Millisecond,
		})
		if err != nil {
			panic(err)
		}
		s.cg, s.cgID = cg, kafka.VerifID(cg)
		kafka.VerifGroupEmit("H.Member", cg, k)
		ms = append(ms, s)
	}
	add()
	joinAt := map[int]bool{}
	for len(joinAt) < n-1 {
		joinAt[1+rng.Intn(steps/2)] = true
	}
	evictAt, leaveAt := -1, -1
	if rng.Intn(2) == 0 {
		evictAt = steps/3 + rng.Intn(steps/2)
	}
	if rng.Intn(2) == 0 {
		leaveAt = steps/2 + rng.Intn(steps/2)
	}
	answer := func(p *gm.Pending) bool {
		r, ready := sim.Answer(p)
		if ready {
			mock.Answer(p, r)
		}
		return ready
	}
	for i := 0; i < steps; i++ {
		log.Settle(150*time.Microsecond, 3*time.Millisecond)
		for _, s := range ms {
			s.pollNext(0)
		}
		if joinAt[i] && len(ms) < n {
			add()
			continue
		}
		if i == evictAt {
			sim.Evict(rng.Intn(len(ms)))
			continue
		}
		if i == leaveAt {
			if s := ms[rng.Intn(len(ms))]; !s.closed {
				s.callClose()
			}
			continue
		}
		var acts []func()
		for _, p := range mock.Snapshot() {
			p := p
			w := 4
			if p.Call.Method == "heartbeat" && !sim.Rebalancing() {
				w = 1
			}
			for j := 0; j < w; j++ {
				acts = append(acts, func() { answer(p) })
			}
		}
		for _, s := range ms {
			s := s
			if !s.nextOut {
				acts = append(acts, func() { s.callNext() }, func() { s.callNext() })
			}
			if len(s.gens) > 0 && len(s.fns) < 5 && !s.closed {
				acts = append(acts, func() { s.userStart(len(s.gens)-1, rng.Intn(3) == 0) })
			}
			for _, f := range s.fns {
				f := f
				if !f.released() && rng.Intn(3) == 0 {
					acts = append(acts, func() { close(f.release) })
				}
			}
		}
		if len(acts) == 0 {
			mock.AwaitAny(5 * time.Millisecond)
			continue
		}
		acts[rng.Intn(len(acts))]()
	}
	// wind down
	for _, s := range ms {
		if !s.closed {
			s.callClose()
		}
	}
	deadline := time.Now().Add(10 * time.Second)
	for {
		all := true
		for _, s := range ms {
			if !s.closeReturned() {
				all = false
			}
			s.pollNext(0)
		}
		if all {
			break
		}
		if time.Now().After(deadline) {
			ms[0].fail("stuck:close %s", sim.String())
			break
		}
		progressed := false
		for _, p := range mock.Snapshot() {
			if answer(p) {
				progressed = true
			}
		}
		if !progressed {
			mock.AwaitAny(2 * time.Millisecond)
		}
		if time.Until(deadline) < 8*time.Second {
			for _, s := range ms {
				for _, f := range s.fns {
					if !f.released() {
						close(f.release)
					}
				}
			}
		}
	}
	for _, s := range ms {
		if s.nextOut {
			s.pollNext(2 * time.Second)
		}
		for _, f := range s.fns {
			if !f.released() {
				select {
				case <-f.ctxSeen:
				case <-time.After(2 * time.Second):
					s.fail("ctx-not-cancelled:g%d", f.g)
				}
				close(f.release)
			}
		}
		for _, f := range s.fns {
			select {
			case <-f.done:
			case <-time.After(2 * time.Second):
				s.fail("stuck:fn")
			}
		}
	}
	for _, p := range mock.Snapshot() {
		mock.Answer(p, kafka.VerifCoordReply{})
	}
	time.Sleep(300 * time.Microsecond)
	kafka.VerifSetSink(nil)
	kafka.VerifSetGroupHandler(nil)
	evs := kafka.VerifStop()

	// split per member
	cgMember, genMember, connMember := map[string]int{}, map[string]int{}, map[string]int{}
	for _, e := range evs {
		switch {
		case e.Kind == "H.Member":
			var k int
			fmt.Sscanf(e.Args[1], "%d", &k)
			cgMember[e.Args[0]] = k
		}
	}
	// Generations and connections come and go during a run and the recorder's ids are addresses, which the allocator
	// hands out again: their owner is looked up in the SAME pass that reads the events, so an id means "the most recent
	// object created under this id" (G.New / connect always precede the object's other events).  ConsumerGroups live for
	// the whole run, so their ids are unique and the pre-pass above is sound.
	per := make([][]kafka.VerifEvent, len(ms))
	for _, e := range evs {
		switch {
		case e.Kind == "G.New":
			genMember[e.Args[1]] = cgMember[e.Args[0]]
		case e.Kind == "M.Call" && e.Args[1] == "connect":
			var k int
			if _, err := fmt.Sscanf(e.Args[4], "b%d:", &k); err != nil {
				fmt.Sscanf(e.Args[4], "coord%d:", &k)
			}
			connMember[e.Args[0]] = k
		}
		k, ok := -1, false
		switch {
		case strings.HasPrefix(e.Kind, "CG."):
			k, ok = cgMember[e.Args[0]], true
		case e.Kind == "G.New":
			k, ok = cgMember[e.Args[0]], true
		case strings.HasPrefix(e.Kind, "G."):
			k, ok = genMember[e.Args[0]]
		case strings.HasPrefix(e.Kind, "M."):
			k, ok = connMember[e.Args[0]]
		case e.Kind == "H.NextCall":
			fmt.Sscanf(e.Args[0], "%d", &k)
			ok = true
		case e.Kind == "H.NextRet":
			fmt.Sscanf(e.Args[2], "%d", &k)
			ok = true
		case e.Kind == "H.Start" || e.Kind == "H.FnCtx" || e.Kind == "H.FnRet":
			k, ok = genMember[e.Args[0]]
		}
		if ok && k >= 0 && k < len(per) {
			per[k] = append(per[k], e)
		}
	}
	for k, s := range ms {
		tr, _ := canon(per[k], topics, wire)
		st := "ok"
		if len(s.status) > 0 {
			st = strings.Join(s.status, ",")
		}
		if tr == "" {
			tr = "nextCall"
		}
		fmt.Fprintf(out, "trace 0 %s\t%s\n", tr, st)
	}
}
