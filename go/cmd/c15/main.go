// Driver for property C15: runs real ConsumerGroups of /repo (built with -tags verif) against the mock
// coordinator under scripted and random interleavings of coordinator answers / Next / Start / function exit /
// Close, records the hook + journal event trace and prints one line per scenario:
//
//	trace <nWatch> <ev>;<ev>;…\t<driver status>
//
// plus observation lines `hbrate <interval_ms> <elapsed_ms>\t<count>` and `backoff <configured_ms>\t<observed_ms>`.
package main

import (
	"bufio"
	"context"
	"errors"
	"fmt"
	"math/rand"
	"os"
	"strconv"
	"strings"
	"sync"
	"time"

	kafka "github.com/segmentio/kafka-go"

	"kvharness/internal/gen"
	gm "kvharness/internal/groupmock"
)

var out = bufio.NewWriter(os.Stdout)

var netErr = errors.New("connection dropped")

// wireMode: the next scenario reaches the mock coordinator through real *Conn objects (byte-level path)
var wireMode bool
var seenBody = map[string]bool{}

// ---------------------------------------------------------------- scenario state

type userFn struct {
	g, k    int
	release chan struct{}
	linger  bool // keep running after ctx is done until released
	done    chan struct{}
	ctxSeen chan struct{}
}

type scenario struct {
	rng     *rand.Rand
	mock    *gm.Mock
	log     *gm.Log
	cg      *kafka.ConsumerGroup
	topics  []string
	nWatch  int
	status  []string
	gens    []*kafka.Generation
	fns     []*userFn
	nextRes chan nextResult
	nextOut bool
	assignOnly string // when set, SyncGroup assigns partitions of this topic only
	wire    bool
	member  int
	cgID    string
	errsSeen int
	closed  bool
	closeCh chan struct{}
	memberN int
	genID   int32
	parts   map[string]int // partition count the mock reports per topic
	errRate int            // percent of error answers
	mu      sync.Mutex
}

type nextResult struct {
	gen *kafka.Generation
	err error
}

func (s *scenario) fail(f string, a ...interface{}) { s.status = append(s.status, fmt.Sprintf(f, a...)) }

func newScenario(rng *rand.Rand, topics []string, watch bool, errRate int) *scenario {
	s := &scenario{rng: rng, mock: gm.New(), log: gm.NewLog(), topics: topics, nextRes: make(chan nextResult, 1),
		closeCh: make(chan struct{}), parts: map[string]int{}, errRate: errRate}
	for _, t := range topics {
		s.parts[t] = 1 + rng.Intn(3)
	}
	if watch {
		s.nWatch = len(topics)
	}
	kafka.VerifGroupResetConnIDs()
	kafka.VerifStart()
	kafka.VerifSetSink(s.log.Sink)
	s.wire = wireMode
	kafka.VerifSetGroupWire(wireMode)
	kafka.VerifSetGroupHandler(s.mock.Handle)
	return s
}

func (s *scenario) start(hb, watchIv, backoff time.Duration) {
	cg, err := kafka.NewConsumerGroup(kafka.ConsumerGroupConfig{
		ID: "grp", Brokers: []string{"b:9092"}, Topics: s.topics,
		HeartbeatInterval: hb, PartitionWatchInterval: watchIv, WatchPartitionChanges: s.nWatch > 0,
		JoinGroupBackoff: backoff,
	})
	if err != nil {
		panic(err)
	}
	s.cg = cg
}

// ---------------------------------------------------------------- scripted answers

func kerr(code int) error { return kafka.Error(code) }

func (s *scenario) pickErr(codes ...int) error {
	i := s.rng.Intn(len(codes) + 1)
	if i == len(codes) {
		return netErr
	}
	return kerr(codes[i])
}

func (s *scenario) partsOf(topics []string) []kafka.Partition {
	var ps []kafka.Partition
	for _, t := range topics {
		for i := 0; i < s.parts[t]; i++ {
			ps = append(ps, kafka.Partition{Topic: t, ID: i})
		}
	}
	return ps
}

// okReply builds the success answer for a call.
func (s *scenario) okReply(c kafka.VerifCoordCall) kafka.VerifCoordReply {
	switch c.Method {
	case "findCoordinator":
		// where the coordinator lives varies (host name, IPv4, IPv6 literal, unusual ports): the next connect must dial it
		host := []string{"coord", "coord", "10.1.2.3", "k-7.internal", "fe80::1", "::1"}[s.rng.Intn(6)]
		port := []int32{9092, 9092, 19093, 443, 65535, 1}[s.rng.Intn(6)]
		kafka.VerifGroupEmit("H.Coord", host, port)
		return kafka.VerifCoordReply{Host: host, Port: port}
	case "joinGroup":
		m := c.MemberID
		if m == "" || s.rng.Intn(10) == 0 {
			s.memberN++
			m = fmt.Sprintf("m%d", s.memberN)
		}
		s.genID += int32(1 + s.rng.Intn(2))
		r := kafka.VerifCoordReply{MemberID: m, GenerationID: s.genID, Protocol: "range", LeaderID: "someone-else"}
		if s.rng.Intn(2) == 0 {
			r.LeaderID = m
			r.Members = []kafka.VerifGroupMember{{ID: m, Topics: s.topics}}
			if s.errRate > 0 && s.rng.Intn(8) == 0 {
				r.Protocol = "no-such-balancer" // the leader's assignment step fails locally
			}
		}
		return r
	case "syncGroup":
		a := map[string][]int32{}
		for _, t := range s.topics {
			if s.assignOnly != "" && t != s.assignOnly {
				continue
			}
			for i := 0; i < s.parts[t]; i++ {
				if s.assignOnly != "" || s.rng.Intn(3) > 0 {
					a[t] = append(a[t], int32(i))
				}
			}
		}
		if s.errRate > 0 && s.rng.Intn(10) == 0 {
			return kafka.VerifCoordReply{RawAssign: []byte{0, 1, 0, 0, 0, 9, 0}} // undecodable assignment
		}
		return kafka.VerifCoordReply{Assignments: a}
	case "offsetFetch":
		var cm []kafka.VerifGroupOffset
		for _, t := range c.Topics {
			for _, p := range c.Partitions[t] {
				cm = append(cm, kafka.VerifGroupOffset{Topic: t, Partition: p, Offset: int64(s.rng.Intn(5)) - 1})
			}
		}
		return kafka.VerifCoordReply{Committed: cm}
	case "readPartitions":
		return kafka.VerifCoordReply{Parts: s.partsOf(c.Topics)}
	}
	return kafka.VerifCoordReply{}
}

// errPool: every error class is placed on every coordinator call — each kafka.Error code the consumer-group code can
// meet (incl. UnknownTopicOrPartition 3, the one the watcher and the leader's partition lookup treat specially) and a
// dropped connection; for the calls whose response has its own ErrorCode field also inside the body.
var errPool = []int{3, 5, 6, 7, 14, 15, 16, 22, 25, 26, 27, 29, 30}

// reply chooses a (mostly successful) answer.
func (s *scenario) reply(c kafka.VerifCoordCall) kafka.VerifCoordReply {
	if s.rng.Intn(100) >= s.errRate {
		return s.okReply(c)
	}
	if c.Method == "connect" {
		return kafka.VerifCoordReply{Err: netErr}
	}
	if c.Method == "readPartitions" && s.rng.Intn(3) == 0 { // partition count changes
		for _, t := range c.Topics {
			s.parts[t]++
		}
		return s.okReply(c)
	}
	i := s.rng.Intn(len(errPool) + 2)
	if i >= len(errPool) {
		return kafka.VerifCoordReply{Err: netErr}
	}
	code := errPool[i]
	switch c.Method {
	case "findCoordinator", "joinGroup", "syncGroup":
		if s.rng.Intn(4) == 0 {
			return kafka.VerifCoordReply{ErrorCode: int16(code)} // in the response body
		}
	}
	return kafka.VerifCoordReply{Err: kerr(code)}
}

// ---------------------------------------------------------------- application-side actions

func (s *scenario) callNext() {
	s.nextOut = true
	kafka.VerifGroupEmit("H.NextCall", s.member)
	go func() {
		g, err := s.cg.Next(context.Background())
		s.nextRes <- nextResult{g, err}
	}()
}

// pollNext collects the result of an outstanding Next, logging H.NextRet only after the library logged the
// matching hand-over event (the hooks sit after the channel operations).
func (s *scenario) pollNext(wait time.Duration) bool {
	if !s.nextOut {
		return false
	}
	select {
	case r := <-s.nextRes:
		s.nextOut = false
		switch {
		case r.err == nil:
			s.gens = append(s.gens, r.gen)
			if !s.log.WaitCount(func(e kafka.VerifEvent) bool { return e.Kind == "CG.Handed" && (s.cgID == "" || e.Args[0] == s.cgID) }, len(s.gens), 3*time.Second) {
				s.fail("stuck:no-handed-event")
			}
			kafka.VerifGroupEmit("H.NextRet", "gen", r.gen, s.member)
		case errors.Is(r.err, kafka.ErrGroupClosed):
			kafka.VerifGroupEmit("H.NextRet", "err", "closed", s.member)
		default:
			s.errsSeen++
			if !s.log.WaitCount(func(e kafka.VerifEvent) bool { return e.Kind == "CG.Err" && e.Args[2] == "true" && (s.cgID == "" || e.Args[0] == s.cgID) }, s.errsSeen, 3*time.Second) {
				s.fail("stuck:no-err-event")
			}
			kafka.VerifGroupEmit("H.NextRet", "err", kafka.VerifGroupErrClass(r.err), s.member)
		}
		return true
	case <-time.After(wait):
		return false
	}
}

func (s *scenario) userStart(gi int, linger bool) {
	f := &userFn{g: gi, k: len(s.fns), release: make(chan struct{}), linger: linger, done: make(chan struct{}), ctxSeen: make(chan struct{})}
	s.fns = append(s.fns, f)
	g := s.gens[gi]
	kafka.VerifGroupEmit("H.Start", g, f.k)
	g.Start(func(ctx context.Context) {
		defer close(f.done)
		select {
		case <-ctx.Done():
			kafka.VerifGroupEmit("H.FnCtx", g, f.k)
			close(f.ctxSeen)
			if f.linger {
				<-f.release
			}
		case <-f.release:
		}
		kafka.VerifGroupEmit("H.FnRet", g, f.k)
	})
}

func (f *userFn) released() bool {
	select {
	case <-f.release:
		return true
	default:
		return false
	}
}

func (f *userFn) finished() bool {
	select {
	case <-f.done:
		return true
	default:
		return false
	}
}

func (s *scenario) callClose() {
	s.closed = true
	go func() {
		s.cg.Close()
		close(s.closeCh)
	}()
}

func (s *scenario) closeReturned() bool {
	select {
	case <-s.closeCh:
		return true
	default:
		return false
	}
}

// finish closes the group (if not yet), answers whatever is still asked, lets every function return.
func (s *scenario) finish() {
	if !s.closed {
		s.callClose()
	}
	deadline := time.Now().Add(8 * time.Second)
	for !s.closeReturned() {
		if time.Now().After(deadline) {
			s.fail("stuck:close")
			break
		}
		if p := s.mock.Await(func(*gm.Pending) bool { return true }, 2*time.Millisecond); p != nil {
			s.mock.Answer(p, s.okReply(p.Call))
		}
		s.pollNext(0)
		if time.Until(deadline) < 6*time.Second {
			for _, f := range s.fns {
				if !f.released() {
					close(f.release)
				}
			}
		}
	}
	if s.nextOut {
		s.pollNext(2 * time.Second)
	}
	// every function started in a generation must have seen its context cancelled by now (all generations ended)
	for _, f := range s.fns {
		if f.released() {
			continue
		}
		select {
		case <-f.ctxSeen:
		case <-time.After(2 * time.Second):
			s.fail("ctx-not-cancelled:g%d", f.g)
		}
		close(f.release)
	}
	for _, f := range s.fns {
		select {
		case <-f.done:
		case <-time.After(2 * time.Second):
			s.fail("stuck:fn")
		}
	}
	// drain stray calls (none expected after Close returned)
	for _, p := range s.mock.Snapshot() {
		s.mock.Answer(p, s.okReply(p.Call))
	}
	time.Sleep(200 * time.Microsecond)
}

func (s *scenario) stop() []kafka.VerifEvent {
	kafka.VerifSetSink(nil)
	kafka.VerifSetGroupHandler(nil)
	return kafka.VerifStop()
}

// ---------------------------------------------------------------- random reactive scenario

func (s *scenario) randomRun(steps int) {
	closeAt := -1
	if s.rng.Intn(4) > 0 {
		closeAt = s.rng.Intn(steps)
	}
	idle := 0
	for i := 0; i < steps && !s.closeReturned(); i++ {
		s.log.Settle(150*time.Microsecond, 3*time.Millisecond)
		s.pollNext(0)
		if i == closeAt && !s.closed {
			s.callClose()
			continue
		}
		type action func()
		var acts []action
		pend := s.mock.Snapshot()
		for _, p := range pend {
			p := p
			w := 3
			if p.Call.Method == "heartbeat" {
				w = 1
			}
			for j := 0; j < w; j++ {
				acts = append(acts, func() { s.mock.Answer(p, s.reply(p.Call)) })
			}
		}
		if !s.nextOut {
			acts = append(acts, func() { s.callNext() }, func() { s.callNext() })
		}
		if len(s.gens) > 0 && len(s.fns) < 6 {
			acts = append(acts, func() { s.userStart(len(s.gens)-1, s.rng.Intn(3) == 0) })
			if s.rng.Intn(4) == 0 {
				acts = append(acts, func() { s.userStart(s.rng.Intn(len(s.gens)), s.rng.Intn(2) == 0) })
			}
		}
		for _, f := range s.fns {
			f := f
			if !f.released() {
				acts = append(acts, func() { close(f.release) })
			}
		}
		if len(pend) == 0 {
			// nothing to answer: either act on the application side or wait for a timer-driven call
			if len(acts) == 0 || s.rng.Intn(2) == 0 {
				if !s.mock.AwaitAny(15*time.Millisecond) && !s.pollNext(0) {
					idle++
					if idle > 40 {
						break
					}
				}
				continue
			}
		}
		idle = 0
		acts[s.rng.Intn(len(acts))]()
	}
	s.finish()
}

// ---------------------------------------------------------------- canonicalisation

func boolTok(s string) string {
	if s == "true" {
		return "1"
	}
	return "0"
}

func canon(evs []kafka.VerifEvent, topics []string, wire bool) (string, map[string]int) {
	pendRet := map[string][]string{}
	nGens := 0
	var wireRets [][]string
	genIdx := map[string]int{}
	connGen := map[string]int{} // connection id -> generation index
	lastJoinConn := ""
	accOf := map[string]string{} // "g/k" -> acc token
	pendingStart := ""
	counts := map[string]int{}
	var toks []string
	add := func(t string) { toks = append(toks, t); counts[strings.SplitN(t, ":", 2)[0]]++ }
	gi := func(id string) string {
		if i, ok := genIdx[id]; ok {
			return strconv.Itoa(i)
		}
		return "999"
	}
	topicIdx := func(t string) string {
		for i, x := range topics {
			if x == t {
				return strconv.Itoa(i)
			}
		}
		return "99"
	}
	for _, e := range evs {
		a := e.Args
		switch e.Kind {
		case "M.Call":
			conn, method := a[0], a[1]
			g, isGen := connGen[conn]
			switch method {
			case "heartbeat":
				if isGen {
					add(fmt.Sprintf("hbCall:%d:%s:%s", g, a[3], a[2]))
				}
			case "readPartitions":
				if isGen {
					add(fmt.Sprintf("watchCall:%d:%s", g, topicIdx(a[4])))
				}
			}
		case "M.Wire":
			// byte-level path: the library's own conclusion replaces the coordinator's decision as the call's result
			if pa, ok := pendRet[a[0]+"/"+a[1]]; ok {
				delete(pendRet, a[0]+"/"+a[1])
				pa = append([]string(nil), pa...)
				pa[2] = a[2]
				wireRets = append(wireRets, pa)
			}
		}
		if e.Kind == "M.Ret" && wire && a[1] != "connect" && a[1] != "readPartitions" {
			pendRet[a[0]+"/"+a[1]] = a
			continue
		}
		if e.Kind == "M.Wire" {
			if len(wireRets) == 0 {
				continue
			}
			a = wireRets[len(wireRets)-1]
			wireRets = wireRets[:0]
			e.Kind = "M.Ret"
		}
		switch e.Kind {
		case "M.Ret":
			conn, method, ec := a[0], a[1], a[2]
			g, isGen := connGen[conn]
			switch method {
			case "connect":
				add("connectRes:" + ec)
			case "findCoordinator":
				add("findRes:" + ec)
			case "joinGroup":
				if ec == "-" {
					lastJoinConn = conn
					add(fmt.Sprintf("joinOk:%s:%s:%s:%s", a[3], a[5], a[6], boolTok(a[7])))
				} else {
					add(fmt.Sprintf("joinErr:%s:%s", a[3], ec))
				}
			case "syncGroup":
				add(fmt.Sprintf("syncRes:%s:%s:%s", a[3], a[4], ec))
			case "offsetFetch":
				add("fetchRes:" + ec)
			case "leaveGroup":
				add(fmt.Sprintf("leaveRes:%s:%s", a[3], boolTok(strconv.FormatBool(ec == "-"))))
			case "heartbeat":
				if isGen {
					add(fmt.Sprintf("hbRet:%d:%s", g, ec))
				}
			case "readPartitions":
				if isGen {
					if ec == "-" {
						add(fmt.Sprintf("watchParts:%d:%s:%s", g, topicIdx(a[9]), a[8]))
					} else {
						add(fmt.Sprintf("watchErr:%d:%s:%s", g, topicIdx(a[9]), ec))
					}
				} else {
					add("partsRes:" + ec)
				}
			}
		case "G.New":
			genIdx[a[1]] = nGens // a new identity at every creation event (the recorder's ids are addresses and can be reused)
			nGens++
			connGen[lastJoinConn] = genIdx[a[1]]
			add(fmt.Sprintf("gNew:%s:%s:%s", gi(a[1]), a[2], gm.Mem(a[3])))
		case "H.Start":
			pendingStart = gi(a[0]) + "/" + a[1]
		case "G.Start":
			if pendingStart != "" && strings.HasPrefix(pendingStart, gi(a[0])+"/") {
				accOf[pendingStart] = boolTok(a[1])
				pendingStart = ""
			}
			add(fmt.Sprintf("gStart:%s:%s", gi(a[0]), boolTok(a[1])))
		case "G.FnExit":
			add(fmt.Sprintf("fnExit:%s:%s:%s", gi(a[0]), boolTok(a[1]), a[2]))
		case "G.Close":
			add(fmt.Sprintf("gClose:%s:%s:%s", gi(a[0]), boolTok(a[1]), a[2]))
		case "G.Closed":
			add("gClosed:" + gi(a[0]))
		case "G.HbExit":
			add("hbExit:" + gi(a[0]))
		case "G.WatchExit":
			add(fmt.Sprintf("watchExit:%s:%s", gi(a[0]), topicIdx(a[1])))
		case "CG.SawClose":
			add(fmt.Sprintf("sawClose:%s:%s", gi(a[1]), boolTok(strconv.FormatBool(a[2] == "running"))))
		case "CG.Handed":
			add("handed:" + gi(a[1]))
		case "CG.SawGenDone":
			add("sawGenDone:" + gi(a[1]))
		case "CG.NextGenRet":
			add(fmt.Sprintf("nextGenRet:%s:%s", gm.Mem(a[1]), gm.ClassOfHook(a[2])))
		case "CG.Leave":
			add("leave:" + gm.Mem(a[1]))
		case "CG.Err":
			add(fmt.Sprintf("errDeliver:%s:%s", gm.ClassOfHook(a[1]), boolTok(a[2])))
		case "CG.Backoff":
			add("backoff:" + map[string]string{"begin": "0", "end": "1", "closed": "2"}[a[1]])
		case "CG.RunExit":
			add("runExit")
		case "CG.CloseCall":
			if counts["closeCall"] == 0 { // Close is idempotent; the model has one close event
				add("closeCall")
			}
		case "CG.CloseRet":
			if counts["closeRet"] == 0 {
				add("closeRet")
			}
		case "H.NextCall":
			add("nextCall")
		case "H.NextRet":
			if a[0] == "gen" {
				add("nextRetGen:" + gi(a[1]))
			} else {
				add("nextRetErr:" + gm.ClassOfHook(a[1]))
			}
		case "H.FnCtx":
			add("uCtx:" + gi(a[0]))
		case "H.FnRet":
			add(fmt.Sprintf("uRet:%s:%s", gi(a[0]), accOf[gi(a[0])+"/"+a[1]]))
		}
	}
	return strings.Join(toks, ";"), counts
}

func (s *scenario) emit(name string) {
	evs := s.stop()
	tr, _ := canon(evs, s.topics, s.wire)
	st := "ok"
	if len(s.status) > 0 {
		st = strings.Join(s.status, ",")
	}
	if tr == "" {
		tr = "nextCall"
	}
	fmt.Fprintf(out, "trace %d %s\t%s\n", s.nWatch, tr, st)
	for _, l := range s.mock.TakeBodies() {
		if strings.HasPrefix(l, "wirereq ") && !seenBody[l] {
			seenBody[l] = true
			fmt.Fprintln(out, l)
		}
	}
	for _, l := range coordAddrLines(evs, s.wire) {
		if !seenBody[l] {
			seenBody[l] = true
			fmt.Fprintln(out, l)
		}
	}
	_ = name
}

// coordAddrLines: after a FindCoordinator that the library concluded successful (answer host/port journalled as H.Coord
// by the scenario), the next connect is the dial of the coordinator: `coordaddr <host> <port>\t<address dialled>`.
func coordAddrLines(evs []kafka.VerifEvent, wire bool) []string {
	var lines []string
	host, port, pending := "", "", false
	for _, e := range evs {
		a := e.Args
		switch {
		case e.Kind == "H.Coord":
			host, port = a[0], a[1]
		case e.Kind == "M.Ret" && a[1] == "findCoordinator":
			pending = !wire && a[2] == "-"
		case e.Kind == "M.Wire" && a[1] == "findCoordinator":
			pending = a[2] == "-"
		case e.Kind == "M.Call" && a[1] == "connect":
			if pending && host != "" {
				lines = append(lines, fmt.Sprintf("coordaddr %s %s\t%s", host, port, a[4]))
			}
			pending = false
		}
	}
	return lines
}

// ---------------------------------------------------------------- scripted helpers

// answer waits for a call of the given method and answers it.
func (s *scenario) answer(method string, r func(c kafka.VerifCoordCall) kafka.VerifCoordReply) bool {
	p := s.mock.Await(gm.Method(method), 3*time.Second)
	if p == nil {
		s.fail("stuck:await-" + method)
		return false
	}
	s.mock.Answer(p, r(p.Call))
	return true
}

func (s *scenario) ok(methods ...string) bool {
	for _, m := range methods {
		if !s.answer(m, s.okReply) {
			return false
		}
	}
	return true
}

func withErr(err error) func(kafka.VerifCoordCall) kafka.VerifCoordReply {
	return func(kafka.VerifCoordCall) kafka.VerifCoordReply { return kafka.VerifCoordReply{Err: err} }
}

// joinAsFollower answers the whole join sequence successfully with this member as a non-leader.
func (s *scenario) joinAsFollower() bool {
	if !s.ok("connect", "findCoordinator", "connect") {
		return false
	}
	if !s.answer("joinGroup", func(c kafka.VerifCoordCall) kafka.VerifCoordReply {
		m := c.MemberID
		if m == "" {
			s.memberN++
			m = fmt.Sprintf("m%d", s.memberN)
		}
		s.genID++
		return kafka.VerifCoordReply{MemberID: m, GenerationID: s.genID, Protocol: "range", LeaderID: "other"}
	}) {
		return false
	}
	return s.ok("syncGroup", "offsetFetch")
}

func (s *scenario) nextGen() *kafka.Generation {
	if !s.nextOut {
		s.callNext()
	}
	if !s.pollNext(3 * time.Second) {
		s.fail("stuck:next")
		return nil
	}
	if len(s.gens) == 0 {
		return nil
	}
	return s.gens[len(s.gens)-1]
}

// scenarioD8: a function started in generation n after it ended is not waited for: Next returns generation n+1
// while it is still running.
func scenarioD8(rng *rand.Rand) {
	s := newScenario(rng, []string{"t"}, false, 0)
	s.start(2*time.Millisecond, time.Second, 5*time.Millisecond)
	s.callNext()
	if s.joinAsFollower() && s.nextGen() != nil {
		s.userStart(0, false) // accounted, well-behaved
		s.answer("heartbeat", withErr(kerr(27)))
		// the generation ends; run rejoins; generation 1 is created and waits to be handed out
		if s.joinAsFollower() && s.log.WaitCount(gm.Kind("G.New"), 2, 3*time.Second) {
			s.log.Settle(200*time.Microsecond, 5*time.Millisecond)
			s.userStart(0, true) // late start in generation 0: keeps running
			s.nextGen()          // Next hands out generation 1 although a function of generation 0 still runs
		}
	}
	s.finish()
	s.emit("d8")
}

// scenarioD9: the group is closed while a RebalanceInProgress error waits to be delivered to Next.
func scenarioD9(rng *rand.Rand) {
	s := newScenario(rng, []string{"t"}, false, 0)
	s.start(2*time.Millisecond, time.Second, 5*time.Millisecond)
	if s.ok("connect", "findCoordinator", "connect") &&
		s.answer("joinGroup", func(c kafka.VerifCoordCall) kafka.VerifCoordReply {
			return kafka.VerifCoordReply{MemberID: "m1", GenerationID: 1, Protocol: "range", LeaderID: "other"}
		}) && s.answer("syncGroup", withErr(kerr(27))) {
		s.log.WaitCount(gm.Kind("CG.NextGenRet"), 1, 3*time.Second)
		s.log.Settle(200*time.Microsecond, 5*time.Millisecond)
	}
	s.finish()
	s.emit("d9")
}

// scenarioCauses: each end cause in turn on a fresh generation, with two application functions observing the ctx.
func scenarioCauses(rng *rand.Rand, cause int) {
	watch := cause == 2 || cause == 3 || cause == 6 || cause == 7
	s := newScenario(rng, []string{"t", "u"}, watch, 0)
	if cause == 7 {
		s.assignOnly = "t"
	}
	s.start(2*time.Millisecond, 2*time.Millisecond, 5*time.Millisecond)
	s.callNext()
	okJoin := s.joinAsFollower()
	if okJoin && watch {
		okJoin = s.ok("readPartitions", "readPartitions")
	}
	if okJoin && s.nextGen() != nil {
		s.userStart(0, false)
		s.userStart(0, false)
		t0 := time.Now()
		switch cause {
		case 0: // heartbeat failure (connection dropped)
			s.ok("heartbeat")
			s.answer("heartbeat", withErr(netErr))
		case 1: // coordinator signals a rebalance
			s.answer("heartbeat", withErr(kerr(27)))
		case 2: // partition count changes
			s.parts["t"]++
			s.parts["u"]++
			s.ok("readPartitions")
		case 3: // watcher loses the connection
			s.answer("readPartitions", withErr(netErr))
		case 4: // a started function returns
			close(s.fns[0].release)
		case 5: // Close
			s.callClose()
		case 7: // the partition count of a configured topic that is NOT in this member's assignment changes
			s.parts["u"]++
			if p := s.mock.Await(func(p *gm.Pending) bool {
				return p.Call.Method == "readPartitions" && len(p.Call.Topics) == 1 && p.Call.Topics[0] == "u"
			}, 300*time.Millisecond); p != nil {
				s.mock.Answer(p, s.okReply(p.Call))
			} else {
				s.fail("no-watcher-for-unassigned-topic")
			}
		case 6: // a watched topic is deleted: the poll answers UnknownTopicOrPartition (count N -> 0)
			s.ok("readPartitions")
			s.answer("readPartitions", withErr(kerr(3)))
			// a watcher that ignored it would poll again: keep answering the same for a while
			for i := 0; i < 5; i++ {
				if p := s.mock.Await(gm.Method("readPartitions"), 10*time.Millisecond); p != nil {
					s.mock.Answer(p, kafka.VerifCoordReply{Err: kerr(3)})
				}
			}
		}
		for _, f := range s.fns {
			if f.released() {
				continue
			}
			select {
			case <-f.ctxSeen:
			case <-time.After(3 * time.Second):
				s.fail("ctx-not-cancelled-after-cause%d", cause)
			}
		}
		if d := time.Since(t0); d > 2*time.Second {
			s.fail("ctx-cancel-late:%dms", d.Milliseconds())
		}
	}
	s.finish()
	s.emit("cause")
}

// scenarioBackoff: failed joins are retried after JoinGroupBackoff (lower bound observed).
func scenarioBackoff(rng *rand.Rand) {
	const cfg = 30 * time.Millisecond
	s := newScenario(rng, []string{"t"}, false, 0)
	s.start(2*time.Millisecond, time.Second, cfg)
	s.callNext()
	var observed time.Duration = -1
	if s.ok("connect", "findCoordinator", "connect") && s.answer("joinGroup", withErr(kerr(25))) {
		if s.pollNext(3 * time.Second) {
			t0 := time.Now()
			if p := s.mock.Await(gm.Method("connect"), 3*time.Second); p != nil {
				observed = time.Since(t0)
				s.mock.Answer(p, s.okReply(p.Call))
			}
		}
	}
	s.finish()
	s.emit("backoff")
	fmt.Fprintf(out, "backoff %d\t%d\n", cfg.Milliseconds(), observed.Milliseconds())
}

// scenarioHeartbeatRate: heartbeats at the configured interval while the generation lives (wall clock, tolerance in the oracle).
func scenarioHeartbeatRate(rng *rand.Rand) {
	const iv = 10 * time.Millisecond
	s := newScenario(rng, []string{"t"}, false, 0)
	s.start(iv, time.Second, 5*time.Millisecond)
	s.callNext()
	n, elapsed := 0, time.Duration(0)
	if s.joinAsFollower() && s.nextGen() != nil {
		t0 := time.Now()
		for time.Since(t0) < 300*time.Millisecond {
			if p := s.mock.Await(gm.Method("heartbeat"), 50*time.Millisecond); p != nil {
				s.mock.Answer(p, kafka.VerifCoordReply{})
				n++
			}
		}
		elapsed = time.Since(t0)
	}
	s.finish()
	s.emit("hbrate")
	fmt.Fprintf(out, "hbrate %d %d\t%d\n", iv.Milliseconds(), elapsed.Milliseconds(), n)
}

// scenarioLateNext: the generation lives from its creation, not from the moment Next picks it up: while a joined
// generation waits for the caller's Next, heartbeats are sent at the configured interval (wall clock, tolerance in
// the oracle).
func scenarioLateNext(rng *rand.Rand) {
	const iv = 10 * time.Millisecond
	s := newScenario(rng, []string{"t"}, false, 0)
	s.start(iv, time.Second, 5*time.Millisecond)
	n, elapsed := 0, time.Duration(0)
	if s.joinAsFollower() && s.log.WaitCount(gm.Kind("G.New"), 1, 3*time.Second) {
		t0 := time.Now()
		for time.Since(t0) < 300*time.Millisecond {
			if p := s.mock.Await(gm.Method("heartbeat"), 50*time.Millisecond); p != nil {
				s.mock.Answer(p, kafka.VerifCoordReply{})
				n++
			}
		}
		elapsed = time.Since(t0)
		if s.nextGen() != nil { // the late Next still gets a live generation
			s.userStart(0, false)
			s.ok("heartbeat")
		}
	}
	s.finish()
	s.emit("latenext")
	fmt.Fprintf(out, "hbwait %d %d\t%d\n", iv.Milliseconds(), elapsed.Milliseconds(), n)
}

func main() {
	defer out.Flush()
	rng := gen.New()
	only := ""
	if len(os.Args) > 1 {
		only = os.Args[1]
	}
	if only == "" || only == "scripted" {
		scenarioD8(rng)
		scenarioD9(rng)
		for c := 0; c < 8; c++ {
			scenarioCauses(rng, c)
		}
		scenarioBackoff(rng)
		scenarioHeartbeatRate(rng)
		scenarioLateNext(rng)
		scenarioOptions()
		scenarioDefaults()
		const ms = time.Millisecond
		// held answers: hundreds of ms between "held" and the deadline in either direction (shared, loaded machine)
		scenarioDeadlines(40*ms, 600*ms, 400*ms, 80*ms, 80*ms)
		scenarioDeadlines(40*ms, 600*ms, 400*ms, 850*ms, 0)
		scenarioDeadlines(40*ms, 600*ms, 400*ms, 0, 650*ms)
		scenarioDeadlines(40*ms, 3000*ms, 3000*ms, 0, 0) // the silent heartbeat against long session / rebalance time-outs
	}
	if only == "d8" {
		scenarioD8(rng)
	}
	if only == "d9" {
		scenarioD9(rng)
	}
	if only == "" || only == "random" {
		n := 120
		if gen.Thorough() {
			n = 1200
		}
		for i := 0; i < n; i++ {
			topics := [][]string{{"t"}, {"t", "u"}, {"a", "b", "c"}}[rng.Intn(3)]
			wireMode = rng.Intn(3) == 0
			s := newScenario(rng, topics, rng.Intn(2) == 0, []int{0, 10, 25, 40}[rng.Intn(4)])
			s.start(time.Duration(1+rng.Intn(3))*time.Millisecond, time.Duration(1+rng.Intn(3))*time.Millisecond, time.Duration(2+rng.Intn(4))*time.Millisecond)
			s.randomRun(20 + rng.Intn(80))
			s.emit("random")
		}
	}
	wireMode = false
	if only == "" || only == "multi" {
		n := 10
		if gen.Thorough() {
			n = 100
		}
		for i := 0; i < n; i++ {
			multiRun(rng, 2+rng.Intn(2), 150+rng.Intn(150))
		}
	}
}
