// Command c04conn is the correspondence driver for the REQUEST EMISSION side of the hand-written Conn codec
// (property C04): real kafka.Conn methods run over net.Pipe against a fake broker that frames strictly by the
// 4-byte size prefix, answers ApiVersions (so that negotiateVersion picks the version under test) and captures
// the next request: the announced bytes plus anything the client sent beyond them.  Output per case:
//
//	connreq <i> <ver> <clientid> <expected value…>\t<captured bytes hex>
//
// `i` is the index (Gen.schemas / msgs.All) of the protocol-package request type whose golden schema the
// oracle parses the capture with; the expected value is the request the arguments denote, written as that
// type (`*` = any, for the timeouts Conn derives from its deadline).  The oracle demands: size prefix = bytes
// that follow (nothing more, nothing less), header fields, body = canonical encoding of the arguments.
package main

import (
	"bufio"
	"encoding/binary"
	"encoding/hex"
	"fmt"
	"io"
	"net"
	"os"
	"reflect"
	"strings"
	"time"

	kafka "github.com/segmentio/kafka-go"
	"github.com/segmentio/kafka-go/protocol"
	"github.com/segmentio/kafka-go/protocol/createtopics"
	"github.com/segmentio/kafka-go/protocol/deletetopics"
	"github.com/segmentio/kafka-go/protocol/fetch"
	"github.com/segmentio/kafka-go/protocol/produce"
	"github.com/segmentio/kafka-go/protocol/findcoordinator"
	"github.com/segmentio/kafka-go/protocol/heartbeat"
	"github.com/segmentio/kafka-go/protocol/joingroup"
	"github.com/segmentio/kafka-go/protocol/leavegroup"
	"github.com/segmentio/kafka-go/protocol/listgroups"
	"github.com/segmentio/kafka-go/protocol/listoffsets"
	"github.com/segmentio/kafka-go/protocol/metadata"
	"github.com/segmentio/kafka-go/protocol/offsetcommit"
	"github.com/segmentio/kafka-go/protocol/offsetfetch"
	"github.com/segmentio/kafka-go/protocol/saslhandshake"
	"github.com/segmentio/kafka-go/protocol/syncgroup"

	"kvharness/internal/gen"
	"kvharness/internal/msgs"
)

const wild = -7777

// capture runs op on a fresh Conn; maxVer[apiKey] is what the fake broker advertises.
func capture(clientID string, maxVer map[int16]int16, op func(*kafka.Conn)) []byte {
	cli, srv := net.Pipe()
	conn := kafka.NewConnWith(cli, kafka.ConnConfig{ClientID: clientID, Topic: "t", Partition: 0})
	done := make(chan struct{})
	go func() {
		defer close(done)
		conn.SetDeadline(time.Now().Add(3 * time.Second))
		op(conn)
	}()
	var raw []byte
	r := bufio.NewReader(srv)
	for {
		srv.SetReadDeadline(time.Now().Add(2 * time.Second))
		var szb [4]byte
		if _, err := io.ReadFull(r, szb[:]); err != nil {
			break
		}
		size := int(int32(binary.BigEndian.Uint32(szb[:])))
		if size < 8 || size > 1<<20 {
			raw = append(raw, szb[:]...)
			break
		}
		body := make([]byte, size)
		srv.SetReadDeadline(time.Now().Add(300 * time.Millisecond))
		n, err := io.ReadFull(r, body)
		if err != nil { // the client announced more than it sent
			raw = append(append(raw, szb[:]...), body[:n]...)
			break
		}
		key := int16(binary.BigEndian.Uint16(body[0:2]))
		if key == 18 { // ApiVersions: answer (v0 layout) and keep serving
			corr := body[4:8]
			var resp []byte
			resp = append(resp, corr...)
			resp = append(resp, 0, 0)
			resp = binary.BigEndian.AppendUint32(resp, uint32(len(maxVer)))
			for k, v := range maxVer {
				resp = binary.BigEndian.AppendUint16(resp, uint16(k))
				resp = binary.BigEndian.AppendUint16(resp, 0)
				resp = binary.BigEndian.AppendUint16(resp, uint16(v))
			}
			out := binary.BigEndian.AppendUint32(nil, uint32(len(resp)))
			srv.SetWriteDeadline(time.Now().Add(time.Second))
			srv.Write(append(out, resp...))
			continue
		}
		raw = append(append(raw, szb[:]...), body...)
		// anything sent beyond the announced size belongs to no frame
		srv.SetReadDeadline(time.Now().Add(60 * time.Millisecond))
		extra := make([]byte, 4096)
		if n, _ := r.Read(extra); n > 0 {
			raw = append(raw, extra[:n]...)
		}
		break
	}
	srv.Close()
	cli.Close()
	<-done
	return raw
}

func indexOf(pkg string) int {
	for i, m := range msgs.All {
		if m.Pkg == pkg && m.IsRequest && !m.Override {
			return i
		}
	}
	return -1
}

// emitV: like emit, plus the maximum version the fake broker advertised for this API (the header version must not
// exceed it)
func emitV(pkg, clientID string, adv int16, want protocol.Message, raw []byte) {
	ver := -1
	if len(raw) >= 8 {
		ver = int(int16(binary.BigEndian.Uint16(raw[6:8])))
	}
	text := msgs.Text(reflect.ValueOf(want).Elem(), nil)
	text = strings.ReplaceAll(text, fmt.Sprint(wild), "*")
	fmt.Printf("connreqv %d %d %d %s %s\t%s\n", indexOf(pkg), ver, adv, gen.Hex([]byte(clientID)), text, gen.Hex(raw))
}

// writerFamily drives the write.go `write*RequestV*` functions: Conn.WriteMessages (produce v2/v3/v7), ReadBatchWith
// (fetch v2/v5/v10), ReadLastOffset (listoffsets v1) with the fake broker advertising EVERY maximum version.
func writerFamily(r interface{ Intn(int) int }, cid string, word func() string) {
	for adv := int16(2); adv <= 8; adv++ {
		n := 1 + r.Intn(3)
		var ms []kafka.Message
		for i := 0; i < n; i++ {
			ms = append(ms, kafka.Message{Key: []byte(word()), Value: []byte(word())})
		}
		raw := capture(cid, map[int16]int16{0: adv}, func(c *kafka.Conn) { c.WriteMessages(ms...) })
		want := &produce.Request{Acks: -1, Timeout: wild, Topics: []produce.RequestTopic{{Topic: "t",
			Partitions: []produce.RequestPartition{{Partition: 0, RecordSet: protocol.RecordSet{Records: protocol.NewRecordReader()}}}}}}
		emitV("produce", cid, adv, want, raw)
	}
	// … with explicit message times that go BACKWARDS inside the batch: the timestamp delta of a v2 record is the only varint of the
	// Conn codec that can be negative (varIntLen / writeVarInt must agree on its zig-zag length, or the announced sizes are off)
	for adv := int16(2); adv <= 8; adv++ {
		base := time.Unix(1600000000+int64(r.Intn(100000)), 0)
		ms := []kafka.Message{{Key: []byte(word()), Value: []byte(word()), Time: base}}
		for _, back := range []time.Duration{time.Millisecond, 70 * time.Millisecond, 9 * time.Second, 40 * time.Hour} {
			ms = append(ms, kafka.Message{Key: []byte(word()), Value: []byte(word()), Time: base.Add(-back)})
		}
		raw := capture(cid, map[int16]int16{0: adv}, func(c *kafka.Conn) { c.WriteMessages(ms...) })
		want := &produce.Request{Acks: -1, Timeout: wild, Topics: []produce.RequestTopic{{Topic: "t",
			Partitions: []produce.RequestPartition{{Partition: 0, RecordSet: protocol.RecordSet{Records: protocol.NewRecordReader()}}}}}}
		emitV("produce", cid, adv, want, raw)
	}
	for adv := int16(2); adv <= 11; adv++ {
		off := int64(r.Intn(1000))
		minB, maxB := 1+r.Intn(100), 1000+r.Intn(100000)
		iso := kafka.IsolationLevel(r.Intn(2))
		raw := capture(cid, map[int16]int16{1: adv}, func(c *kafka.Conn) {
			c.Seek(off, kafka.SeekAbsolute|kafka.SeekDontCheck)
			b := c.ReadBatchWith(kafka.ReadBatchConfig{MinBytes: minB, MaxBytes: maxB, IsolationLevel: iso})
			b.Close()
		})
		ver := int16(-1)
		if len(raw) >= 8 {
			ver = int16(binary.BigEndian.Uint16(raw[6:8]))
		}
		// only the fields that exist in the version the header announces
		part := fetch.RequestPartition{Partition: 0, FetchOffset: off, PartitionMaxBytes: wild} // Conn adds its fetch-response overhead to MaxBytes
		want := &fetch.Request{ReplicaID: -1, MaxWaitTime: wild, MinBytes: int32(minB)}
		if ver >= 3 {
			want.MaxBytes = wild
		}
		if ver >= 4 {
			want.IsolationLevel = int8(iso)
		}
		if ver >= 7 {
			want.SessionEpoch = -1
			want.ForgottenTopics = []fetch.RequestForgottenTopic{}
		}
		if ver >= 9 {
			part.CurrentLeaderEpoch = -1
		}
		want.Topics = []fetch.RequestTopic{{Topic: "t", Partitions: []fetch.RequestPartition{part}}}
		emitV("fetch", cid, adv, want, raw)
	}
	for adv := int16(1); adv <= 5; adv++ {
		raw := capture(cid, map[int16]int16{2: adv}, func(c *kafka.Conn) { c.ReadLastOffset() })
		emitV("listoffsets", cid, adv, &listoffsets.Request{ReplicaID: -1, Topics: []listoffsets.RequestTopic{{Topic: "t",
			Partitions: []listoffsets.RequestPartition{{Partition: 0, CurrentLeaderEpoch: 0, Timestamp: -1}}}}}, raw)
	}
}

func emit(pkg, clientID string, want protocol.Message, raw []byte) {
	ver := -1
	if len(raw) >= 8 {
		ver = int(int16(binary.BigEndian.Uint16(raw[6:8])))
	}
	text := msgs.Text(reflect.ValueOf(want).Elem(), nil)
	text = strings.ReplaceAll(text, fmt.Sprint(wild), "*")
	fmt.Printf("connreq %d %d %s %s\t%s\n", indexOf(pkg), ver, gen.Hex([]byte(clientID)), text, gen.Hex(raw))
}

func main() {
	if len(os.Args) > 1 && os.Args[1] == "-resp" {
		respMode()
		return
	}
	transportVersions()
	producePrepared()
	selectVersions()
	r := gen.New()
	word := func() string { return "w" + hex.EncodeToString(gen.Bytes(r, 1+r.Intn(6))) }
	n := 6
	if gen.Thorough() {
		n = 60
	}
	for k := 0; k < n; k++ {
		cid := word()
		// ---- CreateTopics v0 / v1 / v2 with replica assignments AND config entries
		for _, maxv := range []int16{0, 1, 2} {
			var cfgs []kafka.TopicConfig
			want := &createtopics.Request{TimeoutMs: wild}
			for t := 0; t < 1+r.Intn(3); t++ {
				tc := kafka.TopicConfig{Topic: word(), NumPartitions: -1, ReplicationFactor: -1}
				wt := createtopics.RequestTopic{Name: tc.Topic, NumPartitions: -1, ReplicationFactor: -1, Assignments: []createtopics.RequestAssignment{}, Configs: []createtopics.RequestConfig{}}
				if r.Intn(3) == 0 {
					tc.NumPartitions, tc.ReplicationFactor = 1+r.Intn(5), 1+r.Intn(3)
					wt.NumPartitions, wt.ReplicationFactor = int32(tc.NumPartitions), int16(tc.ReplicationFactor)
				}
				for a := 0; a < r.Intn(4); a++ {
					ra := kafka.ReplicaAssignment{Partition: a, Replicas: []int{}}
					wa := createtopics.RequestAssignment{PartitionIndex: int32(a), BrokerIDs: []int32{}}
					for b := 0; b < r.Intn(4); b++ {
						ra.Replicas = append(ra.Replicas, 1+b)
						wa.BrokerIDs = append(wa.BrokerIDs, int32(1+b))
					}
					tc.ReplicaAssignments = append(tc.ReplicaAssignments, ra)
					wt.Assignments = append(wt.Assignments, wa)
				}
				for e := 0; e < r.Intn(3); e++ {
					ce := kafka.ConfigEntry{ConfigName: word(), ConfigValue: word()}
					tc.ConfigEntries = append(tc.ConfigEntries, ce)
					wt.Configs = append(wt.Configs, createtopics.RequestConfig{Name: ce.ConfigName, Value: ce.ConfigValue})
				}
				cfgs = append(cfgs, tc)
				want.Topics = append(want.Topics, wt)
			}
			raw := capture(cid, map[int16]int16{19: maxv}, func(c *kafka.Conn) { c.CreateTopics(cfgs...) })
			emit("createtopics", cid, want, raw)
		}
		// ---- DeleteTopics v0 / v1
		for _, maxv := range []int16{0, 1} {
			topics := []string{}
			for t := 0; t < r.Intn(4); t++ {
				topics = append(topics, word())
			}
			raw := capture(cid, map[int16]int16{20: maxv}, func(c *kafka.Conn) { c.DeleteTopics(topics...) })
			emit("deletetopics", cid, &deletetopics.Request{TopicNames: topics, TimeoutMs: wild}, raw)
		}
		// ---- Metadata v1 / v6 (ReadPartitions)
		for _, maxv := range []int16{1, 6} {
			topics := []string{}
			for t := 0; t < 1+r.Intn(3); t++ {
				topics = append(topics, word())
			}
			raw := capture(cid, map[int16]int16{3: maxv}, func(c *kafka.Conn) { c.ReadPartitions(topics...) })
			emit("metadata", cid, &metadata.Request{TopicNames: topics, AllowAutoTopicCreation: maxv >= 6}, raw)
		}
		if k < 2 || gen.Thorough() {
			writerFamily(r, cid, word)
		}
		// ---- ListOffsets v1 (ReadLastOffset)
		{
			raw := capture(cid, nil, func(c *kafka.Conn) { c.ReadLastOffset() })
			emit("listoffsets", cid, &listoffsets.Request{ReplicaID: -1, Topics: []listoffsets.RequestTopic{{Topic: "t",
				Partitions: []listoffsets.RequestPartition{{Partition: 0, CurrentLeaderEpoch: 0, Timestamp: -1}}}}}, raw)
		}
		// ---- the group / sasl operations with the fixed requests of VerifConnOp (verif_export_conn.go)
		type fixed struct {
			op, pkg string
			maxVer  map[int16]int16
			want    protocol.Message
		}
		for _, f := range []fixed{
			{"findCoordinator", "findcoordinator", nil, &findcoordinator.Request{Key: "g"}},
			{"heartbeat", "heartbeat", nil, &heartbeat.Request{GroupID: "g", GenerationID: 1, MemberID: "m"}},
			{"joinGroup", "joingroup", map[int16]int16{11: 1 + int16(k%2)}, &joingroup.Request{GroupID: "g", SessionTimeoutMS: 1000, RebalanceTimeoutMS: 1000, ProtocolType: "consumer",
				Protocols: []joingroup.RequestProtocol{{Name: "range", Metadata: []byte{1}}}}},
			{"leaveGroup", "leavegroup", nil, &leavegroup.Request{GroupID: "g", MemberID: "m"}},
			{"listGroups", "listgroups", nil, &listgroups.Request{}},
			{"offsetCommit", "offsetcommit", nil, &offsetcommit.Request{GroupID: "g", GenerationID: 1, MemberID: "m", RetentionTimeMs: wild,
				Topics: []offsetcommit.RequestTopic{{Name: "t", Partitions: []offsetcommit.RequestPartition{{PartitionIndex: 0, CommittedOffset: 1}}}}}},
			{"offsetFetch", "offsetfetch", nil, &offsetfetch.Request{GroupID: "g", Topics: []offsetfetch.RequestTopic{{Name: "t", PartitionIndexes: []int32{0}}}}},
			{"syncGroup", "syncgroup", nil, &syncgroup.Request{GroupID: "g", GenerationID: 1, MemberID: "m", Assignments: []syncgroup.RequestAssignment{}}},
			{"saslHandshake", "saslhandshake", map[int16]int16{17: int16(k % 2)}, &saslhandshake.Request{Mechanism: "PLAIN"}},
		} {
			f := f
			raw := capture(cid, f.maxVer, func(c *kafka.Conn) { kafka.VerifConnOp(c, f.op) })
			emit(f.pkg, cid, f.want, raw)
		}
		if k > 0 && !gen.Thorough() {
			// the fixed requests do not vary: once is enough in the quick tier
		}
	}
	os.Stdout.Sync()
}
