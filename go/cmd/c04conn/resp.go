package main

// RESPONSE side of the hand-written Conn codec (C04: "every well-formed response decodes to exactly the field
// values the broker encoded and consumes exactly one frame"), with the response DELIVERED IN PIECES: the fake
// broker writes frame[:k] and frame[k:] as two writes on the (unbuffered) pipe, for every k, so that the Conn's
// bufio.Reader refills inside every field — varints of v2 record batches included.  Monitor: same decoded
// values as with one-piece delivery, no error, nothing left in the Conn's read buffer, no timeout.
//
//	connresp <op> <ver> <k> <len> <frame hex>\t<outcome> <buffered> <digest>

import (
	"bufio"
	"bytes"
	"crypto/md5"
	"encoding/binary"
	"encoding/hex"
	"fmt"
	"io"
	"math/rand"
	"net"
	"os"
	"time"

	kafka "github.com/segmentio/kafka-go"
	"github.com/segmentio/kafka-go/protocol"

	"kvharness/internal/connfake"
	"kvharness/internal/gen"
)

// splitBroker answers ApiVersions from the table and the first other request with frame(body) cut at k.
func splitBroker(srv net.Conn, versions map[int16]int16, body []byte, k int, done chan<- struct{}) {
	defer close(done)
	defer srv.Close()
	var hdr [4]byte
	for {
		srv.SetReadDeadline(time.Now().Add(3 * time.Second))
		if _, err := io.ReadFull(srv, hdr[:]); err != nil {
			return
		}
		n := int(binary.BigEndian.Uint32(hdr[:]))
		if n < 8 || n > 1<<20 {
			return
		}
		req := make([]byte, n)
		if _, err := io.ReadFull(srv, req); err != nil {
			return
		}
		key := int16(binary.BigEndian.Uint16(req[0:]))
		id := int32(binary.BigEndian.Uint32(req[4:]))
		srv.SetWriteDeadline(time.Now().Add(2 * time.Second))
		if key == 18 && versions != nil {
			if _, err := srv.Write(connfake.Frame(id, connfake.ApiVersionsBody(0, versions))); err != nil {
				return
			}
			continue
		}
		f := connfake.Frame(id, body)
		if k > 0 && k < len(f) {
			if _, err := srv.Write(f[:k]); err != nil {
				return
			}
			if _, err := srv.Write(f[k:]); err != nil {
				return
			}
		} else if _, err := srv.Write(f); err != nil {
			return
		}
		// keep the connection open (a well-behaved broker): the client must not need more bytes
		srv.SetReadDeadline(time.Now().Add(2 * time.Second))
		io.ReadFull(srv, hdr[:])
		return
	}
}

func verifOp(name string) bool {
	for _, n := range kafka.VerifConnOps() {
		if n == name {
			return true
		}
	}
	return false
}

// runSplit performs op against a broker delivering the response cut at k; returns "outcome buffered digest".
func runSplit(op *connfake.Op, v int16, body []byte, sh connfake.Shape, k int) string {
	res := make(chan string, 1)
	go func() {
		cli, srv := net.Pipe()
		done := make(chan struct{})
		var versions map[int16]int16
		if op.Name != "apiVersions" {
			versions = connfake.VersionTable(map[int16]int16{op.Key: v})
		}
		go splitBroker(srv, versions, body, k, done)
		c := kafka.NewConn(cli, sh.Topic, 0)
		c.SetDeadline(time.Now().Add(700 * time.Millisecond))
		var d string
		var err error
		if op.Name == "apiVersions" {
			var vs []kafka.ApiVersion
			vs, err = c.ApiVersions()
			for _, a := range vs {
				d += fmt.Sprintf("%d:%d:%d/", a.ApiKey, a.MinVersion, a.MaxVersion)
			}
		} else if verifOp(op.Name) {
			d, err = kafka.VerifConnOp(c, op.Name)
		} else {
			d, err = op.Call(c, &sh)
		}
		if op.Name == "fetch" {
			d = fmt.Sprint(sh.Got, sh.Deliver, len(sh.Got) == len(sh.Want))
		}
		buffered := -1
		if err == nil {
			buffered = kafka.VerifConnBuffered(c)
		}
		sum := md5.Sum([]byte(d))
		res <- fmt.Sprintf("%s %d %s", connfake.Outcome(err), buffered, hex.EncodeToString(sum[:6]))
		c.Close()
		srv.Close()
		<-done
	}()
	select {
	case s := <-res:
		return s
	case <-time.After(3 * time.Second):
		return "hang -1 -"
	}
}

// bigRecordSet: a record set whose v2 varints are multi-byte (value 100 bytes → length varint c8 01, key 70
// bytes, timestamp deltas of minutes, a header) so that a cut can fall inside every varint.
func bigRecordSet(r *rand.Rand, magic int8, base int64, n int) ([]byte, []connfake.Msg) {
	recs := make([]protocol.Record, n)
	var want []connfake.Msg
	for i := range recs {
		key := string(bytes.Repeat([]byte{byte('a' + i)}, 70))
		val := string(bytes.Repeat([]byte{byte('A' + i)}, 100+i))
		recs[i] = protocol.Record{Offset: int64(i), Time: time.Unix(1600000000+int64(i)*100000, 0).UTC(),
			Key: protocol.NewBytes([]byte(key)), Value: protocol.NewBytes([]byte(val))}
		if magic >= 2 {
			recs[i].Headers = []protocol.Header{{Key: "hk", Value: bytes.Repeat([]byte{7}, 66)}}
		}
		want = append(want, connfake.Msg{Offset: base + int64(i), Key: key, Value: val})
	}
	rs := protocol.RecordSet{Version: magic, Records: protocol.NewRecordReader(recs...)}
	var buf bytes.Buffer
	if _, err := rs.WriteTo(&buf); err != nil {
		panic(err)
	}
	set := buf.Bytes()[4:]
	if magic >= 2 {
		binary.BigEndian.PutUint64(set[0:8], uint64(base)) // base offset lies outside the CRC
	} else {
		for i := range want {
			want[i].Offset = int64(i)
		}
	}
	return set, want
}

// fetchHeader: the header readers of read.go (readFetchResponseHeaderV2/V5/V10) with DISTINCT values in every field
// (throttle, high watermark, last stable offset, log start offset, aborted transactions): what the Batch reports must be
// the throttle and the high watermark the broker encoded, and the records must follow.
func fetchHeader(w *bufio.Writer, r *rand.Rand) {
	op := connfake.OpByName("fetch")
	for _, v := range []int16{2, 5, 10} {
		magic := int8(2)
		if v < 4 {
			magic = 1
		}
		sh := connfake.Shape{Topic: "t", Offset: 5}
		if magic < 2 {
			sh.Offset = 0
		}
		sh.Set, sh.Want = bigRecordSet(r, magic, sh.Offset, 2)
		throttle, hwm := int32(700+int32(v)), int64(1000+int64(v))
		b := &connfake.W{}
		b.I32(throttle)
		if v >= 7 {
			b.I16(0)
			b.I32(55)
		}
		b.I32(1)
		b.Str(sh.Topic)
		b.I32(1)
		b.I32(0)
		b.I16(0)
		b.I64(hwm)
		if v >= 4 {
			b.I64(2000 + int64(v)) // last stable offset
			if v >= 5 {
				b.I64(3000 + int64(v)) // log start offset
			}
			b.I32(2) // aborted transactions
			b.I64(41)
			b.I64(42)
			b.I64(43)
			b.I64(44)
		}
		b.I32(int32(len(sh.Set)))
		b.Raw(sh.Set)
		L := 8 + len(b.B)
		exp := fmt.Sprint(sh.Want, "prefix", true, time.Duration(throttle)*time.Millisecond, hwm)
		sum := md5.Sum([]byte(exp))
		wd := hex.EncodeToString(sum[:6])
		res := make(chan string, 1)
		go func() {
			cli, srv := net.Pipe()
			done := make(chan struct{})
			go splitBroker(srv, connfake.VersionTable(map[int16]int16{op.Key: v}), b.B, 0, done)
			c := kafka.NewConn(cli, sh.Topic, 0)
			c.SetDeadline(time.Now().Add(700 * time.Millisecond))
			d, buffered := "", -1
			_, err := c.Seek(sh.Offset, kafka.SeekAbsolute|kafka.SeekDontCheck)
			if err == nil {
				bt := c.ReadBatchWith(kafka.ReadBatchConfig{MinBytes: 1, MaxBytes: 1 << 20})
				var got []connfake.Msg
				for len(got) < 100 {
					m, e := bt.ReadMessage()
					if e != nil {
						break
					}
					got = append(got, connfake.Msg{Offset: m.Offset, Key: string(m.Key), Value: string(m.Value)})
				}
				thr, hw := bt.Throttle(), bt.HighWaterMark()
				err = bt.Close()
				d = fmt.Sprint(got, "prefix", len(got) == len(sh.Want), thr, hw)
				if err == nil {
					buffered = kafka.VerifConnBuffered(c)
				}
			}
			s5 := md5.Sum([]byte(d))
			res <- fmt.Sprintf("%s %d %s", connfake.Outcome(err), buffered, hex.EncodeToString(s5[:6]))
			c.Close()
			srv.Close()
			<-done
		}()
		got := "hang -1 -"
		select {
		case got = <-res:
		case <-time.After(3 * time.Second):
		}
		fmt.Fprintf(w, "connresp fetchhdr %d %d %d %s\t%s\n", v, L, L, wd, got)
	}
}

// varintInteriors returns, for a record set made of v2 batches, the offsets (relative to the set) that fall strictly inside a
// multi-byte varint of a record: record length, timestamp / offset delta, key / value length, header count, header key / value
// length.  A delivery cut at such an offset makes the Conn's bufio.Reader refill in the middle of the varint.
func varintInteriors(set []byte) []int {
	var out []int
	pos := 0
	for pos+61 <= len(set) {
		if set[pos+16] != 2 {
			return out // not a v2 batch
		}
		batchLen := int(binary.BigEndian.Uint32(set[pos+8:]))
		end := pos + 12 + batchLen
		if batchLen < 49 || end > len(set) {
			return out
		}
		n := int(binary.BigEndian.Uint32(set[pos+57:]))
		p := pos + 61
		vi := func() (int64, bool) {
			v, w := binary.Varint(set[p:end])
			if w <= 0 {
				return 0, false
			}
			for i := 1; i < w; i++ {
				out = append(out, p+i)
			}
			p += w
			return v, true
		}
		skip := func(l int64) bool {
			if l > 0 {
				p += int(l)
			}
			return p <= end
		}
		ok := true
		for r := 0; r < n && ok && p < end; r++ {
			if _, ok = vi(); !ok { // record length
				break
			}
			p++ // attributes
			for i := 0; i < 2 && ok; i++ { // timestamp delta, offset delta
				_, ok = vi()
			}
			for i := 0; i < 2 && ok; i++ { // key, value
				var l int64
				if l, ok = vi(); ok {
					ok = skip(l)
				}
			}
			var hc int64
			if ok {
				hc, ok = vi()
			}
			for h := int64(0); h < hc && ok; h++ {
				for i := 0; i < 2 && ok; i++ {
					var l int64
					if l, ok = vi(); ok {
						ok = skip(l)
					}
				}
			}
		}
		pos = end
	}
	return out
}

func respMode() {
	r := gen.New()
	w := bufio.NewWriter(os.Stdout)
	defer w.Flush()
	fetchHeader(w, r)
	failures := 0
	for _, op := range connfake.Ops {
		for _, v := range op.Versions {
			variants := 1
			if op.Name == "fetch" {
				variants = 2
			}
			for variant := 0; variant < variants; variant++ {
				sh := connfake.Shape{Topic: "t"}
				if op.Name == "fetch" {
					magic := int8(2)
					if v < 4 || variant == 1 {
						magic = 1
					}
					if variant == 1 && v < 4 {
						continue
					}
					sh.Offset = 5
					if magic < 2 {
						sh.Offset = 0
					}
					sh.Set, sh.Want = bigRecordSet(r, magic, sh.Offset, 2)
					sh.HWM = sh.Offset + 2
				}
				wb := &connfake.W{}
				op.Build(v, wb, r, &sh)
				body := wb.B
				L := 8 + len(body)
				ref := runSplit(op, v, body, sh, 0)
				// the digest every delivery must produce: for fetch, exactly the records that were encoded; for the other
				// operations what the one-piece delivery decodes to (the bodies themselves are validated by C11)
				want := ref
				if op.Name == "fetch" {
					sum := md5.Sum([]byte(fmt.Sprint(sh.Want, "prefix", true)))
					want = "ok 0 " + hex.EncodeToString(sum[:6])
				}
				if op.Name == "apiVersions" && len(body) >= 6 {
					exp := ""
					n := int(binary.BigEndian.Uint32(body[2:]))
					for i := 0; i < n && 6+6*i+6 <= len(body); i++ {
						e := body[6+6*i:]
						exp += fmt.Sprintf("%d:%d:%d/", int16(binary.BigEndian.Uint16(e)), int16(binary.BigEndian.Uint16(e[2:])), int16(binary.BigEndian.Uint16(e[4:])))
					}
					sum := md5.Sum([]byte(exp))
					want = "ok 0 " + hex.EncodeToString(sum[:6])
				}
				// list offsets / produce: the values Conn returns are fields of the body at fixed positions (topic "t":
				// array(4) string(3) array(4) partition(4) error(2) then int64s) — expected independently of the reader
				if tl := 2 + len(sh.Topic); len(body) >= 4+tl+4+4+2+16 {
					at := 4 + tl + 4
					part := int32(binary.BigEndian.Uint32(body[at:]))
					first := int64(binary.BigEndian.Uint64(body[at+6:]))
					second := int64(binary.BigEndian.Uint64(body[at+14:]))
					exp := ""
					switch op.Name {
					case "listOffsets":
						exp = fmt.Sprint(second) // partition, error, timestamp, OFFSET
					case "produce":
						exp = fmt.Sprintf("%d/%d", part, first) // partition, error, OFFSET, timestamp
					}
					if exp != "" {
						sum := md5.Sum([]byte(exp))
						want = "ok 0 " + hex.EncodeToString(sum[:6])
					}
				}
				wd := want[len("ok 0 "):]
				if len(want) < 6 || want[:5] != "ok 0 " {
					wd = "one-piece-delivery-failed"
				}
				fmt.Fprintf(w, "connresp %s %d %d %d %s\t%s\n", op.Name, v, L, L, wd, ref)
				ks := []int{}
				// deterministic: every cut INSIDE a multi-byte varint of a v2 batch (between its bytes) is always taken
				inside := map[int]bool{}
				if op.Name == "fetch" {
					for _, rel := range varintInteriors(sh.Set) {
						inside[L-len(sh.Set)+rel] = true
					}
				}
				for k := 1; k < L; k++ {
					if gen.Thorough() || L <= 700 || k < 80 || k%3 == 0 || inside[k] {
						ks = append(ks, k)
					}
				}
				nInside := 0
				for _, k := range ks {
					if inside[k] {
						nInside++
					}
				}
				if op.Name == "fetch" {
					fmt.Fprintf(os.Stderr, "fetch v%d variant %d: %d cuts inside multi-byte varints\n", v, variant, nInside)
				}
				for _, k := range ks {
					got := runSplit(op, v, body, sh, k)
					fmt.Fprintf(w, "connresp %s %d %d %d %s\t%s\n", op.Name, v, k, L, wd, got)
					if got != want {
						if failures++; failures >= 6 {
							return // enough failing inputs; do not burn the budget on timeouts
						}
					}
				}
			}
		}
	}
}
