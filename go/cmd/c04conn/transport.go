package main

// The version in the request header on the Transport/Client path (C04: "a version no higher than the broker advertised").
// A stateful fake broker (connfake.TBroker) advertises, for several APIs, a maximum BELOW the library's own; every byte
// the client writes is tapped and cut into frames; for each api key the versions seen are reported:
//
//	tver <api key> <advertised max>\t<v,v,…>
//
// model (oracle): ApiKey.SelectVersion as regenerated in Gen/Routing.lean, applied to the library's range of that API
// (from the schemas) and the advertised range; monitor: every version seen is that one and is ≤ the advertised maximum.
// `selver <i> <bmin> <bmax>\t<v>` calls protocol.ApiKey(k).SelectVersion directly for every registered API and broker
// ranges below / inside / above / disjoint from the library's.

import (
	"context"
	"encoding/binary"
	"fmt"
	"io"
	"net"
	"sort"
	"strings"
	"sync"
	"time"

	kafka "github.com/segmentio/kafka-go"
	"github.com/segmentio/kafka-go/protocol"
	"github.com/segmentio/kafka-go/protocol/produce"

	"kvharness/internal/connfake"
	"kvharness/internal/msgs"
)

type tapConn struct {
	net.Conn
	mu  *sync.Mutex
	buf *[]byte
}

func (c tapConn) Write(p []byte) (int, error) {
	c.mu.Lock()
	*c.buf = append(*c.buf, p...)
	c.mu.Unlock()
	return c.Conn.Write(p)
}

func transportVersions() {
	tb := connfake.NewTBroker("t")
	var mu sync.Mutex
	var streams []*[]byte
	tr := &kafka.Transport{
		Dial: func(ctx context.Context, network, address string) (net.Conn, error) {
			c, err := tb.Dial(ctx, network, address)
			if err != nil {
				return nil, err
			}
			b := new([]byte)
			mu.Lock()
			streams = append(streams, b)
			mu.Unlock()
			return tapConn{Conn: c, mu: &mu, buf: b}, nil
		},
		MetadataTTL: time.Hour,
	}
	cl := &kafka.Client{Addr: kafka.TCP("broker:9092"), Transport: tr, Timeout: 2 * time.Second}
	ctx, cancel := context.WithTimeout(context.Background(), 5*time.Second)
	defer cancel()
	cl.Metadata(ctx, &kafka.MetadataRequest{Topics: []string{"t"}})
	cl.ListOffsets(ctx, &kafka.ListOffsetsRequest{Topics: map[string][]kafka.OffsetRequest{"t": {kafka.FirstOffsetOf(0)}}})
	cl.FindCoordinator(ctx, &kafka.FindCoordinatorRequest{Key: "g", KeyType: kafka.CoordinatorKeyTypeConsumer})
	cl.ListGroups(ctx, &kafka.ListGroupsRequest{})
	cl.DescribeGroups(ctx, &kafka.DescribeGroupsRequest{GroupIDs: []string{"g"}})
	cl.DescribeConfigs(ctx, &kafka.DescribeConfigsRequest{Resources: []kafka.DescribeConfigRequestResource{{ResourceType: kafka.ResourceTypeTopic, ResourceName: "t"}}})
	cl.Fetch(ctx, &kafka.FetchRequest{Topic: "t", Partition: 0, Offset: 0, MinBytes: 1, MaxBytes: 1 << 16, MaxWait: 50 * time.Millisecond})
	tr.CloseIdleConnections()
	seen := map[int16][]string{}
	mu.Lock()
	for _, s := range streams {
		b := *s
		for len(b) >= 8 {
			size := int(int32(binary.BigEndian.Uint32(b)))
			if size < 4 || 4+size > len(b) {
				break
			}
			key := int16(binary.BigEndian.Uint16(b[4:]))
			ver := int16(binary.BigEndian.Uint16(b[6:]))
			seen[key] = append(seen[key], fmt.Sprint(ver))
			b = b[4+size:]
		}
	}
	mu.Unlock()
	var keys []int
	for k := range seen {
		keys = append(keys, int(k))
	}
	sort.Ints(keys)
	for _, k := range keys {
		adv, ok := tb.MaxVer[int16(k)]
		if !ok {
			continue
		}
		vs := seen[int16(k)]
		sort.Strings(vs)
		u := vs[:0]
		for i, v := range vs {
			if i == 0 || v != vs[i-1] {
				u = append(u, v)
			}
		}
		fmt.Printf("tver %d %d\t%s\n", k, adv, strings.Join(u, ","))
	}
}

func selectVersions() {
	for i, m := range msgs.All {
		if !m.IsRequest || m.Override {
			continue
		}
		k := protocol.ApiKey(m.ApiKey)
		lo, hi := k.MinVersion(), k.MaxVersion()
		ranges := [][2]int16{{0, hi - 1}, {0, lo}, {0, hi}, {0, hi + 3}, {lo + 1, hi + 1}, {hi, hi}, {0, 0}, {hi + 1, hi + 2}, {lo, lo}, {0, hi - 2}}
		if lo > 0 {
			ranges = append(ranges, [2]int16{0, lo - 1})
		}
		for _, r := range ranges {
			if r[1] < 0 || r[0] > r[1] {
				continue
			}
			fmt.Printf("selver %d %d %d\t%d\n", i, r[0], r[1], k.SelectVersion(r[0], r[1]))
		}
	}
}

// producePrepared: a Produce request whose RecordSet.Version the caller left 0 goes through protocol.Conn.RoundTrip (the path of
// Transport / Client / Writer) at every version the library implements; RoundTrip calls Prepare(version), which picks the record
// format.  The bytes written are captured; the oracle parses them under the golden schema of that version and looks at the magic
// byte of the record set: message sets (0/1) below v3, record batches (2) from v3 on (Kafka rejects anything else).
//
//	prodfmt <i> <ver>\t<frame hex>
func producePrepared() {
	idx := indexOf("produce")
	k := protocol.Produce
	for v := k.MinVersion(); v <= k.MaxVersion(); v++ {
		req := &produce.Request{Acks: 1, Timeout: 1000, Topics: []produce.RequestTopic{{Topic: "t", Partitions: []produce.RequestPartition{{
			Partition: 0, RecordSet: protocol.RecordSet{Records: protocol.NewRecordReader(protocol.Record{
				Time: time.Unix(1600000000, 0).UTC(), Key: protocol.NewBytes([]byte("k")), Value: protocol.NewBytes([]byte("v"))})}}}}}}
		cli, srv := net.Pipe()
		pc := protocol.NewConn(cli, "c")
		pc.SetVersions(map[protocol.ApiKey]int16{k: v})
		pc.SetDeadline(time.Now().Add(2 * time.Second))
		done := make(chan struct{})
		go func() { defer close(done); pc.RoundTrip(req) }()
		var raw []byte
		var szb [4]byte
		srv.SetReadDeadline(time.Now().Add(2 * time.Second))
		if _, err := io.ReadFull(srv, szb[:]); err == nil {
			n := int(binary.BigEndian.Uint32(szb[:]))
			if n > 0 && n < 1<<20 {
				body := make([]byte, n)
				if _, err := io.ReadFull(srv, body); err == nil {
					raw = append(szb[:], body...)
				}
			}
		}
		srv.Close()
		cli.Close()
		<-done
		out := "-"
		if raw != nil {
			out = fmt.Sprintf("%x", raw)
		}
		fmt.Printf("prodfmt %d %d\t%s\n", idx, v, out)
	}
}
