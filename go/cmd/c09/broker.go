// Copied (with small changes: no truncation support, fetch may be held) from the C02 builder's cmd/c02/broker.go.
// A minimal in-process fake Kafka broker speaking over net.Pipe: ApiVersions v0, Metadata v1, ListOffsets v1,
// Fetch v2/v5/v10.  What it answers is decided by callbacks so that scripts own the physical layout and faults.
package main

import (
	"bytes"
	"encoding/binary"
	"hash/crc32"
	"io"
	"net"
	"sync"
)

func be16(b *bytes.Buffer, v int16) { binary.Write(b, binary.BigEndian, v) }
func be32(b *bytes.Buffer, v int32) { binary.Write(b, binary.BigEndian, v) }
func be64(b *bytes.Buffer, v int64) { binary.Write(b, binary.BigEndian, v) }

// encodeMsg encodes one v1 message with the given offset.
func encodeMsg(offset int64, tsMs int64, key, value []byte) []byte {
	return encodeMsgAttrs(offset, tsMs, key, value, 0)
}

// encodeMsgAttrs: attrs carries the compression codec in its low 3 bits.
func encodeMsgAttrs(offset int64, tsMs int64, key, value []byte, attrs byte) []byte {
	var body bytes.Buffer
	body.WriteByte(1)
	body.WriteByte(attrs)
	be64(&body, tsMs)
	if key == nil {
		be32(&body, -1)
	} else {
		be32(&body, int32(len(key)))
		body.Write(key)
	}
	be32(&body, int32(len(value)))
	body.Write(value)
	var b bytes.Buffer
	be64(&b, offset)
	be32(&b, int32(4+body.Len()))
	be32(&b, int32(crc32.ChecksumIEEE(body.Bytes())))
	b.Write(body.Bytes())
	return b.Bytes()
}

type FetchReq struct {
	Conn      int // id of the connection the request arrived on
	Version   int
	Offset    int64
	MaxBytes  int32 // partition max bytes
	MinBytes  int32
	MaxWaitMs int32
}

type FetchResp struct {
	Err    int16  // partition error code
	TopErr int16  // top level error code (v10 only)
	Hwm    int64  // high watermark
	Set    []byte // message set
	Cut    int    // >= 0: write only the first Cut bytes of the response frame (after the 4-byte size), then close the connection
	Hang   bool   // never answer (the client times out)
	// CutFn, when non-nil, overrides Cut: it is given the length of the response frame (everything after the 4-byte
	// size field, correlation id included) and returns the Cut value to apply.
	CutFn func(frameLen int) int
}

// OffsetHang, returned as the error code by OnOffset, makes the broker stop answering on that connection.
const OffsetHang int16 = -32000

type Broker struct {
	FetchMax   int16 // advertised max fetch version (2, 5 or 10 select the library's v2/v5/v10)
	Topic      string
	OnFetch    func(FetchReq) FetchResp
	OnOffset   func(conn int, ts int64) (int64, int16) // ts -2 = first, -1 = last
	OnMetadata func(conn int) (leader int32, partErr int16)
	OnConn     func(conn int) bool // false: refuse (close immediately)

	mu    sync.Mutex
	nconn int
}

func (b *Broker) Dial() (net.Conn, int) {
	cli, srv := net.Pipe()
	b.mu.Lock()
	b.nconn++
	id := b.nconn
	b.mu.Unlock()
	go b.serve(srv, id)
	return cli, id
}

type rd struct {
	b []byte
	p int
}

func (r *rd) i8() int8   { v := int8(r.b[r.p]); r.p++; return v }
func (r *rd) i16() int16 { v := int16(binary.BigEndian.Uint16(r.b[r.p:])); r.p += 2; return v }
func (r *rd) i32() int32 { v := int32(binary.BigEndian.Uint32(r.b[r.p:])); r.p += 4; return v }
func (r *rd) i64() int64 { v := int64(binary.BigEndian.Uint64(r.b[r.p:])); r.p += 8; return v }
func (r *rd) str() string {
	n := int(r.i16())
	if n < 0 {
		return ""
	}
	s := string(r.b[r.p : r.p+n])
	r.p += n
	return s
}

func wstr(b *bytes.Buffer, s string) { be16(b, int16(len(s))); b.WriteString(s) }

func (b *Broker) serve(c net.Conn, id int) {
	defer c.Close()
	if b.OnConn != nil && !b.OnConn(id) {
		return
	}
	for {
		var szb [4]byte
		if _, err := io.ReadFull(c, szb[:]); err != nil {
			return
		}
		frame := make([]byte, binary.BigEndian.Uint32(szb[:]))
		if _, err := io.ReadFull(c, frame); err != nil {
			return
		}
		r := &rd{b: frame}
		key, ver, corr := r.i16(), r.i16(), r.i32()
		_ = r.str() // client id
		var body bytes.Buffer
		be32(&body, corr)
		cut := -1
		switch key {
		case 18: // ApiVersions v0
			be16(&body, 0)
			be32(&body, 4)
			for _, kv := range [][3]int16{{1, 0, b.FetchMax}, {2, 0, 1}, {3, 0, 1}, {18, 0, 0}} {
				be16(&body, kv[0])
				be16(&body, kv[1])
				be16(&body, kv[2])
			}
		case 3: // Metadata v1
			leader, perr := int32(1), int16(0)
			if b.OnMetadata != nil {
				leader, perr = b.OnMetadata(id)
			}
			if perr == OffsetHang {
				// the request was read; no response, connection kept open
				io.Copy(io.Discard, c)
				return
			}
			be32(&body, 1) // brokers
			be32(&body, leader)
			wstr(&body, "fake")
			be32(&body, 9092)
			be16(&body, -1)
			be32(&body, leader) // controller
			be32(&body, 1)      // topics
			be16(&body, 0)
			wstr(&body, b.Topic)
			body.WriteByte(0)
			be32(&body, 1) // partitions
			be16(&body, perr)
			be32(&body, 0)
			be32(&body, leader)
			be32(&body, 1)
			be32(&body, leader) // replicas
			be32(&body, 1)
			be32(&body, leader) // isr
		case 2: // ListOffsets v1
			_ = r.i32() // replica
			_ = r.i32() // topics
			_ = r.str()
			_ = r.i32() // partitions
			_ = r.i32() // partition
			ts := r.i64()
			off, e := int64(0), int16(0)
			if b.OnOffset != nil {
				off, e = b.OnOffset(id, ts)
			}
			if e == OffsetHang {
				// the request was read; no response, connection kept open (the client's deadline has to end the call)
				io.Copy(io.Discard, c)
				return
			}
			be32(&body, 1)
			wstr(&body, b.Topic)
			be32(&body, 1)
			be32(&body, 0)
			be16(&body, e)
			be64(&body, -1)
			be64(&body, off)
		case 1: // Fetch
			q := FetchReq{Conn: id, Version: int(ver)}
			_ = r.i32() // replica
			q.MaxWaitMs = r.i32()
			q.MinBytes = r.i32()
			if ver >= 3 {
				_ = r.i32() // max bytes
			}
			if ver >= 4 {
				_ = r.i8() // isolation
			}
			if ver >= 7 {
				_ = r.i32()
				_ = r.i32() // session id, epoch
			}
			_ = r.i32() // topics
			_ = r.str()
			_ = r.i32() // partitions
			_ = r.i32() // partition
			if ver >= 9 {
				_ = r.i32() // leader epoch
			}
			q.Offset = r.i64()
			if ver >= 5 {
				_ = r.i64() // log start
			}
			q.MaxBytes = r.i32()
			p := b.OnFetch(q)
			if p.Hang {
				// swallow further input until the client gives up
				io.Copy(io.Discard, c)
				return
			}
			be32(&body, 0) // throttle
			if ver >= 7 {
				be16(&body, p.TopErr)
				be32(&body, 0)
			}
			be32(&body, 1)
			wstr(&body, b.Topic)
			be32(&body, 1)
			be32(&body, 0)
			be16(&body, p.Err)
			be64(&body, p.Hwm)
			if ver >= 4 {
				be64(&body, p.Hwm) // last stable offset
			}
			if ver >= 5 {
				be64(&body, 0) // log start offset
			}
			if ver >= 4 {
				be32(&body, -1) // aborted transactions: null
			}
			be32(&body, int32(len(p.Set)))
			body.Write(p.Set)
			cut = p.Cut
			if p.CutFn != nil {
				cut = p.CutFn(body.Len())
			}
		default:
			return
		}
		var out bytes.Buffer
		be32(&out, int32(body.Len()))
		out.Write(body.Bytes())
		w := out.Bytes()
		if cut >= 0 && 4+cut < len(w) {
			c.Write(w[:4+cut])
			return
		}
		if _, err := c.Write(w); err != nil {
			return
		}
	}
}
