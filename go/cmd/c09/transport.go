package main

import (
	"context"
	"errors"
	"fmt"
	"io"
	"math/rand"
	"net"
	"sync/atomic"
	"time"

	kafka "github.com/segmentio/kafka-go"
	"github.com/segmentio/kafka-go/protocol/fetch"
	meta "github.com/segmentio/kafka-go/protocol/metadata"

	"kvharness/internal/gen"
)

// Transport round trips against a broker that accepts the connection and never answers (or cannot be reached):
// the caller's context ends while the round trip is blocked.  Tokens: rb/<c>/rt  cx/<c>  rr/<c>/<ctx|err|ok>
// bo/<n> bc/<n>  lk/<n> oc/<n>; op `tclose <cfg> …`, summary `pending=<ids> leak=<n> conns=<n>`.
func transportScenario(kind int, r *rand.Rand) (string, string) {
	base := libGoroutines()
	rec := &recorder{}
	var open int32
	var nconn int32
	hangBroker := &Broker{FetchMax: 2, Topic: "t", OnFetch: func(q FetchReq) FetchResp {
		rec.add("fq")
		return FetchResp{Hang: true}
	}}
	tr := &kafka.Transport{
		DialTimeout: time.Second,
		IdleTimeout: 50 * time.Millisecond,
		Dial: func(ctx context.Context, network, addr string) (net.Conn, error) {
			if kind%2 == 1 {
				// unreachable: the dial itself blocks until its context ends
				<-ctx.Done()
				return nil, ctx.Err()
			}
			if kind >= 4 {
				// a broker that answers ApiVersions and Metadata (the pool becomes ready) and then never answers the Fetch
				c, _ := hangBroker.Dial()
				id := int(atomic.AddInt32(&nconn, 1))
				atomic.AddInt32(&open, 1)
				rec.add("bo/%d", id)
				return &countedConn{Conn: c, id: id, sc: &rscenario{rec: rec, open: 0}, onClose: func() { atomic.AddInt32(&open, -1) }}, nil
			}
			cli, srv := net.Pipe()
			id := int(atomic.AddInt32(&nconn, 1))
			atomic.AddInt32(&open, 1)
			rec.add("bo/%d", id)
			go io.Copy(io.Discard, srv) // silent broker
			sc := &rscenario{rec: rec}
			cc := &countedConn{Conn: cli, id: id, sc: sc}
			go func() { // mirror the scenario-local counter
				for {
					time.Sleep(time.Millisecond)
					if atomic.LoadInt32(&sc.open) < 0 {
						atomic.AddInt32(&open, -1)
						srv.Close()
						return
					}
				}
			}()
			return cc, nil
		},
	}
	ncalls := 1 + r.Intn(3)
	var req kafka.Request = &meta.Request{TopicNames: []string{"t"}}
	if kind >= 4 {
		req = &fetch.Request{ReplicaID: -1, MaxWaitTime: 100, MinBytes: 1, Topics: []fetch.RequestTopic{{Topic: "t",
			Partitions: []fetch.RequestPartition{{Partition: 0, FetchOffset: 0, PartitionMaxBytes: 1 << 20}}}}}
	}
	type res struct{ c int }
	done := make([]chan struct{}, ncalls)
	cancels := make([]context.CancelFunc, ncalls)
	for i := 0; i < ncalls; i++ {
		c := i + 1
		ctx, cancel := context.WithCancel(context.Background())
		if kind == 2 || kind == 3 {
			ctx, cancel = context.WithTimeout(context.Background(), time.Duration(5+r.Intn(20))*time.Millisecond)
		}
		cancels[i] = cancel
		done[i] = make(chan struct{})
		rec.add("rb/%d/rt", c)
		if kind == 2 || kind == 3 {
			rec.add("cx/%d", c) // the deadline is armed: the cancellation is scheduled
		}
		go func(c int, ctx context.Context, d chan struct{}) {
			defer close(d)
			_, err := tr.RoundTrip(ctx, kafka.TCP("fake:9092"), req)
			cl := "ok"
			switch {
			case err == nil:
			case errors.Is(err, context.Canceled), errors.Is(err, context.DeadlineExceeded):
				cl = "ctx"
			default:
				cl = "err"
			}
			rec.add("rr/%d/%s", c, cl)
		}(c, ctx, done[i])
	}
	time.Sleep(time.Duration(2+r.Intn(10)) * time.Millisecond)
	for i := 0; i < ncalls; i++ {
		if kind < 2 || kind >= 4 {
			if kind >= 4 {
				time.Sleep(30 * time.Millisecond)
			}
			rec.add("cx/%d", i+1)
			cancels[i]()
		}
	}
	pend := "-"
	for i := 0; i < ncalls; i++ {
		select {
		case <-done[i]:
		case <-time.After(watchdog()):
			if pend == "-" {
				pend = ""
			} else {
				pend += ","
			}
			pend += fmt.Sprint(i + 1)
		}
		cancels[i]()
	}
	tr.CloseIdleConnections()
	if kind >= 4 {
		// the connections carrying the abandoned requests stay with the Transport until the broker answers or the
		// request deadline passes: no census (the property speaks of Writer/Reader/ConsumerGroup resources only)
		return fmt.Sprintf("tclose k=%d %s", kind, rec.String()), fmt.Sprintf("pending=%s", pend)
	}
	n := settle(base, 8*time.Second)
	rec.add("lk/%d", n)
	// no connection census: a Transport keeps the connection of an abandoned dial / request until its own
	// deadline; the property speaks of the connections of a Reader or ConsumerGroup only
	return fmt.Sprintf("tclose k=%d %s", kind, rec.String()), fmt.Sprintf("pending=%s", pend)
}

func transportPart(seed int64) {
	reps := 2
	if gen.Thorough() {
		reps = 10
	}
	n := 0
	for rep := 0; rep < reps; rep++ {
		for kind := 0; kind < 6; kind++ {
			n++
			if only("tclose", n) {
				op, impl := transportScenario(kind, scRand(seed, 3, n))
				emitSc(n, op, impl)
			}
		}
	}
}
