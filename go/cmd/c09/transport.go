package main

import (
	"context"
	"errors"
	"fmt"
	"io"
	"math/rand"
	"net"
	"strings"
	"sync"
	"sync/atomic"
	"time"

	kafka "github.com/segmentio/kafka-go"
	"github.com/segmentio/kafka-go/protocol/fetch"
	meta "github.com/segmentio/kafka-go/protocol/metadata"

	"kvharness/internal/gen"
)

// Transport round trips whose context ends while they are blocked, and the life of the pooled connections around
// CloseIdleConnections.  Two lines per scenario:
//
//	tclose k=<kind> <tokens>   external observation: rb/<c>/rt  cx/<c>  rr/<c>/<ctx|err|ok>  bo/<n> bc/<n>  fq  ci (CloseIdleConnections)
//	                           rl (the held answer is released)  lk/<n> oc/<n> (census after the scenario's deadlines elapsed)
//	ttrace k=<kind> <events>   the T.* hook events of transport.go in recording order (N<c>:<g> new, G<c> grab, R<c> recv,
//	                           D<c>:<ok|keep|err> done, L<c>:<0|1> release refused/accepted, M<c> idle timer, C<g> closeIdle, X<c> exit),
//	                           replayed deterministically through Model/TransportConnC17.lean by the oracle
//
// Families (DialTimeout 300 ms, IdleTimeout 40 ms so that every deadline of the scenario elapses before the census;
// 7 and 8: IdleTimeout 30 s, so that only CloseIdleConnections can have closed the connections counted by the census):
//
//	0 silent broker (ApiVersions never answered), cancel      1 unreachable (dial blocks until its context ends), cancel
//	2, 3 the same with a context deadline instead of cancel
//	4 ready pool, Fetch answer held: cancel (no deadline) → CloseIdleConnections → answer released (request completes
//	  on a connection whose group is already closed: release refused ⇒ the connection must exit)
//	5 ready pool, Fetch never answered, context deadline: the connection fails at the deadline
//	6 ready pool, Fetch answer held: cancel → answer released → connection idle → idle timer → CloseIdleConnections
//	7 ready pool, Fetch answered normally → CloseIdleConnections while idle
//	8 ready pool, two round trips, one held; CloseIdleConnections while the other connection is idle; release
//	10 the broker answers ApiVersions and the first Metadata request, then never answers Metadata again (requests read,
//	   connection kept open) while the pool's background refresh (MetadataTTL 60 ms) keeps asking; a Fetch round trip
//	   is answered meanwhile; after several TTLs CloseIdleConnections.  Every refresh request has to be bounded by
//	   the TTL: its connection fails at the deadline and is closed — none may be left behind (census after the TTL).
//	9 the broker connection's dial is slow and ignores its context: the caller's context is cancelled while the
//	  connect is under way, the connect then succeeds — the connection nobody waits for any more must be released to
//	  the pool or closed (and be gone after the idle timeout / CloseIdleConnections)
func transportScenario(kind int, r *rand.Rand) (lines [][2]string) {
	base := libGoroutines()
	rec := &recorder{}
	var open int32
	var nconn int32
	release := make(chan struct{})
	var relOnce sync.Once
	doRelease := func() {
		relOnce.Do(func() {
			rec.add("rl")
			close(release)
		})
	}
	held := make(chan struct{}, 16)
	slowDial := make(chan struct{}, 16)
	dialDelay := time.Duration(10+r.Intn(20)) * time.Millisecond
	var metaN int32
	brk := &Broker{FetchMax: 2, Topic: "t", OnMetadata: func(conn int) (int32, int16) {
		if kind == 10 && atomic.AddInt32(&metaN, 1) > 1 {
			rec.add("mq") // a refresh request reached the broker; it is never answered
			return 1, OffsetHang
		}
		return 1, 0
	}, OnFetch: func(q FetchReq) FetchResp {
		rec.add("fq")
		switch kind {
		case 5:
			return FetchResp{Hang: true}
		case 7, 10:
			return FetchResp{Hwm: 0, Cut: -1}
		}
		if kind == 8 && q.Offset == 1 { // the second caller's request is answered at once
			return FetchResp{Hwm: 0, Cut: -1}
		}
		held <- struct{}{}
		<-release
		return FetchResp{Hwm: 0, Cut: -1}
	}}
	ttl := 10 * time.Second
	if kind == 10 {
		ttl = 60 * time.Millisecond
	}
	idle := 40 * time.Millisecond
	if kind == 7 || kind == 8 {
		idle = 30 * time.Second // the idle timer cannot do CloseIdleConnections' work
	}
	kafka.VerifStart()
	tr := &kafka.Transport{
		DialTimeout: 300 * time.Millisecond,
		IdleTimeout: idle,
		MetadataTTL: ttl,
		Dial: func(ctx context.Context, network, addr string) (net.Conn, error) {
			if kind == 1 || kind == 3 {
				<-ctx.Done() // unreachable: the dial itself blocks until its context ends
				return nil, ctx.Err()
			}
			id := int(atomic.AddInt32(&nconn, 1))
			if kind == 9 && id >= 2 {
				slowDial <- struct{}{}
				time.Sleep(dialDelay) // deaf to ctx: the connect completes after the cancellation
			}
			atomic.AddInt32(&open, 1)
			rec.add("bo/%d", id)
			var c net.Conn
			if kind >= 4 {
				c, _ = brk.Dial()
			} else {
				cli, srv := net.Pipe()
				go func() { io.Copy(io.Discard, srv); srv.Close() }() // silent broker
				c = cli
			}
			return &countedConn{Conn: c, id: id, sc: &rscenario{rec: rec}, onClose: func() { atomic.AddInt32(&open, -1) }}, nil
		},
	}
	ncalls := 1 + r.Intn(2)
	if kind == 8 {
		ncalls = 2
	}
	done := make([]chan struct{}, ncalls)
	cancels := make([]context.CancelFunc, ncalls)
	for i := 0; i < ncalls; i++ {
		c := i + 1
		ctx, cancel := context.WithCancel(context.Background())
		if kind == 2 || kind == 3 || kind == 5 {
			ctx, cancel = context.WithTimeout(context.Background(), time.Duration(20+r.Intn(30))*time.Millisecond)
		}
		cancels[i] = cancel
		done[i] = make(chan struct{})
		var req kafka.Request = &meta.Request{TopicNames: []string{"t"}}
		if kind >= 4 {
			req = &fetch.Request{ReplicaID: -1, MaxWaitTime: 100, MinBytes: 1, Topics: []fetch.RequestTopic{{Topic: "t",
				Partitions: []fetch.RequestPartition{{Partition: 0, FetchOffset: int64(i), PartitionMaxBytes: 1 << 20}}}}}
		}
		rec.add("rb/%d/rt", c)
		if kind == 2 || kind == 3 || kind == 5 {
			rec.add("cx/%d", c) // the deadline is armed: the cancellation is scheduled
		}
		go func(c int, ctx context.Context, d chan struct{}) {
			defer close(d)
			_, err := tr.RoundTrip(ctx, kafka.TCP("fake:9092"), req)
			cl := "ok"
			switch {
			case err == nil:
			case errors.Is(err, context.Canceled), errors.Is(err, context.DeadlineExceeded):
				cl = "ctx"
			default:
				cl = "err"
				var ne net.Error
				if errors.As(err, &ne) && ne.Timeout() {
					cl = "tmo" // the connection's own deadline (set from the context's) fired: an i/o timeout, not the context's error
				}
			}
			rec.add("rr/%d/%s", c, cl)
		}(c, ctx, done[i])
	}
	waitHeld := func(n int) {
		for i := 0; i < n; i++ {
			select {
			case <-held:
			case <-time.After(watchdog()):
				return
			}
		}
	}
	cancelAll := func() {
		for i := 0; i < ncalls; i++ {
			select {
			case <-done[i]:
			default:
				rec.add("cx/%d", i+1)
				cancels[i]()
			}
		}
	}
	// mustReturn: call i's context has been cancelled; it has to return without any help from the broker
	mustReturn := func(i int) {
		select {
		case <-done[i]:
		case <-time.After(watchdog()):
			noteStuck()
			rec.add("to/%d", i+1)
		}
	}
	closeIdle := func() {
		rec.add("ci")
		tr.CloseIdleConnections()
	}
	switch kind {
	case 0, 1:
		time.Sleep(time.Duration(2+r.Intn(10)) * time.Millisecond)
		cancelAll()
	case 10:
		for i := range done {
			<-waitOr(done[i])
		}
		// let the background refresh ask (and not be answered) a few times: the TTL is drawn in [0, 60 ms)
		dl := time.Now().Add(2 * time.Second)
		for time.Now().Before(dl) && rec.count("mq") < 3 {
			time.Sleep(5 * time.Millisecond)
		}
	case 2, 3, 5, 7:
		// nothing to steer: deadlines or normal answers
	case 4:
		waitHeld(ncalls)
		cancelAll()
		for i := range done {
			mustReturn(i)
		}
		closeIdle()
		time.Sleep(time.Duration(r.Intn(5)) * time.Millisecond)
		doRelease()
	case 6:
		waitHeld(ncalls)
		cancelAll()
		for i := range done {
			mustReturn(i)
		}
		doRelease()
		time.Sleep(time.Duration(r.Intn(80)) * time.Millisecond) // sometimes shorter, sometimes longer than IdleTimeout
	case 9:
		for i := 0; i < ncalls; i++ {
			select {
			case <-slowDial:
			case <-time.After(watchdog()):
			}
		}
		cancelAll()
		for i := range done {
			mustReturn(i)
		}
		doRelease() // should a request be sent after all, it is answered
		time.Sleep(time.Duration(40+r.Intn(40)) * time.Millisecond)
	case 8:
		waitHeld(1)
		<-waitOr(done[1])
		closeIdle() // refused: the callers still hold the pool? — CloseIdleConnections drops its own reference only
		rec.add("cx/1")
		cancels[0]()
		mustReturn(0)
		doRelease()
	}
	pend := "-"
	for i := 0; i < ncalls; i++ {
		select {
		case <-done[i]:
		case <-time.After(watchdog()):
			if pend == "-" {
				pend = ""
			} else {
				pend += ","
			}
			pend += fmt.Sprint(i + 1)
			noteStuck()
		}
		cancels[i]()
	}
	doRelease()
	closeIdle()
	// census after the scenario's deadlines (DialTimeout 300 ms, IdleTimeout 40 ms, context deadlines ≤ 50 ms) elapsed
	n := settle(base, censusBound())
	rec.add("lk/%d", n)
	oc := int(atomic.LoadInt32(&open))
	for i := 0; i < censusSteps() && oc != 0; i++ {
		time.Sleep(2 * time.Millisecond)
		oc = int(atomic.LoadInt32(&open))
	}
	if oc != 0 {
		noteStuck()
	}
	rec.add("oc/%d", oc)
	evs := kafka.VerifStop()
	lines = append(lines, [2]string{fmt.Sprintf("tclose k=%d %s", kind, rec.String()), fmt.Sprintf("pending=%s leak=%d conns=%d", pend, n, oc)})

	// hook trace of the connection life cycles
	known := map[string]bool{}
	groupOf := map[string]int{}
	gid := func(a string) int {
		if _, ok := groupOf[a]; !ok {
			groupOf[a] = len(groupOf) + 1
		}
		return groupOf[a]
	}
	// connections are numbered locally, a new number at every T.New: the recorder's ids follow addresses, and the address
	// of a connection that has exited may be handed to a later one
	connOf := map[string]int{}
	nconns, nexited := 0, 0
	cid := func(a string) int { return connOf[a] }
	var es []string
	exited := map[string]bool{}
	for _, e := range evs {
		if !strings.HasPrefix(e.Kind, "T.") {
			continue
		}
		if e.Kind != "T.New" && e.Kind != "T.CloseIdle" && !known[e.Args[0]] {
			continue // the run loop of an earlier scenario winding down
		}
		switch e.Kind {
		case "T.New":
			known[e.Args[0]] = true
			nconns++
			connOf[e.Args[0]] = nconns
			delete(exited, e.Args[0])
			es = append(es, fmt.Sprintf("N%d:%d", cid(e.Args[0]), gid(e.Args[1])))
		case "T.Grab":
			es = append(es, fmt.Sprintf("G%d", cid(e.Args[0])))
		case "T.Recv":
			es = append(es, fmt.Sprintf("R%d", cid(e.Args[0])))
		case "T.Done":
			o := "err"
			if e.Args[1] == "true" {
				o = "ok"
			} else if e.Args[2] == "true" {
				o = "keep"
			}
			es = append(es, fmt.Sprintf("D%d:%s", cid(e.Args[0]), o))
		case "T.Release":
			a := 0
			if e.Args[1] == "true" {
				a = 1
			}
			es = append(es, fmt.Sprintf("L%d:%d", cid(e.Args[0]), a))
		case "T.Exit":
			if !exited[e.Args[0]] {
				nexited++
			}
			exited[e.Args[0]] = true
			es = append(es, fmt.Sprintf("X%d", cid(e.Args[0])))
		case "T.Remove":
			es = append(es, fmt.Sprintf("M%d", cid(e.Args[0])))
		case "T.CloseIdle":
			es = append(es, fmt.Sprintf("C%d", gid(e.Args[0])))
		}
	}
	live := nconns - nexited
	tr2 := "-"
	if len(es) > 0 {
		tr2 = strings.Join(es, ";")
	}
	lines = append(lines, [2]string{fmt.Sprintf("ttrace k=%d %s", kind, tr2), fmt.Sprintf("live=%d", live)})
	return
}

func transportPart(seed int64) {
	reps := 2
	if gen.Thorough() {
		reps = 8
	}
	n := 0
	for rep := 0; rep < reps; rep++ {
		for kind := 0; kind < 11; kind++ {
			n++
			if tooManyStuck() {
				return
			}
			if only("tclose", n) || only("ttrace", n) {
				for _, l := range transportScenario(kind, scRand(seed, 3, n)) {
					emitSc(n, l[0], l[1])
				}
			}
		}
	}
}
