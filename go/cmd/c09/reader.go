package main

import (
	"context"
	"errors"
	"fmt"
	"io"
	"math/rand"
	"net"
	"runtime"
	"sort"
	"strconv"
	"strings"
	"sync"
	"sync/atomic"
	"time"

	kafka "github.com/segmentio/kafka-go"

	"kvharness/internal/gen"
)

// ---------------------------------------------------------------------------------------------------------------
// Reader / ConsumerGroup scenarios.  Observed tokens (op `rclose <cfg> …`):
//   rb/<c>/<fetch|read|commit|next>   call begins            rr/<c>/<msg|eof|ctx|closed|gclosed|gen|err>  call returns
//   cx/<c>  context of call c cancelled                      xb | xr   Close begins | returned
//   gj/<member|_> JoinGroup request   gJ/<member> answered ok   gE  a coordinator call answered with an error
//   gF  a coordinator lookup (connect / FindCoordinator) failed
//   gs SyncGroup   go OffsetFetch   gh/<member> Heartbeat   gc OffsetCommit   gl/<member> LeaveGroup
//   co/<n> cc/<n> coordinator connection n opened / closed   bo/<n> bc/<n> broker connection n dialled / closed by the client
//   fq  Fetch request reached the broker
//   lq  the ListOffsets request that follows an out-of-range Fetch reached the broker (never answered)
//   lk/<n> library goroutines still alive at the end   oc/<n> connections still open at the end
//   to/<c> call c had to return (its context was cancelled, or Close had returned) and was still blocked after the watchdog bound
// ---------------------------------------------------------------------------------------------------------------

type countedConn struct {
	net.Conn
	id      int
	lag     bool // dialled by Reader.ReadLag (the lag monitor), not by a fetcher or the group loop
	once    sync.Once
	sc      *rscenario
	onClose func()
}

func (c *countedConn) Close() error {
	c.once.Do(func() {
		if c.lag {
			c.sc.rec.add("lc/%d", c.id)
		} else {
			c.sc.rec.add("bc/%d", c.id)
		}
		atomic.AddInt32(&c.sc.open, -1)
		if c.onClose != nil {
			c.onClose()
		}
	})
	return c.Conn.Close()
}

type rcfg struct {
	mode       string // plain | group | cg
	broker     string // ok | silent | unreachable
	coord      string // ok | slowjoin | joinerr | rebalance | slowhb
	nmsgs      int    // messages in the log
	syncCommit bool
	coordReal  bool   // group paths over real connections to the protocol-level broker (gbroker) instead of the mock coordinator
	badCodec   bool   // the second message of the log carries an unknown compression codec
	faultAt    string // coordinator method at which a fault is injected ("" = none)
	faultNth   int    // on its n-th call (0 = every call)
	faultKind  int    // kafka error code, or -1 = the connection breaks / the request times out
	// plain reader: one ListOffsets request on each of the first offConns connections is answered with error code
	// offCode — the ((conn-1+offNth) mod 4 + 1)-th (1, 2 = the fetcher's readOffsets; 3, 4 = the offsets Conn.Seek
	// reads again), so that four connections cover the four placements
	offNth, offConns int
	offCode          int16
	offHangNth       int           // plain reader: the n-th ListOffsets request of the scenario is never answered (1, 2: initialize's readOffsets; 3, 4: its Seek)
	oorThenSilent    bool          // plain reader: the first Fetch is answered OFFSET_OUT_OF_RANGE, the ListOffsets that follows it is never answered
	watch            bool          // group paths: WatchPartitionChanges (one more goroutine per generation, polling the coordinator)
	lagEvery         time.Duration // plain reader: ReadLagInterval (the lag monitor goroutine dials its own connections)
}

type rscenario struct {
	cfg     rcfg
	rec     *recorder
	open    int32 // open connections (broker + coordinator)
	br      *Broker
	gb      *gbroker
	r       *kafka.Reader
	cg      *kafka.ConsumerGroup
	nextC   int
	done    map[int]chan struct{}
	cancel  map[int]context.CancelFunc
	closed  chan struct{}
	closing bool
	// coordinator script
	mu       sync.Mutex
	joins    int
	calls    map[string]int
	hbs      int
	holdJoin chan struct{}
	offCalls map[int]int
	// closeBound, when set, replaces the watchdog bound for Close in finish(): a scenario whose Close has to wait for a
	// network deadline fixed in the library (the fetcher's 10 s around readOffsets)
	closeBound time.Duration
	oorSent    int32
	offTotal   int32
	member   string
	lastMsg  kafka.Message
	gotMsg   bool
}

func (s *rscenario) dial(ctx context.Context, network, addr string) (net.Conn, error) {
	if s.cfg.broker == "unreachable" {
		select {
		case <-time.After(2 * time.Millisecond):
		case <-ctx.Done():
		}
		return nil, errors.New("fake: connection refused")
	}
	var c net.Conn
	var id int
	if s.gb != nil {
		c, id = s.gb.dial()
	} else {
		c, id = s.br.Dial()
	}
	atomic.AddInt32(&s.open, 1)
	lag := false
	if s.cfg.lagEvery > 0 {
		buf := make([]byte, 8<<10)
		lag = strings.Contains(string(buf[:runtime.Stack(buf, false)]), ").ReadLag")
	}
	if lag {
		s.rec.add("lo/%d", id) // Close does not wait for the lag monitor: its connections are censused, not ordered
	} else {
		s.rec.add("bo/%d", id)
	}
	return &countedConn{Conn: c, id: id, sc: s, lag: lag}, nil
}

// coordinator script (through the verif export hook VerifSetGroupHandler)
// fault reports whether the scripted fault applies to this coordinator call, and the reply that carries it.
func (s *rscenario) fault(method string) (kafka.VerifCoordReply, bool) {
	if s.cfg.faultAt != method {
		return kafka.VerifCoordReply{}, false
	}
	s.mu.Lock()
	if s.calls == nil {
		s.calls = map[string]int{}
	}
	s.calls[method]++
	n := s.calls[method]
	s.mu.Unlock()
	if s.cfg.faultNth != 0 && n != s.cfg.faultNth {
		return kafka.VerifCoordReply{}, false
	}
	if s.cfg.faultKind < 0 {
		return kafka.VerifCoordReply{Err: io.ErrUnexpectedEOF}, true
	}
	return kafka.VerifCoordReply{Err: kafka.Error(s.cfg.faultKind)}, true
}

func (s *rscenario) coord(c kafka.VerifCoordCall) kafka.VerifCoordReply {
	switch c.Method {
	case "connect", "close":
	default:
		if r, ok := s.fault(c.Method); ok {
			// journal the request with the same token as the fault-free path, then the failure
			m := c.MemberID
			if m == "" {
				m = "_"
			}
			switch c.Method {
			case "joinGroup":
				s.rec.add("gj/%s", m)
			case "syncGroup":
				s.rec.add("gs")
			case "offsetFetch":
				s.rec.add("go")
			case "heartbeat":
				s.rec.add("gh/%s", m)
			case "offsetCommit":
				s.rec.add("gc")
			case "leaveGroup":
				s.rec.add("gl/%s", m)
			}
			if c.Method == "findCoordinator" {
				s.rec.add("gF") // the coordinator lookup failed: no request can follow on this attempt
			} else {
				s.rec.add("gE")
			}
			return r
		}
	}
	switch c.Method {
	case "connect":
		if r, ok := s.fault("connect"); ok {
			s.rec.add("gF")
			return r // the dial fails: no connection exists
		}
		atomic.AddInt32(&s.open, 1)
		s.rec.add("co/%d", c.Conn)
		return kafka.VerifCoordReply{}
	case "close":
		s.rec.add("cc/%d", c.Conn)
		atomic.AddInt32(&s.open, -1)
		return kafka.VerifCoordReply{}
	case "findCoordinator":
		return kafka.VerifCoordReply{Host: "fake", Port: 9092}
	case "joinGroup":
		m := c.MemberID
		if m == "" {
			m = "_"
		}
		s.rec.add("gj/%s", m)
		s.mu.Lock()
		s.joins++
		n := s.joins
		hold := s.holdJoin
		s.mu.Unlock()
		if s.cfg.coord == "slowjoin" && hold != nil && n == 1 {
			select {
			case <-hold:
			case <-time.After(watchdog()):
			}
		}
		if s.cfg.coord == "joinerr" && n <= 2 {
			s.rec.add("gE")
			return kafka.VerifCoordReply{Err: kafka.Error(15)} // GroupCoordinatorNotAvailable
		}
		id := fmt.Sprintf("m%d", n)
		s.rec.add("gJ/%s", id)
		return kafka.VerifCoordReply{MemberID: id, LeaderID: id, GenerationID: int32(n), Protocol: "range",
			Members: []kafka.VerifGroupMember{{ID: id, Topics: []string{"t"}}}}
	case "readPartitions":
		return kafka.VerifCoordReply{Parts: []kafka.Partition{{Topic: "t", ID: 0, Leader: kafka.Broker{Host: "fake", Port: 9092, ID: 1}}}}
	case "syncGroup":
		s.rec.add("gs")
		return kafka.VerifCoordReply{Assignments: map[string][]int32{"t": {0}}}
	case "offsetFetch":
		s.rec.add("go")
		return kafka.VerifCoordReply{Committed: []kafka.VerifGroupOffset{{Topic: "t", Partition: 0, Offset: -1}}}
	case "heartbeat":
		s.rec.add("gh/%s", c.MemberID)
		s.mu.Lock()
		s.hbs++
		n := s.hbs
		s.mu.Unlock()
		if s.cfg.coord == "slowhb" {
			time.Sleep(30 * time.Millisecond)
		}
		if s.cfg.coord == "rebalance" && n == 2 {
			s.rec.add("gE")
			return kafka.VerifCoordReply{Err: kafka.RebalanceInProgress}
		}
		return kafka.VerifCoordReply{}
	case "offsetCommit":
		s.rec.add("gc")
		if s.cfg.coord == "slowhb" {
			time.Sleep(30 * time.Millisecond)
		}
		return kafka.VerifCoordReply{}
	case "leaveGroup":
		s.rec.add("gl/%s", c.MemberID)
		return kafka.VerifCoordReply{}
	}
	return kafka.VerifCoordReply{Err: errors.New("fake: unexpected coordinator call " + c.Method)}
}

func newRScenario(cfg rcfg) *rscenario {
	if cfg.mode != "plain" && curWatch {
		cfg.watch = true
	}
	backoff := 10 * time.Millisecond
	if cfg.mode != "plain" && curLongBackoff {
		backoff = 20 * time.Second // only Close can end the back-off after a failed join
	}
	s := &rscenario{cfg: cfg, rec: &recorder{}, nextC: 1, done: map[int]chan struct{}{}, cancel: map[int]context.CancelFunc{}}
	var set []byte
	for i := 0; i < cfg.nmsgs; i++ {
		set = append(set, encodeMsg(int64(i), 1000+int64(i), nil, []byte(strconv.Itoa(i)))...)
	}
	s.br = &Broker{FetchMax: 2, Topic: "t",
		OnOffset: func(conn int, ts int64) (int64, int16) {
			if cfg.offHangNth > 0 && int(atomic.AddInt32(&s.offTotal, 1)) == cfg.offHangNth {
				s.rec.add("lq")
				return 0, OffsetHang
			}
			if cfg.oorThenSilent && atomic.LoadInt32(&s.oorSent) == 1 {
				s.rec.add("lq") // the ListOffsets after the out-of-range Fetch arrived; it is never answered
				return 0, OffsetHang
			}
			if cfg.offNth > 0 && conn <= cfg.offConns {
				s.mu.Lock()
				if s.offCalls == nil {
					s.offCalls = map[int]int{}
				}
				s.offCalls[conn]++
				n := s.offCalls[conn]
				s.mu.Unlock()
				if n == (conn-1+cfg.offNth)%4+1 { // each of the four placements on one of the first four connections
					return 0, cfg.offCode
				}
			}
			if ts == -2 {
				return 0, 0
			}
			return int64(cfg.nmsgs), 0
		},
		OnFetch: func(q FetchReq) FetchResp {
			s.rec.add("fq")
			if cfg.broker == "silent" {
				return FetchResp{Hang: true}
			}
			if cfg.oorThenSilent && atomic.CompareAndSwapInt32(&s.oorSent, 0, 1) {
				return FetchResp{Err: 1, Hwm: int64(cfg.nmsgs), Cut: -1} // OFFSET_OUT_OF_RANGE
			}
			if q.Offset >= int64(cfg.nmsgs) {
				time.Sleep(time.Duration(q.MaxWaitMs) * time.Millisecond / 2)
				return FetchResp{Hwm: int64(cfg.nmsgs), Cut: -1}
			}
			// serve everything from the requested offset
			var part []byte
			for i := int(q.Offset); i < cfg.nmsgs; i++ {
				attrs := byte(0)
				if cfg.badCodec && i >= 1 {
					attrs = 5 // no codec is registered under this id
				}
				part = append(part, encodeMsgAttrs(int64(i), 1000+int64(i), nil, []byte(strconv.Itoa(i)), attrs)...)
			}
			return FetchResp{Hwm: int64(cfg.nmsgs), Set: part, Cut: -1}
		},
	}
	_ = set
	dialer := &kafka.Dialer{DialFunc: s.dial, Timeout: 300 * time.Millisecond}
	if cfg.coord == "slowjoin" {
		s.holdJoin = make(chan struct{})
	}
	switch cfg.mode {
	case "plain":
		lagEvery := time.Duration(-1)
		if cfg.lagEvery > 0 {
			lagEvery = cfg.lagEvery
		}
		rbMin, rbMax := time.Millisecond, 3*time.Millisecond
		if curLongBackoff && cfg.broker != "ok" {
			rbMin, rbMax = 20*time.Second, 20*time.Second // only the cancellation by Close can end the fetcher's back-off sleep
		}
		s.r = kafka.NewReader(kafka.ReaderConfig{Brokers: []string{"fake:9092"}, Topic: "t", Partition: 0, Dialer: dialer,
			MinBytes: 1, MaxBytes: 1 << 20, MaxWait: 40 * time.Millisecond, ReadBatchTimeout: 300 * time.Millisecond,
			ReadBackoffMin: rbMin, ReadBackoffMax: rbMax, MaxAttempts: 2, ReadLagInterval: lagEvery})
	case "group":
		if cfg.coordReal {
			s.gb = &gbroker{s: s}
		} else {
			kafka.VerifSetGroupHandler(s.coord)
		}
		ci := 20 * time.Millisecond
		if cfg.syncCommit {
			ci = 0
		}
		s.r = kafka.NewReader(kafka.ReaderConfig{Brokers: []string{"fake:9092"}, GroupID: "g", Topic: "t", Dialer: dialer,
			MinBytes: 1, MaxBytes: 1 << 20, MaxWait: 40 * time.Millisecond, ReadBatchTimeout: 300 * time.Millisecond,
			ReadBackoffMin: time.Millisecond, ReadBackoffMax: 3 * time.Millisecond, MaxAttempts: 2, ReadLagInterval: -1,
			HeartbeatInterval: 15 * time.Millisecond, SessionTimeout: 300 * time.Millisecond, RebalanceTimeout: 300 * time.Millisecond,
			JoinGroupBackoff: backoff, CommitInterval: ci, StartOffset: kafka.FirstOffset,
			WatchPartitionChanges: cfg.watch, PartitionWatchInterval: 7 * time.Millisecond})
		kafka.VerifSetGroupHandler(nil)
	case "cg":
		if cfg.coordReal {
			s.gb = &gbroker{s: s}
		} else {
			kafka.VerifSetGroupHandler(s.coord)
		}
		cg, err := kafka.NewConsumerGroup(kafka.ConsumerGroupConfig{ID: "g", Brokers: []string{"fake:9092"}, Topics: []string{"t"}, Dialer: dialer,
			HeartbeatInterval: 15 * time.Millisecond, SessionTimeout: 300 * time.Millisecond, RebalanceTimeout: 300 * time.Millisecond,
			JoinGroupBackoff: backoff, Timeout: 150 * time.Millisecond,
			WatchPartitionChanges: cfg.watch, PartitionWatchInterval: 7 * time.Millisecond})
		kafka.VerifSetGroupHandler(nil)
		if err != nil {
			panic(err)
		}
		s.cg = cg
	}
	return s
}

func rclass(err error) string {
	switch {
	case err == nil:
		return "ok"
	case errors.Is(err, io.EOF):
		return "eof"
	case errors.Is(err, context.Canceled), errors.Is(err, context.DeadlineExceeded):
		return "ctx"
	case errors.Is(err, io.ErrClosedPipe):
		return "closed"
	case errors.Is(err, kafka.ErrGroupClosed):
		return "gclosed"
	}
	return "err"
}

// call starts an API call of the given kind in its own goroutine.
func (s *rscenario) call(kind string) int {
	c := s.nextC
	s.nextC++
	ctx, cancel := context.WithCancel(context.Background())
	s.cancel[c] = cancel
	d := make(chan struct{})
	s.done[c] = d
	s.rec.add("rb/%d/%s", c, kind)
	go func() {
		defer close(d)
		var err error
		res := ""
		switch kind {
		case "fetch":
			var m kafka.Message
			m, err = s.r.FetchMessage(ctx)
			if err == nil {
				res = "msg"
				s.mu.Lock()
				s.lastMsg, s.gotMsg = m, true
				s.mu.Unlock()
			}
		case "read":
			_, err = s.r.ReadMessage(ctx)
			if err == nil {
				res = "msg"
			}
		case "commit":
			s.mu.Lock()
			m := s.lastMsg
			if !s.gotMsg {
				m = kafka.Message{Topic: "t", Partition: 0, Offset: 0}
			}
			s.mu.Unlock()
			err = s.r.CommitMessages(ctx, m)
		case "next":
			_, err = s.cg.Next(ctx)
			if err == nil {
				res = "gen"
			}
		}
		if res == "" {
			res = rclass(err)
			if res == "eof" && kind != "fetch" && kind != "read" {
				res = "err" // a broken coordinator connection surfaces io.EOF through Next / CommitMessages
			}
			if res == "eof" && !s.closingFlag() {
				// Close has not been called: the io.EOF of a broken coordinator connection, handed through r.runError
				// (the fetch path rewrites io.EOF to io.ErrUnexpectedEOF, the group-loop path does not) — an error, not
				// the "reader closed" answer
				res = "err"
			}
		}
		s.rec.add("rr/%d/%s", c, res)
	}()
	return c
}

func (s *rscenario) closingFlag() bool {
	s.mu.Lock()
	defer s.mu.Unlock()
	return s.closing
}

func (s *rscenario) wait(c int, d time.Duration) bool {
	select {
	case <-s.done[c]:
		return true
	case <-time.After(d):
		if d >= watchdog() {
			noteStuck()            // waited the full watchdog bound: the call is blocked; later scenarios use the short bounds
			s.rec.add("to/%d", c) // every wait with that bound is for a call that has to return (cancelled, or after Close)
		}
		return false
	}
}

func (s *rscenario) cancelCall(c int) {
	s.rec.add("cx/%d", c)
	s.cancel[c]()
}

func (s *rscenario) closeBegin() {
	s.mu.Lock()
	if s.closing {
		s.mu.Unlock()
		return
	}
	s.closing = true
	s.mu.Unlock()
	s.closed = make(chan struct{})
	go func() {
		s.rec.add("xb")
		if s.r != nil {
			s.r.Close()
		} else {
			s.cg.Close()
		}
		s.rec.add("xr")
		close(s.closed)
	}()
	if s.holdJoin != nil {
		// a join held by the coordinator ("rebalance in progress") is answered a little after Close began
		go func() {
			time.Sleep(10 * time.Millisecond)
			s.releaseJoin()
		}()
	}
}

func (s *rscenario) releaseJoin() {
	s.mu.Lock()
	h := s.holdJoin
	s.holdJoin = nil
	s.mu.Unlock()
	if h != nil {
		close(h)
	}
}

func (s *rscenario) waitTok(prefix string, d time.Duration) bool {
	deadline := time.Now().Add(d)
	for time.Now().Before(deadline) {
		s.rec.mu.Lock()
		for _, t := range s.rec.toks {
			if strings.HasPrefix(t, prefix) {
				s.rec.mu.Unlock()
				return true
			}
		}
		s.rec.mu.Unlock()
		time.Sleep(time.Millisecond)
	}
	return false
}

func (s *rscenario) finish(base int, t0 time.Time) (string, string) {
	s.closeBegin()
	deadline := time.Now().Add(watchdog())
	if s.closeBound > 0 {
		deadline = time.Now().Add(s.closeBound)
	}
	closeState := "ret"
	select {
	case <-s.closed:
	case <-time.After(time.Until(deadline)):
		closeState = "stuck"
		noteStuck()
	}
	closeMs := time.Since(t0).Milliseconds()
	_ = closeMs
	var pending []int
	for c, d := range s.done {
		w := time.Until(deadline)
		if w < 100*time.Millisecond {
			w = 100 * time.Millisecond
		}
		select {
		case <-d:
		case <-time.After(w):
			pending = append(pending, c)
		}
	}
	sort.Ints(pending)
	leak, conns := "-", "-"
	if closeState == "ret" {
		// a second Close has nothing left to do: it returns (no panic, no wait, nothing sent)
		again := make(chan struct{})
		go func() {
			if s.r != nil {
				s.r.Close()
			} else {
				s.cg.Close()
			}
			close(again)
		}()
		select {
		case <-again:
		case <-time.After(watchdog()):
			noteStuck()
			s.rec.add("to/0")
		}
		// quiet period: anything sent after Close returned would be journalled now
		time.Sleep(60 * time.Millisecond)
		n := settle(base, censusBound())
		s.rec.add("lk/%d", n)
		leak = strconv.Itoa(n)
		oc := int(atomic.LoadInt32(&s.open))
		for i := 0; i < censusSteps() && oc != 0; i++ {
			time.Sleep(2 * time.Millisecond)
			oc = int(atomic.LoadInt32(&s.open))
		}
		if oc != 0 {
			noteStuck()
		}
		s.rec.add("oc/%d", oc)
		conns = strconv.Itoa(oc)
	}
	pe := "-"
	if len(pending) > 0 {
		ss := make([]string, len(pending))
		for i, c := range pending {
			ss[i] = strconv.Itoa(c)
		}
		pe = strings.Join(ss, ",")
	}
	g := 0
	if s.cfg.mode != "plain" {
		g = 1
	}
	op := fmt.Sprintf("rclose grp=%d,nm=%d %s", g, s.cfg.nmsgs, s.rec.String())
	impl := fmt.Sprintf("close=%s pending=%s leak=%s conns=%s", closeState, pe, leak, conns)
	return op, impl
}

// scenario families
func readerScenario(kind int, r *rand.Rand) (string, string) {
	base := libGoroutines()
	t0 := time.Now()
	jitter := func() { time.Sleep(time.Duration(r.Intn(30)) * time.Millisecond) }
	switch kind {
	case 0, 1, 2: // plain reader at the end of the log / silent broker / unreachable broker: blocked FetchMessage, Close
		s := newRScenario(rcfg{mode: "plain", broker: []string{"ok", "silent", "unreachable"}[kind]})
		c := s.call("fetch")
		jitter()
		if r.Intn(2) == 0 {
			c2 := s.call("read")
			time.Sleep(3 * time.Millisecond)
			s.cancelCall(c2)
			s.wait(c2, watchdog())
		}
		s.closeBegin()
		s.wait(c, watchdog())
		<-waitOr(s.closed)
		c3 := s.call("fetch")
		s.wait(c3, watchdog())
		c4 := s.call("read")
		s.wait(c4, watchdog())
		return s.finish(base, t0)
	case 12: // plain reader: a message with an unknown compression codec (fatal for the fetcher's read), then Close
		s := newRScenario(rcfg{mode: "plain", broker: "ok", nmsgs: 3, badCodec: true})
		c := s.call("fetch")
		s.wait(c, watchdog())
		c2 := s.call("fetch")
		s.wait(c2, watchdog())
		time.Sleep(time.Duration(5+r.Intn(20)) * time.Millisecond)
		s.closeBegin()
		<-waitOr(s.closed)
		return s.finish(base, t0)
	case 15: // plain reader: reading the offsets fails during the fetcher's initialize (readOffsets or Seek) on the first connections
		s := newRScenario(rcfg{mode: "plain", broker: "ok", nmsgs: 2, offNth: 1 + r.Intn(4), offConns: 4,
			offCode: []int16{6, 5, 7, 3}[r.Intn(4)]})
		c := s.call("fetch")
		s.wait(c, watchdog())
		jitter()
		s.closeBegin()
		<-waitOr(s.closed)
		c2 := s.call("fetch")
		s.wait(c2, watchdog())
		return s.finish(base, t0)
	case 16: // plain reader with the lag monitor running (ReadLagInterval): its goroutine and connections end with Close
		s := newRScenario(rcfg{mode: "plain", broker: "ok", nmsgs: r.Intn(3), lagEvery: time.Duration(8+r.Intn(20)) * time.Millisecond,
			offNth: r.Intn(3), offConns: 3, offCode: 6}) // sometimes a lag probe (or the fetcher) meets a failing ListOffsets
		c := s.call("fetch")
		time.Sleep(time.Duration(20+r.Intn(60)) * time.Millisecond)
		s.closeBegin()
		<-waitOr(s.closed)
		s.wait(c, watchdog())
		return s.finish(base, t0)
	case 3: // plain reader, messages delivered and some still buffered when Close runs
		s := newRScenario(rcfg{mode: "plain", broker: "ok", nmsgs: 3 + r.Intn(3)})
		c := s.call("fetch")
		s.wait(c, watchdog())
		jitter()
		s.closeBegin()
		<-waitOr(s.closed)
		for i := 0; i < 2; i++ {
			ci := s.call("fetch")
			s.wait(ci, watchdog())
		}
		return s.finish(base, t0)
	case 13: // group reader over real coordinator connections: a fault (error code or broken connection) at any step, Close
		cfg := rcfg{mode: "group", broker: "ok", coord: "ok", coordReal: true, syncCommit: r.Intn(2) == 0}
		if r.Intn(4) > 0 {
			cfg.faultAt, cfg.faultNth, cfg.faultKind = pickStepReal(r), r.Intn(3), []int{25, 15, 16, 27, -1, -1}[r.Intn(6)]
			if cfg.faultAt == "leaveGroup" {
				cfg.faultNth = r.Intn(2) // there is one LeaveGroup per scenario
			}
		}
		s := newRScenario(cfg)
		c := s.call("fetch")
		s.waitTok("gh/", 150*time.Millisecond)
		jitter()
		s.closeBegin()
		<-waitOr(s.closed)
		s.wait(c, watchdog())
		c3 := s.call("fetch")
		s.wait(c3, watchdog())
		return s.finish(base, t0)
	case 18: // ConsumerGroup over real connections, Timeout 150 ms: the coordinator reads the request of one given step
		// (silentStep) and never answers it; Close.  Only the deadline timeoutCoordinator arms before every request ends
		// the call: Close has to return within it (plus the rebalance / session timeout for JoinGroup / SyncGroup).
		cfg := rcfg{mode: "cg", coord: "ok", coordReal: true, faultAt: silentStep, faultNth: 1, faultKind: -2}
		s := newRScenario(cfg)
		c := s.call("next")
		s.wait(c, 250*time.Millisecond)
		if silentStep == "heartbeat" {
			s.waitTok("gh/", 200*time.Millisecond) // the heartbeat that is never answered is on its way
		}
		jitter()
		s.closeBegin()
		<-waitOr(s.closed)
		s.wait(c, watchdog())
		return s.finish(base, t0)
	case 14: // ConsumerGroup over real connections, Timeout 150 ms: also a coordinator that stops answering at some step
		cfg := rcfg{mode: "cg", coord: "ok", coordReal: true}
		if r.Intn(4) > 0 {
			cfg.faultAt, cfg.faultNth, cfg.faultKind = pickStepReal(r), r.Intn(3), []int{25, 15, 27, -1, -2, -2}[r.Intn(6)]
			if cfg.faultAt == "leaveGroup" {
				cfg.faultNth = r.Intn(2)
			}
			if cfg.faultKind == -2 && (cfg.faultAt == "joinGroup" || cfg.faultAt == "syncGroup") {
				cfg.faultKind = -1 // their deadline adds the rebalance / session timeout: keep the scenario short
			}
		}
		s := newRScenario(cfg)
		c := s.call("next")
		s.wait(c, 200*time.Millisecond)
		jitter()
		s.closeBegin()
		<-waitOr(s.closed)
		s.wait(c, watchdog())
		c3 := s.call("next")
		s.wait(c3, watchdog())
		return s.finish(base, t0)
	case 4, 5, 6, 7, 8, 10, 11: // group reader: running generation / slow join / join errors / rebalance / slow coordinator / faults
		cfg := rcfg{mode: "group", broker: "ok", syncCommit: r.Intn(2) == 0, nmsgs: r.Intn(2) * 2}
		switch kind {
		case 10: // the coordinator rejects or drops LeaveGroup after a complete join / sync / offset fetch / generation
			cfg.coord, cfg.faultAt, cfg.faultNth, cfg.faultKind = "ok", "leaveGroup", r.Intn(2), pickFault(r)
		case 11: // a fault at any other coordinator step, then Close
			cfg.coord, cfg.faultAt, cfg.faultNth, cfg.faultKind = "ok", pickStep(r), r.Intn(3), pickFault(r)
		default:
			cfg.coord = []string{"ok", "slowjoin", "joinerr", "rebalance", "slowhb"}[kind-4]
		}
		coord := cfg.coord
		s := newRScenario(cfg)
		c := s.call("fetch")
		if coord != "slowjoin" {
			w := 500 * time.Millisecond
			if cfg.faultAt != "" && cfg.faultAt != "leaveGroup" {
				w = 60 * time.Millisecond // the generation may never start
			}
			s.waitTok("gh/", w)
		} else {
			s.waitTok("gj/", 500*time.Millisecond)
		}
		jitter()
		var cm int
		if s.cfg.nmsgs > 0 {
			s.wait(c, 400*time.Millisecond) // a probe: after a failed join (back-off) or a fault no message may ever arrive
			cm = s.call("commit")
			if r.Intn(2) == 0 {
				time.Sleep(time.Millisecond)
				s.cancelCall(cm)
			}
		}
		if r.Intn(3) == 0 {
			c2 := s.call("fetch")
			time.Sleep(2 * time.Millisecond)
			s.cancelCall(c2)
			s.wait(c2, watchdog())
		}
		s.closeBegin()
		<-waitOr(s.closed)
		if cm != 0 && !s.wait(cm, 50*time.Millisecond) {
			// a synchronous commit queued while the generation ends is only released by its context
			s.cancelCall(cm)
			s.wait(cm, watchdog())
		}
		c3 := s.call("fetch")
		s.wait(c3, watchdog())
		c4 := s.call("commit")
		if !s.wait(c4, 150*time.Millisecond) {
			s.cancelCall(c4)
			s.wait(c4, watchdog())
		}
		return s.finish(base, t0)
	default: // ConsumerGroup used directly: Next blocked / handed out, Close, Next after Close
		coord := []string{"ok", "slowjoin", "joinerr", "rebalance"}[r.Intn(4)]
		cfg := rcfg{mode: "cg", coord: coord}
		if r.Intn(2) == 0 {
			cfg.faultAt, cfg.faultNth, cfg.faultKind = pickStep(r), r.Intn(3), pickFault(r)
			if r.Intn(2) == 0 {
				cfg.faultAt = "leaveGroup"
			}
		}
		s := newRScenario(cfg)
		c := s.call("next")
		if r.Intn(2) == 0 {
			s.wait(c, 300*time.Millisecond)
		}
		jitter()
		if r.Intn(3) == 0 {
			c2 := s.call("next")
			time.Sleep(2 * time.Millisecond)
			s.cancelCall(c2)
			s.wait(c2, watchdog())
		}
		s.closeBegin()
		<-waitOr(s.closed)
		c3 := s.call("next")
		s.wait(c3, watchdog())
		return s.finish(base, t0)
	}
}

// pickFault: a Kafka error code the coordinator may answer with, or -1 for a broken connection / timeout.
func pickFault(r *rand.Rand) int {
	return []int{25, 15, 16, 27, 22, -1, -1}[r.Intn(7)]
}

// pickStep: a coordinator step other than LeaveGroup.
func pickStep(r *rand.Rand) string {
	return []string{"connect", "findCoordinator", "joinGroup", "syncGroup", "offsetFetch", "heartbeat", "offsetCommit", "readPartitions"}[r.Intn(8)]
}

// pickStepReal: a coordinator request (real connections: the dial itself is not scripted)
func pickStepReal(r *rand.Rand) string {
	return []string{"findCoordinator", "joinGroup", "syncGroup", "offsetFetch", "heartbeat", "leaveGroup", "leaveGroup"}[r.Intn(7)]
}

// the coordinator request that is never answered in scenario kind 18
var silentStep string

// scenarios with an even number run their group paths with the partition watcher (17 kinds: each kind gets both)
var curWatch bool

// scenarios with an odd number run their group paths with JoinGroupBackoff 20 s, and a plain reader whose broker is
// silent or unreachable with ReadBackoffMin = ReadBackoffMax = 20 s
var curLongBackoff bool

// deadlineFamily: three plain readers side by side, each blocked in one of the fetcher's offsets requests against a
// broker that read the request and stopped answering (connection kept open), then Close on all of them:
//   a  the readOffsets that follows a Fetch answered OFFSET_OUT_OF_RANGE (C09-m8)
//   b  initialize's readOffsets (first ListOffsets of the connection)
//   c  the offsets check of initialize's Seek (third ListOffsets)
// A blocked socket read does not observe the cancelled context: the fetcher's only way out is the deadline its
// readOffsets helper arms (10 s, fixed in the library), so Close has to return shortly after it, connections closed.
// The three wait for the same 10 s.
func deadlineFamily(r *rand.Rand) [][2]string {
	base := libGoroutines()
	t0 := time.Now()
	cfgs := []rcfg{
		{mode: "plain", broker: "ok", nmsgs: 2, oorThenSilent: true},
		{mode: "plain", broker: "ok", nmsgs: 2, offHangNth: 1},
		{mode: "plain", broker: "ok", nmsgs: 2, offHangNth: 3},
	}
	bound := 13 * time.Second
	ss := make([]*rscenario, len(cfgs))
	calls := make([]int, len(cfgs))
	for i, cfg := range cfgs {
		ss[i] = newRScenario(cfg)
		ss[i].closeBound = bound
		calls[i] = ss[i].call("fetch")
	}
	for _, s := range ss {
		s.waitTok("lq", 2*time.Second)
	}
	time.Sleep(time.Duration(r.Intn(30)) * time.Millisecond)
	for _, s := range ss {
		s.closeBegin()
	}
	limit := time.After(bound)
	for _, s := range ss {
		select {
		case <-s.closed:
		case <-limit:
		}
	}
	var lines [][2]string
	for i, s := range ss {
		s.wait(calls[i], 200*time.Millisecond)
		op, impl := s.finish(base, t0)
		lines = append(lines, [2]string{op, impl})
	}
	return lines
}

func waitOr(ch chan struct{}) chan struct{} {
	out := make(chan struct{})
	go func() {
		select {
		case <-ch:
		case <-time.After(watchdog()):
		}
		close(out)
	}()
	return out
}

func readerPart(seed int64) {
	reps := 2
	if gen.Thorough() {
		reps = 12
	}
	n := 0
	for rep := 0; rep < reps; rep++ {
		for kind := 0; kind < 17; kind++ {
			n++
			if tooManyStuck() {
				return
			}
			if only("rclose", n) || only("ftrace", n) {
				kafka.VerifStart()
				curWatch = n%2 == 0
				curLongBackoff = n%2 == 1
				op, impl := readerScenario(kind, scRand(seed, 2, n))
				evs := kafka.VerifStop()
				emitSc(n, op, impl)
				if strings.Contains(impl, "close=ret") {
					fop, fimpl := fetcherTrace(evs)
					emitSc(n, fop, fimpl)
				}
			}
		}
	}
	// every coordinator request once against a coordinator that stops answering exactly there (kind 18)
	for _, step := range []string{"findCoordinator", "joinGroup", "syncGroup", "offsetFetch", "heartbeat", "leaveGroup"} {
		n++
		if tooManyStuck() {
			return
		}
		if only("rclose", n) || only("ftrace", n) {
			kafka.VerifStart()
			curWatch, curLongBackoff = false, false
			silentStep = step
			op, impl := readerScenario(18, scRand(seed, 2, n))
			kafka.VerifStop()
			emitSc(n, op, impl)
		}
	}
	// the deadline family waits for a 10 s deadline fixed in the library: once per quick run, twice per thorough run
	extra := 1
	if gen.Thorough() {
		extra = 2
	}
	for i := 0; i < extra; i++ {
		n++
		if tooManyStuck() {
			return
		}
		if only("rclose", n) || only("ftrace", n) {
			kafka.VerifStart()
			curWatch, curLongBackoff = false, false
			lines := deadlineFamily(scRand(seed, 2, n))
			evs := kafka.VerifStop()
			allRet := true
			for _, l := range lines {
				emitSc(n, l[0], l[1])
				if !strings.Contains(l[1], "close=ret") {
					allRet = false
				}
			}
			if allRet {
				fop, fimpl := fetcherTrace(evs)
				emitSc(n, fop, fimpl)
			}
		}
	}
}

// fetcherTrace converts the RL.* hook events of (*reader).run (placed by the reader builder) into the event alphabet of
// Model/FetcherLife.lean, one token per event, tagged with the fetcher: T<f>:<attempt> top, C<f> cancel, I<f>:<1|0> init,
// J<f> iter, R<f>:<class> read, O<f>:<1|0> offsets (after an out-of-range read only), M<f> msg, E<f> sendErr.
func fetcherTrace(evs []kafka.VerifEvent) (string, string) {
	// fetchers are told apart by the address of their *reader; the allocator may hand the address of a fetcher that has
	// exited to a later one (several generations in one scenario): a run that starts (RL.Top, attempt 0) at the address of
	// an exited fetcher is a new fetcher
	ids := map[string]int{}
	nids := 0
	exited := map[int]bool{}
	id := func(a string, fresh bool) int {
		if f, ok := ids[a]; !ok || (fresh && exited[f]) {
			nids++
			ids[a] = nids
		}
		return ids[a]
	}
	lastRead := map[int]string{}
	var toks []string
	for _, e := range evs {
		if !strings.HasPrefix(e.Kind, "RL.") || len(e.Args) == 0 {
			continue
		}
		f := id(e.Args[0], e.Kind == "RL.Top" && len(e.Args) > 2 && e.Args[2] == "0")
		switch e.Kind {
		case "RL.Top":
			toks = append(toks, fmt.Sprintf("T%d:%s", f, e.Args[2]))
			lastRead[f] = ""
		case "RL.Cancel":
			toks = append(toks, fmt.Sprintf("C%d", f))
			exited[f] = true
		case "RL.Init":
			ok := 0
			if e.Args[2] == "nil" {
				ok = 1
			}
			toks = append(toks, fmt.Sprintf("I%d:%d", f, ok))
		case "RL.Iter":
			toks = append(toks, fmt.Sprintf("J%d", f))
			lastRead[f] = ""
		case "RL.Read":
			cls := "close"
			switch e.Args[2] {
			case "nil", "eof", "kafka7":
				cls = "cont"
			case "noprogress", "kafka3", "kafka6", "other":
				cls = "close"
			case "unknowncodec":
				cls = "codec"
			case "kafka1":
				cls = "oor"
			case "canceled":
				cls = "canceled"
				exited[f] = true
			default: // another Kafka error: reported to the application, the loop goes on
				cls = "cont"
			}
			lastRead[f] = cls
			toks = append(toks, fmt.Sprintf("R%d:%s", f, cls))
		case "RL.Offsets":
			if lastRead[f] != "oor" {
				continue // readOffsets inside initialize
			}
			ok := 0
			if e.Args[2] == "nil" {
				ok = 1
			}
			lastRead[f] = ""
			toks = append(toks, fmt.Sprintf("O%d:%d", f, ok))
		case "RL.Msg":
			toks = append(toks, fmt.Sprintf("M%d", f))
		case "RL.SendErr":
			toks = append(toks, fmt.Sprintf("E%d", f))
		}
	}
	tr := "-"
	if len(toks) > 0 {
		tr = strings.Join(toks, ";")
	}
	return "ftrace n=" + strconv.Itoa(nids) + " " + tr, fmt.Sprintf("live=%d", nids-len(exited))
}
