package main

func readerPart(seed int64)    {}
func transportPart(seed int64) {}
