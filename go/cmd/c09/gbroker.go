package main

// A protocol-level broker over net.Pipe for the consumer-group paths: one in-process node that is bootstrap broker,
// group coordinator and partition leader.  It reads requests with the library's own protocol.ReadRequest and answers
// with protocol.WriteResponse (FindCoordinator, JoinGroup, SyncGroup, Heartbeat, LeaveGroup, OffsetFetch, OffsetCommit,
// Metadata, ApiVersions, ListOffsets, Fetch), so the ConsumerGroup's real `timeoutCoordinator` / `Conn` code runs:
// deadlines, real connections that must be closed.  Faults are placed with the same script as for the mock
// coordinator (rcfg.faultAt / faultNth / faultKind); two more kinds exist here: -1 closes the connection instead of
// answering, -2 never answers (the library's deadline has to end the call).

import (
	"bytes"
	"encoding/binary"
	"fmt"
	"io"
	"net"
	"sync"
	"sync/atomic"
	"time"

	"github.com/segmentio/kafka-go/protocol"
	"github.com/segmentio/kafka-go/protocol/apiversions"
	"github.com/segmentio/kafka-go/protocol/fetch"
	"github.com/segmentio/kafka-go/protocol/findcoordinator"
	"github.com/segmentio/kafka-go/protocol/heartbeat"
	"github.com/segmentio/kafka-go/protocol/joingroup"
	"github.com/segmentio/kafka-go/protocol/leavegroup"
	"github.com/segmentio/kafka-go/protocol/listoffsets"
	meta "github.com/segmentio/kafka-go/protocol/metadata"
	"github.com/segmentio/kafka-go/protocol/offsetcommit"
	"github.com/segmentio/kafka-go/protocol/offsetfetch"
	"github.com/segmentio/kafka-go/protocol/syncgroup"
)

type gbroker struct {
	s     *rscenario
	nconn int32
	mu    sync.Mutex
	joins int
	srv   []net.Conn
}

func (b *gbroker) dial() (net.Conn, int) {
	cli, srv := net.Pipe()
	id := int(atomic.AddInt32(&b.nconn, 1))
	b.mu.Lock()
	b.srv = append(b.srv, srv)
	b.mu.Unlock()
	go b.serve(srv)
	return cli, id
}

// assignment encodes a consumer-protocol member assignment: version, [topic, [partitions]], user data.
func assignment(topic string, parts ...int32) []byte {
	var w bytes.Buffer
	binary.Write(&w, binary.BigEndian, int16(1))
	binary.Write(&w, binary.BigEndian, int32(1))
	binary.Write(&w, binary.BigEndian, int16(len(topic)))
	w.WriteString(topic)
	binary.Write(&w, binary.BigEndian, int32(len(parts)))
	for _, p := range parts {
		binary.Write(&w, binary.BigEndian, p)
	}
	binary.Write(&w, binary.BigEndian, int32(-1))
	return w.Bytes()
}

func (b *gbroker) serve(c net.Conn) {
	defer c.Close()
	s := b.s
	for {
		ver, corr, _, msg, err := protocol.ReadRequest(c)
		if err != nil {
			return
		}
		method := ""
		member := "_"
		switch m := msg.(type) {
		case *findcoordinator.Request:
			method = "findCoordinator"
		case *joingroup.Request:
			method = "joinGroup"
			if m.MemberID != "" {
				member = m.MemberID
			}
		case *syncgroup.Request:
			method = "syncGroup"
		case *heartbeat.Request:
			method, member = "heartbeat", m.MemberID
		case *leavegroup.Request:
			method, member = "leaveGroup", m.MemberID
		case *offsetfetch.Request:
			method = "offsetFetch"
		case *offsetcommit.Request:
			method = "offsetCommit"
		}
		// journal the request with the tokens of the mock-coordinator path
		switch method {
		case "joinGroup":
			s.rec.add("gj/%s", member)
		case "syncGroup":
			s.rec.add("gs")
		case "offsetFetch":
			s.rec.add("go")
		case "heartbeat":
			s.rec.add("gh/%s", member)
		case "offsetCommit":
			s.rec.add("gc")
		case "leaveGroup":
			s.rec.add("gl/%s", member)
		}
		code := int16(0)
		if method != "" {
			if r, ok := s.fault(method); ok {
				_ = r
				tok := "gE"
				if method == "findCoordinator" {
					tok = "gF"
				}
				s.rec.add(tok)
				switch {
				case s.cfg.faultKind == -1:
					return // the connection breaks
				case s.cfg.faultKind == -2:
					io.Copy(io.Discard, c) // never answer: the library's deadline ends the call
					return
				default:
					code = int16(s.cfg.faultKind)
				}
			}
		}
		var res protocol.Message
		switch m := msg.(type) {
		case *apiversions.Request:
			r := &apiversions.Response{}
			for _, k := range []protocol.ApiKey{protocol.Fetch, protocol.ListOffsets, protocol.Metadata, protocol.OffsetCommit, protocol.OffsetFetch,
				protocol.FindCoordinator, protocol.JoinGroup, protocol.Heartbeat, protocol.LeaveGroup, protocol.SyncGroup, protocol.ApiVersions} {
				max := k.MaxVersion()
				if k == protocol.Fetch && max > 2 {
					max = 2
				}
				r.ApiKeys = append(r.ApiKeys, apiversions.ApiKeyResponse{ApiKey: int16(k), MinVersion: k.MinVersion(), MaxVersion: max})
			}
			res = r
		case *meta.Request:
			res = &meta.Response{ControllerID: 1,
				Brokers: []meta.ResponseBroker{{NodeID: 1, Host: "fake", Port: 9092}},
				Topics: []meta.ResponseTopic{{Name: "t", Partitions: []meta.ResponsePartition{{PartitionIndex: 0, LeaderID: 1,
					ReplicaNodes: []int32{1}, IsrNodes: []int32{1}}}}}}
		case *findcoordinator.Request:
			res = &findcoordinator.Response{ErrorCode: code, NodeID: 1, Host: "fake", Port: 9092}
		case *joingroup.Request:
			b.mu.Lock()
			b.joins++
			n := b.joins
			b.mu.Unlock()
			if code != 0 {
				res = &joingroup.Response{ErrorCode: code}
				break
			}
			id := fmt.Sprintf("m%d", n)
			s.rec.add("gJ/%s", id)
			var md []byte
			name := "range"
			if len(m.Protocols) > 0 {
				md, name = m.Protocols[0].Metadata, m.Protocols[0].Name
			}
			res = &joingroup.Response{GenerationID: int32(n), ProtocolName: name, LeaderID: id, MemberID: id,
				Members: []joingroup.ResponseMember{{MemberID: id, Metadata: md}}}
		case *syncgroup.Request:
			res = &syncgroup.Response{ErrorCode: code, Assignments: assignment("t", 0)}
		case *heartbeat.Request:
			res = &heartbeat.Response{ErrorCode: code}
		case *leavegroup.Request:
			res = &leavegroup.Response{ErrorCode: code}
		case *offsetfetch.Request:
			res = &offsetfetch.Response{Topics: []offsetfetch.ResponseTopic{{Name: "t",
				Partitions: []offsetfetch.ResponsePartition{{PartitionIndex: 0, CommittedOffset: -1, ErrorCode: code}}}}}
		case *offsetcommit.Request:
			r := &offsetcommit.Response{}
			for _, t := range m.Topics {
				rt := offsetcommit.ResponseTopic{Name: t.Name}
				for _, p := range t.Partitions {
					rt.Partitions = append(rt.Partitions, offsetcommit.ResponsePartition{PartitionIndex: p.PartitionIndex, ErrorCode: code})
				}
				r.Topics = append(r.Topics, rt)
			}
			res = r
		case *listoffsets.Request:
			res = &listoffsets.Response{Topics: []listoffsets.ResponseTopic{{Topic: "t",
				Partitions: []listoffsets.ResponsePartition{{Partition: 0, Timestamp: -1, Offset: 0}}}}}
		case *fetch.Request:
			s.rec.add("fq")
			time.Sleep(time.Duration(m.MaxWaitTime) * time.Millisecond / 2)
			res = &fetch.Response{Topics: []fetch.ResponseTopic{{Topic: "t",
				Partitions: []fetch.ResponsePartition{{Partition: 0, HighWatermark: 0}}}}}
		default:
			return
		}
		if err := protocol.WriteResponse(c, ver, corr, res); err != nil {
			return
		}
	}
}
