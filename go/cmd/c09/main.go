// Driver for property C09 (Close, cancellation, use-after-close): runs the real Writer / Reader / ConsumerGroup /
// Transport of /repo against in-process fakes that decide when every network call returns, steers and randomises
// interleavings of Close with in-flight calls, and prints one line per scenario:
//
//	"<op> <cfg> <observed events…>\t<implementation summary>"
//
// Only external observation is used (call results, whether/when calls return, the fakes' request journals, a
// goroutine and connection census) — no event hooks inside the library.
package main

import (
	"bufio"
	"fmt"
	"math/rand"
	"os"
	"runtime"
	"strings"
	"sync"
	"sync/atomic"
	"time"

	"kvharness/internal/gen"
)

var out = bufio.NewWriter(os.Stdout)

var lastEmit int64 // unix nanoseconds of the last emitted line

func emit(op string, impl string) {
	fmt.Fprintf(out, "%s\t%s\n", op, impl)
	out.Flush() // a panic inside a library goroutine kills the process: keep what was observed so far
	atomic.StoreInt64(&lastEmit, time.Now().UnixNano())
}

// selfWatchdog: every wait of the driver is meant to be bounded (seconds); should a scenario nevertheless produce
// nothing for a minute, dump all goroutines and die, so that the check reports the scenario (stderr carries its
// number and the stacks) instead of running into its own timeout with nothing to show.
func selfWatchdog() {
	atomic.StoreInt64(&lastEmit, time.Now().UnixNano())
	go func() {
		for {
			time.Sleep(time.Second)
			if time.Since(time.Unix(0, atomic.LoadInt64(&lastEmit))) > 60*time.Second {
				buf := make([]byte, 1<<20)
				fmt.Fprintf(os.Stderr, "driver c09: no progress for 60 s; goroutines:\n%s\n", buf[:runtime.Stack(buf, true)])
				out.Flush()
				os.Exit(3)
			}
		}
	}()
}

// emitSc tags the scenario number into the cfg token ("<op> <cfg>,sc=<n> …") so that a replay can re-run exactly it.
func emitSc(n int, op string, impl string) {
	f := strings.SplitN(op, " ", 3)
	if len(f) == 3 {
		op = fmt.Sprintf("%s %s,sc=%d %s", f[0], f[1], n, f[2])
	} else if len(f) == 2 {
		op = fmt.Sprintf("%s %s,sc=%d", f[0], f[1], n)
	}
	emit(op, impl)
}

// only: VERIF_C09_ONLY="<op>:<n>" restricts the run to one scenario (replay).
func only(op string, n int) bool {
	o := os.Getenv("VERIF_C09_ONLY")
	ok := o == "" || o == fmt.Sprintf("%s:%d", op, n)
	if ok {
		// a scenario that took long is worth a line of its own (diagnosis of slow runs)
		now := time.Now()
		if !lastMark.IsZero() && now.Sub(lastMark) > 5*time.Second && lastName != fmt.Sprintf("%s %d", op, n) {
			fmt.Fprintf(os.Stderr, "slow scenario %s: %.1fs\n", lastName, now.Sub(lastMark).Seconds())
		}
		if lastName != fmt.Sprintf("%s %d", op, n) {
			lastMark, lastName = now, fmt.Sprintf("%s %d", op, n)
		}
		// marker for the check: which scenario was running if the process dies (a panic in a library goroutine)
		fmt.Fprintf(os.Stderr, "scenario %s %d\n", op, n)
	}
	return ok
}

var (
	lastMark time.Time
	lastName string
)

// scRand: an independent PRNG per scenario (seed, part, scenario number).
func scRand(seed int64, part, n int) *rand.Rand {
	return rand.New(rand.NewSource(seed*1000003 + int64(part)*100003 + int64(n)))
}

// count: how many tokens equal to tok have been recorded
func (r *recorder) count(tok string) int {
	r.mu.Lock()
	defer r.mu.Unlock()
	n := 0
	for _, t := range r.toks {
		if t == tok {
			n++
		}
	}
	return n
}

// recorder: the observation of one scenario; order of tokens = order of rec.add calls (one lock).
type recorder struct {
	mu   sync.Mutex
	toks []string
}

func (r *recorder) add(format string, a ...interface{}) {
	s := fmt.Sprintf(format, a...)
	r.mu.Lock()
	r.toks = append(r.toks, s)
	r.mu.Unlock()
}

func (r *recorder) String() string {
	r.mu.Lock()
	defer r.mu.Unlock()
	return strings.Join(r.toks, " ")
}

// After the first scenario in which something stayed blocked the watchdog shrinks, and after a few such scenarios
// the remaining ones of the run are skipped: a change that hangs the code must cost seconds, not minutes.
var stuckScenarios int32

func noteStuck()         { atomic.AddInt32(&stuckScenarios, 1) }
func tooManyStuck() bool { return atomic.LoadInt32(&stuckScenarios) >= 3 }

// watchdog bound for "returns" observations: generous, never hit on a correct tree.
func watchdog() time.Duration {
	if atomic.LoadInt32(&stuckScenarios) > 0 {
		return 700 * time.Millisecond
	}
	if s := os.Getenv("VERIF_C09_WATCHDOG_MS"); s != "" {
		var ms int
		fmt.Sscanf(s, "%d", &ms)
		if ms > 0 {
			return time.Duration(ms) * time.Millisecond
		}
	}
	return 4 * time.Second
}

// libGoroutines counts goroutines that were started by kafka-go code (not by the harness) and are still alive.
func libGoroutines() int {
	buf := make([]byte, 1<<20)
	for {
		n := runtime.Stack(buf, true)
		if n < len(buf) {
			buf = buf[:n]
			break
		}
		buf = make([]byte, 2*len(buf))
	}
	cnt := 0
	for _, g := range strings.Split(string(buf), "\n\n") {
		if strings.Contains(g, "created by github.com/segmentio/kafka-go") {
			cnt++
		}
	}
	return cnt
}

// censusBound: how long the census waits for goroutines / connections to be gone.  It returns as soon as they are, so a
// healthy tree never pays for it; it is generous because the machine may be heavily loaded (the decision must not depend
// on scheduling luck) and shrinks once scenarios have leaked or hung (a broken tree must cost seconds, not minutes).
func censusBound() time.Duration {
	if atomic.LoadInt32(&stuckScenarios) > 0 {
		return 1500 * time.Millisecond
	}
	return 6 * time.Second
}

func censusSteps() int { return int(censusBound() / (2 * time.Millisecond)) }

// settle waits until the number of library goroutines is back to base (or the bound expires) and returns the excess.
func settle(base int, bound time.Duration) int {
	deadline := time.Now().Add(bound)
	for {
		n := libGoroutines() - base
		if n <= 0 {
			return 0
		}
		if time.Now().After(deadline) {
			noteStuck() // a leak: later scenarios use the short bounds, and after three the run stops
			return n
		}
		time.Sleep(2 * time.Millisecond)
	}
}

func main() {
	defer out.Flush()
	selfWatchdog()
	which := "all"
	if len(os.Args) > 1 {
		which = os.Args[1]
	}
	seed := gen.Seed()
	if which == "all" || which == "writer" {
		writerPart(seed)
	}
	if which == "all" || which == "reader" {
		readerPart(seed)
	}
	if which == "all" || which == "transport" {
		transportPart(seed)
	}
	if which == "all" || which == "wt" {
		wtPart(seed)
	}
	if which == "all" || which == "grun" {
		grunPart(seed)
	}
}
