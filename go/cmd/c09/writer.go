package main

import (
	"context"
	"errors"
	"fmt"
	"hash/fnv"
	"io"
	"math/rand"
	"net"
	"runtime"
	"sort"
	"strconv"
	"strings"
	"sync"
	"time"

	kafka "github.com/segmentio/kafka-go"
	"github.com/segmentio/kafka-go/protocol"
	meta "github.com/segmentio/kafka-go/protocol/metadata"
	"github.com/segmentio/kafka-go/protocol/produce"

	"kvharness/internal/gen"
)

type callKey struct{}

type wmsg struct{ id, key int }

// fakeRT is a message-level RoundTripper for a Writer: it answers metadata and produce requests from memory,
// can hold the metadata lookups of chosen calls until released, and answers produce attempts with planned outcomes.
type fakeRT struct {
	rec      *recorder
	nparts   int
	salt     uint64
	mu       sync.Mutex
	hold     map[int]chan struct{} // call → release channel for its metadata lookups
	arrived  map[int]chan struct{} // call → closed when its first metadata lookup arrived
	failMeta map[int]bool
	attempts map[string]int
	pOk      int // percent
	pTemp    int
}

func (f *fakeRT) arrivedCh(c int) chan struct{} {
	f.mu.Lock()
	defer f.mu.Unlock()
	ch := f.arrived[c]
	if ch == nil {
		ch = make(chan struct{})
		f.arrived[c] = ch
	}
	return ch
}

func (f *fakeRT) plan(ids string, attempt int) string {
	h := fnv.New64a()
	fmt.Fprintf(h, "%d/%s/%d", f.salt, ids, attempt)
	v := int(h.Sum64() % 100)
	switch {
	case v < f.pOk:
		return "ok"
	case v < f.pOk+f.pTemp:
		return "temp"
	}
	return "perm"
}

func (f *fakeRT) RoundTrip(ctx context.Context, addr net.Addr, req kafka.Request) (kafka.Response, error) {
	switch r := req.(type) {
	case *meta.Request:
		c, _ := ctx.Value(callKey{}).(int)
		f.rec.add("me/%d", c)
		ch := f.arrivedCh(c)
		f.mu.Lock()
		select {
		case <-ch:
		default:
			close(ch)
		}
		hold := f.hold[c]
		fail := f.failMeta[c]
		f.mu.Unlock()
		if hold != nil {
			select {
			case <-hold:
			case <-ctx.Done():
				return nil, ctx.Err()
			}
		}
		if err := ctx.Err(); err != nil {
			return nil, err
		}
		if fail {
			f.rec.add("mr/%d", c)
			return nil, errors.New("fake: metadata unavailable")
		}
		parts := make([]meta.ResponsePartition, f.nparts)
		for i := range parts {
			parts[i] = meta.ResponsePartition{PartitionIndex: int32(i), LeaderID: 1}
		}
		f.rec.add("mr/%d", c)
		return &meta.Response{
			Brokers: []meta.ResponseBroker{{NodeID: 1, Host: "fake", Port: 9092}},
			Topics:  []meta.ResponseTopic{{Name: r.TopicNames[0], Partitions: parts}},
		}, nil
	case *produce.Request:
		t := r.Topics[0]
		p := t.Partitions[0]
		var ids []string
		for {
			rc, err := p.RecordSet.Records.ReadRecord()
			if err != nil {
				break
			}
			v, _ := protocol.ReadAll(rc.Value)
			ids = append(ids, string(v))
		}
		key := strings.Join(ids, ",")
		f.mu.Lock()
		n := f.attempts[key]
		f.attempts[key] = n + 1
		f.mu.Unlock()
		o := f.plan(key, n)
		if n%2 == 1 {
			runtime.Gosched()
		}
		f.rec.add("pr/%s/%s", key, o)
		resp := &produce.Response{Topics: []produce.ResponseTopic{{Topic: t.Topic, Partitions: []produce.ResponsePartition{{Partition: p.Partition}}}}}
		switch o {
		case "temp":
			if n%2 == 0 {
				resp.Topics[0].Partitions[0].ErrorCode = int16(kafka.LeaderNotAvailable)
			} else {
				return nil, io.ErrUnexpectedEOF
			}
		case "perm":
			if n%2 == 0 {
				resp.Topics[0].Partitions[0].ErrorCode = int16(kafka.TopicAuthorizationFailed)
			} else {
				return nil, errors.New("fake: permanent failure")
			}
		}
		return resp, nil
	}
	return nil, fmt.Errorf("fake: unexpected request %T", req)
}

func classify(err error) string {
	var we kafka.WriteErrors
	switch {
	case err == nil:
		return "nil"
	case errors.Is(err, io.ErrClosedPipe):
		return "closed"
	case errors.As(err, &we):
		return "werr"
	case errors.Is(err, context.Canceled), errors.Is(err, context.DeadlineExceeded):
		return "ctx"
	}
	return "other"
}

type wcfg struct {
	ma, bs  int
	async   bool
	timeout time.Duration
	pOk     int
	pTemp   int
	nparts  int
}

// wscenario drives one Writer through a script.
type wscenario struct {
	cfg     wcfg
	rec     *recorder
	rt      *fakeRT
	w       *kafka.Writer
	nextC   int
	nextM   int
	cancels map[int]context.CancelFunc
	done    map[int]chan struct{}
	held    []int
	// afterNext, when set, runs in the goroutine of the next call right after its WriteMessages returned
	afterNext func()
	closed  chan struct{}
	closing bool
}

func newWScenario(cfg wcfg, salt uint64) *wscenario {
	rec := &recorder{}
	rt := &fakeRT{rec: rec, nparts: cfg.nparts, salt: salt, hold: map[int]chan struct{}{}, arrived: map[int]chan struct{}{},
		failMeta: map[int]bool{}, attempts: map[string]int{}, pOk: cfg.pOk, pTemp: cfg.pTemp}
	s := &wscenario{cfg: cfg, rec: rec, rt: rt, nextC: 1, nextM: 10, cancels: map[int]context.CancelFunc{}, done: map[int]chan struct{}{}}
	s.w = &kafka.Writer{
		Addr:            kafka.TCP("fake:9092"),
		Topic:           "t",
		Transport:       rt,
		MaxAttempts:     cfg.ma,
		BatchSize:       cfg.bs,
		BatchTimeout:    cfg.timeout,
		WriteBackoffMin: 200 * time.Microsecond,
		WriteBackoffMax: time.Millisecond,
		RequiredAcks:    kafka.RequireOne,
		Async:           cfg.async,
		Balancer: kafka.BalancerFunc(func(m kafka.Message, parts ...int) int {
			k, _ := strconv.Atoi(string(m.Key))
			return parts[k%len(parts)]
		}),
		Completion: func(msgs []kafka.Message, err error) {
			ids := make([]string, len(msgs))
			for i, m := range msgs {
				ids[i] = string(m.Value)
			}
			r := "ok"
			if err != nil {
				r = "err"
			}
			rec.add("co/%s/%s", strings.Join(ids, ","), r)
		},
	}
	return s
}

func (s *wscenario) begin(msgs []wmsg, hold, mayFail bool) int {
	c := s.nextC
	s.nextC++
	ctx, cancel := context.WithCancel(context.WithValue(context.Background(), callKey{}, c))
	s.cancels[c] = cancel
	d := make(chan struct{})
	s.done[c] = d
	s.rt.mu.Lock()
	if hold {
		s.rt.hold[c] = make(chan struct{})
	}
	if mayFail {
		s.rt.failMeta[c] = true
	}
	s.rt.mu.Unlock()
	if hold {
		s.held = append(s.held, c)
	}
	km := make([]kafka.Message, len(msgs))
	ps := make([]string, len(msgs))
	for i, m := range msgs {
		km[i] = kafka.Message{Key: []byte(strconv.Itoa(m.key)), Value: []byte(strconv.Itoa(m.id))}
		ps[i] = fmt.Sprintf("%d.%d", m.id, m.key)
	}
	pl := "-"
	if len(ps) > 0 {
		pl = strings.Join(ps, ",")
	}
	mf := 0
	if mayFail {
		mf = 1
	}
	s.rec.add("cb/%d/%d/%s", c, mf, pl)
	then := s.afterNext
	s.afterNext = nil
	go func() {
		defer close(d)
		err := s.w.WriteMessages(ctx, km...)
		s.rec.add("cr/%d/%s", c, classify(err))
		if then != nil {
			then()
		}
	}()
	return c
}

// waitDone waits for call c to return, at most the watchdog bound (a change that blocks a call must cost seconds).
func (s *wscenario) waitDone(c int) {
	select {
	case <-s.done[c]:
	case <-time.After(watchdog()):
		noteStuck()
	}
}

// waitEntered waits until call c's first metadata lookup arrived at the fake, or the call returned.
func (s *wscenario) waitEntered(c int) {
	select {
	case <-s.rt.arrivedCh(c):
	case <-s.done[c]:
	case <-time.After(watchdog()):
	}
}

func (s *wscenario) release(c int) {
	s.rt.mu.Lock()
	ch := s.rt.hold[c]
	delete(s.rt.hold, c)
	s.rt.mu.Unlock()
	if ch != nil {
		close(ch)
	}
	for i, h := range s.held {
		if h == c {
			s.held = append(s.held[:i], s.held[i+1:]...)
			break
		}
	}
}

func (s *wscenario) cancel(c int) {
	s.rec.add("cx/%d", c)
	s.cancels[c]()
}

func (s *wscenario) closeBegin() {
	if s.closing {
		return
	}
	s.closing = true
	s.closed = make(chan struct{})
	go func() {
		s.rec.add("xb")
		s.w.Close()
		s.rec.add("xr")
		close(s.closed)
	}()
}

// probeClosed issues empty WriteMessages calls until one is refused with io.ErrClosedPipe: from then on the
// writer is known to be marked closed (enter() reads the flag under the mutex Close's critical section holds).
func (s *wscenario) probeClosed() bool {
	// at most 14 probes, 50 µs apart at first, then doubling (≈ 0.4 s in all): the mark is set within microseconds of
	// Close's start; a writer that still accepts calls after that is not going to refuse them later
	pause := 50 * time.Microsecond
	for i := 0; i < 14; i++ {
		c := s.begin(nil, false, false)
		s.waitDone(c)
		s.rec.mu.Lock()
		last := ""
		for i := len(s.rec.toks) - 1; i >= 0; i-- {
			if strings.HasPrefix(s.rec.toks[i], fmt.Sprintf("cr/%d/", c)) {
				last = s.rec.toks[i]
				break
			}
		}
		s.rec.mu.Unlock()
		if strings.HasSuffix(last, "/closed") {
			return true
		}
		time.Sleep(pause)
		pause *= 2
	}
	return false
}

// finish: Close (if not yet called), release everything held, wait under the watchdog, census.
func (s *wscenario) finish(base int) (op string, impl string) {
	s.closeBegin()
	for len(s.held) > 0 {
		s.release(s.held[0])
	}
	deadline := time.Now().Add(watchdog())
	closeState := "ret"
	select {
	case <-s.closed:
	case <-time.After(time.Until(deadline)):
		closeState = "stuck"
		noteStuck()
	}
	var pending []int
	for c, d := range s.done {
		wait := time.Until(deadline)
		if wait < 100*time.Millisecond {
			wait = 100 * time.Millisecond
		}
		select {
		case <-d:
		case <-time.After(wait):
			pending = append(pending, c)
		}
	}
	sort.Ints(pending)
	leak := "-"
	if closeState == "ret" {
		// a second Close has nothing left to do: it returns (no panic, no wait)
		again := make(chan struct{})
		go func() { s.w.Close(); close(again) }()
		select {
		case <-again:
		case <-time.After(watchdog()):
			noteStuck()
			s.rec.add("to/0")
		}
		n := settle(base, censusBound())
		s.rec.add("lk/%d", n)
		leak = strconv.Itoa(n)
	}
	pe := "-"
	if len(pending) > 0 {
		ss := make([]string, len(pending))
		for i, c := range pending {
			ss[i] = strconv.Itoa(c)
		}
		pe = strings.Join(ss, ",")
	}
	as := 0
	if s.cfg.async {
		as = 1
	}
	op = fmt.Sprintf("wclose ma=%d,bs=%d,as=%d,fx=1 %s", s.cfg.ma, s.cfg.bs, as, s.rec.String())
	impl = fmt.Sprintf("close=%s pending=%s leak=%s", closeState, pe, leak)
	return
}

func (s *wscenario) msgs(r *rand.Rand, n int) []wmsg {
	ms := make([]wmsg, n)
	for i := range ms {
		ms[i] = wmsg{id: s.nextM, key: r.Intn(s.cfg.nparts)}
		s.nextM++
	}
	return ms
}

// steered schedules around the Close / enter / batchMessages window (D1) and friends.
func steered(kind int, r *rand.Rand, salt uint64) (string, string) {
	base := libGoroutines()
	cfg := wcfg{ma: 1 + r.Intn(3), bs: 1 + r.Intn(3), async: kind%2 == 1, timeout: time.Hour, pOk: 100, nparts: 2}
	if r.Intn(2) == 0 {
		cfg.timeout = time.Millisecond
	}
	if kind/2 == 4 {
		cfg.async = true
	}
	if kind/2 == 2 {
		// the call cancelled while it waits for its batch must have no other way out: no timer, batch never full
		cfg.timeout = time.Hour
		if cfg.bs < 2 {
			cfg.bs = 2
		}
	}
	s := newWScenario(cfg, salt)
	switch kind / 2 {
	case 0:
		// D1 window: a call is inside its metadata lookup (passed enter) while Close runs to its wait; only then
		// does the lookup return and the call reach batchMessages.
		c := s.begin(s.msgs(r, 1+r.Intn(3)), true, false)
		s.waitEntered(c)
		s.closeBegin()
		s.probeClosed()
		s.release(c)
	case 1:
		// the same with earlier traffic on the same partitions still queued / in flight, and a second late call
		c0 := s.begin(s.msgs(r, 1+r.Intn(3)), false, false)
		if !cfg.async && cfg.timeout < time.Hour {
			s.waitDone(c0)
		}
		c1 := s.begin(s.msgs(r, 1+r.Intn(2)), true, false)
		c2 := s.begin(s.msgs(r, 1+r.Intn(2)), true, false)
		s.waitEntered(c1)
		s.waitEntered(c2)
		s.closeBegin()
		s.probeClosed()
		s.release(c2)
		s.release(c1)
	case 2:
		// a blocked call is cancelled: inside the metadata lookup, and while waiting for its batch
		c1 := s.begin(s.msgs(r, 1), true, false)
		s.waitEntered(c1)
		s.cancel(c1)
		s.waitDone(c1)
		if !cfg.async {
			s2 := s.begin(s.msgs(r, 1), false, false)
			time.Sleep(time.Millisecond)
			s.cancel(s2)
			select {
			case <-s.done[s2]:
			case <-time.After(watchdog()):
				s.rec.add("to/%d", s2) // the cancelled call is still blocked
			}
		}
	case 4:
		// an asynchronous write and, from the same goroutine, Close — on a single P, so that none of the goroutines the
		// write spawned (partition writer, batch timer) has run when Close reaches its wait: the WaitGroup has to
		// account for them already
		old := runtime.GOMAXPROCS(1)
		s.closing = true
		s.closed = make(chan struct{})
		s.afterNext = func() {
			s.rec.add("xb")
			s.w.Close()
			s.rec.add("xr")
			close(s.closed)
		}
		c := s.begin(s.msgs(r, 1+r.Intn(2)), false, false)
		s.waitDone(c)
		runtime.GOMAXPROCS(old)
	case 3:
		// use after close
		c := s.begin(s.msgs(r, 2), false, false)
		_ = c
		s.closeBegin()
		<-waitOr(s.closed)
		c2 := s.begin(s.msgs(r, 1), false, false)
		s.waitDone(c2)
	}
	return s.finish(base)
}

func randomScenario(r *rand.Rand, salt uint64) (string, string) {
	base := libGoroutines()
	cfg := wcfg{ma: 1 + r.Intn(3), bs: 1 + r.Intn(3), async: r.Intn(10) < 3, timeout: time.Hour, pOk: 70, pTemp: 20, nparts: 2}
	if r.Intn(2) == 0 {
		cfg.timeout = time.Duration(1+r.Intn(3)) * time.Millisecond
	}
	s := newWScenario(cfg, salt)
	nops := 3 + r.Intn(6)
	if gen.Thorough() {
		nops += r.Intn(4)
	}
	var begun []int
	for i := 0; i < nops; i++ {
		switch v := r.Intn(100); {
		case v < 40:
			if len(begun) >= 4 {
				continue
			}
			hold := r.Intn(100) < 45
			c := s.begin(s.msgs(r, 1+r.Intn(2)), hold, r.Intn(100) < 10)
			begun = append(begun, c)
			if r.Intn(100) < 70 {
				s.waitEntered(c)
			}
		case v < 55:
			if len(s.held) > 0 {
				s.release(s.held[r.Intn(len(s.held))])
			}
		case v < 65:
			if len(begun) > 0 {
				s.cancel(begun[r.Intn(len(begun))])
			}
		case v < 80:
			if !s.closing {
				s.closeBegin()
			} else {
				s.probeClosed()
			}
		case v < 90:
			time.Sleep(time.Duration(r.Intn(2000)) * time.Microsecond)
		default:
			runtime.Gosched()
		}
	}
	return s.finish(base)
}

func writerPart(seed int64) {
	reps := 3
	nrand := 60
	if gen.Thorough() {
		reps, nrand = 12, 600
	}
	n := 0
	for rep := 0; rep < reps; rep++ {
		for kind := 0; kind < 10; kind++ {
			n++
			if tooManyStuck() {
				return
			}
			if only("wclose", n) || only("wtrace", n) {
				kafka.VerifStart()
				op, impl := steered(kind, scRand(seed, 1, n), uint64(seed)<<20+uint64(n))
				evs := kafka.VerifStop()
				emitSc(n, op, impl)
				emitWriterHooks(n, evs, impl)
			}
		}
	}
	for i := 0; i < nrand; i++ {
		n++
		if tooManyStuck() {
			return
		}
		if only("wclose", n) || only("wtrace", n) {
			kafka.VerifStart()
			op, impl := randomScenario(scRand(seed, 1, n), uint64(seed)<<20+uint64(n))
			evs := kafka.VerifStop()
			emitSc(n, op, impl)
			emitWriterHooks(n, evs, impl)
		}
	}
}

// emitWriterHooks renders the W.* PW.* Q.* B.* hook events of one Writer scenario (placed by the writer builder inside
// the critical sections they name) as a `wtrace` line: E<0|1> enter, L a call left (returned / empty / rejected before
// batching), P<pw>:<q> new partition writer with its queue, N<b> new batch, A<b> produce attempt, K<b> Completion
// callback, C<b> batch completed, G<q>:<b|nil> Get (nil = the sender goroutine exits), XB XM XR Close begin / marked /
// returned.  Only emitted when Close returned (a stuck Close is reported by the `wclose` line).
func emitWriterHooks(n int, evs []kafka.VerifEvent, impl string) {
	if !strings.Contains(impl, "close=ret") {
		return
	}
	// the hook recorder numbers objects by address; an address can be handed to a later object of the same type once the
	// earlier one is garbage: the creation event of an object (NewPW, NewBatch) therefore always opens a new identity
	ids := map[string]map[string]int{"p": {}, "q": {}, "b": {}}
	next := map[string]int{}
	idf := func(kind, raw string, fresh bool) int {
		m := ids[kind]
		if _, ok := m[raw]; !ok || fresh {
			next[kind]++
			m[raw] = next[kind]
		}
		return m[raw]
	}
	id := func(kind, raw string) int { return idf(kind, raw, false) }
	var toks []string
	for _, e := range evs {
		a := e.Args
		switch e.Kind {
		case "W.Enter":
			if a[1] == "true" {
				toks = append(toks, "E1")
			} else {
				toks = append(toks, "E0")
			}
		case "W.Empty", "W.Return":
			toks = append(toks, "L")
		case "W.Reject":
			if a[1] != "closed" { // the closed rejection is followed by W.Return
				toks = append(toks, "L")
			}
		case "W.NewPW":
			toks = append(toks, fmt.Sprintf("P%d:%d", idf("p", a[1], true), idf("q", a[2], true)))
		case "PW.NewBatch":
			toks = append(toks, fmt.Sprintf("N%d", idf("b", a[1], true)))
		case "PW.Attempt":
			toks = append(toks, fmt.Sprintf("A%d", id("b", a[1])))
		case "B.Completion":
			toks = append(toks, fmt.Sprintf("K%d", id("b", a[1])))
		case "B.Complete":
			toks = append(toks, fmt.Sprintf("C%d", id("b", a[1])))
		case "Q.Get":
			if a[1] == "nil" {
				toks = append(toks, fmt.Sprintf("G%d:nil", id("q", a[0])))
			}
		case "W.CloseBegin":
			toks = append(toks, "XB")
		case "W.CloseMarked":
			toks = append(toks, "XM")
		case "W.CloseReturn":
			toks = append(toks, "XR")
		}
	}
	tr := "-"
	if len(toks) > 0 {
		tr = strings.Join(toks, ";")
	}
	emitSc(n, "wtrace hk=1 "+tr, "ok")
}
