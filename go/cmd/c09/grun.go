package main

// ConsumerGroup.Close with *deterministic* trace acceptance: the hook events of consumergroup.go (CG.* G.*, placed by
// the group builder) and the mock coordinator's journal (M.Call/M.Ret) are recorded in one totally ordered log,
// converted to the event alphabet of Model/GroupRun.lean and replayed step by step (no search) by the oracle.
// `canon` is copied from go/cmd/c15/main.go (the C15 builder's canonicaliser) so that both properties read the hook
// trace the same way; added here: `cOpen:<n>` / `cClose:<n>` tokens for the coordinator connections (mock journal).

import (
	"context"
	"errors"
	"fmt"
	"math/rand"
	"strconv"
	"strings"
	"time"

	kafka "github.com/segmentio/kafka-go"

	"kvharness/internal/gen"
	gm "kvharness/internal/groupmock"
)

func boolTok(s string) string {
	if s == "true" {
		return "1"
	}
	return "0"
}

func canon(evs []kafka.VerifEvent, topics []string) (string, map[string]int) {
	genIdx := map[string]int{}
	ngen := 0
	connGen := map[string]int{} // connection id -> generation index
	lastJoinConn := ""
	accOf := map[string]string{} // "g/k" -> acc token
	pendingStart := ""
	counts := map[string]int{}
	var toks []string
	add := func(t string) { toks = append(toks, t); counts[strings.SplitN(t, ":", 2)[0]]++ }
	gi := func(id string) string {
		if i, ok := genIdx[id]; ok {
			return strconv.Itoa(i)
		}
		return "999"
	}
	topicIdx := func(t string) string {
		for i, x := range topics {
			if x == t {
				return strconv.Itoa(i)
			}
		}
		return "99"
	}
	for _, e := range evs {
		a := e.Args
		switch e.Kind {
		case "M.Call":
			conn, method := a[0], a[1]
			g, isGen := connGen[conn]
			switch method {
			case "heartbeat":
				if isGen {
					add(fmt.Sprintf("hbCall:%d:%s:%s", g, a[3], a[2]))
				}
			case "readPartitions":
				if isGen {
					add(fmt.Sprintf("watchCall:%d:%s", g, topicIdx(a[4])))
				}
			}
		case "M.Ret":
			conn, method, ec := a[0], a[1], a[2]
			g, isGen := connGen[conn]
			switch method {
			case "connect":
				add("connectRes:" + ec)
				if ec == "-" {
					add("cOpen:" + conn) // (C09) a coordinator connection now exists
				}
			case "findCoordinator":
				add("findRes:" + ec)
			case "joinGroup":
				if ec == "-" {
					lastJoinConn = conn
					add(fmt.Sprintf("joinOk:%s:%s:%s:%s", a[3], a[5], a[6], boolTok(a[7])))
				} else {
					add(fmt.Sprintf("joinErr:%s:%s", a[3], ec))
				}
			case "syncGroup":
				add(fmt.Sprintf("syncRes:%s:%s:%s", a[3], a[4], ec))
			case "offsetFetch":
				add("fetchRes:" + ec)
			case "leaveGroup":
				add(fmt.Sprintf("leaveRes:%s:%s", a[3], boolTok(strconv.FormatBool(ec == "-"))))
			case "heartbeat":
				if isGen {
					add(fmt.Sprintf("hbRet:%d:%s", g, ec))
				}
			case "readPartitions":
				if isGen {
					if ec == "-" {
						add(fmt.Sprintf("watchParts:%d:%s:%s", g, topicIdx(a[9]), a[8]))
					} else {
						add(fmt.Sprintf("watchErr:%d:%s:%s", g, topicIdx(a[9]), ec))
					}
				} else {
					add("partsRes:" + ec)
				}
			}
		case "M.Close":
			add("cClose:" + a[0]) // (C09) the library closed that connection
		case "G.New":
			genIdx[a[1]] = ngen // a counter, not len(genIdx): the address of an earlier generation may be reused
			ngen++
			connGen[lastJoinConn] = genIdx[a[1]]
			add(fmt.Sprintf("gNew:%s:%s:%s", gi(a[1]), a[2], gm.Mem(a[3])))
		case "H.Start":
			pendingStart = gi(a[0]) + "/" + a[1]
		case "G.Start":
			if pendingStart != "" && strings.HasPrefix(pendingStart, gi(a[0])+"/") {
				accOf[pendingStart] = boolTok(a[1])
				pendingStart = ""
			}
			add(fmt.Sprintf("gStart:%s:%s", gi(a[0]), boolTok(a[1])))
		case "G.FnExit":
			add(fmt.Sprintf("fnExit:%s:%s:%s", gi(a[0]), boolTok(a[1]), a[2]))
		case "G.Close":
			add(fmt.Sprintf("gClose:%s:%s:%s", gi(a[0]), boolTok(a[1]), a[2]))
		case "G.Closed":
			add("gClosed:" + gi(a[0]))
		case "G.HbExit":
			add("hbExit:" + gi(a[0]))
		case "G.WatchExit":
			add(fmt.Sprintf("watchExit:%s:%s", gi(a[0]), topicIdx(a[1])))
		case "CG.SawClose":
			add(fmt.Sprintf("sawClose:%s:%s", gi(a[1]), boolTok(strconv.FormatBool(a[2] == "running"))))
		case "CG.Handed":
			add("handed:" + gi(a[1]))
		case "CG.SawGenDone":
			add("sawGenDone:" + gi(a[1]))
		case "CG.NextGenRet":
			add(fmt.Sprintf("nextGenRet:%s:%s", gm.Mem(a[1]), gm.ClassOfHook(a[2])))
		case "CG.Leave":
			add("leave:" + gm.Mem(a[1]))
		case "CG.Err":
			add(fmt.Sprintf("errDeliver:%s:%s", gm.ClassOfHook(a[1]), boolTok(a[2])))
		case "CG.Backoff":
			add("backoff:" + map[string]string{"begin": "0", "end": "1", "closed": "2"}[a[1]])
		case "CG.RunExit":
			add("runExit")
		case "CG.CloseCall":
			if counts["closeCall"] == 0 { // Close is idempotent; the model has one close event
				add("closeCall")
			}
		case "CG.CloseRet":
			if counts["closeRet"] == 0 {
				add("closeRet")
			}
		case "H.NextCall":
			add("nextCall")
		case "H.NextRet":
			if a[0] == "gen" {
				add("nextRetGen:" + gi(a[1]))
			} else {
				add("nextRetErr:" + gm.ClassOfHook(a[1]))
			}
		case "H.FnCtx":
			add("uCtx:" + gi(a[0]))
		case "H.FnRet":
			add(fmt.Sprintf("uRet:%s:%s", gi(a[0]), accOf[gi(a[0])+"/"+a[1]]))
		}
	}
	return strings.Join(toks, ";"), counts
}

// grunScenario: ConsumerGroup used directly, at most one outstanding Next, Close at a random moment of the
// join / generation / error-delivery / back-off cycle, Next after Close.
func grunScenario(kind int, r *rand.Rand) (string, string) {
	base := libGoroutines()
	coord := []string{"ok", "joinerr", "rebalance", "slowjoin"}[kind%4]
	cfg := rcfg{mode: "cg", coord: coord}
	switch kind / 4 {
	case 1: // LeaveGroup rejected / dropped after a complete join, sync, offset fetch and generation
		cfg.faultAt, cfg.faultNth, cfg.faultKind = "leaveGroup", r.Intn(2), pickFault(r)
	case 2: // a fault at any other coordinator step
		cfg.faultAt, cfg.faultNth, cfg.faultKind = pickStep(r), r.Intn(3), pickFault(r)
	}
	s := &rscenario{cfg: cfg, rec: &recorder{}, nextC: 1, done: map[int]chan struct{}{}, cancel: map[int]context.CancelFunc{}}
	if coord == "slowjoin" {
		s.holdJoin = make(chan struct{})
	}
	mock := gm.New()
	mock.Auto = func(c kafka.VerifCoordCall) (kafka.VerifCoordReply, bool) { return s.coord(c), true }
	log := gm.NewLog()
	kafka.VerifGroupResetConnIDs()
	kafka.VerifStart()
	kafka.VerifSetSink(log.Sink)
	kafka.VerifSetGroupHandler(mock.Handle)
	cg, err := kafka.NewConsumerGroup(kafka.ConsumerGroupConfig{ID: "g", Brokers: []string{"fake:9092"}, Topics: []string{"t"},
		HeartbeatInterval: 10 * time.Millisecond, JoinGroupBackoff: 5 * time.Millisecond})
	if err != nil {
		panic(err)
	}
	status := []string{}
	type nres struct {
		g   *kafka.Generation
		err error
	}
	handed, errsSeen := 0, 0
	next := func(wait time.Duration) {
		kafka.VerifGroupEmit("H.NextCall")
		ch := make(chan nres, 1)
		go func() {
			g, err := cg.Next(context.Background())
			ch <- nres{g, err}
		}()
		select {
		case x := <-ch:
			switch {
			case x.err == nil:
				handed++
				if !log.WaitCount(gm.Kind("CG.Handed"), handed, 3*time.Second) {
					status = append(status, "stuck:no-handed-event")
				}
				kafka.VerifGroupEmit("H.NextRet", "gen", x.g)
			case errors.Is(x.err, kafka.ErrGroupClosed):
				kafka.VerifGroupEmit("H.NextRet", "err", "closed")
			default:
				errsSeen++
				if !log.WaitCount(func(e kafka.VerifEvent) bool { return e.Kind == "CG.Err" && e.Args[2] == "true" }, errsSeen, 3*time.Second) {
					status = append(status, "stuck:no-err-event")
				}
				kafka.VerifGroupEmit("H.NextRet", "err", kafka.VerifGroupErrClass(x.err))
			}
		case <-time.After(wait):
			status = append(status, "next-pending")
		}
	}
	nNext := r.Intn(3)
	if coord == "ok" && nNext > 1 {
		nNext = 1 // a second Next would wait for the end of a generation that nothing ends
	}
	for i := 0; i < nNext; i++ {
		if coord == "slowjoin" {
			break // the join is held: a Next would stay pending until Close
		}
		next(watchdog())
		time.Sleep(time.Duration(r.Intn(25)) * time.Millisecond)
	}
	time.Sleep(time.Duration(r.Intn(20)) * time.Millisecond)
	closed := make(chan struct{})
	go func() { cg.Close(); close(closed) }()
	if s.holdJoin != nil {
		time.Sleep(5 * time.Millisecond)
		s.releaseJoin()
	}
	select {
	case <-closed:
	case <-time.After(watchdog()):
		status = append(status, "close-stuck")
		noteStuck()
	}
	next(watchdog())
	log.Settle(20*time.Millisecond, 500*time.Millisecond)
	kafka.VerifSetSink(nil)
	kafka.VerifSetGroupHandler(nil)
	evs := kafka.VerifStop()
	tr, _ := canon(evs, []string{"t"})
	if n := settle(base, censusBound()); n != 0 {
		status = append(status, "leak:"+strconv.Itoa(n))
	}
	st := "ok"
	if len(status) > 0 {
		st = strings.Join(status, ",")
	}
	return fmt.Sprintf("grun nw=0 %s", tr), st
}

func grunPart(seed int64) {
	reps := 2
	if gen.Thorough() {
		reps = 8
	}
	n := 0
	for rep := 0; rep < reps; rep++ {
		for kind := 0; kind < 12; kind++ {
			n++
			if tooManyStuck() {
				return
			}
			if only("grun", n) {
				op, impl := grunScenario(kind, scRand(seed, 4, n))
				emitSc(n, op, impl)
			}
		}
	}
}
