package main

// Writer created with NewWriter: it owns a kafka.Transport (pool, metadata refresh goroutine, one goroutine per
// connection) that Writer.Close shuts down with CloseIdleConnections.  NewWriter's transport dials with net.Dialer, so
// the broker of this family listens on a loopback TCP port; it speaks the protocol with the library's own
// protocol.ReadRequest / protocol.WriteResponse and answers ApiVersions, Metadata and Produce.  Same observation
// tokens and the same oracle op as the fake-RoundTripper family (`wclose`): cb, pr, co, cx, cr, xb, xr, plus the
// broker-side connection census bo/<n> (accepted) bc/<n> (closed by the client), lk/<n>, oc/<n> taken after the
// scenario's timeouts (IdleConnTimeout 50 ms, metadata refresh every 30 ms).

import (
	"context"
	"fmt"
	"math/rand"
	"net"
	"strconv"
	"strings"
	"sync"
	"sync/atomic"
	"time"

	kafka "github.com/segmentio/kafka-go"
	"github.com/segmentio/kafka-go/protocol"
	"github.com/segmentio/kafka-go/protocol/apiversions"
	meta "github.com/segmentio/kafka-go/protocol/metadata"
	"github.com/segmentio/kafka-go/protocol/produce"

	"kvharness/internal/gen"
)

type pbroker struct {
	ln       net.Listener
	host     string
	port     int32
	rec      *recorder
	nparts   int
	open     int32
	nconn    int32
	metaWait func() time.Duration           // delay of every Metadata answer
	onProd   func(ids string, n int) string // outcome of the n-th attempt of a batch: ok | temp | perm | drop; may block
	mu       sync.Mutex
	attempts map[string]int
	conns    []net.Conn
}

func newPBroker(rec *recorder, nparts int) *pbroker {
	ln, err := net.Listen("tcp", "127.0.0.1:0")
	if err != nil {
		panic(err)
	}
	a := ln.Addr().(*net.TCPAddr)
	b := &pbroker{ln: ln, host: "127.0.0.1", port: int32(a.Port), rec: rec, nparts: nparts, attempts: map[string]int{}}
	go func() {
		for {
			c, err := ln.Accept()
			if err != nil {
				return
			}
			id := int(atomic.AddInt32(&b.nconn, 1))
			atomic.AddInt32(&b.open, 1)
			rec.add("bo/%d", id)
			b.mu.Lock()
			b.conns = append(b.conns, c)
			b.mu.Unlock()
			go b.serve(c, id)
		}
	}()
	return b
}

func (b *pbroker) addr() string { return net.JoinHostPort(b.host, strconv.Itoa(int(b.port))) }

func (b *pbroker) stop() {
	b.ln.Close()
	b.mu.Lock()
	for _, c := range b.conns {
		c.Close()
	}
	b.mu.Unlock()
}

func (b *pbroker) serve(c net.Conn, id int) {
	defer func() {
		c.Close()
		b.rec.add("bc/%d", id)
		atomic.AddInt32(&b.open, -1)
	}()
	for {
		ver, corr, _, msg, err := protocol.ReadRequest(c)
		if err != nil {
			return // the client closed the connection (or it broke)
		}
		var res protocol.Message
		switch m := msg.(type) {
		case *apiversions.Request:
			r := &apiversions.Response{}
			for _, k := range []protocol.ApiKey{protocol.Produce, protocol.Metadata, protocol.ApiVersions} {
				r.ApiKeys = append(r.ApiKeys, apiversions.ApiKeyResponse{ApiKey: int16(k), MinVersion: k.MinVersion(), MaxVersion: k.MaxVersion()})
			}
			res = r
		case *meta.Request:
			if b.metaWait != nil {
				time.Sleep(b.metaWait())
			}
			parts := make([]meta.ResponsePartition, b.nparts)
			for i := range parts {
				parts[i] = meta.ResponsePartition{PartitionIndex: int32(i), LeaderID: 1, ReplicaNodes: []int32{1}, IsrNodes: []int32{1}}
			}
			res = &meta.Response{ClusterID: "fake", ControllerID: 1,
				Brokers: []meta.ResponseBroker{{NodeID: 1, Host: b.host, Port: b.port}},
				Topics:  []meta.ResponseTopic{{Name: "t", Partitions: parts}}}
		case *produce.Request:
			t := m.Topics[0]
			p := t.Partitions[0]
			var ids []string
			for {
				rc, err := p.RecordSet.Records.ReadRecord()
				if err != nil {
					break
				}
				v, _ := protocol.ReadAll(rc.Value)
				ids = append(ids, string(v))
			}
			key := strings.Join(ids, ",")
			b.mu.Lock()
			n := b.attempts[key]
			b.attempts[key] = n + 1
			b.mu.Unlock()
			o := b.onProd(key, n)
			if o == "silent" {
				return
			}
			if o == "drop" {
				b.rec.add("pr/%s/temp", key) // the connection breaks: a transient network error for the Writer
				return
			}
			b.rec.add("pr/%s/%s", key, o)
			pr := produce.ResponsePartition{Partition: p.Partition}
			switch o {
			case "temp":
				pr.ErrorCode = int16(kafka.LeaderNotAvailable)
			case "perm":
				pr.ErrorCode = int16(kafka.TopicAuthorizationFailed)
			}
			res = &produce.Response{Topics: []produce.ResponseTopic{{Topic: t.Topic, Partitions: []produce.ResponsePartition{pr}}}}
		default:
			return
		}
		if err := protocol.WriteResponse(c, ver, corr, res); err != nil {
			return
		}
	}
}

// wtScenario: one Writer of NewWriter against the loopback broker.
func wtScenario(kind int, r *rand.Rand, salt uint64) (string, string) {
	base := libGoroutines()
	rec := &recorder{}
	br := newPBroker(rec, 2)
	defer br.stop()
	release := make(chan struct{})
	var relOnce sync.Once
	doRelease := func() { relOnce.Do(func() { close(release) }) }
	heldN := int32(0)
	cfgMa, cfgBs := 1+r.Intn(3), 1+r.Intn(2)
	pOk, pTemp := 100, 0
	if kind == 3 {
		pOk, pTemp = 50, 30
	}
	planner := &fakeRT{salt: salt, pOk: pOk, pTemp: pTemp}
	br.onProd = func(ids string, n int) string {
		if kind == 6 {
			// read and never answered: for the Writer a transient failure of the attempt (its timeout); journalled now,
			// the connection is dropped when the scenario ends
			rec.add("pr/%s/temp", ids)
			atomic.AddInt32(&heldN, 1)
			<-release
			return "silent"
		}
		if kind == 1 || kind == 4 {
			atomic.AddInt32(&heldN, 1)
			<-release
		}
		o := planner.plan(ids, n)
		if o == "temp" && n%2 == 1 {
			return "drop" // the connection breaks before the answer
		}
		return o
	}
	if kind == 2 || r.Intn(3) == 0 {
		br.metaWait = func() time.Duration { return time.Duration(5+rand.Intn(25)) * time.Millisecond }
	}
	rwTimeout := 2 * time.Second
	if kind == 6 {
		rwTimeout = 250 * time.Millisecond // the only thing that ends a produce request the broker never answers
	}
	w := kafka.NewWriter(kafka.WriterConfig{
		Brokers: []string{br.addr()}, Topic: "t", MaxAttempts: cfgMa, BatchSize: cfgBs, BatchTimeout: 2 * time.Millisecond,
		RequiredAcks: 1, IdleConnTimeout: 50 * time.Millisecond, RebalanceInterval: 30 * time.Millisecond,
		ReadTimeout: rwTimeout, WriteTimeout: rwTimeout,
		Balancer: kafka.BalancerFunc(func(m kafka.Message, parts ...int) int {
			k, _ := strconv.Atoi(string(m.Key))
			return parts[k%len(parts)]
		}),
	})
	w.WriteBackoffMin, w.WriteBackoffMax = 200*time.Microsecond, time.Millisecond
	w.Completion = func(msgs []kafka.Message, err error) {
		ids := make([]string, len(msgs))
		for i, m := range msgs {
			ids[i] = string(m.Value)
		}
		res := "ok"
		if err != nil {
			res = "err"
		}
		rec.add("co/%s/%s", strings.Join(ids, ","), res)
	}
	nextC, nextM := 1, 10
	done := map[int]chan struct{}{}
	cancels := map[int]context.CancelFunc{}
	begin := func(n int) int {
		c := nextC
		nextC++
		ctx, cancel := context.WithCancel(context.Background())
		cancels[c] = cancel
		d := make(chan struct{})
		done[c] = d
		km := make([]kafka.Message, n)
		ps := make([]string, n)
		for i := range km {
			key := r.Intn(2)
			km[i] = kafka.Message{Key: []byte(strconv.Itoa(key)), Value: []byte(strconv.Itoa(nextM))}
			ps[i] = fmt.Sprintf("%d.%d", nextM, key)
			nextM++
		}
		pl := "-"
		if n > 0 {
			pl = strings.Join(ps, ",")
		}
		rec.add("cb/%d/1/%s", c, pl) // mayFail: the pool's metadata discovery can fail (refresh deadline = RebalanceInterval)
		go func() {
			defer close(d)
			err := w.WriteMessages(ctx, km...)
			cl := classify(err)
			if cl == "ctx" && ctx.Err() == nil {
				cl = "other" // a deadline of the transport's own metadata discovery, not the caller's context
			}
			rec.add("cr/%d/%s", c, cl)
		}()
		return c
	}
	waitCall := func(c int) {
		select {
		case <-done[c]:
		case <-time.After(watchdog()):
		}
	}
	closed := make(chan struct{})
	closeBegin := func() {
		go func() {
			rec.add("xb")
			w.Close()
			rec.add("xr")
			close(closed)
		}()
	}
	switch kind {
	case 0, 3: // a few writes answered (3: with temporary / permanent failures and dropped connections), then Close
		for i, n := 0, 1+r.Intn(3); i < n; i++ {
			c := begin(1 + r.Intn(2))
			if r.Intn(2) == 0 {
				waitCall(c)
			}
		}
		time.Sleep(time.Duration(r.Intn(60)) * time.Millisecond)
		closeBegin()
	case 1: // produce held while Close runs; released afterwards
		begin(1 + r.Intn(2))
		for i := 0; i < 400 && atomic.LoadInt32(&heldN) == 0; i++ {
			time.Sleep(time.Millisecond)
		}
		closeBegin()
		time.Sleep(time.Duration(5+r.Intn(40)) * time.Millisecond)
		doRelease()
	case 2: // Close while the transport's periodic metadata refresh is (likely) in flight; broker answers it late
		c := begin(1)
		waitCall(c)
		time.Sleep(time.Duration(25+r.Intn(40)) * time.Millisecond)
		closeBegin()
	case 4: // a blocked call is cancelled while its produce is held; Close; release
		c := begin(1)
		for i := 0; i < 400 && atomic.LoadInt32(&heldN) == 0; i++ {
			time.Sleep(time.Millisecond)
		}
		rec.add("cx/%d", c)
		cancels[c]()
		waitCall(c)
		closeBegin()
		time.Sleep(time.Duration(5+r.Intn(20)) * time.Millisecond)
		doRelease()
	case 6: // the broker reads the produce request and never answers it; Close.  The attempts end through WriteTimeout /
		// ReadTimeout (250 ms here, ≤ 3 attempts), then the Completion runs and Close returns — well inside the watchdog
		begin(1 + r.Intn(2))
		for i := 0; i < 400 && atomic.LoadInt32(&heldN) == 0; i++ {
			time.Sleep(time.Millisecond)
		}
		closeBegin()
	case 5: // use after Close
		c := begin(1)
		waitCall(c)
		closeBegin()
		<-waitOr(closed)
		c2 := begin(1)
		waitCall(c2)
	}
	closeState := "ret"
	select {
	case <-closed:
	case <-time.After(watchdog()):
		closeState = "stuck"
		noteStuck()
	}
	doRelease()
	var pending []string
	for c, d := range done {
		select {
		case <-d:
		case <-time.After(300 * time.Millisecond):
			pending = append(pending, strconv.Itoa(c))
		}
	}
	leak := "-"
	if closeState == "ret" {
		// after Writer.Close: CloseIdleConnections ran; connections that were busy close when their request completes
		// (≤ the metadata answer delay) — all well inside this bound
		n := settle(base, censusBound())
		rec.add("lk/%d", n)
		oc := int(atomic.LoadInt32(&br.open))
		for i := 0; i < censusSteps() && oc != 0; i++ {
			time.Sleep(2 * time.Millisecond)
			oc = int(atomic.LoadInt32(&br.open))
		}
		if oc != 0 {
			noteStuck()
		}
		rec.add("oc/%d", oc)
		leak = strconv.Itoa(n)
		if oc != 0 {
			leak = leak + "+" + strconv.Itoa(oc) + "c"
		}
	}
	pe := "-"
	if len(pending) > 0 {
		pe = strings.Join(pending, ",")
	}
	op := fmt.Sprintf("wclose ma=%d,bs=%d,as=0,fx=1 %s", cfgMa, cfgBs, rec.String())
	return op, fmt.Sprintf("close=%s pending=%s leak=%s", closeState, pe, leak)
}

func wtPart(seed int64) {
	reps := 2
	if gen.Thorough() {
		reps = 10
	}
	n := 1000 // scenario numbers of this family start at 1001 (the op is `wclose` as well)
	for rep := 0; rep < reps; rep++ {
		for kind := 0; kind < 7; kind++ {
			n++
			if tooManyStuck() {
				return
			}
			if only("wclose", n) || only("wtrace", n) {
				kafka.VerifStart()
				op, impl := wtScenario(kind, scRand(seed, 5, n), uint64(seed)<<20+uint64(n))
				evs := kafka.VerifStop()
				emitSc(n, op, impl)
				emitWriterHooks(n, evs, impl)
			}
		}
	}
}
