package main

// newwriter.go — op `nw`: the third connection path.  kafka.NewWriter(WriterConfig{Dialer: d}) (deprecated but exported)
// converts the pre-0.4 Dialer into a Transport; it ignores d.DialFunc, so the journalling fake broker listens on
// 127.0.0.1 (loopback only).  One message is written through a Writer whose Dialer has a SASL mechanism and NO TLS;
// every connection the Writer's Transport opens is journalled as usual.
//
//	nw <case> <conn #> <journal> \t authenticated | unauthenticated | silent
//
// impl: what the journal shows — `authenticated`: a SaslHandshake follows ApiVersions before any other request.

import (
	"context"
	"fmt"
	"net"
	"strings"
	"sync"
	"time"

	kafka "github.com/segmentio/kafka-go"
	"github.com/segmentio/kafka-go/sasl/plain"
)

// where the fake broker's metadata says broker 1 lives (the listener of the case, when there is one)
var (
	advHost = "broker1"
	advPort = int32(9092)
)

func newWriterCases() {
	ln, err := net.Listen("tcp", "127.0.0.1:0")
	if err != nil {
		fmt.Fprintf(out, "nw sasl-without-tls 0 -\tsilent:listen:%s\n", strings.ReplaceAll(err.Error(), " ", "_"))
		return
	}
	defer ln.Close()
	tcp := ln.Addr().(*net.TCPAddr)
	advHost, advPort = "127.0.0.1", int32(tcp.Port)
	defer func() { advHost, advPort = "broker1", 9092 }()
	c := caseSpec{path: "transport", hs: &[2]int16{0, 1}, au: &[2]int16{0, 1}, mech: "plain", user: "alice", pass: "s3cret", srvUser: "alice", srvPass: "s3cret", mechFail: -1}
	var mu sync.Mutex
	var logs []*connLog
	go func() {
		for {
			conn, err := ln.Accept()
			if err != nil {
				return
			}
			lg := &connLog{done: make(chan struct{})}
			mu.Lock()
			logs = append(logs, lg)
			mu.Unlock()
			go serve(conn, c, lg)
		}
	}()
	w := kafka.NewWriter(kafka.WriterConfig{
		Brokers:      []string{ln.Addr().String()},
		Topic:        "t",
		Dialer:       &kafka.Dialer{SASLMechanism: plain.Mechanism{Username: "alice", Password: "s3cret"}, Timeout: 2 * time.Second, ClientID: "c18-nw"},
		BatchTimeout: 10 * time.Millisecond,
		MaxAttempts:  1,
	})
	ctx, cancel := context.WithTimeout(context.Background(), 3*time.Second)
	_ = w.WriteMessages(ctx, kafka.Message{Value: []byte("x")}) // the produce request itself is not served: only the set-up matters
	cancel()
	w.Close()
	time.Sleep(50 * time.Millisecond)
	mu.Lock()
	ls := append([]*connLog(nil), logs...)
	mu.Unlock()
	if len(ls) == 0 {
		fmt.Fprintf(out, "nw sasl-without-tls 0 -\tsilent\n")
		return
	}
	for i, lg := range ls {
		lg.mu.Lock()
		j := append([]string(nil), lg.journal...)
		lg.mu.Unlock()
		verdict := "silent"
		for k, it := range j {
			if strings.HasPrefix(it, "other:") {
				verdict = "unauthenticated"
				break
			}
			if strings.HasPrefix(it, "hs:") && k >= 1 {
				verdict = "authenticated"
				break
			}
		}
		js := strings.Join(j, ",")
		if js == "" || verdict == "silent" {
			continue // a connection on which the set-up did not get to its second request (closed early): nothing to judge
		}
		fmt.Fprintf(out, "nw sasl-without-tls %d %s\t%s\n", i, js, verdict)
	}
}
