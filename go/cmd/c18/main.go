// Driver for property C18: runs the REAL connection set-up of /repo (Dialer.DialContext and
// Transport.RoundTrip, built with -tags verif) against an in-process fake broker over net.Pipe and
// prints, per connection, one line
//
//	auth <path> <sasl> <env items>\t<journal>;<result>;<closed>
//
// env items (chronological, as they happened): what the broker answered (V/R/EOF/IOERR), what the
// configured sasl.Mechanism returned (MS/MN, recorded by a wrapper around the real mechanism) and the
// non-authentication requests that arrived (U).  journal: what the broker received, in order, with the
// marker A where the broker (its reference authentication server) gave its final positive answer.
// The oracle replays the env items through Model/Auth.lean and evaluates Spec's ordering monitor on the
// journal.  Further ops: `plain` (PLAIN token vs RFC 4616) and `creds` (exchange completes iff the
// credentials are right; SCRAM against xdg-go/scram's server side and an independent stdlib server).
package main

import (
	"bufio"
	"context"
	"encoding/hex"
	"errors"
	"fmt"
	"net"
	"os"
	"strings"
	"sync"
	"time"

	kafka "github.com/segmentio/kafka-go"
	"github.com/segmentio/kafka-go/protocol"
	"github.com/segmentio/kafka-go/protocol/apiversions"
	"github.com/segmentio/kafka-go/protocol/findcoordinator"
	"github.com/segmentio/kafka-go/protocol/listoffsets"
	"github.com/segmentio/kafka-go/protocol/metadata"
	"github.com/segmentio/kafka-go/protocol/saslauthenticate"
	"github.com/segmentio/kafka-go/protocol/saslhandshake"
	"github.com/segmentio/kafka-go/sasl"
	"github.com/segmentio/kafka-go/sasl/plain"
	"github.com/segmentio/kafka-go/sasl/scram"

	"kvharness/internal/gen"
	"kvharness/internal/muxfake"
)

var out = bufio.NewWriter(os.Stdout)

func hx(b []byte) string {
	if len(b) == 0 {
		return "-"
	}
	return hex.EncodeToString(b)
}

// ---------------------------------------------------------------- per-connection log

type connLog struct {
	mu      sync.Mutex
	env     []string
	journal []string
	closed  bool
	done    chan struct{}
}

func (l *connLog) addEnv(s string)     { l.mu.Lock(); l.env = append(l.env, s); l.mu.Unlock() }
func (l *connLog) addJournal(s string) { l.mu.Lock(); l.journal = append(l.journal, s); l.mu.Unlock() }
func (l *connLog) isClosed() bool      { l.mu.Lock(); defer l.mu.Unlock(); return l.closed }

// ---------------------------------------------------------------- case description

type caseSpec struct {
	path     string    // dialer | transport
	hs       *[2]int16 // advertised SaslHandshake (key 17) range, nil = not listed
	au       *[2]int16 // advertised SaslAuthenticate (key 36) range, nil = not listed (independent of hs)
	mech     string    // plain | scram256 | scram512 | steps
	user     string
	pass     string
	srvUser  string // what the reference server knows
	srvPass  string
	steps    int // rounds of the scripted mechanism
	mechFail int // -1 none, 0 = Start fails, i = Next #i fails (scripted mechanism only)
	failAt   string // "" | versions | handshake | auth<i>
	failKind string // code | eof | badid | trunc
	badCreds string // how the broker reports bad credentials: code | challenge
	refSrv   string // xdg | stdlib (SCRAM reference server)
	impostor bool   // stdlib SCRAM server that accepts any proof and forges the server signature
	wrongCreds bool // the credential table says the pair is wrong (after normalisation)
	addr     string // address to dial ("" = broker1:9092); a non-numeric port makes splitHostPortNumber fail
	codeVal  int16  // failKind "code": the error code the broker puts in its answer (0 = the usual 35 / 33 / 58); negative codes exist (-1 UNKNOWN_SERVER_ERROR)
	noLimit  bool   // Dialer only: no Timeout, no Deadline, and the caller's context has no deadline
	tlsFail  bool   // the peer answers the ClientHello with something that is not TLS: the dial must fail and close its socket
	tls      bool   // Dialer.TLS / Transport.TLS set: the fake broker sits behind TLS and notes what reaches its socket first
}

var errHung = errors.New("hung: the dial did not return within 2 s (its time limit was 400 ms)")

func (c caseSpec) code(dflt int16) int16 {
	if c.codeVal != 0 {
		return c.codeVal
	}
	return dflt
}

func (c caseSpec) address() string {
	if c.addr == "" {
		return "broker1:9092"
	}
	return c.addr
}

func (c caseSpec) String() string {
	hs := rangeStr(c.hs) + "/" + rangeStr(c.au)
	return fmt.Sprintf("%s hs=%s mech=%s fail=%s/%s mechfail=%d", c.path, hs, c.mech, c.failAt, c.failKind, c.mechFail)
}

// ---------------------------------------------------------------- mechanisms

// recMech wraps the real mechanism and records what it returns into the log of the connection that
// is currently being set up.
type recMech struct {
	inner sasl.Mechanism
	cur   func() *connLog
}

type recSess struct {
	inner sasl.StateMachine
	lg    *connLog
}

func (m recMech) Name() string { return m.inner.Name() }

func (m recMech) Start(ctx context.Context) (sasl.StateMachine, []byte, error) {
	lg := m.cur()
	sess, tok, err := m.inner.Start(ctx)
	if err != nil {
		lg.addEnv("MS:fail")
		return nil, nil, err
	}
	lg.addEnv("MS:" + hx(tok))
	return recSess{sess, lg}, tok, nil
}

func (s recSess) Next(ctx context.Context, challenge []byte) (bool, []byte, error) {
	done, tok, err := s.inner.Next(ctx, challenge)
	switch {
	case err != nil:
		s.lg.addEnv("MN:fail")
	case done:
		s.lg.addEnv("MN:1:" + hx(tok))
	default:
		s.lg.addEnv("MN:0:" + hx(tok))
	}
	return done, tok, err
}

// stepsMech is a harness-defined mechanism with n rounds; it can fail at Start or at the i-th Next.
type stepsMech struct {
	n, failAt int
}

type stepsSess struct {
	m *stepsMech
	i int
}

func (m *stepsMech) Name() string { return "X-STEPS" }
func (m *stepsMech) Start(ctx context.Context) (sasl.StateMachine, []byte, error) {
	if m.failAt == 0 {
		return nil, nil, errors.New("steps: start failed")
	}
	return &stepsSess{m: m}, []byte{0xa0}, nil
}
func (s *stepsSess) Next(ctx context.Context, challenge []byte) (bool, []byte, error) {
	s.i++
	if s.m.failAt == s.i {
		return false, nil, errors.New("steps: next failed")
	}
	if s.i >= s.m.n {
		return true, nil, nil
	}
	return false, []byte{0xa0 + byte(s.i), byte(len(challenge))}, nil
}

func buildMech(c caseSpec) (sasl.Mechanism, error) {
	switch c.mech {
	case "plain":
		return plain.Mechanism{Username: c.user, Password: c.pass}, nil
	case "scram256":
		return scram.Mechanism(scram.SHA256, c.user, c.pass)
	case "scram512":
		return scram.Mechanism(scram.SHA512, c.user, c.pass)
	default:
		return &stepsMech{n: c.steps, failAt: c.mechFail}, nil
	}
}

// ---------------------------------------------------------------- broker

var apiRanges = [][3]int16{{18, 0, 2}, {3, 1, 1}, {10, 0, 0}, {2, 1, 1}}

func be32c(v uint32) []byte { return []byte{byte(v >> 24), byte(v >> 16), byte(v >> 8), byte(v)} }

func rangeStr(r *[2]int16) string {
	if r == nil {
		return "none"
	}
	return fmt.Sprintf("%d_%d", r[0], r[1])
}

func serve(conn net.Conn, c caseSpec, lg *connLog) {
	defer close(lg.done)
	idleExit := false // the broker gave up on a silent client: says nothing about the client having closed
	defer func() {
		if !idleExit {
			lg.mu.Lock()
			lg.closed = true
			lg.mu.Unlock()
		}
	}()
	defer conn.Close()
	srv := newRefServer(c)
	raw, authDone := false, false
	round := 0

	// fail performs the scripted failure instead of the well-formed positive answer `good`.
	fail := func(good []byte, corrOffset int, framed bool) (stop bool) {
		switch c.failKind {
		case "eof":
			lg.addEnv("EOF")
			return true
		case "trunc":
			// a Kafka frame cut short followed by a close: the legacy Conn reader reports it as io.EOF exactly
			// like a close at a frame boundary; the protocol package and the raw readers report a short read
			if c.path == "dialer" && framed {
				lg.addEnv("EOF")
			} else {
				lg.addEnv("IOERR")
			}
			conn.Write(good[:len(good)/2+2])
			return true
		case "neglen":
			// a malformed answer: the length prefix of the frame is negative (raw exchange: the whole "frame" is
			// that prefix; framed: the size field of the response)
			lg.addEnv("IOERR")
			conn.Write([]byte{0xff, 0xff, 0xff, 0xff})
			return false
		case "silent":
			// the broker stops answering and keeps the connection open: the pending read of the client can only end by
			// the dial's own time limit.  Watch for 2.5 s whether the client closes its end.
			lg.addEnv("IOERR")
			conn.SetReadDeadline(time.Now().Add(2500 * time.Millisecond))
			buf := make([]byte, 4096)
			for {
				if _, err := conn.Read(buf); err != nil {
					var ne net.Error
					if errors.As(err, &ne) && ne.Timeout() {
						idleExit = true // the client never closed: `closed` stays false
					}
					break
				}
			}
			return true
		case "badid":
			lg.addEnv("IOERR")
			b := append([]byte(nil), good...)
			b[corrOffset+3] ^= 0x55
			conn.Write(b)
			return false
		}
		panic("fail kind")
	}

	token := func(tok []byte, framed bool, ver int16, corr int32) (stop bool) {
		round++
		reply := func(code int16, data []byte) []byte {
			if !framed {
				return muxfake.RawFrame(data)
			}
			b, err := muxfake.Encode(ver, corr, &saslauthenticate.Response{ErrorCode: code, AuthBytes: data})
			if err != nil {
				panic(err)
			}
			return b
		}
		if c.failAt == fmt.Sprintf("auth%d", round) {
			if c.failKind == "code" && framed {
				lg.addEnv(fmt.Sprintf("R:%d:-:0", c.code(58)))
				conn.Write(reply(c.code(58), nil))
				return false
			}
			if c.failKind == "neglen" && framed {
				// a 4-byte negative size is not even a complete frame header: for framed answers use the wrong-id frame
				lg.addEnv("IOERR")
				b := reply(0, []byte{1, 2, 3, 4, 5, 6})
				b[4+3] ^= 0x55
				conn.Write(b)
				return false
			}
			if c.failKind != "code" && !(c.failKind == "badid" && !framed) {
				return fail(reply(0, []byte{1, 2, 3, 4, 5, 6}), 4, framed)
			}
		}
		challenge, final, ok := srv.step(tok)
		if !ok {
			// bad credentials
			if c.badCreds == "challenge" && len(challenge) > 0 {
				lg.addEnv("R:0:" + hx(challenge) + ":0")
				conn.Write(reply(0, challenge))
				return false
			}
			if framed {
				lg.addEnv("R:58:-:0")
				conn.Write(reply(58, nil))
				return false
			}
			lg.addEnv("EOF")
			return true
		}
		if final {
			authDone = true
			lg.addJournal("A")
			lg.addEnv("R:0:" + hx(challenge) + ":1")
		} else {
			lg.addEnv("R:0:" + hx(challenge) + ":0")
		}
		conn.Write(reply(0, challenge))
		return false
	}

	for {
		// a peer that stops talking (e.g. waits for bytes that will never come): a broker gives up and closes
		conn.SetReadDeadline(time.Now().Add(1500 * time.Millisecond))
		frame, err := muxfake.ReadFrame(conn)
		if err != nil {
			var ne net.Error
			if errors.As(err, &ne) && ne.Timeout() {
				lg.addEnv("IDLE") // an EOF for the client, caused by the harness giving up on a silent peer (a hang, or a very slow machine)
				idleExit = true
			}
			return
		}
		if raw && !authDone {
			lg.addJournal("raw:" + hx(frame))
			if token(frame, false, 0, 0) {
				return
			}
			continue
		}
		h, err := muxfake.ParseHeader(frame)
		if err != nil {
			// not a Kafka request at all (e.g. a bare token where a framed request is due): a real broker
			// rejects it as an invalid request and closes
			lg.addJournal("other:65535")
			lg.addEnv("U:65535")
			return
		}
		switch h.Key {
		case 18:
			lg.addJournal("av")
			res := &apiversions.Response{}
			for _, r := range apiRanges {
				res.ApiKeys = append(res.ApiKeys, apiversions.ApiKeyResponse{ApiKey: r[0], MinVersion: r[1], MaxVersion: r[2]})
			}
			if c.hs != nil {
				res.ApiKeys = append(res.ApiKeys, apiversions.ApiKeyResponse{ApiKey: 17, MinVersion: c.hs[0], MaxVersion: c.hs[1]})
			}
			if c.au != nil {
				res.ApiKeys = append(res.ApiKeys, apiversions.ApiKeyResponse{ApiKey: 36, MinVersion: c.au[0], MaxVersion: c.au[1]})
			}
			hs := rangeStr(c.hs) + ":" + rangeStr(c.au)
			if c.failAt == "versions" && c.failKind == "code" {
				res.ErrorCode = c.code(35)
				lg.addEnv(fmt.Sprintf("V:%d:%s", res.ErrorCode, hs))
			}
			b, err := muxfake.Encode(0, h.Corr, res)
			if err != nil {
				panic(err)
			}
			if c.failAt == "versions" && c.failKind == "negcount" {
				// a malformed ApiVersions answer: the array of api keys announces a negative number of entries
				lg.addEnv("IOERR")
				body := append(be32c(uint32(h.Corr)), 0, 0, 0xff, 0xff, 0xff, 0xfe) // -2: -1 would be a null array, which is well formed
				conn.Write(append(be32c(uint32(len(body))), body...))
				continue
			}
			if c.failAt == "versions" && c.failKind != "code" {
				if fail(b, 4, true) {
					return
				}
				continue
			}
			if res.ErrorCode == 0 {
				lg.addEnv("V:0:" + hs)
			}
			conn.Write(b)
		case 17:
			lg.addJournal(fmt.Sprintf("hs:%d", h.Ver))
			code := int16(0)
			if c.failAt == "handshake" && c.failKind == "code" {
				code = c.code(33)
			}
			b, err := muxfake.Encode(h.Ver, h.Corr, &saslhandshake.Response{ErrorCode: code, Mechanisms: []string{"PLAIN", "SCRAM-SHA-256", "SCRAM-SHA-512"}})
			if err != nil {
				panic(err)
			}
			if c.failAt == "handshake" && c.failKind != "code" {
				if fail(b, 4, true) {
					return
				}
				continue
			}
			lg.addEnv(fmt.Sprintf("R:%d:-:0", code))
			raw = h.Ver == 0
			conn.Write(b)
		case 36:
			msg, err := muxfake.Decode(frame)
			if err != nil {
				lg.addJournal("other:65535")
				lg.addEnv("U:65535")
				return
			}
			tok := msg.(*saslauthenticate.Request).AuthBytes
			lg.addJournal(fmt.Sprintf("auth:%d:%s", h.Ver, hx(tok)))
			if token(tok, true, h.Ver, h.Corr) {
				return
			}
		default:
			lg.addJournal(fmt.Sprintf("other:%d", uint16(h.Key)))
			lg.addEnv(fmt.Sprintf("U:%d", uint16(h.Key)))
			var res protocol.Message
			switch h.Key {
			case 3:
				res = &metadata.Response{
					Brokers:      []metadata.ResponseBroker{{NodeID: 1, Host: advHost, Port: advPort}},
					ControllerID: 1,
					Topics: []metadata.ResponseTopic{{Name: "t", Partitions: []metadata.ResponsePartition{
						{PartitionIndex: 0, LeaderID: 1, ReplicaNodes: []int32{1}, IsrNodes: []int32{1}}}}},
				}
			case 10:
				res = &findcoordinator.Response{NodeID: 1, Host: "broker1", Port: 9092}
			case 2:
				res = &listoffsets.Response{Topics: []listoffsets.ResponseTopic{{Topic: "t",
					Partitions: []listoffsets.ResponsePartition{{Partition: 0, Timestamp: -1, Offset: 42}}}}}
			default:
				return
			}
			b, err := muxfake.Encode(h.Ver, h.Corr, res)
			if err != nil {
				panic(err)
			}
			conn.Write(b)
		}
	}
}

// ---------------------------------------------------------------- running one case

func errClass(err error) string {
	if err == nil {
		return "ok"
	}
	if strings.HasPrefix(err.Error(), "panic: ") {
		return "panic"
	}
	if errors.Is(err, errHung) {
		return "hung"
	}
	var ke kafka.Error
	if errors.As(err, &ke) {
		return fmt.Sprintf("err:kafka:%d", int(ke))
	}
	return "err:other"
}

type caseResult struct {
	logs    []*connLog
	results []string // per connection
	closed  []bool
	final   string // class of the last call
}

func runCase(c caseSpec) (res caseResult, skip string) {
	var inner sasl.Mechanism
	if c.mech != "none" {
		m, err := buildMech(c)
		if err != nil {
			return res, "mechanism-rejected-credentials"
		}
		inner = m
	}
	var mu sync.Mutex
	var cur *connLog
	dial := func(ctx context.Context, network, address string) (net.Conn, error) {
		cl, sv := net.Pipe()
		lg := &connLog{done: make(chan struct{})}
		mu.Lock()
		res.logs = append(res.logs, lg)
		cur = lg
		mu.Unlock()
		if c.tls {
			go serveTLS(sv, c, lg)
		} else {
			go serve(sv, c, lg)
		}
		return cl, nil
	}
	var mech sasl.Mechanism
	if inner != nil {
		mech = recMech{inner: inner, cur: func() *connLog { mu.Lock(); defer mu.Unlock(); return cur }}
	}
	ctx, cancel := context.WithTimeout(context.Background(), 20*time.Second)
	defer cancel()
	if c.noLimit {
		// no time limit anywhere: Dialer.Timeout 0, Dialer.Deadline zero, a context that can only be cancelled.  (A dial
		// that hangs is ended by the fake broker, which gives up on a silent client after 1.5 s.)
		var cancel3 context.CancelFunc
		ctx, cancel3 = context.WithCancel(context.Background())
		defer cancel3()
	}

	settle := func(lg *connLog, failed bool) bool {
		if failed {
			// a failed dial closes its connection before it returns: the broker's read ends at once
			select {
			case <-lg.done:
			case <-time.After(1200 * time.Millisecond):
			}
		}
		return lg.isClosed()
	}

	if c.path == "dialer" {
		d := &kafka.Dialer{DialFunc: dial, SASLMechanism: mech, ClientID: "c18"}
		if c.failKind == "silent" {
			d.Timeout = 400 * time.Millisecond
		}
		if c.tls {
			d.TLS = clientTLS()
		}
		var conn *kafka.Conn
		var err error
		func() {
			// a malformed answer must make the dial FAIL, not crash the caller
			defer func() {
				if p := recover(); p != nil {
					err = fmt.Errorf("panic: %v", p)
				}
			}()
			if c.failKind != "silent" {
				conn, err = d.DialContext(ctx, "tcp", c.address())
				return
			}
			// the dial has 400 ms (Dialer.Timeout); it gets 2 s before the harness calls it hung
			type dialRes struct {
				conn *kafka.Conn
				err  error
			}
			ch := make(chan dialRes, 1)
			go func() {
				cn, e := d.DialContext(ctx, "tcp", c.address())
				ch <- dialRes{cn, e}
			}()
			select {
			case r := <-ch:
				conn, err = r.conn, r.err
			case <-time.After(2 * time.Second):
				err = errHung
			}
		}()
		res.final = errClass(err)
		if err == nil {
			conn.SetDeadline(time.Now().Add(10 * time.Second))
			if _, uerr := conn.Brokers(); uerr != nil {
				res.final = "use-failed:" + uerr.Error()
			}
		}
		mu.Lock()
		logs := append([]*connLog(nil), res.logs...)
		mu.Unlock()
		for _, lg := range logs {
			res.results = append(res.results, errClass(err))
			res.closed = append(res.closed, settle(lg, err != nil))
		}
		if conn != nil {
			conn.Close()
		}
		return res, ""
	}

	tr := &kafka.Transport{Dial: dial, SASL: mech, MetadataTTL: 24 * time.Hour, ClientID: "c18"}
	if c.failKind == "silent" {
		tr.DialTimeout = 400 * time.Millisecond
		var cancel2 context.CancelFunc
		ctx, cancel2 = context.WithTimeout(ctx, 1200*time.Millisecond)
		defer cancel2()
	}
	if c.tls {
		tr.TLS = clientTLS()
	}
	addr := kafka.TCP(c.address())
	_, err := tr.RoundTrip(ctx, addr, &findcoordinator.Request{Key: "g"})
	res.final = errClass(err)
	if err == nil {
		r, err2 := tr.RoundTrip(ctx, addr, &listoffsets.Request{Topics: []listoffsets.RequestTopic{{Topic: "t",
			Partitions: []listoffsets.RequestPartition{{Partition: 0, Timestamp: -1}}}}})
		if err2 != nil {
			res.final = "use-failed:" + err2.Error()
		} else if lr := r.(*listoffsets.Response); len(lr.Topics) != 1 || lr.Topics[0].Partitions[0].Offset != 42 {
			res.final = "use-failed:unexpected listoffsets response"
		}
	}
	mu.Lock()
	logs := append([]*connLog(nil), res.logs...)
	mu.Unlock()
	for _, lg := range logs {
		res.results = append(res.results, errClass(err))
		res.closed = append(res.closed, settle(lg, err != nil))
	}
	tr.CloseIdleConnections()
	return res, ""
}

func emitCase(c caseSpec, res caseResult) {
	sasl := 1
	if c.mech == "none" {
		sasl = 0
	}
	for i, lg := range res.logs {
		select {
		case <-lg.done:
		case <-time.After(300 * time.Millisecond):
		}
		lg.mu.Lock()
		env, journal := strings.Join(lg.env, ","), strings.Join(lg.journal, ",")
		lg.mu.Unlock()
		if env == "" {
			env = "-"
		}
		if journal == "" {
			journal = "-"
		}
		cl := 0
		if res.closed[i] {
			cl = 1
		}
		path := c.path
		if c.noLimit {
			path += "~nolimit"
		}
		if c.tls {
			path += "+tls"
		}
		if c.tlsFail {
			path += "+nohs"
		}
		if c.addr != "" {
			path += "!addr"
		}
		// what the property demands of the outcome: right credentials and no failure placed anywhere ⇒ the dial succeeds
		expect := "any"
		if c.failAt == "" && c.mechFail < 0 && c.addr == "" && c.user == c.srvUser && c.pass == c.srvPass && !(c.hs != nil && c.hs[1] < 0 && c.path == "dialer") && !c.wrongCreds {
			expect = "ok"
		}
		if c.tlsFail {
			expect = "err" // no TLS on the other side: the dial must fail
		}
		if c.impostor && c.failAt == "" && c.mechFail < 0 && c.addr == "" {
			// mutual authentication: a forged server signature must make the dial fail
			expect = "err"
		}
		fmt.Fprintf(out, "auth %s %d %s %s\t%s;%s;%d\n", path, sasl, env, expect, journal, res.results[i], cl)
	}
}

func main() {
	defer out.Flush()
	r := gen.New()
	thorough := gen.Thorough()
	_ = r
	// the broker advertises SaslHandshake and SaslAuthenticate ranges INDEPENDENTLY (Kafka 0.10: handshake 0..0 and
	// no SaslAuthenticate; Kafka 1.0/1.1: handshake 0..1, SaslAuthenticate 0..0; 2.x: 0..1 and 0..1/0..2)
	type adv struct{ hs, au *[2]int16 }
	var advs []adv
	for _, hs := range []*[2]int16{nil, {0, 0}, {0, 1}} {
		for _, au := range []*[2]int16{nil, {0, 0}, {0, 1}, {0, 2}} {
			advs = append(advs, adv{hs, au})
		}
	}
	advs = append(advs, adv{&[2]int16{1, 1}, &[2]int16{0, 1}}, adv{&[2]int16{0, 5}, &[2]int16{1, 1}}, adv{&[2]int16{0, -1}, &[2]int16{0, 1}})
	hsChoices := []*[2]int16{{0, 1}, {0, 0}}
	var cases []caseSpec
	for _, path := range []string{"dialer", "transport"} {
		for _, a := range advs {
			hs, au := a.hs, a.au
			// successful exchanges
			for _, m := range []string{"plain", "scram256", "scram512", "steps"} {
				cases = append(cases, caseSpec{path: path, hs: hs, au: au, mech: m, user: "alice", pass: "s3cret", srvUser: "alice", srvPass: "s3cret",
					steps: 1 + r.Intn(4), mechFail: -1, refSrv: "xdg"})
			}
			// a broker that claims success without knowing the password (forged `v=`): SCRAM clients must refuse
			if hs != nil && hs[0] == 0 && hs[1] >= 0 {
				for _, m := range []string{"scram256", "scram512"} {
					cases = append(cases, caseSpec{path: path, hs: hs, au: au, mech: m, user: "alice", pass: "s3cret", srvUser: "alice", srvPass: "s3cret",
						mechFail: -1, refSrv: "stdlib", impostor: true})
				}
			}
			// failure at every step
			for _, at := range []string{"versions", "handshake", "auth1", "auth2", "auth3"} {
				for _, kind := range []string{"code", "eof", "badid", "trunc", "neglen"} {
					if kind == "neglen" && !strings.HasPrefix(at, "auth") {
						// the protocol package (Transport path) reads every negative array length as a null array — codec policy,
						// not an authentication failure — so the malformed count is placed on the Dialer path only
						kind = "negcount"
						if at != "versions" || path != "dialer" {
							continue
						}
					}
					m := []string{"plain", "scram256", "steps"}[r.Intn(3)]
					if at == "auth2" && m == "plain" {
						m = "scram512"
					}
					if at == "auth3" {
						m = "steps"
					}
					cases = append(cases, caseSpec{path: path, hs: hs, au: au, mech: m, user: "bob", pass: "pw", srvUser: "bob", srvPass: "pw",
						steps: 3 + r.Intn(2), mechFail: -1, failAt: at, failKind: kind, refSrv: "xdg"})
				}
			}
			// mechanism failures
			for f := 0; f <= 3; f++ {
				cases = append(cases, caseSpec{path: path, hs: hs, au: au, mech: "steps", steps: 3, mechFail: f})
			}
		}
	}
	// no SASL configured (the model's other start state): Dialer writes nothing, Transport only ApiVersions
	cases = append(cases, caseSpec{path: "dialer", hs: hsChoices[0], au: hsChoices[0], mech: "none", mechFail: -1},
		caseSpec{path: "transport", hs: hsChoices[0], au: hsChoices[0], mech: "none", mechFail: -1},
		caseSpec{path: "transport", hs: hsChoices[0], au: hsChoices[0], mech: "none", mechFail: -1, failAt: "versions", failKind: "code"})
	// the dialled address has a port that is not a number: host/port for sasl.Metadata cannot be computed
	for _, a := range []string{"broker1:kafka", "broker1:"} {
		for _, path := range []string{"dialer", "transport"} {
			cases = append(cases, caseSpec{path: path, hs: hsChoices[0], au: hsChoices[0], mech: "plain", user: "u", pass: "p", srvUser: "u", srvPass: "p", mechFail: -1, addr: a})
		}
	}
	// a broker that falls silent in the middle of the set-up and keeps the connection open: the dial must end by its
	// own time limit (Dialer.Timeout / Transport.DialTimeout = 400 ms), with an error and the connection closed
	for _, path := range []string{"dialer", "transport"} {
		for _, hs := range hsChoices {
			for _, at := range []string{"versions", "handshake", "auth1", "auth2"} {
				m := "plain"
				if at == "auth2" {
					m = "scram256"
				}
				cases = append(cases, caseSpec{path: path, hs: hs, au: hsChoices[0], mech: m, user: "bob", pass: "pw", srvUser: "bob", srvPass: "pw",
					mechFail: -1, failAt: at, failKind: "silent", refSrv: "xdg"})
			}
		}
	}
	// error codes are signed: -1 UNKNOWN_SERVER_ERROR (e.g. the broker's credential back-end threw) at every step of the
	// set-up, and a few other values; an answer that carries ANY non-zero code is a refusal
	for _, path := range []string{"dialer", "transport"} {
		for _, hs := range hsChoices {
			for _, at := range []string{"versions", "handshake", "auth1", "auth2"} {
				for _, cv := range []int16{-1, -32768, 1, 32767} {
					m := "plain"
					if at == "auth2" {
						m = "steps"
					}
					cases = append(cases, caseSpec{path: path, hs: hs, au: hsChoices[0], mech: m, user: "bob", pass: "pw", srvUser: "bob", srvPass: "pw",
						steps: 3, mechFail: -1, failAt: at, failKind: "code", codeVal: cv, refSrv: "xdg"})
				}
			}
		}
	}
	// behind TLS (Dialer.TLS / Transport.TLS): the broker notes what reaches its raw socket first
	for _, path := range []string{"dialer", "transport"} {
		for _, hs := range hsChoices {
			for _, m := range []string{"plain", "scram256", "steps"} {
				cases = append(cases, caseSpec{path: path, hs: hs, au: hsChoices[0], mech: m, user: "alice", pass: "s3cret", srvUser: "alice", srvPass: "s3cret",
					steps: 2, mechFail: -1, refSrv: "xdg", tls: true})
			}
			cases = append(cases,
				caseSpec{path: path, hs: hs, au: hsChoices[0], mech: "plain", user: "alice", pass: "wrong", srvUser: "alice", srvPass: "s3cret", mechFail: -1, badCreds: "code", wrongCreds: true, tls: true},
				caseSpec{path: path, hs: hs, au: hsChoices[0], mech: "plain", user: "bob", pass: "pw", srvUser: "bob", srvPass: "pw", mechFail: -1, failAt: "handshake", failKind: "code", tls: true},
				caseSpec{path: path, hs: hs, au: hsChoices[0], mech: "steps", steps: 3, mechFail: 0, tls: true})
		}
		cases = append(cases, caseSpec{path: path, hs: hsChoices[0], au: hsChoices[0], mech: "plain", user: "u", pass: "p", srvUser: "u", srvPass: "p", mechFail: -1, tls: true, tlsFail: true},
			caseSpec{path: path, hs: hsChoices[0], au: hsChoices[0], mech: "none", mechFail: -1, tls: true, tlsFail: true})
		cases = append(cases, caseSpec{path: path, hs: hsChoices[0], au: hsChoices[0], mech: "none", mechFail: -1, tls: true},
			caseSpec{path: path, hs: hsChoices[0], au: hsChoices[0], mech: "plain", user: "u", pass: "p", srvUser: "u", srvPass: "p", mechFail: -1, addr: "broker1:kafka", tls: true})
	}
	// every second Dialer case runs without any time limit (the scripted silence needs one)
	for i := range cases {
		if cases[i].path == "dialer" && cases[i].failKind != "silent" && i%2 == 0 {
			cases[i].noLimit = true
		}
	}
	_ = thorough
	leaks := 0
	for _, c := range cases {
		if leaks >= 8 {
			break // enough failed dials that left their connection open: the rest would only cost time
		}
		res, skip := runCase(c)
		if skip != "" {
			continue
		}
		for i := range res.results {
			if res.results[i] != "ok" && !res.closed[i] && c.failKind != "silent" {
				leaks++
			}
		}
		emitCase(c, res)
		if strings.HasPrefix(res.final, "use-failed") {
			fmt.Fprintf(out, "usable %s\t%s\n", strings.ReplaceAll(c.String(), " ", "_"), res.final)
		}
	}
	credCases(r, thorough)
	newWriterCases()
}
