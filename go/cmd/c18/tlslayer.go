package main

// tlslayer.go — the fake broker behind TLS.  With Dialer.TLS / Transport.TLS configured both dial paths must wrap the
// socket before the first protocol byte: what the broker's socket sees first is a TLS ClientHello, and the whole set-up
// exchange (ApiVersions, SaslHandshake, the PLAIN password …) travels inside the channel.  The server side looks at the
// first record on the raw socket before it starts its own handshake: `S` in the journal = a TLS handshake record came
// first, `C:<hex>` = something else (protocol bytes in clear).

import (
	"bufio"
	"crypto/ecdsa"
	"crypto/elliptic"
	"crypto/rand"
	"crypto/tls"
	"crypto/x509"
	"crypto/x509/pkix"
	"encoding/hex"
	"math/big"
	"net"
	"sync"
	"time"
)

var (
	tlsOnce      sync.Once
	tlsServerCfg *tls.Config
)

func serverTLS() *tls.Config {
	tlsOnce.Do(func() {
		key, err := ecdsa.GenerateKey(elliptic.P256(), rand.Reader)
		if err != nil {
			panic(err)
		}
		tmpl := &x509.Certificate{SerialNumber: big.NewInt(1), Subject: pkix.Name{CommonName: "broker1"}, DNSNames: []string{"broker1"},
			NotBefore: time.Now().Add(-time.Hour), NotAfter: time.Now().Add(24 * time.Hour),
			KeyUsage: x509.KeyUsageDigitalSignature, ExtKeyUsage: []x509.ExtKeyUsage{x509.ExtKeyUsageServerAuth}}
		der, err := x509.CreateCertificate(rand.Reader, tmpl, tmpl, &key.PublicKey, key)
		if err != nil {
			panic(err)
		}
		tlsServerCfg = &tls.Config{Certificates: []tls.Certificate{{Certificate: [][]byte{der}, PrivateKey: key}}}
	})
	return tlsServerCfg
}

func clientTLS() *tls.Config { return &tls.Config{InsecureSkipVerify: true} }

// peekedConn hands back the bytes that were peeked before the TLS server took over
type peekedConn struct {
	net.Conn
	r *bufio.Reader
}

func (p *peekedConn) Read(b []byte) (int, error) { return p.r.Read(b) }

// serveTLS records what arrives first on the raw socket, then serves the usual fake broker inside TLS
func serveTLS(raw net.Conn, c caseSpec, lg *connLog) {
	br := bufio.NewReader(raw)
	raw.SetReadDeadline(time.Now().Add(3 * time.Second))
	first, err := br.Peek(3)
	raw.SetReadDeadline(time.Time{})
	if err != nil {
		// the client went away (or never wrote): the same bookkeeping as a broker whose read ends
		lg.mu.Lock()
		lg.closed = true
		lg.mu.Unlock()
		close(lg.done)
		raw.Close()
		return
	}
	if first[0] == 0x16 && first[1] == 0x03 {
		lg.addJournal("S")
	} else {
		n := br.Buffered()
		if n > 16 {
			n = 16
		}
		b, _ := br.Peek(n)
		lg.addJournal("C:" + hex.EncodeToString(b))
	}
	if c.tlsFail {
		// not a TLS server: answer the ClientHello with something else, keep the socket open, and see whether the client,
		// whose dial must fail, closes its end
		raw.Write([]byte("HTTP/1.1 400 Bad Request\r\n\r\n"))
		raw.SetReadDeadline(time.Now().Add(1500 * time.Millisecond))
		buf := make([]byte, 4096)
		for {
			if _, err := br.Read(buf); err != nil {
				if ne, ok := err.(net.Error); !ok || !ne.Timeout() {
					lg.mu.Lock()
					lg.closed = true
					lg.mu.Unlock()
				}
				break
			}
		}
		close(lg.done)
		raw.Close()
		return
	}
	srv := tls.Server(&peekedConn{Conn: raw, r: br}, serverTLS())
	srv.SetDeadline(time.Now().Add(5 * time.Second))
	if err := srv.Handshake(); err != nil {
		lg.mu.Lock()
		lg.closed = true
		lg.mu.Unlock()
		close(lg.done)
		raw.Close()
		return
	}
	srv.SetDeadline(time.Time{})
	serve(srv, c, lg)
}
