package main

import (
	"bytes"
	"context"
	"crypto/hmac"
	"crypto/rand"
	"crypto/sha256"
	"crypto/sha512"
	"encoding/base64"
	"fmt"
	"hash"
	mrand "math/rand"
	"strconv"
	"strings"

	"github.com/segmentio/kafka-go/sasl/plain"
	xscram "github.com/xdg-go/scram"
)

// refServer is the broker's authentication back end: it judges the client's tokens.
// step returns the challenge to send, whether the exchange is now successfully finished, and whether the
// token was acceptable at all (false: bad credentials / malformed message).
type refServer interface {
	step(token []byte) (challenge []byte, final bool, ok bool)
}

func newRefServer(c caseSpec) refServer {
	switch c.mech {
	case "plain":
		return &plainServer{user: c.srvUser, pass: c.srvPass}
	case "scram256", "scram512":
		if c.refSrv == "stdlib" {
			h := sha256.New
			if c.mech == "scram512" {
				h = sha512.New
			}
			return &stdScram{h: h, user: c.srvUser, pass: c.srvPass, iters: 4096, impostor: c.impostor}
		}
		return newXdgServer(c)
	default:
		return &stepsServer{n: c.steps}
	}
}

// ---- PLAIN (RFC 4616): message = [authzid] NUL authcid NUL passwd

type plainServer struct{ user, pass string }

func (p *plainServer) step(token []byte) ([]byte, bool, bool) {
	parts := bytes.SplitN(token, []byte{0}, 3)
	if len(parts) != 3 || bytes.IndexByte(parts[2], 0) >= 0 {
		return nil, false, false
	}
	if len(parts[0]) != 0 && string(parts[0]) != string(parts[1]) {
		return nil, false, false
	}
	if string(parts[1]) != p.user || string(parts[2]) != p.pass {
		return nil, false, false
	}
	return nil, true, true
}

// ---- scripted n-round mechanism

type stepsServer struct{ n, i int }

func (s *stepsServer) step(token []byte) ([]byte, bool, bool) {
	s.i++
	return []byte{0xb0 + byte(s.i), byte(len(token))}, s.i >= s.n, true
}

// ---- SCRAM, server side of github.com/xdg-go/scram

type xdgServer struct {
	conv *xscram.ServerConversation
}

func newXdgServer(c caseSpec) refServer {
	hg := xscram.SHA256
	if c.mech == "scram512" {
		hg = xscram.SHA512
	}
	// stored credentials derived from what the server knows (never from what the client sends)
	cl, err := hg.NewClient(c.srvUser, c.srvPass, "")
	if err != nil {
		return &rejectAll{}
	}
	salt := make([]byte, 16)
	rand.Read(salt)
	stored := cl.GetStoredCredentials(xscram.KeyFactors{Salt: string(salt), Iters: 4096})
	// the name the server will be asked for is the SASLprep'd one
	srv, err := hg.NewServer(func(name string) (xscram.StoredCredentials, error) {
		if name != prepName(hg, c.srvUser) {
			return xscram.StoredCredentials{}, fmt.Errorf("unknown user %q", name)
		}
		return stored, nil
	})
	if err != nil {
		return &rejectAll{}
	}
	return &xdgServer{conv: srv.NewConversation()}
}

// prepName recovers the SASLprep'd, escaped user name the way a client sends it: first message
// "n,,n=<escaped name>,r=…".
func prepName(hg xscram.HashGeneratorFcn, name string) string {
	cl, err := hg.NewClient(name, "x", "")
	if err != nil {
		return name
	}
	first, err := cl.NewConversation().Step("")
	if err != nil {
		return name
	}
	f := strings.SplitN(first, ",", 4)
	if len(f) < 3 || !strings.HasPrefix(f[2], "n=") {
		return name
	}
	// xdg-go/scram's server hands the n= field to the lookup as received (still escaped), so the
	// comparison is made on the escaped form
	return f[2][2:]
}

func (s *xdgServer) step(token []byte) ([]byte, bool, bool) {
	resp, err := s.conv.Step(string(token))
	if err != nil {
		return []byte(resp), false, false
	}
	return []byte(resp), s.conv.Done() && s.conv.Valid(), true
}

type rejectAll struct{}

func (*rejectAll) step([]byte) ([]byte, bool, bool) { return nil, false, false }

// ---- SCRAM, independent server written with the standard library only (RFC 5802).
// It knows user name and password in already-normalised form (the generator supplies ASCII, or the
// RFC 4013 normal form written out by hand).

type stdScram struct {
	h          func() hash.Hash
	user, pass string
	iters      int
	state      int
	clientBare string
	serverFirst string
	nonce      string
	salt       []byte
	// impostor: a broker that does not know the password — it lets any proof pass and claims success with a
	// verifier it cannot compute (SCRAM is mutual: the client must refuse)
	impostor bool
}

func (s *stdScram) hmac(key []byte, msg string) []byte {
	m := hmac.New(s.h, key)
	m.Write([]byte(msg))
	return m.Sum(nil)
}

func (s *stdScram) hi(pass string, salt []byte, iters int) []byte {
	m := hmac.New(s.h, []byte(pass))
	m.Write(salt)
	m.Write([]byte{0, 0, 0, 1})
	u := m.Sum(nil)
	res := append([]byte(nil), u...)
	for i := 1; i < iters; i++ {
		m.Reset()
		m.Write(u)
		u = m.Sum(nil)
		for j := range res {
			res[j] ^= u[j]
		}
	}
	return res
}

func attr(fields []string, k string) (string, bool) {
	for _, f := range fields {
		if strings.HasPrefix(f, k+"=") {
			return f[len(k)+1:], true
		}
	}
	return "", false
}

func (s *stdScram) step(token []byte) ([]byte, bool, bool) {
	msg := string(token)
	switch s.state {
	case 0:
		s.state = 1
		if !strings.HasPrefix(msg, "n,,") {
			return []byte("e=other-error"), false, false
		}
		s.clientBare = msg[3:]
		f := strings.Split(s.clientBare, ",")
		name, ok1 := attr(f, "n")
		cnonce, ok2 := attr(f, "r")
		if !ok1 || !ok2 {
			return []byte("e=other-error"), false, false
		}
		// "=2C" and "=3D" are the only legal uses of '='
		rest := strings.ReplaceAll(strings.ReplaceAll(name, "=2C", ""), "=3D", "")
		if strings.ContainsAny(rest, "=,") {
			return []byte("e=invalid-username-encoding"), false, false
		}
		name = strings.ReplaceAll(strings.ReplaceAll(name, "=2C", ","), "=3D", "=")
		if name != s.user {
			return []byte("e=unknown-user"), false, false
		}
		s.salt = make([]byte, 12)
		rand.Read(s.salt)
		sn := make([]byte, 12)
		rand.Read(sn)
		s.nonce = cnonce + base64.StdEncoding.EncodeToString(sn)
		s.serverFirst = "r=" + s.nonce + ",s=" + base64.StdEncoding.EncodeToString(s.salt) + ",i=" + strconv.Itoa(s.iters)
		return []byte(s.serverFirst), false, true
	case 1:
		s.state = 2
		i := strings.LastIndex(msg, ",p=")
		if i < 0 {
			return []byte("e=other-error"), false, false
		}
		without, proof64 := msg[:i], msg[i+3:]
		f := strings.Split(without, ",")
		cb, _ := attr(f, "c")
		nonce, _ := attr(f, "r")
		if cb != "biws" || nonce != s.nonce {
			return []byte("e=other-error"), false, false
		}
		if s.impostor {
			forged := make([]byte, s.h().Size())
			rand.Read(forged)
			return []byte("v=" + base64.StdEncoding.EncodeToString(forged)), true, true
		}
		proof, err := base64.StdEncoding.DecodeString(proof64)
		if err != nil {
			return []byte("e=invalid-encoding"), false, false
		}
		salted := s.hi(s.pass, s.salt, s.iters)
		clientKey := s.hmac(salted, "Client Key")
		hh := s.h()
		hh.Write(clientKey)
		storedKey := hh.Sum(nil)
		authMsg := s.clientBare + "," + s.serverFirst + "," + without
		sig := s.hmac(storedKey, authMsg)
		if len(proof) != len(sig) {
			return []byte("e=invalid-proof"), false, false
		}
		ck := make([]byte, len(sig))
		for j := range sig {
			ck[j] = proof[j] ^ sig[j]
		}
		hh = s.h()
		hh.Write(ck)
		if !hmac.Equal(hh.Sum(nil), storedKey) {
			return []byte("e=invalid-proof"), false, false
		}
		serverKey := s.hmac(salted, "Server Key")
		return []byte("v=" + base64.StdEncoding.EncodeToString(s.hmac(serverKey, authMsg))), true, true
	}
	return nil, false, false
}

// ---------------------------------------------------------------- credential cases

type cred struct {
	user, pass       string
	srvUser, srvPass string
	right            bool
	stdlibOK         bool // the independent server can judge it (server side given in normal form)
}

func credList(r *mrand.Rand, thorough bool) []cred {
	l := []cred{
		{"alice", "s3cret", "alice", "s3cret", true, true},
		{"alice", "s3cret", "alice", "S3cret", false, true},
		{"alice", "s3cret", "alicf", "s3cret", false, true},
		{"alice", "", "alice", "x", false, true},
		// characters that SCRAM escapes in the user name (RFC 5802: ',' → =2C, '=' → =3D)
		{"a,b=c", "p,w=d", "a,b=c", "p,w=d", true, true},
		{"a,b=c", "p,w=d", "a=2Cb=3Dc", "p,w=d", false, true},
		{"=2C", "x,y", "=2C", "x,y", true, true},
		{"=2C", "x,y", ",", "x,y", false, true},
		{"u=", "=", "u=", "=", true, true},
		// '%' must reach the server untouched (credentials are data, never a format)
		{"alice", "100%sure", "alice", "100%sure", true, true},
		{"%s", "%d%%", "%s", "%d%%", true, true},
		{"a%20b", "pa%20ss", "a%20b", "pa%20ss", true, true},
		{"%v%!", "%", "%v%!", "%", true, true},
		{"per%cent", "x", "per%cent", "y", false, true},
		// SASLprep (RFC 4013 §3 examples): soft hyphen is mapped to nothing, NFKC
		{"I­X", "pass­word", "IX", "password", true, true},
		{"Ⅸ", "ª", "IX", "a", true, true},
		{"user name", "p w", "user name", "p w", true, true},
		{"Ⅸ", "pw", "ix", "pw", false, true},
		// non-ASCII that SASLprep leaves alone (judged by the xdg server only for the user lookup)
		{"ünïcode", "pässwörd", "ünïcode", "pässwörd", true, true},
		{"ünïcode", "pässwörd", "ünïcode", "passwörd", false, true},
	}
	n := 6
	if thorough {
		n = 60
	}
	alphabet := []rune("abcXYZ019,=,= -_.:;!äßπ")
	rs := func() string {
		k := 1 + r.Intn(8)
		b := make([]rune, k)
		for i := range b {
			b[i] = alphabet[r.Intn(len(alphabet))]
		}
		return string(b)
	}
	for i := 0; i < n; i++ {
		u, p := rs(), rs()
		if r.Intn(2) == 0 {
			l = append(l, cred{u, p, u, p, true, true})
		} else {
			q := p + string(alphabet[r.Intn(len(alphabet))])
			if r.Intn(2) == 0 {
				q = strings.ToUpper(p) + "~"
			}
			l = append(l, cred{u, p, u, q, false, true})
		}
	}
	return l
}

func credCases(r *mrand.Rand, thorough bool) {
	hsChoices := []*[2]int16{{0, 1}, {0, 0}}
	auChoices := []*[2]int16{{0, 0}, {0, 1}, nil, {0, 2}}
	i := 0
	for _, cr := range credList(r, thorough) {
		// PLAIN token layout against the RFC 4616 spec (oracle side)
		_, tok, _ := plain.Mechanism{Username: cr.user, Password: cr.pass}.Start(context.Background())
		fmt.Fprintf(out, "plain %s %s\t%s\n", hx([]byte(cr.user)), hx([]byte(cr.pass)), hx(tok))
		for _, m := range []string{"plain", "scram256", "scram512"} {
			for _, ref := range []string{"xdg", "stdlib"} {
				if m == "plain" && ref == "stdlib" {
					continue
				}
				i++
				path := []string{"dialer", "transport"}[i%2]
				hs := hsChoices[(i/2)%2]
				bad := []string{"code", "challenge"}[(i/4)%2]
				c := caseSpec{path: path, hs: hs, au: auChoices[(i/8)%4], mech: m, user: cr.user, pass: cr.pass, srvUser: cr.srvUser, srvPass: cr.srvPass,
					mechFail: -1, badCreds: bad, refSrv: ref, wrongCreds: !cr.right}
				if m == "plain" && (strings.ContainsRune(cr.user, 0) || strings.ContainsRune(cr.pass, 0)) {
					continue
				}
				if m == "plain" {
					// PLAIN does no normalisation: the server must know the very same strings
					if cr.right {
						c.srvUser, c.srvPass = cr.user, cr.pass
					}
				} else if cr.right && (cr.user != cr.srvUser || cr.pass != cr.srvPass) {
					// right only after SASLprep: the strings differ, so no unconditional expectation from string equality
					c.wrongCreds = false
				}
				res, skip := runCase(c)
				if skip != "" {
					fmt.Fprintf(out, "creds %s %s %d %s %s %s %d\t%s\n", m, path, hs[1], ref, hx([]byte(cr.user)), hx([]byte(cr.pass)), b2i(cr.right), skip)
					continue
				}
				emitCase(c, res)
				outcome := "err"
				if res.final == "ok" {
					outcome = "ok"
				} else if !strings.HasPrefix(res.final, "err:") {
					outcome = res.final
				}
				fmt.Fprintf(out, "creds %s %s %d %s %s %s %d\t%s\n", m, path, hs[1], ref, hx([]byte(cr.user)), hx([]byte(cr.pass)), b2i(cr.right), outcome)
			}
		}
	}
}

func b2i(b bool) int {
	if b {
		return 1
	}
	return 0
}
