package main

// Reconnect inside a generation, StartOffset = LastOffset, no committed offset: the generation starts the partition at the
// end of the log; records are appended and delivered; then the connection to the partition leader is cut (the response to
// a fetch is cut at 0 bytes) while another record is appended.  The fetcher must re-initialise at "last delivered + 1" —
// not at the generation's start offset (LastOffset again = the NEW end of the log, skipping what was appended meanwhile).
// Output: `gtrace t/0@last …` (the `@last` makes the oracle use the LastOffset rule for uncommitted partitions).

import (
	"context"
	"fmt"
	"math/rand"
	"strings"
	"sync"
	"sync/atomic"
	"time"

	kafka "github.com/segmentio/kafka-go"

	"kvharness/internal/connfake"
	gm "kvharness/internal/groupmock"
)

func reconnectScenario(rng *rand.Rand) {
	tb := connfake.NewTBroker("t")
	tb.FetchMax = 1 + rng.Intn(3)
	mock, log := gm.New(), gm.NewLog()
	kafka.VerifGroupResetConnIDs()
	kafka.VerifStart()
	kafka.VerifSetSink(log.Sink)
	kafka.VerifSetGroupWire(rng.Intn(2) == 0)
	var mu sync.Mutex
	committed := int64(-1)
	genID := int32(0)
	mock.Auto = func(c kafka.VerifCoordCall) (kafka.VerifCoordReply, bool) {
		mu.Lock()
		defer mu.Unlock()
		switch c.Method {
		case "findCoordinator":
			return kafka.VerifCoordReply{Host: "coord", Port: 9092}, true
		case "joinGroup":
			genID++
			return kafka.VerifCoordReply{MemberID: "m1", GenerationID: genID, Protocol: "range", LeaderID: "other"}, true
		case "syncGroup":
			return kafka.VerifCoordReply{Assignments: map[string][]int32{"t": {0}}}, true
		case "offsetFetch":
			kafka.VerifGroupEmit("S.Fetch", 0, fmt.Sprintf("t/0@%d", committed))
			return kafka.VerifCoordReply{Committed: []kafka.VerifGroupOffset{{Topic: "t", Partition: 0, Offset: committed}}}, true
		case "offsetCommit":
			if o, ok := c.Offsets["t"][0]; ok {
				committed = o
			}
			kafka.VerifGroupEmit("S.Commit", 0, gm.Offsets(c.Offsets), true)
			return kafka.VerifCoordReply{}, true
		}
		return kafka.VerifCoordReply{}, true
	}
	kafka.VerifSetGroupHandler(mock.Handle)
	produced := int64(0)
	produce := func(n int) {
		for i := 0; i < n; i++ {
			kafka.VerifGroupEmit("H.Produce", "t/0")
			tb.Append(connfake.Msg{Value: fmt.Sprint(produced)})
			produced++
		}
	}
	produce(rng.Intn(3)) // the log is not empty when the group starts at its end
	r := kafka.NewReader(kafka.ReaderConfig{
		Brokers: []string{"fake:9092"}, GroupID: "grp", Topic: "t", Dialer: &kafka.Dialer{DialFunc: tb.Dial, Timeout: 300 * time.Millisecond},
		MinBytes: 1, MaxBytes: 1 << 20, MaxWait: 20 * time.Millisecond, ReadBatchTimeout: 300 * time.Millisecond,
		ReadBackoffMin: time.Millisecond, ReadBackoffMax: 3 * time.Millisecond, MaxAttempts: 2, ReadLagInterval: -1,
		HeartbeatInterval: 3 * time.Millisecond, JoinGroupBackoff: 2 * time.Millisecond, StartOffset: kafka.LastOffset,
	})
	ctx, cancel := context.WithCancel(context.Background())
	var lastDelivered int64 = -1
	var wantCommit int32
	appDone := make(chan struct{})
	go func() {
		defer close(appDone)
		for {
			m, err := r.FetchMessage(ctx)
			if err != nil {
				return
			}
			kafka.VerifGroupEmit("H.Deliver", 0, "t/0", m.Offset)
			atomic.StoreInt64(&lastDelivered, m.Offset)
			if atomic.LoadInt32(&wantCommit) == 1 {
				cctx, ccancel := context.WithTimeout(ctx, 2*time.Second)
				r.CommitMessages(cctx, m)
				ccancel()
			}
		}
	}()
	status := "ok"
	waitDelivered := func(d time.Duration) bool {
		deadline := time.Now().Add(d)
		for atomic.LoadInt64(&lastDelivered) < produced-1 {
			if time.Now().After(deadline) {
				return false
			}
			time.Sleep(time.Millisecond)
		}
		return true
	}
	fetching := func() bool { // the fetcher has resolved its start position and asked for data
		for _, c := range tb.Conns() {
			for _, k := range c.Keys {
				if k == 1 {
					return true
				}
			}
		}
		return false
	}
	if !log.WaitCount(gm.Kind("R.Subscribe"), 1, 3*time.Second) {
		status = "stuck:subscribe"
	} else {
		for i := 0; i < 300 && !fetching(); i++ {
			time.Sleep(time.Millisecond)
		}
		produce(1 + rng.Intn(2))
		if !waitDelivered(1500 * time.Millisecond) {
			status = "undelivered-before-reconnect"
		}
		// lose the connection to the leader; a record is appended before the fetcher re-initialises.  How it is lost
		// varies: dropped before the fetch response / in the middle of it / the broker goes silent (the read times out) /
		// twice in a row with records in between.
		rounds, variant := 1, rng.Intn(4)
		if variant == 2 {
			rounds = 2
		}
		for k := 0; k < rounds; k++ {
			switch variant {
			case 1:
				tb.Cut(1, 1, 5+rng.Intn(20))
			case 3:
				tb.SetStall(true)
				tb.Cut(1, 1, 0)
			default:
				tb.Cut(1, 1, 0)
			}
			produce(1 + rng.Intn(2))
			if !waitDelivered(1500*time.Millisecond) && status == "ok" {
				status = "undelivered-after-reconnect"
			}
			tb.SetStall(false)
		}
		atomic.StoreInt32(&wantCommit, 1)
		produce(1 + rng.Intn(2))
		waitDelivered(800 * time.Millisecond)
		time.Sleep(5 * time.Millisecond)
	}
	cancel()
	done := make(chan struct{})
	go func() { r.Close(); close(done) }()
	select {
	case <-done:
	case <-time.After(8 * time.Second):
		status = "stuck:close"
	}
	<-appDone
	kafka.VerifSetSink(nil)
	kafka.VerifSetGroupHandler(nil)
	evs := kafka.VerifStop()
	var toks []string
	nprod := 0
	for _, e := range evs {
		a := e.Args
		switch e.Kind {
		case "H.Produce":
			nprod++
			toks = append(toks, "produce")
		case "S.Fetch":
			st := a[1][strings.LastIndex(a[1], "@")+1:]
			if strings.HasPrefix(st, "-") { // no commit: LastOffset = the end of the log at this moment
				st = fmt.Sprint(nprod)
			}
			toks = append(toks, "assign:0:"+st)
		case "R.Subscribe":
			if a[2] != "true" && a[1] != "-" {
				st := a[1][strings.LastIndex(a[1], "@")+1:]
				if strings.HasPrefix(st, "-") {
					st = fmt.Sprint(nprod)
				}
				toks = append(toks, "sub:0:"+st)
			}
		case "H.Deliver":
			toks = append(toks, "deliver:0:"+a[2])
		case "S.Commit":
			if a[1] != "-" {
				toks = append(toks, fmt.Sprintf("commit:0:%s:%s", a[1][strings.LastIndex(a[1], "@")+1:], b01(a[2])))
			}
		}
	}
	fmt.Fprintf(out, "gtrace t/0@last %s\t%s\n", strings.Join(toks, ";"), status)
}
