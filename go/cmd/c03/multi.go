package main

// Multi-member histories for C03: two or three group Readers against ONE simulated coordinator (groupmock.Sim):
// joins at different moments, rebalances, evictions (session time-out while the member keeps running as a zombie),
// members leaving.  The harness plays the fetch side and the application of every member: after a Reader subscribed
// with its assignment offsets it "delivers" the stored records of each assigned partition one by one from that
// position (C02's contract, simulated) and passes delivered messages to CommitMessages (applications commit only what
// they were handed).  Per partition one line
//
//	gtrace <t/p> <ev>;…\t<status>
//
// with events produce | assign:<m>:<start> (the coordinator answered the member's OffsetFetch) | sub:<m>:<start>
// (Reader.subscribe) | deliver:<m>:<off> | commit:<m>:<o>:<ack> (the coordinator's decision on an OffsetCommit).

import (
	"context"
	"errors"
	"fmt"
	"math/rand"
	"net"
	"strconv"
	"strings"
	"time"

	kafka "github.com/segmentio/kafka-go"

	gm "kvharness/internal/groupmock"
)

type member struct {
	k       int
	r       *kafka.Reader
	rid     string           // recorder id of the Reader ("#n")
	pos     map[string]int64 // current epoch: next offset per assigned "t/p"
	handed  []kafka.Message  // delivered and not yet passed to CommitMessages
	closed  bool
	closeCh chan struct{}
	calls   []*commitCall
}

type multi struct {
	rng     *rand.Rand
	mock    *gm.Mock
	log     *gm.Log
	sim     *gm.Sim
	ms      []*member
	hi      map[string]int64
	topics  []string
	status  []string
	seen    int // events of the log copy already scanned for R.Subscribe
	sync    bool
	evicted int
}

func (x *multi) fail(f string, a ...interface{}) { x.status = append(x.status, fmt.Sprintf(f, a...)) }

func (x *multi) addMember() {
	k := len(x.ms)
	cfg := kafka.ReaderConfig{
		Brokers: []string{fmt.Sprintf("b%d:9092", k)}, GroupID: "grp",
		HeartbeatInterval: 2 * time.Millisecond, JoinGroupBackoff: 2 * time.Millisecond,
		ReadBackoffMin: 50 * time.Millisecond, ReadBackoffMax: 200 * time.Millisecond, MaxAttempts: 2,
		StartOffset: kafka.FirstOffset,
		Dialer: &kafka.Dialer{DialFunc: func(ctx context.Context, network, addr string) (net.Conn, error) {
			return nil, errors.New("no broker in this harness")
		}},
	}
	if len(x.topics) == 1 {
		cfg.Topic = x.topics[0]
	} else {
		cfg.GroupTopics = x.topics
	}
	if !x.sync {
		cfg.CommitInterval = 3 * time.Millisecond
	}
	r := kafka.NewReader(cfg)
	m := &member{k: k, r: r, rid: kafka.VerifID(r), pos: map[string]int64{}, closeCh: make(chan struct{})}
	kafka.VerifGroupEmit("H.Reader", r, k)
	x.ms = append(x.ms, m)
}

func (x *multi) memberOfReader(rid string) *member {
	for _, m := range x.ms {
		if m.rid == rid {
			return m
		}
	}
	return nil
}

// scanSubscribes picks up new R.Subscribe events: the member's simulated fetchers restart at the assignment offsets.
func (x *multi) scanSubscribes() {
	evs := x.log.Snapshot()
	for ; x.seen < len(evs); x.seen++ {
		e := evs[x.seen]
		if e.Kind != "R.Subscribe" {
			continue
		}
		m := x.memberOfReader(e.Args[0])
		if m == nil {
			continue
		}
		m.pos = map[string]int64{}
		if e.Args[1] == "-" || e.Args[2] == "true" {
			continue
		}
		for _, ent := range strings.Split(e.Args[1], ",") {
			i := strings.LastIndex(ent, "@")
			o, _ := strconv.ParseInt(ent[i+1:], 10, 64)
			if o < 0 { // FirstOffset: the log start
				o = 0
			}
			m.pos[ent[:i]] = o
		}
	}
}

func tpOf(key string) (string, int) {
	i := strings.LastIndex(key, "/")
	p, _ := strconv.Atoi(key[i+1:])
	return key[:i], p
}

func (x *multi) deliver(m *member) bool {
	var keys []string
	for k, p := range m.pos {
		if p < x.hi[k] {
			keys = append(keys, k)
		}
	}
	if len(keys) == 0 {
		return false
	}
	sortStrings(keys)
	key := keys[x.rng.Intn(len(keys))]
	t, p := tpOf(key)
	off := m.pos[key]
	kafka.VerifGroupEmit("H.Deliver", m.k, key, off)
	m.pos[key] = off + 1
	m.handed = append(m.handed, kafka.Message{Topic: t, Partition: p, Offset: off})
	return true
}

func sortStrings(a []string) {
	for i := 1; i < len(a); i++ {
		for j := i; j > 0 && a[j] < a[j-1]; j-- {
			a[j], a[j-1] = a[j-1], a[j]
		}
	}
}

func (x *multi) commit(m *member) {
	n := 1 + x.rng.Intn(len(m.handed))
	ms := append([]kafka.Message(nil), m.handed[:n]...)
	m.handed = m.handed[n:]
	ctx, cancel := context.WithCancel(context.Background())
	c := &commitCall{id: len(m.calls), done: make(chan struct{}), cancel: cancel}
	m.calls = append(m.calls, c)
	go func() {
		m.r.CommitMessages(ctx, ms...)
		close(c.done)
	}()
}

func (m *member) outstanding() int {
	n := 0
	for _, c := range m.calls {
		if !c.finished() {
			n++
		}
	}
	return n
}

// answer lets the simulated coordinator decide a parked call (journalled from the driver thread, so that the journal
// order is the coordinator's decision order).
func (x *multi) answer(p *gm.Pending) bool {
	k := x.sim.Owner(p.Call)
	if p.Call.Method == "offsetFetch" && x.rng.Intn(8) == 0 {
		// fault on the generation's OffsetFetch: every error class; the attempt must fail, no generation
		pool := []int{3, 5, 6, 7, 14, 15, 16, 22, 25, 26, 27, 29, 30}
		var err error = netErr
		if i := x.rng.Intn(len(pool) + 1); i < len(pool) {
			err = kafka.Error(pool[i])
		}
		kafka.VerifGroupEmit("S.FetchErr", k)
		x.mock.Answer(p, kafka.VerifCoordReply{Err: err})
		return true
	}
	r, ready := x.sim.Answer(p)
	if !ready {
		return false
	}
	switch p.Call.Method {
	case "offsetCommit":
		kafka.VerifGroupEmit("S.Commit", k, gm.Offsets(p.Call.Offsets), r.Err == nil)
	case "offsetFetch":
		kafka.VerifGroupEmit("S.Fetch", k, gm.Committed(r.Committed))
	}
	x.mock.Answer(p, r)
	return true
}

func (x *multi) closeMember(m *member) {
	m.closed = true
	m.pos = map[string]int64{}
	go func() {
		m.r.Close()
		close(m.closeCh)
	}()
}

func multiScenario(rng *rand.Rand, n int, syncMode bool, steps int) {
	topics := [][]string{{"t"}, {"t", "u"}}[rng.Intn(2)]
	x := &multi{rng: rng, mock: gm.New(), log: gm.NewLog(), sim: gm.NewSim(topics, 2), hi: map[string]int64{}, topics: topics, sync: syncMode}
	for _, t := range topics {
		for p := 0; p < 2; p++ {
			x.hi[fmt.Sprintf("%s/%d", t, p)] = int64(rng.Intn(4))
		}
	}
	kafka.VerifGroupResetConnIDs()
	kafka.VerifStart()
	kafka.VerifSetSink(x.log.Sink)
	kafka.VerifSetGroupWire(rng.Intn(2) == 0)
	kafka.VerifSetGroupHandler(x.mock.Handle)
	for key, h := range x.hi {
		for i := int64(0); i < h; i++ {
			kafka.VerifGroupEmit("H.Produce", key)
		}
	}
	x.addMember()
	joinAt := map[int]bool{}
	for len(joinAt) < n-1 {
		joinAt[1+rng.Intn(steps*2/3)] = true
	}
	evictAt := -1
	if rng.Intn(2) == 0 {
		evictAt = steps/3 + rng.Intn(steps/2)
	}
	leaveAt := -1
	if rng.Intn(3) == 0 {
		leaveAt = steps/2 + rng.Intn(steps/2)
	}
	for i := 0; i < steps; i++ {
		x.log.Settle(150*time.Microsecond, 3*time.Millisecond)
		x.scanSubscribes()
		if joinAt[i] && len(x.ms) < n {
			x.addMember()
			continue
		}
		if i == evictAt {
			if x.sim.Evict(rng.Intn(len(x.ms))) {
				x.evicted++
			}
			continue
		}
		if i == leaveAt && len(x.ms) > 1 {
			m := x.ms[rng.Intn(len(x.ms))]
			if !m.closed {
				x.closeMember(m)
			}
			continue
		}
		var acts []func()
		for _, p := range x.mock.Snapshot() {
			p := p
			w := 4
			if p.Call.Method == "heartbeat" {
				w = 1
				if x.sim.Rebalancing() {
					w = 4
				}
			}
			for j := 0; j < w; j++ {
				acts = append(acts, func() { x.answer(p) })
			}
		}
		for _, m := range x.ms {
			m := m
			if m.closed {
				continue
			}
			acts = append(acts, func() { x.deliver(m) }, func() { x.deliver(m) })
			if len(m.handed) > 0 && m.outstanding() < 2 {
				acts = append(acts, func() { x.commit(m) }, func() { x.commit(m) })
			}
		}
		if rng.Intn(6) == 0 {
			keys := make([]string, 0, len(x.hi))
			for k := range x.hi {
				keys = append(keys, k)
			}
			sortStrings(keys)
			key := keys[rng.Intn(len(keys))]
			acts = append(acts, func() { x.hi[key]++; kafka.VerifGroupEmit("H.Produce", key) })
		}
		if len(acts) == 0 {
			x.mock.AwaitAny(5 * time.Millisecond)
			continue
		}
		acts[rng.Intn(len(acts))]()
	}
	// wind down: close every member, keep the coordinator answering
	for _, m := range x.ms {
		if !m.closed {
			x.closeMember(m)
		}
	}
	deadline := time.Now().Add(10 * time.Second)
	for {
		all := true
		for _, m := range x.ms {
			select {
			case <-m.closeCh:
			default:
				all = false
			}
		}
		if all {
			break
		}
		if time.Now().After(deadline) {
			x.fail("stuck:close %s", x.sim.String())
			break
		}
		progressed := false
		for _, p := range x.mock.Snapshot() {
			if x.answer(p) {
				progressed = true
			}
		}
		if !progressed {
			x.mock.AwaitAny(2 * time.Millisecond)
			// a join barrier can wait for a member that is closing without having been told to re-join: its heartbeat
			// is parked and gets RebalanceInProgress above; nothing else to do
		}
	}
	for _, m := range x.ms {
		for _, c := range m.calls {
			select {
			case <-c.done:
			case <-time.After(300 * time.Millisecond):
				c.cancel()
				select {
				case <-c.done:
				case <-time.After(2 * time.Second):
					x.fail("stuck:commit-call")
				}
			}
		}
	}
	for _, p := range x.mock.Snapshot() {
		x.mock.Answer(p, kafka.VerifCoordReply{})
	}
	time.Sleep(300 * time.Microsecond)
	kafka.VerifSetSink(nil)
	kafka.VerifSetGroupHandler(nil)
	evs := kafka.VerifStop()
	x.emit(evs)
}

// emit writes one gtrace line per partition.
func (x *multi) emit(evs []kafka.VerifEvent) {
	readerMember := map[string]string{}
	for _, e := range evs {
		if e.Kind == "H.Reader" {
			readerMember[e.Args[0]] = e.Args[1]
		}
	}
	per := map[string][]string{}
	add := func(key, tok string) { per[key] = append(per[key], tok) }
	entries := func(s string) [][2]string { // "t/p@o,…" -> (key, offset)
		var out [][2]string
		if s == "-" {
			return out
		}
		for _, ent := range strings.Split(s, ",") {
			i := strings.LastIndex(ent, "@")
			out = append(out, [2]string{ent[:i], ent[i+1:]})
		}
		return out
	}
	first := func(o string) string { // negative = no commit: FirstOffset = log start
		if strings.HasPrefix(o, "-") {
			return "0"
		}
		return o
	}
	for _, e := range evs {
		a := e.Args
		switch e.Kind {
		case "H.Produce":
			add(a[0], "produce")
		case "S.Fetch":
			for _, en := range entries(a[1]) {
				add(en[0], fmt.Sprintf("assign:%s:%s", a[0], first(en[1])))
			}
		case "R.Subscribe":
			if m, ok := readerMember[a[0]]; ok && a[2] != "true" {
				for _, en := range entries(a[1]) {
					add(en[0], fmt.Sprintf("sub:%s:%s", m, first(en[1])))
				}
			}
		case "H.Deliver":
			add(a[1], fmt.Sprintf("deliver:%s:%s", a[0], a[2]))
		case "S.Commit":
			for _, en := range entries(a[1]) {
				add(en[0], fmt.Sprintf("commit:%s:%s:%s", a[0], en[1], b01(a[2])))
			}
		}
	}
	st := "ok"
	if len(x.status) > 0 {
		st = strings.Join(x.status, ",")
	}
	keys := make([]string, 0, len(per))
	for k := range per {
		keys = append(keys, k)
	}
	sortStrings(keys)
	for _, k := range keys {
		fmt.Fprintf(out, "gtrace %s %s\t%s\n", k, strings.Join(per[k], ";"), st)
	}
}
