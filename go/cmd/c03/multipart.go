package main

// Group Reader over TWO partitions on the real data plane: a two-broker fake cluster (connfake.TCluster, partition p is
// led by broker p+1, every broker keeps its own log), mock coordinator.  The partitions have DIFFERENT committed offsets
// (one may have none) and different amounts of records, so "delivery starts at the group's committed offset" is checked
// per partition through subscribe -> start -> (*reader).run -> initialize: a fetcher that starts at the other partition's
// offset, or reads the other partition's log, shows as a gap / wrong record.  One rebalance in the middle re-runs the
// start with new committed offsets.  Output: one `gtrace t/<p> …` line per partition; a commit the group holds before the
// run is written as the history that led to it (a former member 1 was delivered 0..c-1 and committed c).

import (
	"context"
	"fmt"
	"math/rand"
	"strings"
	"sync"
	"sync/atomic"
	"time"

	kafka "github.com/segmentio/kafka-go"

	"kvharness/internal/connfake"
	gm "kvharness/internal/groupmock"
)

func multiPartScenario(rng *rand.Rand) {
	const nParts = 2
	tc := connfake.NewTCluster("t", nParts, nParts)
	for _, b := range tc.Brokers {
		b.FetchMax = 1 + rng.Intn(3)
	}
	mock, log := gm.New(), gm.NewLog()
	kafka.VerifGroupResetConnIDs()
	kafka.VerifStart()
	kafka.VerifSetSink(log.Sink)
	kafka.VerifSetGroupWire(rng.Intn(2) == 0)
	var mu sync.Mutex
	var produced [nParts]int64
	produce := func(p, n int) {
		for i := 0; i < n; i++ {
			kafka.VerifGroupEmit("H.Produce", fmt.Sprintf("t/%d", p))
			tc.Brokers[p].Append(connfake.Msg{Value: fmt.Sprintf("%d:%d", p, produced[p])})
			atomic.AddInt64(&produced[p], 1)
		}
	}
	// the fake cluster reports 6+p as a partition's last offset: at most 6 records per partition in a run
	produce(0, 1+rng.Intn(3))
	produce(1, 1+rng.Intn(3))
	committed := [nParts]int64{-1, -1}
	for p := 0; p < nParts; p++ {
		if rng.Intn(3) != 0 {
			committed[p] = rng.Int63n(produced[p] + 1)
		}
	}
	initial := committed // the group's history before this run, see the trace prefix below
	genID := int32(0)
	hbFail := false
	mock.Auto = func(c kafka.VerifCoordCall) (kafka.VerifCoordReply, bool) {
		mu.Lock()
		defer mu.Unlock()
		switch c.Method {
		case "findCoordinator":
			return kafka.VerifCoordReply{Host: "coord", Port: 9092}, true
		case "joinGroup":
			genID++
			return kafka.VerifCoordReply{MemberID: "m1", GenerationID: genID, Protocol: "range", LeaderID: "other"}, true
		case "syncGroup":
			return kafka.VerifCoordReply{Assignments: map[string][]int32{"t": {0, 1}}}, true
		case "offsetFetch":
			kafka.VerifGroupEmit("S.Fetch", 0, fmt.Sprintf("t/0@%d,t/1@%d", committed[0], committed[1]))
			return kafka.VerifCoordReply{Committed: []kafka.VerifGroupOffset{{Topic: "t", Partition: 0, Offset: committed[0]}, {Topic: "t", Partition: 1, Offset: committed[1]}}}, true
		case "heartbeat":
			if hbFail && c.GenerationID == genID {
				hbFail = false
				return kafka.VerifCoordReply{Err: kafka.Error(27)}, true
			}
			return kafka.VerifCoordReply{}, true
		case "offsetCommit":
			if c.GenerationID != genID {
				kafka.VerifGroupEmit("S.Commit", 0, gm.Offsets(c.Offsets), false)
				return kafka.VerifCoordReply{Err: kafka.Error(22)}, true
			}
			for p, o := range c.Offsets["t"] {
				if p >= 0 && p < nParts {
					committed[p] = o
				}
			}
			kafka.VerifGroupEmit("S.Commit", 0, gm.Offsets(c.Offsets), true)
			return kafka.VerifCoordReply{}, true
		}
		return kafka.VerifCoordReply{}, true
	}
	kafka.VerifSetGroupHandler(mock.Handle)
	r := kafka.NewReader(kafka.ReaderConfig{
		Brokers: []string{"fake:9092"}, GroupID: "grp", Topic: "t", Dialer: &kafka.Dialer{DialFunc: tc.Dial, Timeout: 300 * time.Millisecond},
		MinBytes: 1, MaxBytes: 1 << 20, MaxWait: 20 * time.Millisecond, ReadBatchTimeout: 300 * time.Millisecond,
		ReadBackoffMin: time.Millisecond, ReadBackoffMax: 3 * time.Millisecond, MaxAttempts: 2, ReadLagInterval: -1,
		HeartbeatInterval: 3 * time.Millisecond, JoinGroupBackoff: 2 * time.Millisecond, StartOffset: kafka.FirstOffset,
	})
	ctx, cancel := context.WithCancel(context.Background())
	var last [nParts]int64 // highest offset delivered; before the first delivery: the start position - 1
	for p := 0; p < nParts; p++ {
		last[p] = committed[p] - 1
		if committed[p] < 0 {
			last[p] = -1
		}
	}
	var wrong int32
	commitEvery := 1 + rng.Intn(3)
	appDone := make(chan struct{})
	go func() {
		defer close(appDone)
		n := 0
		for {
			m, err := r.FetchMessage(ctx)
			if err != nil {
				return
			}
			kafka.VerifGroupEmit("H.Deliver", 0, fmt.Sprintf("t/%d", m.Partition), m.Offset)
			if string(m.Value) != fmt.Sprintf("%d:%d", m.Partition, m.Offset) || m.Partition < 0 || m.Partition >= nParts {
				atomic.StoreInt32(&wrong, 1) // a record of another partition / another offset under this label
				continue
			}
			atomic.StoreInt64(&last[m.Partition], m.Offset)
			if n++; n%commitEvery == 0 {
				cctx, ccancel := context.WithTimeout(ctx, 2*time.Second)
				r.CommitMessages(cctx, m)
				ccancel()
			}
		}
	}()
	status := "ok"
	waitDelivered := func() bool {
		deadline := time.Now().Add(1500 * time.Millisecond)
		for p := 0; p < nParts; p++ {
			for atomic.LoadInt64(&last[p]) < atomic.LoadInt64(&produced[p])-1 {
				if time.Now().After(deadline) {
					return false
				}
				time.Sleep(time.Millisecond)
			}
		}
		time.Sleep(5 * time.Millisecond)
		return true
	}
	if !log.WaitCount(gm.Kind("R.Subscribe"), 1, 3*time.Second) {
		status = "stuck:subscribe"
	} else {
		if !waitDelivered() {
			status = "undelivered"
		}
		produce(rng.Intn(nParts), 1)
		if !waitDelivered() && status == "ok" {
			status = "undelivered"
		}
		mu.Lock()
		hbFail = true
		mu.Unlock()
		if !log.WaitCount(gm.Kind("R.Subscribe"), 2, 3*time.Second) {
			status = "stuck:resubscribe"
		} else {
			produce(0, rng.Intn(2))
			produce(1, 1)
			if !waitDelivered() && status == "ok" {
				status = "undelivered"
			}
		}
	}
	cancel()
	done := make(chan struct{})
	go func() { r.Close(); close(done) }()
	select {
	case <-done:
	case <-time.After(8 * time.Second):
		status = "stuck:close"
	}
	<-appDone
	if atomic.LoadInt32(&wrong) == 1 {
		status = "wrong-record"
	}
	kafka.VerifSetSink(nil)
	kafka.VerifSetGroupHandler(nil)
	evs := kafka.VerifStop()
	first := func(o string) string {
		if strings.HasPrefix(o, "-") {
			return "0"
		}
		return o
	}
	// offOf finds "t/<p>@<o>" in a comma-separated list
	offOf := func(list string, p int) (string, bool) {
		pre := fmt.Sprintf("t/%d@", p)
		for _, x := range strings.Split(list, ",") {
			if strings.HasPrefix(x, pre) {
				return x[len(pre):], true
			}
		}
		return "", false
	}
	for p := 0; p < nParts; p++ {
		tp := fmt.Sprintf("t/%d", p)
		var toks []string
		prefixed := false
		for _, e := range evs {
			a := e.Args
			switch e.Kind {
			case "H.Produce":
				if a[0] == tp {
					toks = append(toks, "produce")
				}
			case "S.Fetch":
				if o, ok := offOf(a[1], p); ok {
					if !prefixed && initial[p] > 0 {
						// the commit the group already holds when the run begins is the end of an earlier history: a former
						// member (1) was delivered records 0..c-1 and committed c
						toks = append(toks, "assign:1:0", "sub:1:0")
						for o := int64(0); o < initial[p]; o++ {
							toks = append(toks, fmt.Sprintf("deliver:1:%d", o))
						}
						toks = append(toks, fmt.Sprintf("commit:1:%d:1", initial[p]))
					}
					prefixed = true
					toks = append(toks, "assign:0:"+first(o))
				}
			case "R.Subscribe":
				if a[2] != "true" {
					if o, ok := offOf(a[1], p); ok {
						toks = append(toks, "sub:0:"+first(o))
					}
				}
			case "H.Deliver":
				if a[1] == tp {
					toks = append(toks, "deliver:0:"+a[2])
				}
			case "S.Commit":
				if o, ok := offOf(a[1], p); ok {
					toks = append(toks, fmt.Sprintf("commit:0:%s:%s", o, b01(a[2])))
				}
			}
		}
		if len(toks) == 0 {
			toks = []string{"produce"}
		}
		fmt.Fprintf(out, "gtrace %s %s\t%s\n", tp, strings.Join(toks, ";"), status)
	}
}
