package main

// Reader-level consequence of D8 (a function Start-ed on an ended generation is launched unaccounted): Reader.run
// starts, per generation, a function that waits for the generation's end and then calls r.unsubscribe().  When the
// generation has already ended at that moment the function is a loose goroutine; if it is scheduled only after the
// Reader subscribed to the NEXT generation, its r.cancel() cancels the next generation's fetchers: the member keeps
// heart-beating and owning its partitions but never fetches again (nothing is delivered any more — against C03's
// "once the group is quiescent every record has been delivered").
//
// The schedule is forced at two hook points (the event sink may block the goroutine that emits an event):
// Reader.subscribe of generation 0 is held while the heartbeat fails, the late unsubscribe of generation 0 is held
// until generation 1 is subscribed.  Observation: do the fetchers of generation 1 keep dialling afterwards?
//
//	d8reader\t<alive|stalled>

import (
	"context"
	"errors"
	"fmt"
	"net"
	"sync"
	"sync/atomic"
	"time"

	kafka "github.com/segmentio/kafka-go"

	gm "kvharness/internal/groupmock"
)

func scenarioD8Reader() {
	mock, log := gm.New(), gm.NewLog()
	relSub, relUnsub := make(chan struct{}), make(chan struct{})
	var mu sync.Mutex
	subs, unsubs := 0, 0
	kafka.VerifGroupResetConnIDs()
	kafka.VerifStart()
	kafka.VerifSetSink(func(e kafka.VerifEvent) {
		log.Sink(e)
		switch {
		case e.Kind == "R.Subscribe":
			mu.Lock()
			subs++
			first := subs == 1
			mu.Unlock()
			if first {
				<-relSub
			}
		case e.Kind == "R.Unsubscribe" && e.Args[1] == "begin":
			mu.Lock()
			unsubs++
			first := unsubs == 1
			mu.Unlock()
			if first {
				<-relUnsub
			}
		}
	})
	kafka.VerifSetGroupWire(false)
	kafka.VerifSetGroupHandler(mock.Handle)
	var dials int64
	r := kafka.NewReader(kafka.ReaderConfig{
		Brokers: []string{"b:9092"}, GroupID: "grp", Topic: "t",
		HeartbeatInterval: 2 * time.Millisecond, JoinGroupBackoff: 2 * time.Millisecond,
		ReadBackoffMin: 20 * time.Millisecond, ReadBackoffMax: 40 * time.Millisecond, MaxAttempts: 1000,
		Dialer: &kafka.Dialer{DialFunc: func(ctx context.Context, network, addr string) (net.Conn, error) {
			atomic.AddInt64(&dials, 1)
			return nil, errors.New("no broker in this harness")
		}},
	})
	status := ""
	genID := int32(0)
	answer := func(method string, rep func(kafka.VerifCoordCall) kafka.VerifCoordReply) bool {
		p := mock.Await(gm.Method(method), 3*time.Second)
		if p == nil {
			status = "stuck:await-" + method
			return false
		}
		mock.Answer(p, rep(p.Call))
		return true
	}
	ok := func(kafka.VerifCoordCall) kafka.VerifCoordReply { return kafka.VerifCoordReply{Host: "coord", Port: 9092} }
	join := func() bool {
		genID++
		return answer("connect", ok) && answer("findCoordinator", ok) && answer("connect", ok) &&
			answer("joinGroup", func(kafka.VerifCoordCall) kafka.VerifCoordReply {
				return kafka.VerifCoordReply{MemberID: "m1", GenerationID: genID, Protocol: "range", LeaderID: "other"}
			}) &&
			answer("syncGroup", func(kafka.VerifCoordCall) kafka.VerifCoordReply {
				return kafka.VerifCoordReply{Assignments: map[string][]int32{"t": {0}}}
			}) &&
			answer("offsetFetch", func(kafka.VerifCoordCall) kafka.VerifCoordReply {
				return kafka.VerifCoordReply{Committed: []kafka.VerifGroupOffset{{Topic: "t", Partition: 0, Offset: 0}}}
			})
	}
	result := "stuck:schedule-not-reached"
	if join() && log.WaitCount(gm.Kind("R.Subscribe"), 1, 3*time.Second) {
		// Reader.run is held inside subscribe(generation 0); the generation ends meanwhile
		if answer("heartbeat", func(kafka.VerifCoordCall) kafka.VerifCoordReply { return kafka.VerifCoordReply{Err: kafka.Error(27)} }) &&
			log.WaitCount(gm.Kind("G.Closed"), 1, 3*time.Second) {
			close(relSub) // run continues: Start(commitLoop), Start(unsubscribe) on the ended generation → loose goroutines
			if log.WaitCount(func(e kafka.VerifEvent) bool { return e.Kind == "R.Unsubscribe" && e.Args[1] == "begin" }, 1, 3*time.Second) &&
				join() && log.WaitCount(gm.Kind("R.Subscribe"), 2, 3*time.Second) {
				// generation 1 is subscribed; wait until its fetcher dials, then let the late unsubscribe run
				d0 := atomic.LoadInt64(&dials)
				for i := 0; i < 200 && atomic.LoadInt64(&dials) == d0; i++ {
					time.Sleep(time.Millisecond)
				}
				close(relUnsub)
				time.Sleep(100 * time.Millisecond)
				d1 := atomic.LoadInt64(&dials)
				end := time.Now().Add(400 * time.Millisecond)
				for time.Now().Before(end) {
					if p := mock.Await(gm.Method("heartbeat"), 10*time.Millisecond); p != nil {
						mock.Answer(p, kafka.VerifCoordReply{})
					}
				}
				result = "stalled"
				if atomic.LoadInt64(&dials) > d1 {
					result = "alive"
				}
			}
		}
	}
	select {
	case <-relSub:
	default:
		close(relSub)
	}
	select {
	case <-relUnsub:
	default:
		close(relUnsub)
	}
	done := make(chan struct{})
	go func() { r.Close(); close(done) }()
	deadline := time.Now().Add(8 * time.Second)
	for {
		select {
		case <-done:
		default:
			if time.Now().After(deadline) {
				status = "stuck:close"
			} else {
				if p := mock.Await(func(*gm.Pending) bool { return true }, 2*time.Millisecond); p != nil {
					mock.Answer(p, ok(p.Call))
				}
				continue
			}
		}
		break
	}
	kafka.VerifSetSink(nil)
	kafka.VerifSetGroupHandler(nil)
	kafka.VerifStop()
	if status != "" {
		result = status
	}
	fmt.Fprintf(out, "d8reader\t%s\n", result)
}
