// Driver for property C03: (F) the real makeCommits / offsetStash.merge / fetchOffsets+makeAssignments on generated
// inputs; (T) real group Readers of /repo (built with -tags verif) against the mock coordinator: random histories of
// CommitMessages calls (sync and interval mode, multi-topic), coordinator errors on every call, rebalances, Close.
//
//	mkcommit <msgs>\t<commits>
//	merge <stash> <commits>\t<stash>
//	assign <start> <topics> <subs> <resp>\t<assignments>
//	ctrace <ev>;<ev>;…\t<driver status>
package main

import (
	"bufio"
	"context"
	"errors"
	"fmt"
	"io"
	"math/rand"
	"net"
	"os"
	"sort"
	"strconv"
	"strings"
	"sync"
	"time"

	kafka "github.com/segmentio/kafka-go"

	"kvharness/internal/gen"
	gm "kvharness/internal/groupmock"
)

var out = bufio.NewWriter(os.Stdout)
var netErr = errors.New("connection dropped")
var seenBody = map[string]bool{}

func msgsStr(ms []kafka.Message) string {
	if len(ms) == 0 {
		return "-"
	}
	parts := make([]string, len(ms))
	for i, m := range ms {
		parts[i] = fmt.Sprintf("%s/%d@%d", m.Topic, m.Partition, m.Offset)
	}
	return strings.Join(parts, ",")
}

func commitsStr(cs []kafka.VerifGroupCommit) string {
	if len(cs) == 0 {
		return "-"
	}
	parts := make([]string, len(cs))
	for i, c := range cs {
		parts[i] = fmt.Sprintf("%s/%d@%d", c.Topic, c.Partition, c.Offset)
	}
	return strings.Join(parts, ",")
}

// ---------------------------------------------------------------- F cases

func randMsgs(rng *rand.Rand, n int) []kafka.Message {
	ms := make([]kafka.Message, n)
	for i := range ms {
		ms[i] = kafka.Message{Topic: []string{"t", "u", "topic-3"}[rng.Intn(3)], Partition: rng.Intn(4), Offset: int64(rng.Intn(12))}
		if rng.Intn(20) == 0 {
			ms[i].Offset = int64(1) << uint(20+rng.Intn(40))
		}
	}
	return ms
}

func fCases(rng *rand.Rand, n int) {
	for i := 0; i < n; i++ {
		ms := randMsgs(rng, rng.Intn(6))
		cs := kafka.VerifGroupMakeCommits(ms...)
		fmt.Fprintf(out, "mkcommit %s\t%s\n", msgsStr(ms), commitsStr(cs))
		// merge into a stash built by earlier merges
		stash := map[string]map[int]int64{}
		kafka.VerifGroupStashMerge(stash, kafka.VerifGroupMakeCommits(randMsgs(rng, rng.Intn(6))...))
		before := gm.Offsets(stash)
		kafka.VerifGroupStashMerge(stash, cs)
		fmt.Fprintf(out, "merge %s %s\t%s\n", before, commitsStr(cs), gm.Offsets(stash))
	}
	for _, code := range []int{0, 3, 5, 6, 7, 14, 15, 16, 22, 25, 26, 27, 29, 30} {
		// a failed OffsetFetch (every error class; 0 = dropped connection) must fail fetchOffsets: no assignments
		var ferr error = netErr
		if code != 0 {
			ferr = kafka.Error(code)
		}
		as, err := kafka.VerifGroupStartOffsets([]string{"t", "u"}, kafka.LastOffset, map[string][]int32{"t": {0, 1}, "u": {0}},
			[]kafka.VerifGroupOffset{{Topic: "t", Partition: 0, Offset: 42}}, ferr)
		res := "err"
		if err == nil {
			res = fmt.Sprintf("assignments:%v", as)
		}
		fmt.Fprintf(out, "assignerr %d\t%s\n", code, strings.ReplaceAll(res, " ", "_"))
	}
	// what the library's Conn concludes from per-partition error codes on the wire: the first non-zero one
	pool := []int16{3, 5, 6, 7, 14, 15, 16, 22, 25, 26, 27, 29, 30}
	for i := 0; i < n/5; i++ {
		parts := 1 + rng.Intn(5)
		codes := make([]int16, parts)
		var cs []string
		for j := range codes {
			if rng.Intn(3) == 0 {
				codes[j] = pool[rng.Intn(len(pool))]
			}
			cs = append(cs, fmt.Sprint(codes[j]))
		}
		for _, m := range []string{"offsetCommit", "offsetFetch"} {
			fmt.Fprintf(out, "conncodes %s %s\t%s\n", m, strings.Join(cs, ","), kafka.VerifGroupWireConclusion(m, parts, codes))
		}
	}
	for i := 0; i < n; i++ {
		topics := [][]string{{"t"}, {"t", "u"}, {"u", "t", "w"}}[rng.Intn(3)]
		start := []int64{kafka.FirstOffset, kafka.LastOffset}[rng.Intn(2)]
		subs := map[string][]int32{}
		var subsStr []string
		for _, t := range []string{"t", "u", "w", "x"} {
			if rng.Intn(3) == 0 {
				continue
			}
			var ps []string
			for p := 0; p < 4; p++ {
				if rng.Intn(2) == 0 {
					subs[t] = append(subs[t], int32(p))
					ps = append(ps, strconv.Itoa(p))
				}
			}
			if subs[t] != nil {
				subsStr = append(subsStr, t+"="+strings.Join(ps, "+"))
			}
		}
		var resp []kafka.VerifGroupOffset
		for k := rng.Intn(10); k > 0; k-- {
			resp = append(resp, kafka.VerifGroupOffset{Topic: []string{"t", "u", "w"}[rng.Intn(3)], Partition: int32(rng.Intn(4)), Offset: int64(rng.Intn(9)) - 2})
		}
		if rng.Intn(2) == 0 { // the well-formed answer: every requested partition once, grouped by topic
			resp = nil
			for _, t := range topics {
				for _, p := range subs[t] {
					resp = append(resp, kafka.VerifGroupOffset{Topic: t, Partition: p, Offset: int64(rng.Intn(9)) - 2})
				}
			}
		}
		as, err := kafka.VerifGroupStartOffsets(topics, start, subs, resp, nil)
		res := "err"
		if err == nil {
			var parts []string
			for _, t := range topics {
				var ps []string
				for _, a := range as[t] {
					ps = append(ps, fmt.Sprintf("%d@%d", a.ID, a.Offset))
				}
				parts = append(parts, t+"="+strings.Join(ps, "+"))
			}
			res = strings.Join(parts, ",")
		}
		ss := strings.Join(subsStr, ",")
		if ss == "" {
			ss = "-"
		}
		fmt.Fprintf(out, "assign %d %s %s %s\t%s\n", start, strings.Join(topics, ","), ss, gm.Committed(resp), res)
	}
}

// ---------------------------------------------------------------- T scenarios

type commitCall struct {
	id     int
	done   chan struct{}
	cancel context.CancelFunc
}

type scen struct {
	rng      *rand.Rand
	mock     *gm.Mock
	log      *gm.Log
	r        *kafka.Reader
	sync     bool
	topics   []string
	status   []string
	calls    []*commitCall
	next     map[string]int64 // next offset "handed" per topic/partition
	memberN  int
	genID    int32
	errRate  int
	closeCh  chan struct{}
	closed   bool
	commitEr int
	wire     bool
	mu       sync.Mutex
}

func (s *scen) fail(f string, a ...interface{}) { s.status = append(s.status, fmt.Sprintf(f, a...)) }

func newScen(rng *rand.Rand, topics []string, syncMode bool, errRate int) *scen {
	s := &scen{rng: rng, mock: gm.New(), log: gm.NewLog(), sync: syncMode, topics: topics, next: map[string]int64{}, errRate: errRate, closeCh: make(chan struct{})}
	kafka.VerifGroupResetConnIDs()
	kafka.VerifStart()
	kafka.VerifSetSink(s.log.Sink)
	s.wire = rng.Intn(2) == 0
	kafka.VerifSetGroupWire(s.wire)
	kafka.VerifSetGroupHandler(s.mock.Handle)
	cfg := kafka.ReaderConfig{
		Brokers: []string{"b:9092"}, GroupID: "grp",
		HeartbeatInterval: time.Duration(1+rng.Intn(3)) * time.Millisecond, JoinGroupBackoff: 2 * time.Millisecond,
		ReadBackoffMin: 50 * time.Millisecond, ReadBackoffMax: 200 * time.Millisecond, MaxAttempts: 2,
		StartOffset: []int64{kafka.FirstOffset, kafka.LastOffset}[rng.Intn(2)],
		Dialer: &kafka.Dialer{DialFunc: func(ctx context.Context, network, addr string) (net.Conn, error) {
			return nil, errors.New("no broker in this harness")
		}},
	}
	if len(topics) == 1 {
		cfg.Topic = topics[0]
	} else {
		cfg.GroupTopics = topics
	}
	if !syncMode {
		cfg.CommitInterval = time.Duration(2+rng.Intn(4)) * time.Millisecond
	}
	s.r = kafka.NewReader(cfg)
	return s
}

func (s *scen) okReply(c kafka.VerifCoordCall) kafka.VerifCoordReply {
	switch c.Method {
	case "findCoordinator":
		return kafka.VerifCoordReply{Host: "coord", Port: 9092}
	case "joinGroup":
		m := c.MemberID
		if m == "" {
			s.memberN++
			m = fmt.Sprintf("m%d", s.memberN)
		}
		s.genID++
		return kafka.VerifCoordReply{MemberID: m, GenerationID: s.genID, Protocol: "range", LeaderID: "other"}
	case "syncGroup":
		a := map[string][]int32{}
		for _, t := range s.topics {
			for i := 0; i < 3; i++ {
				if s.rng.Intn(3) > 0 {
					a[t] = append(a[t], int32(i))
				}
			}
		}
		return kafka.VerifCoordReply{Assignments: a}
	case "offsetFetch":
		var cm []kafka.VerifGroupOffset
		for _, t := range c.Topics {
			for _, p := range c.Partitions[t] {
				if s.rng.Intn(8) == 0 {
					continue // partition missing from the answer
				}
				cm = append(cm, kafka.VerifGroupOffset{Topic: t, Partition: p, Offset: int64(s.rng.Intn(6)) - 1})
			}
		}
		return kafka.VerifCoordReply{Committed: cm}
	}
	return kafka.VerifCoordReply{}
}

func (s *scen) reply(c kafka.VerifCoordCall) kafka.VerifCoordReply {
	if c.Method == "offsetCommit" {
		// commit failures cost >= 100 ms of real back-off each: keep them rare
		if s.commitEr < 6 && s.rng.Intn(100) < s.errRate {
			s.commitEr++
			codes := []int{27, 22, 25, 16}
			i := s.rng.Intn(len(codes) + 1)
			if i == len(codes) {
				return kafka.VerifCoordReply{Err: netErr}
			}
			// byte-level path: the refusal is on every entry of the answer, on the last one only, or on one entry anywhere
			// (entries in the order of the request the library sent); the coordinator's decision is "refused" in all three
			r := kafka.VerifCoordReply{Err: kafka.Error(codes[i])}
			n := 0
			for _, ps := range c.Offsets {
				n += len(ps)
			}
			switch s.rng.Intn(3) {
			case 1:
				r.ErrLast = true
			case 2:
				if n > 0 {
					r.Codes = make([]int16, n)
					r.Codes[s.rng.Intn(n)] = int16(codes[i])
				}
			}
			return r
		}
		return kafka.VerifCoordReply{}
	}
	if s.rng.Intn(100) >= s.errRate {
		return s.okReply(c)
	}
	// every error class on every call (incl. UnknownTopicOrPartition on fetch-offsets)
	pool := []int{3, 5, 6, 7, 14, 15, 16, 22, 25, 26, 27, 29, 30}
	i := s.rng.Intn(len(pool) + 2)
	if c.Method == "connect" || i >= len(pool) {
		return kafka.VerifCoordReply{Err: netErr}
	}
	return kafka.VerifCoordReply{Err: kafka.Error(pool[i])}
}

func (s *scen) commitCall() {
	n := s.rng.Intn(4)
	if n == 0 && s.rng.Intn(3) > 0 {
		n = 1
	}
	ms := make([]kafka.Message, n)
	for i := range ms {
		t := s.topics[s.rng.Intn(len(s.topics))]
		p := s.rng.Intn(3)
		key := fmt.Sprintf("%s/%d", t, p)
		off := s.next[key]
		switch s.rng.Intn(6) {
		case 0: // an older message again
			if off > 0 {
				off = s.rng.Int63n(off)
			}
		default:
			off += int64(s.rng.Intn(3))
			s.next[key] = off + 1
		}
		ms[i] = kafka.Message{Topic: t, Partition: p, Offset: off}
	}
	ctx, cancel := context.WithCancel(context.Background())
	c := &commitCall{id: len(s.calls), done: make(chan struct{}), cancel: cancel}
	s.calls = append(s.calls, c)
	kafka.VerifGroupEmit("H.CommitCall", c.id, msgsStr(ms))
	go func() {
		err := s.r.CommitMessages(ctx, ms...)
		res := "fail"
		switch {
		case err == nil:
			res = "nil"
		case errors.Is(err, context.Canceled):
			res = "ctx"
		case errors.Is(err, io.ErrClosedPipe):
			res = "closed"
		}
		kafka.VerifGroupEmit("H.CommitRet", c.id, res)
		close(c.done)
	}()
}

func (c *commitCall) finished() bool {
	select {
	case <-c.done:
		return true
	default:
		return false
	}
}

func (s *scen) outstanding() int {
	n := 0
	for _, c := range s.calls {
		if !c.finished() {
			n++
		}
	}
	return n
}

func (s *scen) run(steps int) {
	for i := 0; i < steps; i++ {
		s.log.Settle(150*time.Microsecond, 3*time.Millisecond)
		var acts []func()
		pend := s.mock.Snapshot()
		for _, p := range pend {
			p := p
			w := 4
			if p.Call.Method == "heartbeat" {
				w = 1
			}
			for j := 0; j < w; j++ {
				acts = append(acts, func() {
					if p.Call.Method == "heartbeat" && s.rng.Intn(100) < 85 {
						s.mock.Answer(p, kafka.VerifCoordReply{})
						return
					}
					s.mock.Answer(p, s.reply(p.Call))
				})
			}
		}
		if s.outstanding() < 3 && len(s.calls) < 40 {
			for j := 0; j < 3; j++ {
				acts = append(acts, s.commitCall)
			}
		}
		if len(pend) == 0 && (len(acts) == 0 || s.rng.Intn(3) == 0) {
			s.mock.AwaitAny(10 * time.Millisecond)
			continue
		}
		acts[s.rng.Intn(len(acts))]()
	}
	s.finish()
}

func (s *scen) finish() {
	go func() {
		s.r.Close()
		close(s.closeCh)
	}()
	deadline := time.Now().Add(10 * time.Second)
	for {
		select {
		case <-s.closeCh:
		default:
			if time.Now().After(deadline) {
				s.fail("stuck:close")
			} else {
				if p := s.mock.Await(func(*gm.Pending) bool { return true }, 2*time.Millisecond); p != nil {
					s.mock.Answer(p, s.okReply(p.Call))
				}
				continue
			}
		}
		break
	}
	for _, c := range s.calls {
		select {
		case <-c.done:
		case <-time.After(300 * time.Millisecond):
			c.cancel() // a request still queued when the reader closed is never answered: give up through the ctx
			select {
			case <-c.done:
			case <-time.After(2 * time.Second):
				s.fail("stuck:commit-call")
			}
		}
	}
	for _, p := range s.mock.Snapshot() {
		s.mock.Answer(p, s.okReply(p.Call))
	}
	time.Sleep(300 * time.Microsecond)
}

func b01(s string) string {
	if s == "true" {
		return "1"
	}
	return "0"
}

// sortCommits sorts a "t/p@o,…" rendering (OffsetCommit requests are built by ranging over a map).
func sortCommits(s string) string {
	if s == "-" {
		return s
	}
	p := strings.Split(s, ",")
	sort.Strings(p)
	return strings.Join(p, ",")
}

func (s *scen) emit() {
	kafka.VerifSetSink(nil)
	kafka.VerifSetGroupHandler(nil)
	evs := kafka.VerifStop()
	var toks []string
	add := func(t string) { toks = append(toks, t) }
	lastAssign, lastCommitted, lastFetchTopics := "-", "-", ""
	pendAtt := map[string][2]string{}
	genIDs := map[string]string{} // generation pointer id -> "<generation id>:<member id>"
	// two commit loops can be active at once (a late-started loop of an ended generation, D8 shape): the first active
	// one is the model's main component, a loop that begins meanwhile the second ("L!" prefix)
	slot := map[string]string{} // generation pointer id -> "" | "L!"
	active := map[string]string{}
	tagOf := func(gen string) string { return slot[gen] }
	tagOfIDs := func(ids string) string { // an OffsetCommit is attributed by the generation/member ids it carries
		for g, t := range slot {
			if _, on := active[g]; on && genIDs[g] == ids && t == "L!" {
				return "L!"
			}
		}
		return ""
	}
	for _, e := range evs {
		a := e.Args
		if e.Kind == "CL.Begin" {
			t := ""
			for _, u := range active {
				if u == "" {
					t = "L!"
				}
			}
			slot[a[1]] = t
			active[a[1]] = t
		}
		if strings.HasPrefix(e.Kind, "CL.") && len(a) > 1 {
			pre := tagOf(a[1])
			_ = pre
		}
		nBefore := len(toks)
		switch e.Kind {
		case "H.CommitCall":
			add("call:" + a[0] + ":" + a[1])
		case "H.CommitRet":
			add("ret:" + a[0] + ":" + a[1])
		case "CL.Begin":
			add("begin:" + b01(a[2]) + ":" + genIDs[a[1]])
		case "CL.Deq":
			add("deq:" + a[2] + ":" + b01(strconv.FormatBool(a[3] == "drain")))
		case "M.Call":
			if a[1] == "offsetFetch" {
				lastFetchTopics = a[4]
			}
		case "M.Ret":
			switch a[1] {
			case "offsetCommit":
				// the request's offsets were journalled with the call; find them again (same conn, latest call)
				offs, ack := s.lastCommitOffsets(evs, e.Seq), b01(strconv.FormatBool(a[2] == "-"))
				ids := a[4] + ":" + a[3] // generation id and member id of the request
				if s.wire { // the library's own conclusion follows as M.Wire
					pendAtt[a[0]] = [2]string{offs, ack + ":" + ids}
				} else {
					add(tagOfIDs(ids) + "att:" + offs + ":" + ack + ":" + ack + ":" + ids)
				}
			case "syncGroup":
				if a[2] == "-" {
					lastAssign = a[10]
				}
			case "offsetFetch":
				add("fetch:" + b01(strconv.FormatBool(a[2] == "-")))
				if a[2] == "-" {
					lastCommitted = a[11]
				}
			}
		case "M.Wire":
			if a[1] == "offsetCommit" {
				if pa, ok := pendAtt[a[0]]; ok {
					delete(pendAtt, a[0])
					// att:<offsets>:<what the library concluded>:<what the coordinator decided>
					idp := strings.SplitN(pa[1], ":", 2)
					add(tagOfIDs(idp[1]) + "att:" + pa[0] + ":" + b01(strconv.FormatBool(a[2] == "-")) + ":" + pa[1])
				}
			}
		case "CL.RetryAbort":
			add("abort")
		case "CL.Reply":
			add("reply:" + b01(strconv.FormatBool(a[2] == "nil")))
		case "CL.Replied":
			add("replied")
		case "CL.Reset":
			add("reset")
		case "CL.Tick":
			add("tick")
		case "CL.GenEnd":
			add("genEnd")
		case "CL.End":
			add("endLoop")
		case "G.New":
			genIDs[a[1]] = a[2] + ":" + gm.Mem(a[3])
			add("gnew:" + a[4])
			// in-situ case for the assignment model
			fmt.Fprintf(out, "assign %d %s %s %s\t%s\n", s.r.Config().StartOffset, lastFetchTopics, assignToSubs(lastAssign), lastCommitted, assignmentsToRes(a[4], strings.Split(lastFetchTopics, ",")))
		case "R.Subscribe":
			add("sub:" + a[1])
		}
		if strings.HasPrefix(e.Kind, "CL.") && len(a) > 1 && tagOf(a[1]) != "" {
			for i := nBefore; i < len(toks); i++ {
				toks[i] = tagOf(a[1]) + toks[i]
			}
		}
		if e.Kind == "CL.End" {
			delete(active, a[1])
		}
	}
	st := "ok"
	if len(s.status) > 0 {
		st = strings.Join(s.status, ",")
	}
	if len(toks) == 0 {
		toks = []string{"begin:1", "genEnd", "endLoop"}
	}
	mode := "interval"
	if s.sync {
		mode = "sync"
	}
	fmt.Fprintf(out, "ctrace %s %s\t%s\n", mode, strings.Join(toks, ";"), st)
	for _, l := range s.mock.TakeBodies() {
		if !seenBody[l] {
			seenBody[l] = true
			fmt.Fprintln(out, l)
		}
	}
}

// lastCommitOffsets finds the offsets of the OffsetCommit call that the M.Ret at seq answers.
func (s *scen) lastCommitOffsets(evs []kafka.VerifEvent, seq int) string {
	conn := evs[seq].Args[0]
	for i := seq - 1; i >= 0; i-- {
		if evs[i].Kind == "M.Call" && evs[i].Args[1] == "offsetCommit" && evs[i].Args[0] == conn {
			return evs[i].Args[5]
		}
	}
	return "?"
}

// "t/0,t/2,u/1" -> "t=0+2,u=1"
func assignToSubs(a string) string {
	if a == "-" {
		return "-"
	}
	order := []string{}
	by := map[string][]string{}
	for _, e := range strings.Split(a, ",") {
		i := strings.LastIndex(e, "/")
		t, p := e[:i], e[i+1:]
		if _, ok := by[t]; !ok {
			order = append(order, t)
		}
		by[t] = append(by[t], p)
	}
	var parts []string
	for _, t := range order {
		parts = append(parts, t+"="+strings.Join(by[t], "+"))
	}
	return strings.Join(parts, ",")
}

// "t/0@5,t/2@-1" + topics -> "t=0@5+2@-1,u="
func assignmentsToRes(a string, topics []string) string {
	by := map[string][]string{}
	if a != "-" {
		for _, e := range strings.Split(a, ",") {
			i := strings.LastIndex(e, "/")
			by[e[:i]] = append(by[e[:i]], e[i+1:])
		}
	}
	var parts []string
	for _, t := range topics {
		parts = append(parts, t+"="+strings.Join(by[t], "+"))
	}
	return strings.Join(parts, ",")
}

func main() {
	defer out.Flush()
	rng := gen.New()
	nF, nT := 300, 40
	if gen.Thorough() {
		nF, nT = 3000, 400
	}
	if len(os.Args) > 1 && os.Args[1] == "reconnect" {
		for i := 0; i < 4; i++ {
			reconnectScenario(rng)
		}
		return
	}
	if len(os.Args) > 1 && os.Args[1] == "partial" {
		scenarioPartialRefusal(rng)
		return
	}
	if len(os.Args) > 1 && os.Args[1] == "multipart" {
		for i := 0; i < 4; i++ {
			multiPartScenario(rng)
		}
		return
	}
	if len(os.Args) > 1 && os.Args[1] == "lateloop" {
		scenarioLateLoop()
		return
	}
	if len(os.Args) > 1 && os.Args[1] == "d30" {
		scenarioD30()
		return
	}
	if len(os.Args) > 1 && os.Args[1] == "dataplane" {
		for i := 0; i < 6; i++ {
			dataPlaneScenario(rng, 2+rng.Intn(3))
		}
		return
	}
	if len(os.Args) > 1 && os.Args[1] == "d8reader" {
		scenarioD8Reader()
		return
	}
	fCases(rng, nF)
	scenarioD8Reader()
	scenarioD30()
	scenarioLateLoop()
	scenarioPartialRefusal(rng)
	for i := 0; i < nT; i++ {
		topics := [][]string{{"t"}, {"t", "u"}, {"a", "b", "c"}}[rng.Intn(3)]
		s := newScen(rng, topics, rng.Intn(2) == 0, []int{0, 10, 20}[rng.Intn(3)])
		s.run(40 + rng.Intn(80))
		s.emit()
	}
	nD := 6
	if gen.Thorough() {
		nD = 40
	}
	for i := 0; i < nD; i++ {
		dataPlaneScenario(rng, 2+rng.Intn(3))
	}
	nR := 4
	if gen.Thorough() {
		nR = 30
	}
	for i := 0; i < nR; i++ {
		reconnectScenario(rng)
	}
	nP := 4
	if gen.Thorough() {
		nP = 30
	}
	for i := 0; i < nP; i++ {
		multiPartScenario(rng)
	}
	nM := 12
	if gen.Thorough() {
		nM = 120
	}
	for i := 0; i < nM; i++ {
		multiScenario(rng, 2+rng.Intn(2), rng.Intn(2) == 0, 120+rng.Intn(120))
	}
}
