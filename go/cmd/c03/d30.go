package main

// C03-D30: ReadMessage = FetchMessage + synchronous CommitMessages; when the commit fails (all retries) ReadMessage
// returns the error and DROPS the message it had already taken off the queue.  If the failure is transient and does not
// end the generation (e.g. CoordinatorLoadInProgress / RequestTimedOut on OffsetCommit while heartbeats keep succeeding),
// the next ReadMessage hands out the NEXT record and its commit covers the dropped one: a record the application never
// received is covered by an acknowledged commit (delivery gap).
//
//	gtrace t/0 …   (same format as the data-plane scenarios; deliveries = what ReadMessage returned)

import (
	"context"
	"fmt"
	"strings"
	"sync"
	"time"

	kafka "github.com/segmentio/kafka-go"

	"kvharness/internal/connfake"
	gm "kvharness/internal/groupmock"
)

func scenarioD30() {
	tb := connfake.NewTBroker("t")
	mock, log := gm.New(), gm.NewLog()
	kafka.VerifGroupResetConnIDs()
	kafka.VerifStart()
	kafka.VerifSetSink(log.Sink)
	kafka.VerifSetGroupWire(false)
	var mu sync.Mutex
	failCommits := 3 // the first three OffsetCommit attempts (= one commitOffsetsWithRetry) fail with a transient error
	mock.Auto = func(c kafka.VerifCoordCall) (kafka.VerifCoordReply, bool) {
		mu.Lock()
		defer mu.Unlock()
		switch c.Method {
		case "findCoordinator":
			return kafka.VerifCoordReply{Host: "coord", Port: 9092}, true
		case "joinGroup":
			return kafka.VerifCoordReply{MemberID: "m1", GenerationID: 1, Protocol: "range", LeaderID: "other"}, true
		case "syncGroup":
			return kafka.VerifCoordReply{Assignments: map[string][]int32{"t": {0}}}, true
		case "offsetFetch":
			kafka.VerifGroupEmit("S.Fetch", 0, "t/0@-1")
			return kafka.VerifCoordReply{Committed: []kafka.VerifGroupOffset{{Topic: "t", Partition: 0, Offset: -1}}}, true
		case "offsetCommit":
			if failCommits > 0 {
				failCommits--
				kafka.VerifGroupEmit("S.Commit", 0, gm.Offsets(c.Offsets), false)
				return kafka.VerifCoordReply{Err: kafka.Error(14)}, true // CoordinatorLoadInProgress
			}
			kafka.VerifGroupEmit("S.Commit", 0, gm.Offsets(c.Offsets), true)
			return kafka.VerifCoordReply{}, true
		}
		return kafka.VerifCoordReply{}, true // heartbeats keep succeeding: the generation stays alive
	}
	kafka.VerifSetGroupHandler(mock.Handle)
	for i := 0; i < 2; i++ {
		kafka.VerifGroupEmit("H.Produce", "t/0")
		tb.Append(connfake.Msg{Value: fmt.Sprint(i)})
	}
	r := kafka.NewReader(kafka.ReaderConfig{
		Brokers: []string{"fake:9092"}, GroupID: "grp", Topic: "t", Dialer: &kafka.Dialer{DialFunc: tb.Dial, Timeout: 300 * time.Millisecond},
		MinBytes: 1, MaxBytes: 1 << 20, MaxWait: 20 * time.Millisecond, ReadBatchTimeout: 300 * time.Millisecond,
		ReadBackoffMin: time.Millisecond, ReadBackoffMax: 3 * time.Millisecond, MaxAttempts: 2, ReadLagInterval: -1,
		HeartbeatInterval: 5 * time.Millisecond, JoinGroupBackoff: 2 * time.Millisecond, StartOffset: kafka.FirstOffset,
	})
	ctx, cancel := context.WithTimeout(context.Background(), 5*time.Second)
	status := "ok"
	got := 0
	for calls := 0; calls < 3 && got < 1; calls++ {
		m, err := r.ReadMessage(ctx)
		if err != nil {
			kafka.VerifGroupEmit("H.ReadErr", kafka.VerifGroupErrClass(err))
			continue
		}
		kafka.VerifGroupEmit("H.Deliver", 0, "t/0", m.Offset)
		got++
	}
	cancel()
	done := make(chan struct{})
	go func() { r.Close(); close(done) }()
	select {
	case <-done:
	case <-time.After(8 * time.Second):
		status = "stuck:close"
	}
	kafka.VerifSetSink(nil)
	kafka.VerifSetGroupHandler(nil)
	evs := kafka.VerifStop()
	var toks []string
	for _, e := range evs {
		a := e.Args
		switch e.Kind {
		case "H.Produce":
			toks = append(toks, "produce")
		case "S.Fetch":
			toks = append(toks, "assign:0:0")
		case "R.Subscribe":
			if a[2] != "true" && a[1] != "-" {
				toks = append(toks, "sub:0:0")
			}
		case "H.Deliver":
			toks = append(toks, "deliver:0:"+a[2])
		case "RF.Accept":
			if a[5] != "true" {
				toks = append(toks, "taken:0:"+a[4])
			}
		case "S.Commit":
			if a[1] != "-" {
				toks = append(toks, fmt.Sprintf("commit:0:%s:%s", a[1][strings.LastIndex(a[1], "@")+1:], b01(a[2])))
			}
		}
	}
	fmt.Fprintf(out, "gtrace t/0 %s\t%s\n", strings.Join(toks, ";"), status)
}
