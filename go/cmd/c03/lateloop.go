package main

// Two commit loops at once (D8 shape): generation 0 ends while Reader.run is held inside subscribe, so its commit loop is
// started late (unaccounted) with a cancelled context; it drains a queued CommitMessages request and its OffsetCommit is
// held by the coordinator while generation 1 is joined and ITS commit loop serves another request.  The recorded trace
// (`ctrace sync …`, events of the second loop prefixed "L!") is replayed through the two-loop model `cstep2`.

import (
	"context"
	"errors"
	"math/rand"
	"net"
	"sync"
	"time"

	kafka "github.com/segmentio/kafka-go"

	gm "kvharness/internal/groupmock"
)

func scenarioLateLoop() {
	mock, log := gm.New(), gm.NewLog()
	relSub := make(chan struct{})
	var mu sync.Mutex
	subs := 0
	kafka.VerifGroupResetConnIDs()
	kafka.VerifStart()
	kafka.VerifSetSink(func(e kafka.VerifEvent) {
		log.Sink(e)
		if e.Kind == "R.Subscribe" {
			mu.Lock()
			subs++
			first := subs == 1
			mu.Unlock()
			if first {
				<-relSub
			}
		}
	})
	kafka.VerifSetGroupWire(false)
	kafka.VerifSetGroupHandler(mock.Handle)
	s := &scen{rng: rand.New(rand.NewSource(1)), mock: mock, log: log, sync: true, topics: []string{"t"}, next: map[string]int64{}, closeCh: make(chan struct{})}
	s.r = kafka.NewReader(kafka.ReaderConfig{
		Brokers: []string{"b:9092"}, GroupID: "grp", Topic: "t",
		HeartbeatInterval: 2 * time.Millisecond, JoinGroupBackoff: 2 * time.Millisecond,
		ReadBackoffMin: 50 * time.Millisecond, ReadBackoffMax: 100 * time.Millisecond, MaxAttempts: 2,
		Dialer: &kafka.Dialer{DialFunc: func(ctx context.Context, network, addr string) (net.Conn, error) {
			return nil, errors.New("no broker in this harness")
		}},
	})
	genID := int32(0)
	answer := func(method string, rep func(kafka.VerifCoordCall) kafka.VerifCoordReply) bool {
		p := mock.Await(gm.Method(method), 3*time.Second)
		if p == nil {
			s.fail("stuck:await-" + method)
			return false
		}
		mock.Answer(p, rep(p.Call))
		return true
	}
	ok := func(kafka.VerifCoordCall) kafka.VerifCoordReply { return kafka.VerifCoordReply{Host: "coord", Port: 9092} }
	join := func() bool {
		genID++
		return answer("connect", ok) && answer("findCoordinator", ok) && answer("connect", ok) &&
			answer("joinGroup", func(kafka.VerifCoordCall) kafka.VerifCoordReply {
				return kafka.VerifCoordReply{MemberID: "m1", GenerationID: genID, Protocol: "range", LeaderID: "other"}
			}) &&
			answer("syncGroup", func(kafka.VerifCoordCall) kafka.VerifCoordReply {
				return kafka.VerifCoordReply{Assignments: map[string][]int32{"t": {0}}}
			}) &&
			answer("offsetFetch", func(kafka.VerifCoordCall) kafka.VerifCoordReply {
				return kafka.VerifCoordReply{Committed: []kafka.VerifGroupOffset{{Topic: "t", Partition: 0, Offset: 0}}}
			})
	}
	commit := func(off int64) *commitCall {
		ctx, cancel := context.WithCancel(context.Background())
		c := &commitCall{id: len(s.calls), done: make(chan struct{}), cancel: cancel}
		s.calls = append(s.calls, c)
		ms := []kafka.Message{{Topic: "t", Partition: 0, Offset: off}}
		kafka.VerifGroupEmit("H.CommitCall", c.id, msgsStr(ms))
		go func() {
			err := s.r.CommitMessages(ctx, ms...)
			res := "fail"
			if err == nil {
				res = "nil"
			} else if errors.Is(err, context.Canceled) {
				res = "ctx"
			}
			kafka.VerifGroupEmit("H.CommitRet", c.id, res)
			close(c.done)
		}()
		return c
	}
	isCommitOf := func(gen int32) func(*gm.Pending) bool {
		return func(p *gm.Pending) bool { return p.Call.Method == "offsetCommit" && p.Call.GenerationID == gen }
	}
	if join() && log.WaitCount(gm.Kind("R.Subscribe"), 1, 3*time.Second) {
		// Reader.run is held inside subscribe(generation 0); the generation ends; a request is queued
		if answer("heartbeat", func(kafka.VerifCoordCall) kafka.VerifCoordReply { return kafka.VerifCoordReply{Err: kafka.Error(27)} }) &&
			log.WaitCount(gm.Kind("G.Closed"), 1, 3*time.Second) {
			commit(4)
			time.Sleep(2 * time.Millisecond)
			close(relSub) // the commit loop of generation 0 starts late: drains the request, sends OffsetCommit (held)
			late := mock.Await(isCommitOf(1), 3*time.Second)
			if late == nil {
				s.fail("stuck:late-commit")
			} else if join() && log.WaitCount(gm.Kind("CL.Begin"), 2, 3*time.Second) {
				commit(6) // served by generation 1's loop while the late loop is still inside its commit
				if p := mock.Await(isCommitOf(2), 3*time.Second); p != nil {
					mock.Answer(p, kafka.VerifCoordReply{})
				} else {
					s.fail("stuck:second-commit")
				}
				<-s.calls[1].done
				mock.Answer(late, kafka.VerifCoordReply{Err: kafka.Error(22)}) // stale generation; the retry succeeds
				if p := mock.Await(isCommitOf(1), 3*time.Second); p != nil {
					mock.Answer(p, kafka.VerifCoordReply{})
				}
				<-s.calls[0].done
			}
		}
	}
	select {
	case <-relSub:
	default:
		close(relSub)
	}
	s.finish()
	s.emit()
}
