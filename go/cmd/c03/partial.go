package main

// A per-partition refusal anywhere in a MULTI-TOPIC OffsetCommit answer: a group Reader subscribed to three topics commits
// one message of each in ONE synchronous CommitMessages; the coordinator (byte-level path: the real timeoutCoordinator /
// Conn.offsetCommit decode the answer) refuses exactly one entry of the answer — the k-th in the order of the REQUEST the
// library sent, for every k, so also entries of a topic that is not the first of the answer — on every attempt.
// "when a synchronous CommitMessages returns nil the coordinator has recorded at least that offset": the call must fail
// with that code.  Output: the existing observation
//
//	conncodes offsetCommit <codes of the answer's entries>\t<what CommitMessages returned: nil | k<code> | other>
//
// (oracle: the first non-zero code of the answer, over ALL its topics).

import (
	"context"
	"errors"
	"fmt"
	"math/rand"
	"net"
	"strings"
	"sync"
	"time"

	kafka "github.com/segmentio/kafka-go"

	gm "kvharness/internal/groupmock"
)

func scenarioPartialRefusal(rng *rand.Rand) {
	topics := []string{"t", "u", "w"}
	mock, log := gm.New(), gm.NewLog()
	kafka.VerifGroupResetConnIDs()
	kafka.VerifStart()
	kafka.VerifSetSink(log.Sink)
	kafka.VerifSetGroupWire(true)
	var mu sync.Mutex
	refuse, code := -1, int16(0) // entry to refuse in every OffsetCommit answer (-1: none)
	mock.Auto = func(c kafka.VerifCoordCall) (kafka.VerifCoordReply, bool) {
		mu.Lock()
		defer mu.Unlock()
		switch c.Method {
		case "findCoordinator":
			return kafka.VerifCoordReply{Host: "coord", Port: 9092}, true
		case "joinGroup":
			return kafka.VerifCoordReply{MemberID: "m1", GenerationID: 1, Protocol: "range", LeaderID: "other"}, true
		case "syncGroup":
			return kafka.VerifCoordReply{Assignments: map[string][]int32{"t": {0}, "u": {0}, "w": {0}}}, true
		case "offsetFetch":
			var cm []kafka.VerifGroupOffset
			for _, t := range topics {
				cm = append(cm, kafka.VerifGroupOffset{Topic: t, Partition: 0, Offset: -1})
			}
			return kafka.VerifCoordReply{Committed: cm}, true
		case "offsetCommit":
			n := 0
			for _, ps := range c.Offsets {
				n += len(ps)
			}
			if refuse >= 0 && refuse < n {
				cs := make([]int16, n)
				cs[refuse] = code
				return kafka.VerifCoordReply{Err: kafka.Error(code), Codes: cs}, true
			}
			return kafka.VerifCoordReply{}, true
		}
		return kafka.VerifCoordReply{}, true
	}
	kafka.VerifSetGroupHandler(mock.Handle)
	r := kafka.NewReader(kafka.ReaderConfig{
		Brokers: []string{"b:9092"}, GroupID: "grp", GroupTopics: topics,
		HeartbeatInterval: 5 * time.Millisecond, JoinGroupBackoff: 2 * time.Millisecond, MaxAttempts: 1,
		ReadBackoffMin: 50 * time.Millisecond, ReadBackoffMax: 100 * time.Millisecond,
		Dialer: &kafka.Dialer{DialFunc: func(ctx context.Context, network, addr string) (net.Conn, error) {
			return nil, errors.New("no broker in this harness")
		}},
	})
	var lines []string
	if log.WaitCount(gm.Kind("R.Subscribe"), 1, 5*time.Second) {
		pool := []int16{29, 12, 28, 3}
		for k := -1; k < len(topics); k++ { // -1: nothing refused (the commit must succeed), then each entry in turn
			mu.Lock()
			refuse, code = k, pool[rng.Intn(len(pool))]
			cd := code
			mu.Unlock()
			ms := make([]kafka.Message, len(topics))
			for i, t := range topics {
				ms[i] = kafka.Message{Topic: t, Partition: 0, Offset: int64(10*(k+2) + i)}
			}
			ctx, cancel := context.WithTimeout(context.Background(), 4*time.Second)
			err := r.CommitMessages(ctx, ms...)
			cancel()
			res := "nil"
			var ke kafka.Error
			switch {
			case err == nil:
			case errors.As(err, &ke):
				res = fmt.Sprintf("k%d", int(ke))
			default:
				res = "other"
			}
			cs := make([]string, len(topics))
			for i := range cs {
				cs[i] = "0"
				if i == k {
					cs[i] = fmt.Sprint(cd)
				}
			}
			lines = append(lines, fmt.Sprintf("conncodes offsetCommit %s\t%s", strings.Join(cs, ","), res))
		}
	} else {
		lines = append(lines, "conncodes offsetCommit 0\tstuck:subscribe")
	}
	r.Close()
	kafka.VerifSetSink(nil)
	kafka.VerifSetGroupHandler(nil)
	kafka.VerifSetGroupWire(false)
	kafka.VerifStop()
	for _, l := range lines {
		fmt.Fprintln(out, l)
	}
}
