package main

// Group Reader with a REAL data plane: the fetchers read from a fake broker (connfake.TBroker over net.Pipe: metadata,
// list-offsets, fetch), the coordinator is the mock.  The application is a goroutine looping FetchMessage (+ synchronous
// CommitMessages of some messages).  The script makes generation changes happen WHILE the application is blocked in
// FetchMessage (partition idle): before the very first join completes, and at every rebalance (heartbeat answered
// RebalanceInProgress), and lets records arrive only afterwards.  Output: one `gtrace t/0 …` line (see multi.go) whose
// deliveries are what FetchMessage really returned: per assignment they must be consecutive from the start position.

import (
	"context"
	"errors"
	"fmt"
	"io"
	"math/rand"
	"strings"
	"sync"
	"sync/atomic"
	"time"

	kafka "github.com/segmentio/kafka-go"

	"kvharness/internal/connfake"
	gm "kvharness/internal/groupmock"
)

func dataPlaneScenario(rng *rand.Rand, rounds int) {
	tb := connfake.NewTBroker("t")
	tb.FetchMax = 1 + rng.Intn(3)
	mock, log := gm.New(), gm.NewLog()
	kafka.VerifGroupResetConnIDs()
	kafka.VerifStart()
	kafka.VerifSetSink(log.Sink)
	kafka.VerifSetGroupWire(rng.Intn(2) == 0)
	var mu sync.Mutex
	committed := int64(-1)
	genID := int32(0)
	hbFail := false
	holdJoin := make(chan struct{})
	var holdOnce sync.Once
	mock.Auto = func(c kafka.VerifCoordCall) (kafka.VerifCoordReply, bool) {
		if c.Method == "joinGroup" {
			<-holdJoin // the first join is held until the application is blocked in FetchMessage
		}
		mu.Lock()
		defer mu.Unlock()
		switch c.Method {
		case "findCoordinator":
			return kafka.VerifCoordReply{Host: "coord", Port: 9092}, true
		case "joinGroup":
			genID++
			return kafka.VerifCoordReply{MemberID: "m1", GenerationID: genID, Protocol: "range", LeaderID: "other"}, true
		case "syncGroup":
			return kafka.VerifCoordReply{Assignments: map[string][]int32{"t": {0}}}, true
		case "offsetFetch":
			kafka.VerifGroupEmit("S.Fetch", 0, fmt.Sprintf("t/0@%d", committed))
			return kafka.VerifCoordReply{Committed: []kafka.VerifGroupOffset{{Topic: "t", Partition: 0, Offset: committed}}}, true
		case "heartbeat":
			if hbFail && c.GenerationID == genID {
				hbFail = false
				return kafka.VerifCoordReply{Err: kafka.Error(27)}, true
			}
			return kafka.VerifCoordReply{}, true
		case "offsetCommit":
			if c.GenerationID != genID {
				kafka.VerifGroupEmit("S.Commit", 0, gm.Offsets(c.Offsets), false)
				return kafka.VerifCoordReply{Err: kafka.Error(22)}, true
			}
			if o, ok := c.Offsets["t"][0]; ok {
				committed = o
			}
			kafka.VerifGroupEmit("S.Commit", 0, gm.Offsets(c.Offsets), true)
			return kafka.VerifCoordReply{}, true
		}
		return kafka.VerifCoordReply{}, true
	}
	kafka.VerifSetGroupHandler(mock.Handle)
	r := kafka.NewReader(kafka.ReaderConfig{
		Brokers: []string{"fake:9092"}, GroupID: "grp", Topic: "t", Dialer: &kafka.Dialer{DialFunc: tb.Dial, Timeout: 300 * time.Millisecond},
		MinBytes: 1, MaxBytes: 1 << 20, MaxWait: 20 * time.Millisecond, ReadBatchTimeout: 300 * time.Millisecond,
		ReadBackoffMin: time.Millisecond, ReadBackoffMax: 3 * time.Millisecond, MaxAttempts: 2, ReadLagInterval: -1,
		HeartbeatInterval: 3 * time.Millisecond, JoinGroupBackoff: 2 * time.Millisecond, StartOffset: kafka.FirstOffset,
	})
	ctx, cancel := context.WithCancel(context.Background())
	var lastDelivered int64 = -1
	var nDelivered int64
	commitEvery := 1 + rng.Intn(3)
	useRead := rng.Intn(3) == 0
	appDone := make(chan struct{})
	go func() { // the application
		defer close(appDone)
		for {
			var m kafka.Message
			var err error
			if useRead { // ReadMessage = FetchMessage + synchronous CommitMessages of that message
				m, err = r.ReadMessage(ctx)
				if err != nil && ctx.Err() == nil && !errors.Is(err, io.EOF) {
					continue // the commit failed (e.g. stale generation): the message was handed out nevertheless? no: it is not returned
				}
			} else {
				m, err = r.FetchMessage(ctx)
			}
			if err != nil {
				return
			}
			kafka.VerifGroupEmit("H.Deliver", 0, "t/0", m.Offset)
			atomic.StoreInt64(&lastDelivered, m.Offset)
			if n := atomic.AddInt64(&nDelivered, 1); !useRead && n%int64(commitEvery) == 0 {
				cctx, ccancel := context.WithTimeout(ctx, 2*time.Second)
				r.CommitMessages(cctx, m)
				ccancel()
			}
		}
	}()
	status := "ok"
	produced := int64(0)
	produce := func(n int) {
		for i := 0; i < n; i++ {
			kafka.VerifGroupEmit("H.Produce", "t/0")
			tb.Append(connfake.Msg{Value: fmt.Sprint(produced)})
			produced++
		}
	}
	waitDelivered := func() bool { // every record produced so far has reached the application
		deadline := time.Now().Add(1500 * time.Millisecond)
		for atomic.LoadInt64(&lastDelivered) < produced-1 {
			if time.Now().After(deadline) {
				return false
			}
			time.Sleep(time.Millisecond)
		}
		time.Sleep(5 * time.Millisecond) // let a trailing CommitMessages finish: the application is back in FetchMessage
		return true
	}
	// the application is already blocked in FetchMessage when the very first generation arrives
	if rng.Intn(2) == 0 {
		produce(rng.Intn(3))
	}
	time.Sleep(10 * time.Millisecond)
	holdOnce.Do(func() { close(holdJoin) })
	subs := 1
	if !log.WaitCount(gm.Kind("R.Subscribe"), subs, 3*time.Second) {
		status = "stuck:first-subscribe"
	}
	for round := 0; round < rounds && status == "ok"; round++ {
		produce(1 + rng.Intn(4))
		if !waitDelivered() {
			status = "undelivered"
			break
		}
		// rebalance while the application is blocked in FetchMessage on the idle partition
		mu.Lock()
		hbFail = true
		mu.Unlock()
		subs++
		if !log.WaitCount(gm.Kind("R.Subscribe"), subs, 3*time.Second) {
			status = "stuck:resubscribe"
			break
		}
		time.Sleep(time.Duration(rng.Intn(4)) * time.Millisecond)
	}
	if status == "ok" {
		produce(1 + rng.Intn(3))
		if !waitDelivered() {
			status = "undelivered"
		}
	}
	cancel()
	done := make(chan struct{})
	go func() { r.Close(); close(done) }()
	select {
	case <-done:
	case <-time.After(8 * time.Second):
		status = "stuck:close"
	}
	<-appDone
	kafka.VerifSetSink(nil)
	kafka.VerifSetGroupHandler(nil)
	evs := kafka.VerifStop()
	var toks []string
	first := func(o string) string {
		if strings.HasPrefix(o, "-") {
			return "0"
		}
		return o
	}
	for _, e := range evs {
		a := e.Args
		switch e.Kind {
		case "H.Produce":
			toks = append(toks, "produce")
		case "S.Fetch":
			toks = append(toks, "assign:0:"+first(a[1][strings.LastIndex(a[1], "@")+1:]))
		case "R.Subscribe":
			if a[2] != "true" && a[1] != "-" {
				toks = append(toks, "sub:0:"+first(a[1][strings.LastIndex(a[1], "@")+1:]))
			}
		case "H.Deliver":
			toks = append(toks, "deliver:0:"+a[2])
		case "RF.Accept":
			if useRead && a[5] != "true" { // ReadMessage mode: the Reader took the record (its commit precedes the return)
				toks = append(toks, "taken:0:"+a[4])
			}
		case "S.Commit":
			if a[1] != "-" {
				toks = append(toks, fmt.Sprintf("commit:0:%s:%s", a[1][strings.LastIndex(a[1], "@")+1:], b01(a[2])))
			}
		}
	}
	if len(toks) == 0 {
		toks = []string{"produce"}
	}
	// the front's own events (reader builder's RF.* hooks): fetcher started (tag, offset), message accepted / dropped
	// with the version FetchMessage had sampled
	var ft []string
	for _, e := range evs {
		a := e.Args
		switch e.Kind {
		case "RF.Start":
			ft = append(ft, fmt.Sprintf("start:%s:%s", a[2], first(a[3])))
		case "RF.Accept":
			if a[5] != "true" {
				ft = append(ft, fmt.Sprintf("acc:%s:%s:%s", a[2], a[3], a[4]))
			}
		case "RF.Drop":
			ft = append(ft, fmt.Sprintf("drop:%s:%s", a[2], a[3]))
		}
	}
	if len(ft) > 0 {
		fmt.Fprintf(out, "ftrace %s\tok\n", strings.Join(ft, ";"))
	}
	// "undelivered" is reported through the monitors (a record the broker stores is never handed out): keep the trace
	fmt.Fprintf(out, "gtrace t/0 %s\t%s\n", strings.Join(toks, ";"), status)
}
