// Driver for property C17: a response cut off at byte k.
//
// Conn path (REAL kafka.Conn of /repo, -tags verif, scripted broker over net.Pipe): for every Conn operation x
// negotiated version x response variant x cut position k the broker delivers exactly the first k bytes of the
// frame (size prefix + correlation id + body) and closes.  Output:
//
//	c17 <topic hex> <op>:<ver>:<offset>:<hwm> <body hex> <k> <next body hex>\t<res> <next> <deliver>
//
// res = ok | kafka:<code> | fail | fail:noprogress | panic | hang; next = outcome class of a following
// ReadLastOffset on the same Conn (k = frame length: the broker stays up and answers it); deliver (fetch) = whether
// the records handed out are a prefix of the records sent ("-" for other operations).
//
// Transport path: protocol.ReadResponse on every registered response type x version, frame built by
// protocol.WriteResponse from a reflectively filled message, read from the first k bytes through a bufio.Reader
// (Discard available), a plain io.Reader and a one-byte-at-a-time reader.  Output:
//
//	rr <api key> <ver> <frame len> <k> <reader>\t<ok <consumed>|err|panic>
package main

import (
	"bufio"
	"bytes"
	"fmt"
	"io"
	"math/rand"
	"os"
	"reflect"
	"sort"
	"strings"
	"sync"
	"testing/iotest"
	"time"

	kafka "github.com/segmentio/kafka-go"
	"github.com/segmentio/kafka-go/protocol"
	_ "github.com/segmentio/kafka-go/protocol/addoffsetstotxn"
	_ "github.com/segmentio/kafka-go/protocol/addpartitionstotxn"
	_ "github.com/segmentio/kafka-go/protocol/alterclientquotas"
	_ "github.com/segmentio/kafka-go/protocol/alterconfigs"
	_ "github.com/segmentio/kafka-go/protocol/alterpartitionreassignments"
	_ "github.com/segmentio/kafka-go/protocol/alteruserscramcredentials"
	_ "github.com/segmentio/kafka-go/protocol/apiversions"
	_ "github.com/segmentio/kafka-go/protocol/createacls"
	_ "github.com/segmentio/kafka-go/protocol/createpartitions"
	_ "github.com/segmentio/kafka-go/protocol/createtopics"
	_ "github.com/segmentio/kafka-go/protocol/deleteacls"
	_ "github.com/segmentio/kafka-go/protocol/deletegroups"
	_ "github.com/segmentio/kafka-go/protocol/deletetopics"
	_ "github.com/segmentio/kafka-go/protocol/describeacls"
	_ "github.com/segmentio/kafka-go/protocol/describeclientquotas"
	_ "github.com/segmentio/kafka-go/protocol/describeconfigs"
	_ "github.com/segmentio/kafka-go/protocol/describegroups"
	_ "github.com/segmentio/kafka-go/protocol/describeuserscramcredentials"
	_ "github.com/segmentio/kafka-go/protocol/electleaders"
	_ "github.com/segmentio/kafka-go/protocol/endtxn"
	_ "github.com/segmentio/kafka-go/protocol/fetch"
	_ "github.com/segmentio/kafka-go/protocol/findcoordinator"
	_ "github.com/segmentio/kafka-go/protocol/heartbeat"
	_ "github.com/segmentio/kafka-go/protocol/incrementalalterconfigs"
	_ "github.com/segmentio/kafka-go/protocol/initproducerid"
	_ "github.com/segmentio/kafka-go/protocol/joingroup"
	_ "github.com/segmentio/kafka-go/protocol/leavegroup"
	_ "github.com/segmentio/kafka-go/protocol/listgroups"
	_ "github.com/segmentio/kafka-go/protocol/listoffsets"
	_ "github.com/segmentio/kafka-go/protocol/listpartitionreassignments"
	_ "github.com/segmentio/kafka-go/protocol/metadata"
	_ "github.com/segmentio/kafka-go/protocol/offsetcommit"
	_ "github.com/segmentio/kafka-go/protocol/offsetdelete"
	_ "github.com/segmentio/kafka-go/protocol/offsetfetch"
	_ "github.com/segmentio/kafka-go/protocol/produce"
	"github.com/segmentio/kafka-go/protocol/saslauthenticate"
	_ "github.com/segmentio/kafka-go/protocol/saslhandshake"
	_ "github.com/segmentio/kafka-go/protocol/syncgroup"
	_ "github.com/segmentio/kafka-go/protocol/txnoffsetcommit"

	"kvharness/internal/connfake"
	"kvharness/internal/gen"
)

var out = bufio.NewWriter(os.Stdout)

const topic = "t"

var stats = map[string]int{}

// cuts returns the cut positions to try for a frame of n bytes (n itself = no cut).
func cuts(r *rand.Rand, n int, thorough bool, sample int) []int {
	set := map[int]bool{n: true}
	if thorough {
		for k := 0; k <= n; k++ {
			set[k] = true
		}
	} else {
		for k := 0; k <= 12 && k <= n; k++ {
			set[k] = true
		}
		for k := n - 4; k < n; k++ {
			if k >= 0 {
				set[k] = true
			}
		}
		for i := 0; i < sample && n > 0; i++ {
			set[r.Intn(n)] = true
		}
	}
	ks := make([]int, 0, len(set))
	for k := range set {
		ks = append(ks, k)
	}
	sort.Ints(ks)
	return ks
}

// ---------------------------------------------------------------------------------------------- Conn path

type variant struct {
	op   *connfake.Op
	v    int16
	body []byte
	sh   *connfake.Shape
	cuts []int // nil: the tier's default cut positions; else exactly these
}

func connVariants(r *rand.Rand, thorough bool) []variant {
	var vs []variant
	for _, op := range connfake.Ops {
		for _, v := range op.Versions {
			mk := func(errs []int16, sh *connfake.Shape) {
				w := &connfake.W{Errs: errs}
				op.Build(v, w, r, sh)
				vs = append(vs, variant{op: op, v: v, body: w.B, sh: sh})
			}
			if op.Name != "fetch" {
				mk(nil, &connfake.Shape{Topic: topic})
				mk([]int16{6}, &connfake.Shape{Topic: topic})
				continue
			}
			// fetch: error frame, empty at the watermark, and record sets in several physical layouts
			mk([]int16{6}, &connfake.Shape{Topic: topic, Offset: 5, HWM: 9})
			if v >= 7 {
				mk([]int16{0, 3}, &connfake.Shape{Topic: topic, Offset: 5, HWM: 9})
			}
			mk(nil, &connfake.Shape{Topic: topic, Offset: 7, HWM: 7})
			type layout struct {
				magic   int8
				n, b    int
				attrs   protocol.Attributes
				comment string
			}
			layouts := []layout{{2, 3, 1, 0, "v2 one batch"}, {2, 5, 2, 0, "v2 two batches"}, {1, 3, 1, 0, "v1 message set"}, {1, 3, 1, 1, "v1 gzip"}}
			if thorough {
				layouts = append(layouts, layout{2, 6, 3, 2, "v2 snappy three batches"}, layout{1, 4, 2, 2, "v1 snappy"})
			}
			for _, l := range layouts {
				if l.magic == 2 && v < 4 {
					continue
				}
				set, msgs, base, err := connfake.RecordSet(r, l.magic, int64(10+r.Intn(20)), l.n, l.b, l.attrs)
				if err != nil {
					fmt.Fprintln(os.Stderr, "c17: record set", l.comment, err)
					continue
				}
				mk(nil, &connfake.Shape{Topic: topic, Offset: base, HWM: base + int64(l.n), Set: set, Want: msgs})
			}
			// compressed v2 batches (the LAST batch compressed), every codec, in both tiers: EVERY cut position inside the
			// message set — the points where a codec sees a clean end of its input (offset 0 of the payload, the end of
			// a framing header, a block boundary) are among them; plus one multi-block snappy payload cut around every
			// block boundary of its xerial framing.
			if v >= 4 {
				for codec := protocol.Attributes(1); codec <= 4; codec++ {
					for _, b := range []int{1, 2} {
						set, msgs, base, err := connfake.RecordSet(r, 2, int64(10+r.Intn(20)), 2*b+1, b, codec)
						if err != nil {
							fmt.Fprintln(os.Stderr, "c17: compressed record set", codec, err)
							continue
						}
						mk(nil, &connfake.Shape{Topic: topic, Offset: base, HWM: base + int64(2*b+1), Set: set, Want: msgs})
						va := &vs[len(vs)-1]
						start := 8 + len(va.body) - len(set)
						for k := start - 2; k <= 8+len(va.body); k++ {
							va.cuts = append(va.cuts, k)
						}
						va.cuts = append(va.cuts, 0, 3, 8, 20)
					}
				}
				if v == 10 || thorough {
					set, msgs, base, err := connfake.RecordSetSized(r, 2, 40, 3, 1, 2, 30000)
					if err == nil {
						mk(nil, &connfake.Shape{Topic: topic, Offset: base, HWM: base + 3, Set: set, Want: msgs})
						va := &vs[len(vs)-1]
						start := 8 + len(va.body) - len(set)
						va.cuts = append(xerialBoundaries(set, start), start+30, start+61, start+62, 8+len(va.body)-1, 8+len(va.body))
					}
				}
			}
		}
	}
	return vs
}

// xerialBoundaries returns the frame offsets around every structural boundary of a xerial-framed snappy payload of a
// single v2 batch (batch header 61 bytes, then magic(8) version(4) compat(4), then blocks [int32 length][data]); nil
// if the payload is not framed that way.
func xerialBoundaries(set []byte, frameStart int) (ks []int) {
	const hdr = 61
	if len(set) < hdr+16 || string(set[hdr:hdr+8]) != "\x82SNAPPY\x00" {
		return nil
	}
	add := func(p int) {
		for d := -1; d <= 1; d++ {
			ks = append(ks, frameStart+p+d)
		}
	}
	add(hdr)
	add(hdr + 8)
	add(hdr + 16)
	p := hdr + 16
	for p+4 <= len(set) {
		n := int(set[p])<<24 | int(set[p+1])<<16 | int(set[p+2])<<8 | int(set[p+3])
		add(p + 4)
		p += 4 + n
		if p > len(set) {
			break
		}
		add(p)
	}
	return ks
}

// nextBody is the list-offsets answer scripted for the follow-up operation.
var nextBody = func() []byte {
	lo := &connfake.W{}
	connfake.OpByName("listOffsets").Build(1, lo, rand.New(rand.NewSource(1)), &connfake.Shape{Topic: topic})
	return lo.B
}()

func connCase(va variant, k int) (impl string, dur time.Duration) {
	return connCaseD(va, k, false, 5*time.Second, 6*time.Second)
}

// connCaseD: stall = after k bytes the broker goes silent instead of dropping the connection; only the Conn's
// deadline ends the wait.
func connCaseD(va variant, k int, stall bool, deadline, watchdog time.Duration) (impl string, dur time.Duration) {
	frameLen := 8 + len(va.body)
	t0 := time.Now()
	done := make(chan string, 1)
	go func() {
		res := ""
		next := "-"
		sh := *va.sh
		defer func() {
			if p := recover(); p != nil {
				stats["panic: "+fmt.Sprint(p)]++
				done <- fmt.Sprintf("panic %s %s", next, "-")
			}
		}()
		c, br := connfake.Start(topic, connfake.VersionTable(map[int16]int16{va.op.Key: va.v}))
		defer br.Stop()
		defer c.Close()
		c.SetDeadline(time.Now().Add(deadline))
		cut := k
		if k >= frameLen {
			cut = -1
		}
		br.Push(va.op.Key, connfake.Resp{Body: va.body, Cut: cut, Stall: stall})
		// the follow-up list-offsets answer (only reachable when the connection survived)
		br.Push(2, connfake.Resp{Body: nextBody, Cut: -1})
		_, err := va.op.Call(c, &sh)
		res = connfake.Outcome(err)
		_, err2 := c.ReadLastOffset()
		next = connfake.Outcome(err2)
		deliver := "-"
		if va.op.Name == "fetch" {
			deliver = sh.Deliver
		}
		done <- fmt.Sprintf("%s %s %s", res, next, deliver)
	}()
	select {
	case impl = <-done:
	case <-time.After(watchdog):
		impl = "hang - -"
	}
	return impl, time.Since(t0)
}

// stalled: the same sweep with a broker that goes silent after k bytes (no FIN): every operation must come back with an
// error when its deadline (300 ms here) expires — never later, never with data — and the Conn must not be reused.  The
// cases wait for their deadline: run 24 at a time.
func stalled(out *bufio.Writer, r *rand.Rand, thorough bool) (n, late int) {
	type job struct {
		va   variant
		k    int
		impl string
		d    time.Duration
	}
	var jobs []*job
	for _, va := range connVariants(r, thorough) {
		fl := 8 + len(va.body)
		ks := []int{0, 3, 4, 8, 8 + r.Intn(len(va.body)), fl - 1}
		if !thorough {
			ks = []int{ks[r.Intn(4)], ks[4+r.Intn(2)]}
		}
		for _, k := range ks {
			if k >= 0 && k < fl {
				jobs = append(jobs, &job{va: va, k: k})
			}
		}
	}
	sem := make(chan struct{}, 24)
	var wg sync.WaitGroup
	for _, j := range jobs {
		wg.Add(1)
		sem <- struct{}{}
		go func(j *job) {
			defer wg.Done()
			defer func() { <-sem }()
			j.impl, j.d = connCaseD(j.va, j.k, true, 300*time.Millisecond, 4*time.Second)
		}(j)
	}
	wg.Wait()
	for _, j := range jobs {
		if j.d > 2*time.Second && !strings.HasPrefix(j.impl, "hang") {
			j.impl = "late " + strings.SplitN(j.impl, " ", 2)[1] // came back, but long after the deadline
			late++
		}
		fmt.Fprintf(out, "c17s %s %s:%d:%d:%d %s %d %s\t%s\n", gen.Hex([]byte(topic)), j.va.op.Name, j.va.v, j.va.sh.Offset, j.va.sh.HWM, gen.Hex(j.va.body), j.k, gen.Hex(nextBody), j.impl)
		n++
	}
	return
}

// ---------------------------------------------------------------------------------------------- un-framed sasl token

// rawSasl: after a v0 SaslHandshake the authentication tokens travel un-framed ([int32 len][bytes]); the broker's
// answer is cut after k bytes.
//
//	c17raw <answer hex> <k> <next body hex>\t<res> <next>
func rawSasl(out *bufio.Writer, r *rand.Rand, thorough bool) (n int) {
	for _, tokLen := range []int{0, 1, 9, 40} {
		tok := gen.Bytes(r, tokLen)
		w := &connfake.W{}
		w.I32(int32(tokLen))
		w.Raw(tok)
		for _, k := range cuts(r, len(w.B), true, 0) {
			c, br := connfake.Start(topic, connfake.VersionTable(map[int16]int16{17: 0}))
			c.SetDeadline(time.Now().Add(2 * time.Second))
			cut := k
			if k >= len(w.B) {
				cut = -1
			}
			br.RawNext(w.B, cut)
			br.Push(2, connfake.Resp{Body: nextBody, Cut: -1})
			res, next := "hang", "-"
			done := make(chan struct{})
			go func() {
				defer close(done)
				defer func() {
					if p := recover(); p != nil {
						res = "panic"
					}
				}()
				_, err := kafka.VerifConnOp(c, "saslAuthenticate")
				res = connfake.Outcome(err)
				_, err2 := c.ReadLastOffset()
				next = connfake.Outcome(err2)
			}()
			select {
			case <-done:
			case <-time.After(5 * time.Second):
			}
			go func() { c.Close(); br.Stop() }()
			fmt.Fprintf(out, "c17raw %s %d %s\t%s %s\n", gen.Hex(w.B), k, gen.Hex(nextBody), res, next)
			n++
		}
	}
	return
}

// negotiationCut: the response to the ApiVersions request that the FIRST negotiating operation of a Conn sends
// (loadVersions) is cut after k bytes: the operation fails with that error, nothing becomes the Conn's version map, the
// Conn is closed and the same call again fails too.
//
//	c17v <topic hex> <ApiVersions body hex> <k> <A>:<ver>:0:0 <bodyA hex>\t<res1> <res2>
func negotiationCut(out *bufio.Writer, r *rand.Rand, thorough bool) (n int) {
	names := []string{"produce", "metadata", "joinGroup", "createTopics", "deleteTopics", "saslHandshake"}
	if !thorough {
		names = []string{names[r.Intn(3)], names[3+r.Intn(3)]}
	}
	for _, name := range names {
		op := connfake.OpByName(name)
		v := op.Versions[len(op.Versions)-1]
		table := connfake.VersionTable(map[int16]int16{op.Key: v})
		av := connfake.ApiVersionsBody(0, table)
		w := &connfake.W{}
		op.Build(v, w, r, &connfake.Shape{Topic: topic})
		for _, k := range cuts(r, 8+len(av), thorough, 4) {
			if k >= 8+len(av) {
				continue
			}
			c, br := connfake.Start(topic, table)
			c.SetDeadline(time.Now().Add(2 * time.Second))
			br.Push(18, connfake.Resp{Body: av, Cut: k})
			br.Push(op.Key, connfake.Resp{Body: w.B, Cut: -1})
			res := [2]string{"hang", "hang"}
			done := make(chan struct{})
			go func() {
				defer close(done)
				for i := range res {
					func() {
						defer func() {
							if p := recover(); p != nil {
								res[i] = "panic"
							}
						}()
						_, err := op.Call(c, &connfake.Shape{Topic: topic})
						res[i] = connfake.Outcome(err)
					}()
				}
			}()
			select {
			case <-done:
			case <-time.After(5 * time.Second):
			}
			go func() { c.Close(); br.Stop() }()
			fmt.Fprintf(out, "c17v %s %s %d %s:%d:0:0 %s\t%s %s\n", gen.Hex([]byte(topic)), gen.Hex(av), k, op.Name, v, gen.Hex(w.B), res[0], res[1])
			n++
		}
	}
	return
}

// rawSaslTransport: the same un-framed token exchange on the Transport path (protocol/saslauthenticate RawExchange, used
// by protocol.Conn.RoundTrip after a v0 handshake): the answer [int32 len][bytes] cut after k bytes.
//
//	c17rawt <answer hex> <k>\t<ok n|err|panic>
func rawSaslTransport(out *bufio.Writer, r *rand.Rand) (n int) {
	for _, tokLen := range []int{0, 1, 9, 40, 300} {
		tok := gen.Bytes(r, tokLen)
		w := &connfake.W{}
		w.I32(int32(tokLen))
		w.Raw(tok)
		ks := cuts(r, len(w.B), true, 0)
		for _, k := range ks {
			if k > len(w.B) {
				continue
			}
			res := "err"
			func() {
				defer func() {
					if p := recover(); p != nil {
						res = "panic"
					}
				}()
				rw := struct {
					io.Reader
					io.Writer
				}{bytes.NewReader(w.B[:k]), io.Discard}
				msg, err := (&saslauthenticate.Request{AuthBytes: []byte("client-token")}).RawExchange(rw)
				if err == nil {
					resp, _ := msg.(*saslauthenticate.Response)
					if resp == nil || !bytes.Equal(resp.AuthBytes, tok) {
						res = "fake"
					} else {
						res = fmt.Sprintf("ok %d", len(resp.AuthBytes))
					}
				}
			}()
			fmt.Fprintf(out, "c17rawt %s %d\t%s\n", gen.Hex(w.B), k, res)
			n++
		}
	}
	return
}

// ---------------------------------------------------------------------------------------------- two callers, one Conn

// twoCallers: A's and B's requests are both written before the broker answers; the two response frames are then
// delivered back to back and the connection is lost after k bytes.  Neither caller may hang.
//
//	c2 <topic hex> <A>:<ver>:0:0 <bodyA hex> <B>:<ver>:0:0 <bodyB hex> <k>\t<resA> <resB>
func twoCallers(out *bufio.Writer, r *rand.Rand, thorough bool) (n, bad int) {
	if badTotal >= badBudget {
		return
	}
	pairs := [][2]string{{"listOffsets", "listOffsets"}, {"heartbeat", "offsetCommit"}, {"offsetFetch", "heartbeat"},
		{"findCoordinator", "listGroups"}, {"listOffsets", "syncGroup"}, {"leaveGroup", "listOffsets"},
		{"fetch", "heartbeat"}, {"heartbeat", "fetch"}} // a Batch holds the read lock until it is closed
	for _, pr := range pairs {
		for _, errs := range [][]int16{nil, {6}} {
			opA, opB := connfake.OpByName(pr[0]), connfake.OpByName(pr[1])
			wa := &connfake.W{Errs: errs}
			opA.Build(opA.Versions[0], wa, r, &connfake.Shape{Topic: topic})
			wb := &connfake.W{}
			opB.Build(opB.Versions[0], wb, r, &connfake.Shape{Topic: topic})
			total := 16 + len(wa.B) + len(wb.B)
			for _, k := range cuts(r, total, true, 0) {
				if !thorough && k > 12 && k < total-4 && k%3 != 0 && (k < 8+len(wa.B)-2 || k > 8+len(wa.B)+10) {
					continue
				}
				c, br := connfake.Start(topic, connfake.VersionTable(nil))
				c.SetDeadline(time.Now().Add(2 * time.Second))
				if opA.Name == "fetch" || opB.Name == "fetch" {
					// fetch negotiates its version on first use: get that exchange out of the way (it would be held too)
					f := connfake.OpByName("fetch")
					wf := &connfake.W{}
					f.Build(f.Versions[0], wf, r, &connfake.Shape{Topic: topic})
					br.Push(f.Key, connfake.Resp{Body: wf.B, Cut: -1})
					f.Call(c, &connfake.Shape{Topic: topic})
				}
				br.Push(opA.Key, connfake.Resp{Body: wa.B, Cut: -1})
				br.Push(opB.Key, connfake.Resp{Body: wb.B, Cut: -1})
				cut := k
				if k >= total {
					cut = -1
				}
				br.Hold(2, cut)
				call := func(op *connfake.Op) chan string {
					ch := make(chan string, 1)
					go func() {
						defer func() {
							if p := recover(); p != nil {
								ch <- "panic"
							}
						}()
						_, err := op.Call(c, &connfake.Shape{Topic: topic})
						ch <- connfake.Outcome(err)
					}()
					return ch
				}
				n0 := len(br.Log())
				chA := call(opA)
				for i := 0; i < 2000 && len(br.Log()) < n0+1; i++ {
					time.Sleep(100 * time.Microsecond)
				}
				chB := call(opB)
				wait := func(ch chan string) string {
					select {
					case x := <-ch:
						return x
					case <-time.After(3 * time.Second):
						return "hang"
					}
				}
				resA, resB := wait(chA), wait(chB)
				go func() { c.Close(); br.Stop() }()
				fmt.Fprintf(out, "c2 %s %s:%d:0:0 %s %s:%d:0:0 %s %d\t%s %s\n", gen.Hex([]byte(topic)), opA.Name, opA.Versions[0], gen.Hex(wa.B),
					opB.Name, opB.Versions[0], gen.Hex(wb.B), k, resA, resB)
				n++
				if resA == "hang" || resB == "hang" {
					bad++
					if badTotal++; badTotal >= badBudget {
						return
					}
				}
			}
		}
	}
	return
}

// twoCallersStray: two requests in flight, the broker answers with ONE response that belongs to neither (foreign
// correlation id) and nothing else.  No waiter may take it, and none may wait for ever: both come back with an error
// when their deadline (300 ms) expires — Peek is served from the buffer, so the socket's deadline alone ends nothing.
//
//	c2x <topic hex> <A>:<ver>:0:0 <bodyA hex> <B>:<ver>:0:0 <bodyB hex> <id delta>\t<resA> <resB>
func twoCallersStray(out *bufio.Writer, r *rand.Rand, thorough bool) (n int) {
	pairs := [][2]string{{"listOffsets", "heartbeat"}, {"heartbeat", "offsetCommit"}, {"findCoordinator", "listGroups"}, {"leaveGroup", "listOffsets"}}
	if !thorough {
		pairs = pairs[:2]
	}
	for _, pr := range pairs {
		if badTotal >= badBudget {
			return
		}
		opA, opB := connfake.OpByName(pr[0]), connfake.OpByName(pr[1])
		wa, wb := &connfake.W{}, &connfake.W{}
		opA.Build(opA.Versions[0], wa, r, &connfake.Shape{Topic: topic})
		opB.Build(opB.Versions[0], wb, r, &connfake.Shape{Topic: topic})
		delta := int32(5 + r.Intn(50))
		c, br := connfake.Start(topic, connfake.VersionTable(nil))
		c.SetDeadline(time.Now().Add(300 * time.Millisecond))
		br.Push(opA.Key, connfake.Resp{Body: wa.B, Cut: -1, IDDelta: delta})
		br.Push(opB.Key, connfake.Resp{Body: wb.B, Cut: -1, Stall: true})
		// both requests are read first; then the stray frame alone goes out, followed by silence
		br.Hold(2, 8+len(wa.B))
		call := func(op *connfake.Op) chan string {
			ch := make(chan string, 1)
			go func() {
				defer func() {
					if p := recover(); p != nil {
						ch <- "panic"
					}
				}()
				_, err := op.Call(c, &connfake.Shape{Topic: topic})
				ch <- connfake.Outcome(err)
			}()
			return ch
		}
		t0 := time.Now()
		chA := call(opA)
		for i := 0; i < 2000 && len(br.Log()) < 1; i++ {
			time.Sleep(100 * time.Microsecond)
		}
		chB := call(opB)
		wait := func(ch chan string) string {
			select {
			case x := <-ch:
				if time.Since(t0) > 2*time.Second {
					return "late"
				}
				return x
			case <-time.After(3 * time.Second):
				return "hang"
			}
		}
		resA, resB := wait(chA), wait(chB)
		go func() { c.Close(); br.Stop() }()
		if resA == "fail:noprogress" {
			resA = "fail"
		}
		if resB == "fail:noprogress" {
			resB = "fail"
		}
		fmt.Fprintf(out, "c2x %s %s:%d:0:0 %s %s:%d:0:0 %s %d\t%s %s\n", gen.Hex([]byte(topic)), opA.Name, opA.Versions[0], gen.Hex(wa.B),
			opB.Name, opB.Versions[0], gen.Hex(wb.B), delta, resA, resB)
		n++
		if resA == "hang" || resB == "hang" {
			badTotal++
		}
	}
	return
}

// ---------------------------------------------------------------------------------------------- Transport path

var recordSetType = reflect.TypeOf(protocol.RecordSet{})

func fill(v reflect.Value, r *rand.Rand, depth int) {
	switch v.Kind() {
	case reflect.Int8, reflect.Int16, reflect.Int32, reflect.Int64:
		v.SetInt(int64(r.Intn(100)))
	case reflect.Bool:
		v.SetBool(r.Intn(2) == 0)
	case reflect.String:
		b := make([]byte, 1+r.Intn(6))
		for i := range b {
			b[i] = byte('a' + r.Intn(26))
		}
		v.SetString(string(b))
	case reflect.Slice:
		if v.Type().Elem().Kind() == reflect.Uint8 {
			b := make([]byte, 1+r.Intn(8))
			r.Read(b)
			v.SetBytes(b)
			return
		}
		n := 1 + r.Intn(2)
		if depth > 4 {
			n = 1
		}
		s := reflect.MakeSlice(v.Type(), n, n)
		for i := 0; i < n; i++ {
			fill(s.Index(i), r, depth+1)
		}
		v.Set(s)
	case reflect.Struct:
		if v.Type() == recordSetType {
			recs := make([]protocol.Record, 1+r.Intn(3))
			for i := range recs {
				recs[i] = protocol.Record{Offset: int64(i), Time: time.Unix(1, 0), Key: protocol.NewBytes([]byte("k")), Value: protocol.NewBytes([]byte("value"))}
			}
			v.Set(reflect.ValueOf(protocol.RecordSet{Version: 2, Records: protocol.NewRecordReader(recs...)}))
			return
		}
		for i := 0; i < v.NumField(); i++ {
			if v.Field(i).CanSet() {
				fill(v.Field(i), r, depth+1)
			}
		}
	}
}

type plainReader struct{ r io.Reader }

func (p plainReader) Read(b []byte) (int, error) { return p.r.Read(b) }

func readResponseCase(key protocol.ApiKey, ver int16, f []byte, k int, kind string) string {
	br := bytes.NewReader(f[:k])
	var rd io.Reader
	var buffered func() int
	switch kind {
	case "bufio":
		b := bufio.NewReader(br)
		rd, buffered = b, b.Buffered
	case "plain":
		rd, buffered = plainReader{br}, func() int { return 0 }
	default:
		rd, buffered = iotest.OneByteReader(br), func() int { return 0 }
	}
	res := ""
	func() {
		defer func() {
			if p := recover(); p != nil {
				stats["panic(rr): "+fmt.Sprint(p)]++
				res = "panic"
			}
		}()
		_, msg, err := protocol.ReadResponse(rd, key, ver)
		if err != nil {
			res = "err"
			return
		}
		_ = msg
		res = fmt.Sprintf("ok %d", k-br.Len()-buffered())
	}()
	return res
}

func main() {
	r := gen.New()
	thorough := gen.Thorough()
	nconn, nrr, slow := 0, 0, 0
	var worst time.Duration
	hung := 0
	for _, va := range connVariants(r, thorough) {
		n := 8 + len(va.body)
		ks := va.cuts
		if ks == nil || (thorough && n < 4096) {
			ks = cuts(r, n, thorough, 10)
		}
		sort.Ints(ks)
		last := -1
		for _, k := range ks {
			if k < 0 || k > n || k == last || hung >= 5 {
				continue
			}
			last = k
			impl, d := connCase(va, k)
			if strings.HasPrefix(impl, "hang") {
				hung++ // every hung case costs its watchdog: a handful is enough for the replay
			}
			if d > 2*time.Second {
				slow++
			}
			if d > worst {
				worst = d
			}
			fmt.Fprintf(out, "c17 %s %s:%d:%d:%d %s %d %s\t%s\n", gen.Hex([]byte(topic)), va.op.Name, va.v, va.sh.Offset, va.sh.HWM, gen.Hex(va.body), k, gen.Hex(nextBody), impl)
			nconn++
		}
	}
	nstall, nlate := stalled(out, r, thorough)
	apis := protocol.VerifApis()
	skipped := 0
	for _, a := range apis {
		for ver := a.MinVersion; ver <= a.MaxVersion; ver++ {
			msg := a.NewResponse(ver)
			fill(reflect.ValueOf(msg).Elem(), r, 0)
			var buf bytes.Buffer
			var werr error
			func() {
				defer func() {
					if p := recover(); p != nil {
						werr = fmt.Errorf("panic: %v", p)
					}
				}()
				werr = protocol.WriteResponse(&buf, ver, 7, msg)
			}()
			if werr != nil {
				skipped++
				stats[fmt.Sprintf("unencodable response key=%d v=%d: %v", a.Key, ver, werr)]++
				continue
			}
			f := buf.Bytes()
			kinds := []string{"bufio", "plain"}
			if thorough {
				kinds = append(kinds, "onebyte")
			}
			for _, kind := range kinds {
				for _, k := range cuts(r, len(f), thorough, 6) {
					fmt.Fprintf(out, "rr %d %d %d %d %s\t%s\n", a.Key, ver, len(f), k, kind, readResponseCase(a.Key, ver, f, k, kind))
					nrr++
				}
			}
		}
	}
	t0 := time.Now()
	lap := func() string { d := time.Since(t0).Round(time.Millisecond); t0 = time.Now(); return d.String() }
	nraw := rawSasl(out, r, thorough)
	nraw += rawSaslTransport(out, r)
	nneg := negotiationCut(out, r, thorough)
	fmt.Fprintf(os.Stderr, "c17 driver: %d cuts of the ApiVersions response of a version negotiation\n", nneg)
	fmt.Fprintf(os.Stderr, "c17 driver: %d stalled-broker cases (%d back long after the deadline)\n", nstall, nlate)
	fmt.Fprintf(os.Stderr, "c17 driver: %d un-framed sasl token cases\n", nraw)
	n2, bad2 := twoCallers(out, r, thorough)
	fmt.Fprintf(os.Stderr, "c17 driver: %d two-caller cases (%d with a hung caller) in %s\n", n2, bad2, lap())
	n2x := twoCallersStray(out, r, thorough)
	fmt.Fprintf(os.Stderr, "c17 driver: %d two-caller cases with a response that belongs to neither in %s\n", n2x, lap())
	nlo := multiPart(out, r, thorough)
	fmt.Fprintf(os.Stderr, "c17 driver: %d split list-offsets cases (one sub-response cut) in %s\n", nlo, lap())
	nmb := multiBroker(out, r, thorough)
	fmt.Fprintf(os.Stderr, "c17 driver: %d split/merge cases on a three-broker cluster in %s\n", nmb, lap())
	ntp, tslow := transportPath(out, r, thorough)
	fmt.Fprintf(os.Stderr, "c17 driver: %d transport/writer end-to-end cases (slowest %v) in %s\n", ntp, tslow.Round(time.Millisecond), lap())
	nts := transportStall(out, r, thorough)
	fmt.Fprintf(os.Stderr, "c17 driver: %d transport cases against a stalled broker in %s\n", nts, lap())
	out.Flush()
	fmt.Fprintf(os.Stderr, "c17 driver: %d conn cases (%d slower than 2s, worst %v), %d ReadResponse cases over %d apis (%d api versions skipped)\n",
		nconn, slow, worst.Round(time.Millisecond), nrr, len(apis), skipped)
	keys := make([]string, 0, len(stats))
	for k := range stats {
		keys = append(keys, k)
	}
	sort.Strings(keys)
	for _, k := range keys {
		fmt.Fprintf(os.Stderr, "c17 driver: %s x%d\n", k, stats[k])
	}
	_ = kafka.SeekStart
}
