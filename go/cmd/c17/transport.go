package main

// Transport / Reader / Writer paths end to end (C17 "the affected connection is not used again, and the Reader and
// Writer continue on a new connection").  A kafka.Transport (resp. kafka.Dialer) dials net.Pipe connections of the
// stateful fake broker connfake.TBroker, which cuts the response to one request after k bytes and drops that
// connection.  Per case the driver prints
//
//	tp <scenario> <frame len> <k>\t<first> <next> <conn> <data>
//
// first = outcome of the call that hit the cut (ok|err|hang); next = outcome of the follow-up calls to the same
// broker (ok|err|hang); conn = "new" if every request of that api key after the cut arrived on a connection other
// than the cut one, "reused" otherwise, "-" without a cut; data = "intact" if the records in the broker's log /
// delivered by the Reader are exactly the expected ones (Writer: once or twice each — C01's retry rule; Reader: each
// once, in order), else a description.
// and the recorded connection events of transport.go (existing hooks T.New/T.Grab/T.Recv/T.Done/T.Release/T.Exit/…)
//
//	tt <scenario> <k> <ev,ev,…>\taccept
//
// which the oracle replays through the TransportConn LTS (trace acceptance).

import (
	"bufio"
	"context"
	"errors"
	"fmt"
	"io"
	"math/rand"
	"net"
	"strings"
	"time"

	kafka "github.com/segmentio/kafka-go"

	"kvharness/internal/connfake"
)

const ttopic = "t"

type tscenario struct {
	name string
	key  int16 // api key whose response is cut
	nth  int   // which request with that key (after setup)
	run  func(env *tenv) (first, next, data string)
}

type tenv struct {
	b  *connfake.TBroker
	tr *kafka.Transport
	cl *kafka.Client
}

var taddr = kafka.TCP("broker:9092")

func outcome(err error) string {
	if err == nil {
		return "ok"
	}
	return "err"
}

// guard runs f under a watchdog.
func guard(d time.Duration, f func() error) string {
	done := make(chan error, 1)
	go func() { done <- f() }()
	select {
	case err := <-done:
		return outcome(err)
	case <-time.After(d):
		return "hang"
	}
}

// retry calls f until it succeeds (the Transport keeps a failed initial metadata state until its next refresh, the
// Writer/Client surface that error meanwhile); "hang" if one call does not return, "err" if none succeeds in time.
func retry(total time.Duration, f func() error) string {
	deadline := time.Now().Add(total)
	for {
		r := guard(3*time.Second, f)
		if r == "ok" || r == "hang" || time.Now().After(deadline) {
			return r
		}
		time.Sleep(5 * time.Millisecond)
	}
}

func twice(f func() error) func(env *tenv) (string, string, string) {
	return func(env *tenv) (string, string, string) {
		first := guard(3*time.Second, f)
		time.Sleep(2 * time.Millisecond) // let the connection goroutine finish its bookkeeping
		next := "ok"
		for i := 0; i < 2 && next == "ok"; i++ {
			next = retry(2*time.Second, f)
		}
		return first, next, "intact"
	}
}

// tTimeout bounds every Client call (context and Client.Timeout); the stalled-broker runs shorten it.
var tTimeout = 2 * time.Second

func ctx3() (context.Context, context.CancelFunc) {
	return context.WithTimeout(context.Background(), tTimeout)
}

func tscenarios() []tscenario {
	var sc []tscenario
	mk := func(name string, key int16, nth int, run func(env *tenv) (string, string, string)) {
		sc = append(sc, tscenario{name, key, nth, run})
	}
	var env *tenv
	_ = env
	mk("client.Metadata", 3, 1, nil)
	mk("client.ListOffsets", 2, 1, nil)
	mk("client.Produce", 0, 1, nil)
	mk("client.Fetch", 1, 1, nil)
	mk("client.Heartbeat", 12, 1, nil)
	mk("client.Heartbeat/coordinator", 10, 1, nil)
	mk("reader.fetch#1", 1, 1, nil)
	mk("reader.fetch#2", 1, 2, nil)
	mk("reader.fetch#3", 1, 3, nil)
	mk("reader.listOffsets", 2, 1, nil)
	mk("reader.metadata", 3, 1, nil)
	mk("writer.WriteMessages", 0, 1, nil)
	mk("writer.WriteMessages/metadata", 3, 1, nil)
	mk("writer.WriteMessages/unapplied", 0, 1, nil) // the produce request whose response is cut was lost before the broker stored it
	return sc
}

func (s *tscenario) body(env *tenv) (string, string, string) {
	cl := env.cl
	switch {
	case strings.HasPrefix(s.name, "client.Metadata"):
		first, next, data := twice(func() error {
			ctx, cancel := ctx3()
			defer cancel()
			_, err := cl.Metadata(ctx, &kafka.MetadataRequest{Topics: []string{ttopic}})
			return err
		})(env)
		// a Metadata call is answered from the pool's cached state: the request whose response is cut is the pool's own
		// refresh; whether the caller still sees that refresh's error or already the next one's result is timing
		if first == "ok" || first == "err" {
			first = "returned"
		}
		return first, next, data
	case strings.HasPrefix(s.name, "client.ListOffsets"):
		return twice(func() error {
			ctx, cancel := ctx3()
			defer cancel()
			r, err := cl.ListOffsets(ctx, &kafka.ListOffsetsRequest{Topics: map[string][]kafka.OffsetRequest{ttopic: {kafka.LastOffsetOf(0)}}})
			if err == nil {
				for _, ps := range r.Topics {
					for _, p := range ps {
						if p.Error != nil {
							return p.Error
						}
					}
				}
			}
			return err
		})(env)
	case strings.HasPrefix(s.name, "client.Produce"):
		n := 0
		f, nx, _ := twice(func() error {
			ctx, cancel := ctx3()
			defer cancel()
			n++
			r, err := cl.Produce(ctx, &kafka.ProduceRequest{Topic: ttopic, Partition: 0, RequiredAcks: kafka.RequireAll,
				Records: kafka.NewRecordReader(kafka.Record{Value: kafka.NewBytes([]byte(fmt.Sprintf("p%d", n)))})})
			if err == nil && r.Error != nil {
				return r.Error
			}
			return err
		})(env)
		return f, nx, "intact"
	case strings.HasPrefix(s.name, "client.Fetch"):
		return twice(func() error {
			ctx, cancel := ctx3()
			defer cancel()
			r, err := cl.Fetch(ctx, &kafka.FetchRequest{Topic: ttopic, Partition: 0, Offset: 0, MinBytes: 1, MaxBytes: 1 << 20, MaxWait: 10 * time.Millisecond})
			if err != nil {
				return err
			}
			if r.Error != nil {
				return r.Error
			}
			n := 0
			for {
				rec, err := r.Records.ReadRecord()
				if err != nil {
					if errors.Is(err, io.EOF) {
						break
					}
					return err
				}
				if rec.Value != nil {
					io.Copy(io.Discard, rec.Value)
				}
				n++
			}
			if n == 0 {
				return errors.New("verif: fetch returned no record")
			}
			return nil
		})(env)
	case strings.HasPrefix(s.name, "client.Heartbeat"):
		return twice(func() error {
			ctx, cancel := ctx3()
			defer cancel()
			_, err := cl.Heartbeat(ctx, &kafka.HeartbeatRequest{GroupID: "g", GenerationID: 1, MemberID: "m"})
			return err
		})(env)
	case strings.HasPrefix(s.name, "reader."):
		// kafka.Reader (Dialer/Conn path) over the same broker: 12 records, 4 per fetch response; the n-th fetch (or the
		// list-offsets / metadata exchange of the dial) is cut.  Every record must arrive exactly once, in order.
		for i := 6; i < 12; i++ {
			env.b.Append(connfake.Msg{Key: "k", Value: fmt.Sprintf("seed%d", i)})
		}
		rd := kafka.NewReader(kafka.ReaderConfig{Brokers: []string{"broker:9092"}, Topic: ttopic, Partition: 0,
			Dialer:   &kafka.Dialer{DialFunc: env.b.Dial, Timeout: 2 * time.Second, ClientID: "verif"},
			MinBytes: 1, MaxBytes: 1 << 20, MaxWait: 50 * time.Millisecond, ReadBatchTimeout: tTimeout,
			ReadBackoffMin: time.Millisecond, ReadBackoffMax: 5 * time.Millisecond, MaxAttempts: 5, ReadLagInterval: -1})
		var got []connfake.Msg
		res := guard(10*time.Second, func() error {
			if err := rd.SetOffset(0); err != nil {
				return err
			}
			for len(got) < 12 {
				// the application waits longer than the Reader's own ReadBatchTimeout: a response that stalls is the
				// Reader's business (give the connection up, dial again, resume), not the caller's
				ctx, cancel := context.WithTimeout(context.Background(), 2*tTimeout+2*time.Second)
				m, err := rd.ReadMessage(ctx)
				cancel()
				if err != nil {
					return err
				}
				got = append(got, connfake.Msg{Offset: m.Offset, Key: string(m.Key), Value: string(m.Value)})
			}
			return nil
		})
		go rd.Close()
		data := "intact"
		want := env.b.Log()
		if res == "ok" {
			for i := range got {
				if i >= len(want) || got[i] != want[i] {
					data = fmt.Sprintf("record-%d-is-%v", i, got[i])
					break
				}
			}
		} else {
			data = fmt.Sprintf("delivered-%d-of-12", len(got))
		}
		first := "returned"
		if res == "hang" {
			first = "hang"
		}
		return first, res, data
	case strings.HasPrefix(s.name, "writer.WriteMessages"):
		w := &kafka.Writer{Addr: taddr, Topic: ttopic, Transport: env.tr, Balancer: &kafka.RoundRobin{}, BatchTimeout: time.Millisecond,
			BatchSize: 1, MaxAttempts: 4, WriteBackoffMin: time.Millisecond, WriteBackoffMax: 5 * time.Millisecond, RequiredAcks: kafka.RequireAll}
		before := len(env.b.Log())
		unapplied := strings.HasSuffix(s.name, "/unapplied")
		env.b.SetUnapplied(unapplied)
		var okVals []string // values whose WriteMessages call returned nil, in submission order
		nsub := 0
		write := func() error {
			ctx, cancel := ctx3()
			defer cancel()
			nsub++
			v := fmt.Sprintf("w%d", nsub)
			err := w.WriteMessages(ctx, kafka.Message{Value: []byte(v)})
			if err == nil {
				okVals = append(okVals, v)
			}
			return err
		}
		// the Writer retries internally: the call that hits a cut PRODUCE response must succeed over a new connection;
		// a cut of the Transport's initial metadata exchange is surfaced until the Transport refreshes (≤ MetadataTTL):
		// the follow-up submissions are retried for a while
		first := guard(4*time.Second, write)
		time.Sleep(2 * time.Millisecond)
		next := "ok"
		for j := 0; j < 2 && next == "ok"; j++ {
			next = retry(3*time.Second, write)
		}
		go w.Close()
		data := "intact"
		log := env.b.Log()[before:]
		pos := 0
		for _, v := range okVals { // every acknowledged value once or twice (retry after a lost ack), in submission order
			for pos < len(log) && log[pos].Value != v { // values of failed submissions may or may not have been applied
				pos++
			}
			c := 0
			for pos < len(log) && log[pos].Value == v {
				pos++
				c++
			}
			if c < 1 || c > 2 {
				data = fmt.Sprintf("value-%s-x%d", v, c)
			}
		}
		// every produce request — first attempt or retry — carries its batch (BatchSize 1 here: one record): a retry
		// must not go out with what is left of a reader the first attempt consumed
		for i, n := range env.b.ProduceRecords() {
			if n == 0 && data == "intact" {
				data = fmt.Sprintf("produce-request-%d-without-records", i+1)
			}
		}
		if strings.HasSuffix(s.name, "/metadata") && first != "hang" {
			first = "returned" // depends on when the Transport refreshes its failed initial metadata: ok or err
		}
		return first, next, data
	}
	return "err", "err", "unknown-scenario"
}

func newEnv() *tenv {
	b := connfake.NewTBroker(ttopic)
	for i := 0; i < 6; i++ {
		b.Append(connfake.Msg{Key: "k", Value: fmt.Sprintf("seed%d", i)})
	}
	tr := &kafka.Transport{Dial: b.Dial, DialTimeout: 2 * time.Second, IdleTimeout: 30 * time.Second, MetadataTTL: 40 * time.Millisecond, ClientID: "verif"}
	return &tenv{b: b, tr: tr, cl: &kafka.Client{Addr: taddr, Transport: tr, Timeout: tTimeout}}
}

func eventsString(evs []kafka.VerifEvent) string {
	var out []string
	// the recorder is process-wide: goroutines of an earlier case that are still winding down may emit events about
	// connections this recording never saw being created — keep only connections / groups introduced by a T.New here
	conns, groups := map[string]bool{}, map[string]bool{}
	for _, e := range evs {
		if e.Kind == "T.New" && len(e.Args) >= 2 {
			conns[e.Args[0]], groups[e.Args[1]] = true, true
		}
	}
	for _, e := range evs {
		if !strings.HasPrefix(e.Kind, "T.") || len(e.Args) == 0 {
			continue
		}
		if e.Kind == "T.CloseIdle" {
			if !groups[e.Args[0]] {
				continue
			}
		} else if !conns[e.Args[0]] {
			continue
		}
		out = append(out, strings.ReplaceAll(e.Kind+":"+strings.Join(e.Args, ":"), " ", "_"))
	}
	if len(out) == 0 {
		return "-"
	}
	return strings.Join(out, ",")
}

// runT runs one scenario with the cut at k (k < 0: no cut) and returns the case line, the trace line and the
// length of the frame that was (or would have been) cut.
func runT(s *tscenario, k int) (impl string, trace string, frameLen int) {
	return runTS(s, k, false)
}

// runTS: stall = the broker goes silent after the k bytes instead of dropping the connection; the Client's timeout
// (400 ms in these runs) is what ends the call.
func runTS(s *tscenario, k int, stall bool) (impl string, trace string, frameLen int) {
	if stall {
		defer func(d time.Duration) { tTimeout = d }(tTimeout)
		tTimeout = 400 * time.Millisecond
	}
	env := newEnv()
	env.b.SetStall(stall)
	kafka.VerifStart()
	if k >= 0 {
		env.b.Cut(s.key, s.nth, k)
	}
	first, next, data := s.body(env)
	conn := "-"
	cutConn, cutSeq := 0, 0
	for _, c := range env.b.Conns() {
		if c.CutAt >= 0 {
			cutConn, cutSeq = c.No, c.Seqs[len(c.Seqs)-1]
		}
	}
	if cutConn > 0 {
		// journal: requests of the same api key that ARRIVED after the cut one, and on which connection
		later, onCut := 0, 0
		for _, c := range env.b.Conns() {
			for i, key := range c.Keys {
				if key == s.key && c.Seqs[i] > cutSeq {
					if c.No == cutConn {
						onCut++
					} else {
						later++
					}
				}
			}
		}
		switch {
		case onCut > 0:
			conn = "reused"
		case later == 0:
			conn = "no-later-request"
		default:
			conn = "new"
		}
	}
	done := make(chan struct{})
	go func() { env.tr.CloseIdleConnections(); close(done) }()
	select {
	case <-done:
	case <-time.After(2 * time.Second):
	}
	time.Sleep(time.Millisecond)
	evs := kafka.VerifStop()
	return fmt.Sprintf("%s %s %s %s", first, next, conn, data), eventsString(evs), env.b.FrameLenNth(s.key, s.nth)
}

// multiPart: one Client.ListOffsets call that the Transport splits into three sub-requests (first offset, last offset
// and a timestamp lookup of the same partition); the response to ONE of them (the nth to arrive) is cut at byte k, the
// others are delivered.  Every requested value must either be the true one or come with an error — never a
// placeholder presented as a result.
//
//	lo <cut timestamp|none> <true first> <true last> <frame len> <k>\t<call> <first> <last> <error code>
func multiPart(out *bufio.Writer, r *rand.Rand, thorough bool) (n int) {
	for nth := 1; nth <= 3 && badTotal < badBudget; nth++ {
		flen := 41
		for _, k := range cuts(r, flen, thorough, 4) {
			env := newEnv()
			if k < flen {
				env.b.Cut(2, nth, k)
			}
			var impl string
			tcase := time.Now()
			res := guard(3*time.Second, func() error {
				ctx, cancel := ctx3()
				defer cancel()
				resp, err := env.cl.ListOffsets(ctx, &kafka.ListOffsetsRequest{Topics: map[string][]kafka.OffsetRequest{
					ttopic: {kafka.FirstOffsetOf(0), kafka.LastOffsetOf(0), kafka.TimeOffsetOf(0, time.Unix(1, 234000000))}}})
				if err != nil {
					impl = "err - - -"
					return nil
				}
				impl = "ok - - missing"
				for _, p := range resp.Topics[ttopic] {
					code := "0"
					if p.Error != nil {
						code = "other"
						var ke kafka.Error
						if errors.As(p.Error, &ke) {
							code = fmt.Sprint(int(ke))
						}
					}
					impl = fmt.Sprintf("ok %d %d %s", p.FirstOffset, p.LastOffset, code)
				}
				return nil
			})
			if res == "hang" {
				impl = "hang - - -"
				badTotal++
			} else if time.Since(tcase) > time.Second {
				badTotal++ // slow (waiting for a context deadline) is as costly as hung
			}
			cutTs := "none"
			if ts := env.b.CutTimestamp(); ts != 0 {
				cutTs = fmt.Sprint(ts)
			}
			go env.tr.CloseIdleConnections()
			fmt.Fprintf(out, "lo %s 0 %d %d %d\t%s\n", cutTs, len(env.b.Log()), flen, k, impl)
			n++
		}
	}
	return
}

// multiBroker: requests that the Transport splits over several brokers / coordinators of a three-broker cluster
// (connfake.TCluster) and merges again: ListGroups (one part per broker), DescribeGroups (one part per group, each after
// a FindCoordinator lookup), DescribeConfigs (one part per broker resource + one for the others), ListOffsets over three
// partitions with three leaders.  The response to the nth part to arrive (or the nth coordinator lookup) is cut at k.
//
//	sm <api> <cut key> <parts> <frame len> <k>\t<call> <entries>     strict merges: error, or ALL entries
//	lo3 <cut broker|none> <frame len> <k>\t<call> <p0 last:err> <p1 last:err> <p2 last:err>
//
// badTotal counts hung / failing end-to-end cases over all scenario families: each one costs its watchdogs, a handful
// is enough for the replay, so every family stops generating once the budget is spent.
var badTotal int

const badBudget = 4

func multiBroker(out *bufio.Writer, r *rand.Rand, thorough bool) (n int) {
	type api struct {
		name   string
		cutKey int16
		parts  int
		call   func(cl *kafka.Client) (int, error)
	}
	apis := []api{
		{"listGroups", 16, 3, func(cl *kafka.Client) (int, error) {
			ctx, cancel := ctx3()
			defer cancel()
			resp, err := cl.ListGroups(ctx, &kafka.ListGroupsRequest{})
			if err != nil {
				return 0, err
			}
			if resp.Error != nil {
				return 0, resp.Error
			}
			ok := 0
			for _, g := range resp.Groups {
				if g.GroupID == fmt.Sprintf("grp-%d-a", g.Coordinator) || g.GroupID == fmt.Sprintf("grp-%d-b", g.Coordinator) {
					ok++
				}
			}
			return ok, nil
		}},
		{"describeGroups", 15, 4, func(cl *kafka.Client) (int, error) {
			ctx, cancel := ctx3()
			defer cancel()
			resp, err := cl.DescribeGroups(ctx, &kafka.DescribeGroupsRequest{GroupIDs: []string{"ga", "gb", "gc", "gd"}})
			if err != nil {
				return 0, err
			}
			ok := 0
			for _, g := range resp.Groups {
				if g.Error == nil && g.GroupState == "Stable" {
					ok++
				}
			}
			return ok, nil
		}},
		{"describeGroups/coordinator", 10, 4, nil},
		{"describeConfigs", 32, 4, func(cl *kafka.Client) (int, error) {
			ctx, cancel := ctx3()
			defer cancel()
			resp, err := cl.DescribeConfigs(ctx, &kafka.DescribeConfigsRequest{Resources: []kafka.DescribeConfigRequestResource{
				{ResourceType: kafka.ResourceTypeBroker, ResourceName: "1"}, {ResourceType: kafka.ResourceTypeBroker, ResourceName: "2"},
				{ResourceType: kafka.ResourceTypeBroker, ResourceName: "3"}, {ResourceType: kafka.ResourceTypeTopic, ResourceName: ttopic}}})
			if err != nil {
				return 0, err
			}
			ok := 0
			for _, rs := range resp.Resources {
				if rs.Error == nil && len(rs.ConfigEntries) == 1 {
					ok++
				}
			}
			return ok, nil
		}},
	}
	apis[2].call = apis[1].call
	newCl := func() (*connfake.TCluster, *kafka.Transport, *kafka.Client) {
		c := connfake.NewTCluster(ttopic, 3, 3)
		tr := &kafka.Transport{Dial: c.Dial, DialTimeout: 2 * time.Second, MetadataTTL: time.Hour, ClientID: "verif"}
		return c, tr, &kafka.Client{Addr: taddr, Transport: tr, Timeout: 2 * time.Second}
	}
	for _, a := range apis {
		if badTotal >= badBudget {
			break
		}
		c0, tr0, cl0 := newCl()
		if _, err := a.call(cl0); err != nil {
			fmt.Fprintf(out, "sm %s %d %d 0 0\tsetup-failed 0\n", a.name, a.cutKey, a.parts)
			continue
		}
		flen := c0.LastFrameLen(a.cutKey)
		go tr0.CloseIdleConnections()
		for nth := 1; nth <= a.parts && badTotal < badBudget; nth++ {
			for _, k := range cuts(r, flen, thorough, 3) {
				c, tr, cl := newCl()
				if k < flen {
					c.Cut(a.cutKey, nth, k)
				}
				impl := "hang 0"
				tcase := time.Now()
				if guard(3*time.Second, func() error {
					cnt, err := a.call(cl)
					impl = fmt.Sprintf("%s %d", outcome(err), cnt)
					return nil
				}) == "hang" || time.Since(tcase) > time.Second {
					badTotal++
				}
				go tr.CloseIdleConnections()
				fmt.Fprintf(out, "sm %s %d %d %d %d\t%s\n", a.name, a.cutKey, a.parts, flen, k, impl)
				n++
			}
		}
	}
	// ListOffsets over three partitions with three leaders: per-partition isolation (expected value from the C19 model)
	flen := 41
	for nth := 1; nth <= 3 && badTotal < badBudget; nth++ {
		for _, k := range cuts(r, flen, thorough, 3) {
			c, tr, cl := newCl()
			if k < flen {
				c.Cut(2, nth, k)
			}
			impl := "hang - - -"
			tcase := time.Now()
			if guard(3*time.Second, func() error {
				ctx, cancel := ctx3()
				defer cancel()
				resp, err := cl.ListOffsets(ctx, &kafka.ListOffsetsRequest{Topics: map[string][]kafka.OffsetRequest{
					ttopic: {kafka.LastOffsetOf(0), kafka.LastOffsetOf(1), kafka.LastOffsetOf(2)}}})
				if err != nil {
					impl = "err - - -"
					return nil
				}
				ps := map[int]string{0: "missing", 1: "missing", 2: "missing"}
				for _, p := range resp.Topics[ttopic] {
					code := "0"
					if p.Error != nil {
						code = "other"
						var ke kafka.Error
						if errors.As(p.Error, &ke) {
							code = fmt.Sprint(int(ke))
						}
					}
					ps[p.Partition] = fmt.Sprintf("%d:%s", p.LastOffset, code)
				}
				impl = fmt.Sprintf("ok %s %s %s", ps[0], ps[1], ps[2])
				return nil
			}) == "hang" || time.Since(tcase) > time.Second {
				badTotal++
			}
			cutOn := "none"
			if b := c.CutBroker(); b != 0 {
				cutOn = fmt.Sprint(b - 1) // partition p is led by broker p+1
			}
			go tr.CloseIdleConnections()
			fmt.Fprintf(out, "lo3 %s %d %d\t%s\n", cutOn, flen, k, impl)
			n++
		}
	}
	return
}

func transportPath(out *bufio.Writer, r *rand.Rand, thorough bool) (n int, slowest time.Duration) {
	for _, s := range tscenarios() {
		s := s
		if badTotal >= badBudget {
			break // every failing case costs its watchdogs; a handful is enough for the replay
		}
		_, _, flen := runT(&s, -1)
		if flen == 0 {
			fmt.Fprintf(out, "tp %s 0 0\tsetup-failed - - -\n", s.name)
			continue
		}
		sample := 4
		ks := cuts(r, flen, thorough, sample)
		for _, k := range ks {
			t0 := time.Now()
			kk := k
			if k >= flen {
				kk = -1
			}
			impl, trace, _ := runT(&s, kk)
			if d := time.Since(t0); d > slowest {
				slowest = d
			}
			if f := strings.Fields(impl); len(f) == 4 && (f[1] != "ok" || f[0] == "hang" || time.Since(t0) > 1500*time.Millisecond) {
				if badTotal++; badTotal >= badBudget {
					fmt.Fprintf(out, "tp %s %d %d\t%s\n", s.name, flen, k, impl)
					fmt.Fprintf(out, "tt %s %d %s\taccept\n", s.name, k, trace)
					break
				}
			}
			fmt.Fprintf(out, "tp %s %d %d\t%s\n", s.name, flen, k, impl)
			fmt.Fprintf(out, "tt %s %d %s\taccept\n", s.name, k, trace)
			n++
		}
	}
	return
}

// transportStall: the Client scenarios against a broker that goes silent after k bytes of the response: the call ends
// with an error when the Client's timeout expires, the follow-up calls succeed on another connection.
func transportStall(out *bufio.Writer, r *rand.Rand, thorough bool) (n int) {
	for _, s := range tscenarios() {
		s := s
		isFetch := strings.HasPrefix(s.name, "reader.fetch")
		if !(strings.HasPrefix(s.name, "client.") || isFetch) || badTotal >= badBudget {
			continue
		}
		_, _, flen := runT(&s, -1)
		if flen == 0 {
			continue
		}
		ks := []int{0, 4 + r.Intn(flen-4)}
		if !thorough {
			ks = []int{ks[r.Intn(2)]}
		}
		if isFetch {
			// the Reader's fetch: some records complete, then silence with the connection still open — the batch is
			// left with announced bytes that never come; ReadBatchTimeout (400 ms here) must end every wait, the
			// discard of Batch.Close included
			ks = []int{flen - 5}
			if thorough {
				ks = append(ks, flen/2)
			}
		}
		for _, k := range ks {
			t0 := time.Now()
			impl, trace, _ := runTS(&s, k, true)
			if f := strings.Fields(impl); len(f) == 4 && (f[1] != "ok" || f[0] == "hang" || time.Since(t0) > 2500*time.Millisecond) {
				badTotal++
			}
			fmt.Fprintf(out, "tp %s/stall %d %d\t%s\n", s.name, flen, k, impl)
			fmt.Fprintf(out, "tt %s/stall %d %s\taccept\n", s.name, k, trace)
			n++
		}
	}
	return
}

var _ = net.Pipe
