// op "reader": the REAL high-level kafka.Reader (NewReader / FetchMessage / SetOffset / Close, and behind them
// (*reader).run / initialize / read) against the fake broker, with scripted faults, log-start truncation and
// interleaved SetOffset calls.  One line per scenario:
//
//	reader v=<2|5|10> start=<first|last|N> q=<queueCap> budgets=<b,..> faults=<idx:kind;..|-> trunc=<idx:n|->
//	       sets=<k@o;..|-> hwm=<hwm> L=<layout> \t d=<stream> j=<journal> out=<done|stall|runaway> close=<ok|hung>
//
// The broker side of a scenario (rdBroker.onFetch) is the part an oracle has to re-implement; it is written to be
// a function of the request sequence only.
package main

import (
	"context"
	"errors"
	"fmt"
	"io"
	"math/rand"
	"net"
	"os"
	"strconv"
	"strings"
	"sync"
	"time"

	kafka "github.com/segmentio/kafka-go"
)

// readerEmptyBatches: false while D14 (panic "markRead: negative count" in a background goroutine of the Reader,
// which kills the process) is unfixed: logs are generated with emptyBias=0 and an empty batch directly following
// another empty batch is removed from the log.  Flip after the fix.
const readerEmptyBatches = true

// VERIF_RD_DEBUG=<substring>: run only the reader scenarios whose argument string contains it, with the library's
// loggers and a broker trace on stderr.
var rdDebug = os.Getenv("VERIF_RD_DEBUG")

const (
	rdStallAfter = 1500 * time.Millisecond // no message for this long: out=stall
	rdQuiet      = 200 * time.Millisecond  // broker sees nothing for this long: the reader goroutine is parked
	rdSettleMax  = 1200 * time.Millisecond
	rdHwmSleep   = 5 * time.Millisecond
	rdSpinSleep  = 10 * time.Millisecond // pacing of the 4th, 5th.. fetch in a row of one offset on one connection
	rdWorkers    = 12
)

type rdFault struct {
	Idx  int
	Kind string // cut stall (= cut, connection left open and silent) err6 err3 err7 err1 hang move err1h (= err1, and the ListOffsets the reader sends next is never answered)
	K    int    // cut only
}

type rdSet struct {
	K int   // after the app has received K messages in total
	O int64 // SetOffset(O)
}

type rdScenario struct {
	Ver      int
	Start    string // "first", "last" or a decimal offset
	Q        int
	Budgets  []int
	Faults   []rdFault
	TruncIdx int // < 0: none
	TruncN   int
	Sets     []rdSet
	Items    []Item
	Hwm      int64
	Topic    string // per-scenario topic name: separates the RL.* hook events of concurrently running scenarios
	Slow     int    // > 0: the application sleeps this many ms after every message (QueueCapacity fills up, the fetcher
	// blocks in sendMessage, responses are drained slower than MaxWait: batches end with RequestTimedOut instead of EOF)
}

func (sc *rdScenario) topic() string {
	if sc.Topic == "" {
		return "t"
	}
	return sc.Topic
}

func itemFirst(it Item) int64 {
	if it.Format == 2 || it.Codec != 0 {
		return it.Base
	}
	return it.Recs[0].Offset
}

func (sc *rdScenario) args() string {
	bs := make([]string, len(sc.Budgets))
	for i, b := range sc.Budgets {
		bs[i] = strconv.Itoa(b)
	}
	fs := "-"
	if len(sc.Faults) > 0 {
		var l []string
		for _, f := range sc.Faults {
			k := f.Kind
			if k == "cut" || k == "stall" {
				k += strconv.Itoa(f.K)
			}
			l = append(l, fmt.Sprintf("%d:%s", f.Idx, k))
		}
		fs = strings.Join(l, ";")
	}
	tr := "-"
	if sc.TruncIdx >= 0 {
		tr = fmt.Sprintf("%d:%d", sc.TruncIdx, sc.TruncN)
	}
	ss := "-"
	if len(sc.Sets) > 0 {
		var l []string
		for _, s := range sc.Sets {
			l = append(l, fmt.Sprintf("%d@%d", s.K, s.O))
		}
		ss = strings.Join(l, ";")
	}
	firsts := make([]string, len(sc.Items))
	for i, it := range sc.Items {
		firsts[i] = strconv.FormatInt(itemFirst(it), 10)
	}
	slow := ""
	if sc.Slow > 0 {
		slow = fmt.Sprintf(" slow=%d", sc.Slow)
	}
	return fmt.Sprintf("reader v=%d start=%s q=%d"+slow+" budgets=%s faults=%s trunc=%s sets=%s hwm=%d firsts=%s L=%s",
		sc.Ver, sc.Start, sc.Q, strings.Join(bs, ","), fs, tr, ss, sc.Hwm, strings.Join(firsts, ","), layoutText(sc.Items))
}

// ------------------------------------------------------------------------------------------------ broker side

type rdBroker struct {
	sc *rdScenario
	b  *Broker

	mu         sync.Mutex
	items      []Item // current log
	first      int64  // current log start
	n          int    // data fetches seen so far
	leader     int32
	seq        map[int]int // broker conn id -> connSeq (1,2,3.. in order of first fetch)
	perConn    [][]int64   // journal: per connSeq, the fetch offsets with consecutive duplicates collapsed
	repeat     []int       // per connSeq: how many times in a row the last offset has been fetched
	hwmFetches int
	hwm3       chan struct{} // closed once 3 fetches at hwm have been seen
	last       time.Time     // last time the broker heard from the client
	lastAtHwm  bool          // the last thing heard was a fetch at hwm (the reader idles)
	hang       bool          // a hang is pending (cleared by the next connection)
	offHang    bool          // the next ListOffsets request is not answered
	trace      func(string, ...interface{})
}

func newRdBroker(sc *rdScenario) *rdBroker {
	rb := &rdBroker{sc: sc, items: sc.Items, first: itemFirst(sc.Items[0]), leader: 1, seq: map[int]int{},
		hwm3: make(chan struct{}), last: time.Now()}
	rb.b = &Broker{FetchMax: int16(sc.Ver), Topic: sc.topic(), Cluster: true}
	rb.b.OnConn = func(int) bool {
		rb.mu.Lock()
		rb.hang = false
		rb.touch(false)
		rb.mu.Unlock()
		return true
	}
	rb.b.OnMetadata = func(int) (int32, int16) {
		rb.mu.Lock()
		defer rb.mu.Unlock()
		rb.touch(false)
		return rb.leader, 0
	}
	rb.b.OnOffset = func(_ int, ts int64) (int64, int16) {
		rb.mu.Lock()
		defer rb.mu.Unlock()
		rb.touch(false)
		if ts == -2 {
			return rb.first, 0
		}
		return sc.Hwm, 0
	}
	rb.b.OnOffsetHang = func(int) bool {
		rb.mu.Lock()
		defer rb.mu.Unlock()
		h := rb.offHang
		rb.offHang = false
		return h
	}
	rb.b.OnFetch = rb.onFetch
	return rb
}

func (rb *rdBroker) touch(atHwm bool) { rb.last, rb.lastAtHwm = time.Now(), atHwm }

// onFetch is the scripted broker.  Let o be the requested offset.
//
//	o > hwm or o < first      -> partition error 1, empty set                      (not a data fetch)
//	o == hwm                  -> empty set, no error, answered after 5ms           (not a data fetch)
//	otherwise data fetch number idx (0-based, counted over all connections):
//	  1. trunc=idx:n          -> the log becomes items[n:], first = its first offset; if now o < first: error 1, done
//	  2. fault idx:kind       -> cut<k>: the normal answer, frame cut after k mod frameLen bytes, connection closed
//	                             err<c>: partition error c, empty set;  move: error 6 and leader id + 1 from now on
//	                             hang: no answer at all
//	  3. otherwise            -> serve(log, o, budgets[idx mod len(budgets)])
func (rb *rdBroker) onFetch(q FetchReq) FetchResp {
	resp, pause := rb.answer(q)
	if pause > 0 {
		time.Sleep(pause) // pacing only: the client is idle (at hwm) or spinning on one offset without any backoff
	}
	return resp
}

func (rb *rdBroker) answer(q FetchReq) (FetchResp, time.Duration) {
	sc := rb.sc
	o := q.Offset
	rb.mu.Lock()
	defer rb.mu.Unlock()
	s, ok := rb.seq[q.Conn]
	if !ok {
		s = len(rb.seq) + 1
		rb.seq[q.Conn] = s
		rb.perConn = append(rb.perConn, nil)
		rb.repeat = append(rb.repeat, 0)
	}
	if l := rb.perConn[s-1]; len(l) == 0 || l[len(l)-1] != o {
		rb.perConn[s-1] = append(l, o)
		rb.repeat[s-1] = 0
	}
	rb.repeat[s-1]++
	var pause time.Duration
	if rb.repeat[s-1] > 3 {
		pause = rdSpinSleep
	}
	if rb.trace != nil && rb.repeat[s-1] <= 4 {
		rb.trace("fetch conn=%d seq=%d offset=%d n=%d first=%d", q.Conn, s, o, rb.n, rb.first)
	}
	rb.touch(o == sc.Hwm)
	if o > sc.Hwm || o < rb.first {
		return FetchResp{Err: 1, Hwm: sc.Hwm, Cut: -1}, pause
	}
	if o == sc.Hwm {
		rb.hwmFetches++
		if rb.hwmFetches == 3 {
			close(rb.hwm3)
		}
		return FetchResp{Hwm: sc.Hwm, Cut: -1}, rdHwmSleep
	}
	idx := rb.n
	rb.n++
	if idx == sc.TruncIdx {
		rb.items = sc.Items[sc.TruncN:]
		rb.first = itemFirst(rb.items[0])
		if o < rb.first {
			return FetchResp{Err: 1, Hwm: sc.Hwm, Cut: -1}, pause
		}
	}
	budget := sc.Budgets[idx%len(sc.Budgets)]
	for _, f := range sc.Faults {
		if f.Idx != idx {
			continue
		}
		switch f.Kind {
		case "cut":
			k := f.K
			return FetchResp{Hwm: sc.Hwm, Set: serve(rb.items, o, budget), Cut: -1, CutFn: func(n int) int { return k % n }}, pause
		case "stall":
			// like cut, but the connection stays open and silent: the reader's own deadlines have to end the round
			k := f.K
			rb.hang = true
			return FetchResp{Hwm: sc.Hwm, Set: serve(rb.items, o, budget), Cut: -1, CutFn: func(n int) int { return k % n }, KeepOpen: true}, 0
		case "hang":
			rb.hang = true
			return FetchResp{Hang: true}, 0
		case "move":
			rb.leader++
			return FetchResp{Err: 6, Hwm: sc.Hwm, Cut: -1}, pause
		case "err1h":
			// OffsetOutOfRange, and the broker stops answering on this connection: the reader's ListOffsets (is the
			// offset before the first or after the last?) runs into its 10 s deadline; then a new connection
			rb.offHang, rb.hang = true, true
			return FetchResp{Err: 1, Hwm: sc.Hwm, Cut: -1}, 0
		default: // err<c>
			c, _ := strconv.Atoi(f.Kind[3:])
			return FetchResp{Err: int16(c), Hwm: sc.Hwm, Cut: -1}, pause
		}
	}
	lso := o // an open transaction begins where the reader stands: last stable offset = fetch offset < high watermark
	return FetchResp{Hwm: sc.Hwm, Set: serve(rb.items, o, budget), Cut: -1, LSO: &lso}, pause
}

// settle waits until the background reader goroutine is parked: idling at hwm, or silent for rdQuiet (blocked on
// the full message queue).  It makes the amount of read-ahead at the time of a SetOffset / of the final snapshot a
// function of the queue capacity instead of the scheduler.
func (rb *rdBroker) settle() {
	t0 := time.Now()
	for time.Since(t0) < rdSettleMax {
		rb.mu.Lock()
		// quiet must be measured from now on as well: the message the application has just taken may have unblocked
		// the fetcher, whose next fetch has not reached the broker yet
		ok := !rb.hang && (rb.lastAtHwm || (time.Since(rb.last) > rdQuiet && time.Since(t0) > rdQuiet))
		rb.mu.Unlock()
		if ok {
			return
		}
		time.Sleep(2 * time.Millisecond)
	}
}

// journal: fetch requests as <connSeq>:<offset>, grouped by connection in connSeq order (= arrival order unless a
// cancelled reader overlaps its successor), consecutive duplicates collapsed, trailing fetches at hwm dropped
// (one is kept when nothing else is left).
func (rb *rdBroker) journal(cyclic bool) string {
	rb.mu.Lock()
	defer rb.mu.Unlock()
	type e struct {
		s int
		o int64
	}
	var es []e
	for i, l := range rb.perConn {
		for _, o := range l {
			es = append(es, e{i + 1, o})
		}
	}
	for len(es) > 1 && es[len(es)-1].o == rb.sc.Hwm {
		es = es[:len(es)-1]
	}
	if len(es) == 0 {
		return "-"
	}
	ss := make([]string, len(es))
	for i, x := range es {
		ss[i] = fmt.Sprintf("%d:%d", x.s, x.o)
	}
	// A reader that never comes to rest (it cycles through a few offsets) leaves a tail whose length depends on
	// the clock: the tail from the earliest index s on which it is periodic (shortest period p <= 8, at least two
	// full periods seen) is written once, as [..]*.
	if cyclic {
		n := len(es)
		for s := 0; s < n; s++ {
			for p := 1; p <= 8 && s+2*p <= n; p++ {
				periodic := true
				for i := s; i+p < n; i++ {
					if es[i] != es[i+p] {
						periodic = false
						break
					}
				}
				if periodic {
					pre := ""
					if s > 0 {
						pre = strings.Join(ss[:s], ",") + ","
					}
					return pre + "[" + strings.Join(ss[s:s+p], ",") + "]*"
				}
			}
		}
	}
	return strings.Join(ss, ",")
}

// --------------------------------------------------------------------------------------------------- app side

func runReader(sc *rdScenario) string {
	rb := newRdBroker(sc)
	start := kafka.FirstOffset
	explicit := int64(-1)
	switch sc.Start {
	case "first":
	case "last":
		start = kafka.LastOffset
	default:
		explicit, _ = strconv.ParseInt(sc.Start, 10, 64)
	}
	var logger, errLogger kafka.Logger
	if rdDebug != "" {
		t0 := time.Now()
		logger = kafka.LoggerFunc(func(f string, a ...interface{}) {
			fmt.Fprintf(os.Stderr, "%8.3f  log: %s\n", time.Since(t0).Seconds(), fmt.Sprintf(f, a...))
		})
		errLogger = kafka.LoggerFunc(func(f string, a ...interface{}) {
			fmt.Fprintf(os.Stderr, "%8.3f  ERR: %s\n", time.Since(t0).Seconds(), fmt.Sprintf(f, a...))
		})
		rb.trace = func(f string, a ...interface{}) {
			fmt.Fprintf(os.Stderr, "%8.3f  brk: %s\n", time.Since(t0).Seconds(), fmt.Sprintf(f, a...))
		}
	}
	maxWait := 250 * time.Millisecond
	if sc.Slow > 0 {
		maxWait = 400 * time.Millisecond // adjusted batch deadline = t0+300ms; a response of >= 3 records takes longer
	}
	rd := kafka.NewReader(kafka.ReaderConfig{
		Logger:      logger,
		ErrorLogger: errLogger,
		Brokers:     []string{"fake:9092"},
		Topic:       sc.topic(),
		Partition:   0,
		Dialer: &kafka.Dialer{DialFunc: func(ctx context.Context, network, addr string) (net.Conn, error) {
			c, _ := rb.b.DialAddr(addr)
			return c, nil
		}},
		MinBytes:         1,
		MaxBytes:         10 << 20,
		MaxWait:          maxWait,
		ReadBatchTimeout: 2 * time.Second,
		QueueCapacity:    sc.Q,
		ReadBackoffMin:   time.Millisecond,
		ReadBackoffMax:   2 * time.Millisecond,
		MaxAttempts:      3,
		StartOffset:      start,
		ReadLagInterval:  -1, // no lag poller: it only adds connections that never fetch
	})
	// ReaderConfig.StartOffset is only honoured by consumer-group readers: a partition reader starts at FirstOffset
	// unless SetOffset is called, so "last" is SetOffset(LastOffset).
	if sc.Start == "last" {
		rd.SetOffset(kafka.LastOffset)
	}
	if explicit >= 0 {
		rd.SetOffset(explicit)
	}
	expectNone := sc.Start == "last" || explicit == sc.Hwm

	nrec := 0
	for _, it := range sc.Items {
		nrec += len(it.Recs)
	}
	maxEntries := 6*nrec + 60

	var stream []string
	received, next, atEnd := 0, 0, false
	haveLast, lastOffset := false, int64(0)
	lastMsg := time.Now()
	outcome := ""
	for outcome == "" {
		for next < len(sc.Sets) && sc.Sets[next].K == received {
			rb.settle()
			rd.SetOffset(sc.Sets[next].O)
			stream = append(stream, "|")
			next++
			atEnd = false
			haveLast = false
			lastMsg = time.Now()
		}
		if atEnd && next == len(sc.Sets) {
			outcome = "done"
			break
		}
		if len(stream) > maxEntries {
			outcome = "runaway"
			break
		}
		ctx, cancel := context.WithDeadline(context.Background(), lastMsg.Add(sc.stallAfter()))
		if expectNone {
			go func() {
				select {
				case <-rb.hwm3:
					cancel()
				case <-ctx.Done():
				}
			}()
		}
		m, err := rd.FetchMessage(ctx)
		cerr := ctx.Err()
		cancel()
		if err != nil {
			if cerr != nil {
				outcome = "stall"
				if expectNone {
					select {
					case <-rb.hwm3:
						outcome = "done"
					default:
					}
				}
				break
			}
			stream = append(stream, "E"+errClass(err))
			continue
		}
		stream = append(stream, fmt.Sprintf("%d:%d", m.Offset, msgDigest(m)))
		if rd.Offset() != m.Offset+1 {
			// Reader.Offset() is the position SetOffset compares with: it must follow the messages handed out
			outcome = "badpos"
			break
		}
		received++
		lastMsg = time.Now()
		atEnd = m.Offset == sc.Hwm-1
		if haveLast && m.Offset <= lastOffset {
			// a repeated or out-of-order offset within one position: the run has already failed, do not let it
			// go on (a redelivery loop would otherwise cost minutes with a slow consumer)
			outcome = "disorder"
			break
		}
		haveLast, lastOffset = true, m.Offset
		if sc.Slow > 0 {
			time.Sleep(time.Duration(sc.Slow) * time.Millisecond)
			lastMsg = time.Now()
		}
	}
	rb.settle()
	j := rb.journal(outcome != "done")
	closed := make(chan struct{})
	go func() { rd.Close(); close(closed) }()
	cl := "ok"
	select {
	case <-closed:
		// `reader_api`, clause Close: nothing is handed out any more (FetchMessage = io.EOF, SetOffset = io.ErrClosedPipe)
		cctx, ccancel := context.WithTimeout(context.Background(), 300*time.Millisecond)
		if m, err := rd.FetchMessage(cctx); !errors.Is(err, io.EOF) {
			cl = fmt.Sprintf("ok-but-fetch-after-close:%d:%v", m.Offset, err)
		} else if err := rd.SetOffset(0); !errors.Is(err, io.ErrClosedPipe) {
			cl = fmt.Sprintf("ok-but-setoffset-after-close:%v", err)
		}
		ccancel()
		// every connection the fetch loop opened is over: each way out of readLoop closes the connection (directly, or
		// Batch.Close has), and Close ends the loop.  (The broker notices a closed connection with its next read.)
		opened, over := rb.b.Conns()
		for t0 := time.Now(); over != opened && time.Since(t0) < time.Second; {
			time.Sleep(2 * time.Millisecond)
			opened, over = rb.b.Conns()
		}
		if cl == "ok" && over != opened {
			cl = fmt.Sprintf("ok-but-%d-of-%d-connections-left-open", opened-over, opened)
		}
	case <-time.After(3 * time.Second):
		cl = "hung"
	}
	return fmt.Sprintf("d=%s j=%s out=%s close=%s", showDelivered(stream), j, outcome, cl)
}

// ------------------------------------------------------------------------------------------------- generators

// rdLog: a log whose last record is hwm-1.
func rdLog(r *rand.Rand) ([]Item, int64) {
	format := []int{2, 2, 2, 2, 1, 0}[r.Intn(6)]
	bias := 0
	if readerEmptyBatches {
		bias = []int{0, 0, 6}[r.Intn(3)]
	}
	items, _ := genLog(r, format, 1+r.Intn(7), bias)
	if !readerEmptyBatches {
		var keep []Item
		for _, it := range items {
			if len(it.Recs) == 0 && len(keep) > 0 && len(keep[len(keep)-1].Recs) == 0 {
				continue
			}
			keep = append(keep, it)
		}
		items = keep
	}
	return items, itemLast(items[len(items)-1]) + 1
}

func recsFrom(items []Item, o int64) (n int) {
	for _, it := range items {
		for _, rc := range it.Recs {
			if rc.Offset >= o {
				n++
			}
		}
	}
	return
}

func genReaderScenario(r *rand.Rand, ver int) *rdScenario {
	items, hwm := rdLog(r)
	first := itemFirst(items[0])
	sc := &rdScenario{Ver: ver, Items: items, Hwm: hwm, TruncIdx: -1}
	startOff := first
	switch x := r.Intn(10); {
	case x < 6:
		sc.Start = "first"
	case x < 7:
		sc.Start = "last"
		startOff = hwm
	default:
		lo := first - 3
		if lo < 0 {
			lo = 0
		}
		startOff = lo + r.Int63n(hwm-lo+1)
		sc.Start = strconv.FormatInt(startOff, 10)
	}
	sc.Q = []int{1, 2, 5, 100}[r.Intn(4)]
	for j, n := 0, 1+r.Intn(3); j < n; j++ {
		sc.Budgets = append(sc.Budgets, []int{1, 80, 150, 300, 1000, 1 << 20}[r.Intn(6)]+r.Intn(60))
	}
	if startOff == hwm {
		return sc
	}
	used := map[int]bool{}
	if len(items) >= 2 && r.Intn(5) == 0 {
		sc.TruncIdx = r.Intn(5)
		sc.TruncN = 1 + r.Intn(len(items)-1)
		used[sc.TruncIdx] = true
	}
	for j, n := 0, []int{0, 0, 1, 1, 2, 3}[r.Intn(6)]; j < n; j++ {
		idx := r.Intn(8)
		if used[idx] {
			continue
		}
		used[idx] = true
		f := rdFault{Idx: idx}
		switch x := r.Intn(30); {
		case x < 12:
			f.Kind, f.K = "cut", r.Intn(1200)
		case x < 16:
			f.Kind = "err6"
		case x < 19:
			f.Kind = "err3"
		case x < 22:
			f.Kind = "err7"
		case x < 25:
			f.Kind = "err1"
		case x < 28:
			f.Kind = "move"
		default:
			f.Kind = "hang"
		}
		sc.Faults = append(sc.Faults, f)
	}
	for i := 1; i < len(sc.Faults); i++ { // by idx
		for j := i; j > 0 && sc.Faults[j-1].Idx > sc.Faults[j].Idx; j-- {
			sc.Faults[j-1], sc.Faults[j] = sc.Faults[j], sc.Faults[j-1]
		}
	}
	if r.Intn(4) == 0 && hwm-first >= 1 && sc.TruncIdx < 0 { // SetOffset scripts are not combined with log truncation
		k, from := 0, startOff
		for j, n := 0, 1+r.Intn(2); j < n; j++ {
			avail := recsFrom(items, from)
			if avail < 1 {
				avail = 1
			}
			k += 1 + r.Intn(avail)
			o := first + r.Int63n(hwm-first)
			sc.Sets = append(sc.Sets, rdSet{K: k, O: o})
			from = o
		}
	}
	return sc
}

// stallAfter: how long the application waits for the next message before the run counts as stalled.  A broker that
// stops answering a ListOffsets costs the reader its fixed 10 s deadline (reader.go readOffsets).
func (sc *rdScenario) stallAfter() time.Duration {
	for _, f := range sc.Faults {
		if f.Kind == "err1h" {
			return 18 * time.Second
		}
		if f.Kind == "stall" {
			return 8 * time.Second // ReadBatchTimeout (2 s) ends the round; generous for a loaded machine
		}
	}
	return rdStallAfter
}

func readerCorpus() (scs []*rdScenario) {
	data := func(base, last int64, offs ...int64) Item {
		return Item{Format: 2, Base: base, Last: last, Recs: recs(offs...)}
	}
	log3 := []Item{data(100, 104, 100, 101, 102, 103, 104), data(105, 109, 105, 106, 107, 108, 109), data(110, 114, 110, 111, 112, 113, 114)}
	mk := func(ver int, start string, q int, budgets []int, faults []rdFault, ti, tn int, sets []rdSet) {
		scs = append(scs, &rdScenario{Ver: ver, Start: start, Q: q, Budgets: budgets, Faults: faults, TruncIdx: ti, TruncN: tn,
			Sets: sets, Items: log3, Hwm: 115})
	}
	// first, because it takes the reader's 10 s ListOffsets deadline: OffsetOutOfRange on the second data fetch, then
	// the broker is silent on that connection (seeded/C09-m8: without the deadline the fetcher never comes back)
	mk(5, "first", 100, []int{1}, []rdFault{{Idx: 1, Kind: "err1h"}}, -1, 0, nil)
	for _, ver := range []int{2, 5, 10} {
		// plain runs
		mk(ver, "first", 100, []int{1 << 20}, nil, -1, 0, nil)
		mk(ver, "first", 1, []int{1}, nil, -1, 0, nil)
		mk(ver, "last", 100, []int{1 << 20}, nil, -1, 0, nil)
		mk(ver, "107", 2, []int{1}, nil, -1, 0, nil)
		mk(ver, "97", 2, []int{1}, nil, -1, 0, nil)
		mk(ver, "115", 2, []int{1}, nil, -1, 0, nil)
		// D3: the log start overtakes the reader (fetch 1 at 105 finds first=110)
		mk(ver, "first", 100, []int{1}, nil, 1, 2, nil)
		mk(ver, "first", 1, []int{1}, nil, 1, 2, nil)
		// D3 variant: truncation into the middle of what the reader asks next (first=105 == next offset: harmless)
		mk(ver, "first", 100, []int{1}, nil, 1, 1, nil)
		// truncation on the very first fetch
		mk(ver, "first", 100, []int{1 << 20}, nil, 0, 1, nil)
		// every fault kind once, on the second data fetch
		for _, k := range []string{"err6", "err3", "err7", "err1", "move", "hang"} {
			mk(ver, "first", 100, []int{1}, []rdFault{{Idx: 1, Kind: k}}, -1, 0, nil)
		}
		for _, k := range []int{0, 3, 20, 40, 70, 150, 230} {
			mk(ver, "first", 100, []int{1 << 20}, []rdFault{{Idx: 0, Kind: "cut", K: k}}, -1, 0, nil)
		}
		// the same cut, but the connection stays open and silent (a host lost without FIN): two complete records have
		// arrived; the round ends at ReadBatchTimeout, Batch.Close must not wait for the tail (seeded/C17-m10)
		mk(ver, "first", 100, []int{1 << 20}, []rdFault{{Idx: 0, Kind: "stall", K: 150 + 10*(ver%3)}}, -1, 0, nil)
		// the leadership moves twice: to a broker at another address, and on (seeded/C02-m9: the partition connection must
		// go to the leader's address, not to the bootstrap broker's)
		mk(ver, "first", 100, []int{1}, []rdFault{{Idx: 1, Kind: "move"}, {Idx: 2, Kind: "move"}}, -1, 0, nil)
		// SetOffset: backwards, forwards, to the same place; small and large queue
		mk(ver, "first", 1, []int{1}, nil, -1, 0, []rdSet{{K: 7, O: 102}})
		mk(ver, "first", 100, []int{1 << 20}, nil, -1, 0, []rdSet{{K: 7, O: 102}})
		mk(ver, "first", 2, []int{150}, nil, -1, 0, []rdSet{{K: 2, O: 112}, {K: 4, O: 100}})
		mk(ver, "first", 100, []int{1}, nil, -1, 0, []rdSet{{K: 15, O: 114}})
		mk(ver, "first", 5, []int{1}, nil, -1, 0, []rdSet{{K: 3, O: 103}})
		// SetOffset to the offset of the message just handed out (it must come again) and to the one after it (no-op)
		mk(ver, "first", 5, []int{1 << 20}, nil, -1, 0, []rdSet{{K: 4, O: 103}})
		mk(ver, "first", 1, []int{1}, nil, -1, 0, []rdSet{{K: 4, O: 103}, {K: 6, O: 105}})
		mk(ver, "first", 100, []int{150}, nil, -1, 0, []rdSet{{K: 4, O: 104}, {K: 5, O: 104}})
		// slow consumer, QueueCapacity 1, responses cut at the byte limit inside the next batch: every batch ends
		// after its (adjusted) deadline, i.e. with RequestTimedOut instead of io.EOF
		mk(ver, "first", 1, []int{150}, nil, -1, 0, nil)
		scs[len(scs)-1].Slow = 150
		mk(ver, "first", 1, []int{1 << 20}, nil, -1, 0, nil)
		scs[len(scs)-1].Slow = 150
	}
	return
}

func readerCases(r *rand.Rand, thorough bool) {
	scs := readerCorpus()
	n := 120
	if thorough {
		n = 1000
	}
	vers := []int{2, 5, 10}
	for i := 0; i < n; i++ {
		scs = append(scs, genReaderScenario(r, vers[i%3]))
	}
	// slow-consumer variants (appended so that the scenarios above keep their random draws)
	nslow := 9
	if thorough {
		nslow = 45
	}
	for i := 0; i < nslow; i++ {
		sc := genReaderScenario(r, vers[i%3])
		nrec := 0
		for _, it := range sc.Items {
			nrec += len(it.Recs)
		}
		if nrec > 24 || sc.Start == "last" {
			continue
		}
		sc.Slow, sc.Q = 120, 1
		scs = append(scs, sc)
	}
	if rdDebug != "" {
		var sel []*rdScenario
		for _, sc := range scs {
			if strings.Contains(sc.args(), rdDebug) {
				sel = append(sel, sc)
			}
		}
		scs = sel
	}
	for i, sc := range scs {
		sc.Topic = fmt.Sprintf("t%04d", i) // fixed length: the topic name is part of every response frame (cut faults count bytes)
	}
	kafka.VerifStart()
	res := make([]string, len(scs))
	var wg sync.WaitGroup
	work := make(chan int)
	for w := 0; w < rdWorkers; w++ {
		wg.Add(1)
		go func() {
			defer wg.Done()
			for i := range work {
				res[i] = runReader(scs[i])
			}
		}()
	}
	for i := range scs {
		work <- i
	}
	close(work)
	wg.Wait()
	events := kafka.VerifStop()
	for i, sc := range scs {
		emit(sc.args(), res[i])
	}
	emitTraces(scs, events)
}

// emitTraces: op `rtrace` — the RL.* hook events of every fetcher goroutine ((*reader).run) of every scenario, one line
// per fetcher: the oracle replays them through the loop LTS of Model/ReaderLoopLTS.lean (`rstep`), which must agree with
// the recorded attempt / errcount / offset / conn offset at every step, and checks the `Good` hypotheses of the
// loop theorems on the recorded fetch rounds.
func emitTraces(scs []*rdScenario, events []kafka.VerifEvent) {
	type key struct{ topic, fetcher string }
	traces := map[key][]string{}
	var order []key
	for _, e := range events {
		if !strings.HasPrefix(e.Kind, "RL.") || len(e.Args) < 2 {
			continue
		}
		k := key{e.Args[1], e.Args[0]}
		if _, ok := traces[k]; !ok {
			order = append(order, k)
		}
		ev := strings.TrimPrefix(e.Kind, "RL.") + ":" + strings.Join(e.Args[2:], ":")
		t := traces[k]
		// idle polling (and any other exact repetition of an iteration without messages) is recorded once
		if n := len(t); n >= 3 && strings.HasPrefix(ev, "Read:") && t[n-1] == t[n-3] && strings.HasPrefix(t[n-1], "Iter:") && t[n-2] == ev {
			traces[k] = t[:n-1]
			continue
		}
		if len(t) < 600 {
			traces[k] = append(t, ev)
		}
	}
	byTopic := map[string]*rdScenario{}
	for _, sc := range scs {
		byTopic[sc.topic()] = sc
	}
	// op `ftrace`: the RF.* events of the Reader front of every scenario (fetcher started with its version tag, message
	// enqueued with its tag, message accepted / dropped by FetchMessage, SetOffset), in recorded order
	front := map[string][]string{}
	for _, e := range events {
		if strings.HasPrefix(e.Kind, "RF.") && len(e.Args) >= 2 && len(front[e.Args[1]]) < 2000 {
			front[e.Args[1]] = append(front[e.Args[1]], strings.TrimPrefix(e.Kind, "RF.")+":"+strings.Join(e.Args[2:], ":"))
		}
	}
	for _, sc := range scs {
		if evs := front[sc.topic()]; len(evs) > 0 {
			tr := "-"
			if sc.TruncIdx >= 0 {
				tr = fmt.Sprintf("%d", sc.TruncN)
			}
			emit(fmt.Sprintf("ftrace sc=%s hwm=%d first=%d truncn=%s L=%s T=%s", sc.topic(), sc.Hwm, itemFirst(sc.Items[0]), tr,
				layoutText(sc.Items), strings.Join(evs, ";")), "ok")
		}
	}
	nth := map[string]int{}
	for _, k := range order {
		sc := byTopic[k.topic]
		if sc == nil {
			continue
		}
		nth[k.topic]++
		tr := "-"
		if sc.TruncIdx >= 0 {
			tr = fmt.Sprintf("%d", sc.TruncN)
		}
		bs := make([]string, len(sc.Budgets))
		for i, b := range sc.Budgets {
			bs[i] = strconv.Itoa(b)
		}
		emit(fmt.Sprintf("rtrace sc=%s f=%d hwm=%d truncn=%s budgets=%s L=%s T=%s", k.topic, nth[k.topic], sc.Hwm, tr,
			strings.Join(bs, ","), layoutText(sc.Items), strings.Join(traces[k], ";")), "ok")
	}
}
