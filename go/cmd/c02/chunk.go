// fetch responses that reach the client in small pieces.  The models know a response as a list of bytes: how the
// network cuts it into reads is invisible to them (Model/ByteReader.lean reads from `Rd.bs`), so the same op `fetch`
// with the same expected result is emitted — plus `chunk=<n>` (ignored by the model).  After the batch was closed a
// ReadLastOffset follows on the same Conn: a round that ended cleanly (out=eof: the message set's byte budget `remain`
// was used up exactly, Close returned nil) leaves the Conn at a response boundary; if that call fails or returns
// another offset than the broker's, `out` says so (and no longer equals the model's `eof`).
// This reaches read.go's refill paths (readVarInt's `Discard`/`Peek(1)` loop, peekRead across fills), which a
// response delivered in one Write only meets at the 4096-byte bufio boundary.
package main

import (
	"fmt"
	"math/rand"
	"time"

	kafka "github.com/segmentio/kafka-go"
)

func runFetchChunked(ver int, o, hwm int64, set []byte, chunk int) string {
	b := &Broker{FetchMax: int16(ver), Topic: "t", OnFetch: func(q FetchReq) FetchResp {
		return FetchResp{Hwm: hwm, Set: set, Cut: -1, Chunk: chunk}
	}, OnOffset: func(int, int64) (int64, int16) { return 4242, 0 }}
	cli, _ := b.Dial()
	conn := kafka.NewConn(cli, "t", 0)
	defer conn.Close()
	conn.Seek(o, kafka.SeekAbsolute|kafka.SeekDontCheck)
	d, outcome := readBatchWithin(conn, 3*time.Second)
	off, _ := conn.Offset()
	next := "ok"
	conn.SetDeadline(time.Now().Add(3 * time.Second))
	if last, err := conn.ReadLastOffset(); err != nil {
		next = errClass(err)
	} else if last != 4242 {
		next = fmt.Sprintf("wrong:%d", last)
	}
	if next != "ok" && outcome == "eof" {
		outcome = "eof-then-next-call-" + next // Close returned nil, yet the Conn was not at a response boundary
	}
	return fmt.Sprintf("d=%s off=%d out=%s", showDelivered(d), off, outcome)
}

func chunkCases(thorough bool) {
	r := rand.New(rand.NewSource(20260926))
	n := 60
	if thorough {
		n = 500
	}
	vers := []int{2, 5, 10}
	for i := 0; i < n; i++ {
		format := []int{2, 2, 2, 2, 1, 0, 3}[r.Intn(7)]
		items, hwm := genLog(r, format, 1+r.Intn(4), []int{0, 0, 6}[r.Intn(3)])
		o := pickOffset(r, items, hwm)
		if o == hwm {
			continue
		}
		from := 0
		for from < len(items) && itemLast(items[from]) < o {
			from++
		}
		sub := items[from:]
		// multi-byte varints: values / keys of 64 bytes and more, timestamps well apart, many headers
		for bi := range sub {
			if sub[bi].Format == 2 && r.Intn(4) != 0 {
				sub[bi].Codec = 0 // mostly uncompressed: the records are read from the connection's own buffer
			}
			for ri := range sub[bi].Recs {
				rc := &sub[bi].Recs[ri]
				if r.Intn(2) == 0 {
					rc.Value = make([]byte, 64+r.Intn(300))
					r.Read(rc.Value)
				}
				if r.Intn(3) == 0 {
					rc.Key = make([]byte, 64+r.Intn(100))
					r.Read(rc.Key)
				}
				if r.Intn(2) == 0 {
					rc.TsMs += int64(r.Intn(10_000_000))
				}
			}
		}
		set, _ := EncodeLayout(sub, -1)
		cut := -1
		if r.Intn(3) == 0 {
			cut = r.Intn(len(set) + 1)
		}
		chunk := []int{1, 1, 2, 3, 5, 16, 1 + r.Intn(200)}[r.Intn(7)]
		set, txt := EncodeLayout(sub, cut)
		if cut > len(set) {
			cut = -1
		}
		emit(fmt.Sprintf("fetch v=%d o=%d hwm=%d cut=%d chunk=%d L=%s", vers[i%3], o, hwm, cut, chunk, txt),
			runFetchChunked(vers[i%3], o, hwm, set, chunk))
	}
}
