// Driver for property C02: runs the REAL kafka.Conn.ReadBatch / kafka.Reader of /repo against an in-process fake
// broker that serves scripted logs in scripted physical layouts, and prints one line per case:
//
//	"<op> <args…>\t<implementation output>"
//
// ops:  fetch  — one fetch response through Conn.ReadBatchWith (any layout, any cut, any start offset)
//
//	iter   — repeated fetches on one Conn against a broker obeying the fetch contract with byte budgets
//	reader — (reader.go) the high-level Reader with faults and SetOffset
package main

import (
	"bufio"
	"errors"
	"fmt"
	"io"
	"math/rand"
	"os"
	"strconv"
	"strings"
	"time"

	kafka "github.com/segmentio/kafka-go"

	"kvharness/internal/gen"
)

var out = bufio.NewWriter(os.Stdout)

func emit(op string, impl string) { fmt.Fprintf(out, "%s\t%s\n", op, impl) }

func msgDigest(m kafka.Message) uint32 {
	ts := int64(-1)
	if !m.Time.IsZero() {
		ts = m.Time.UnixNano() / 1e6
	}
	return Digest(m.Key, m.Value, m.Headers, ts)
}

func errClass(err error) string {
	var ke kafka.Error
	switch {
	case err == nil:
		return "nil"
	case errors.Is(err, io.EOF):
		return "eof"
	case errors.Is(err, io.ErrUnexpectedEOF):
		return "unexpectedEOF"
	case errors.As(err, &ke):
		return "kafka" + strconv.Itoa(int(ke))
	case errors.Is(err, io.ErrNoProgress):
		return "noprogress"
	default:
		return "other"
	}
}

func showDelivered(d []string) string {
	if len(d) == 0 {
		return "-"
	}
	return strings.Join(d, ",")
}

// readBatch reads one batch to its end; returns the delivered messages, the outcome and whether it panicked.
func readBatch(conn *kafka.Conn) (d []string, outcome string) {
	return readBatchWithin(conn, 10*time.Second)
}

func readBatchWithin(conn *kafka.Conn, within time.Duration) (d []string, outcome string) {
	defer func() {
		if r := recover(); r != nil {
			outcome = "panic"
		}
	}()
	conn.SetDeadline(time.Now().Add(within))
	batch := conn.ReadBatchWith(kafka.ReadBatchConfig{MinBytes: 1, MaxBytes: 10 << 20})
	for {
		m, err := batch.ReadMessage()
		if err != nil {
			cerr := batch.Close()
			outcome = errClass(err)
			if cerr != nil && outcome == "eof" {
				outcome = "close-" + errClass(cerr)
			}
			return
		}
		e := fmt.Sprintf("%d:%d", m.Offset, msgDigest(m))
		if m.Topic != "t" || m.Partition != 0 {
			e += fmt.Sprintf("!topic=%s/%d", m.Topic, m.Partition) // the message does not say where it comes from
		}
		d = append(d, e)
	}
}

// runFetch: one fetch response holding `set` for a conn positioned at o.
func runFetch(ver int, o, hwm int64, set []byte) string {
	b := &Broker{FetchMax: int16(ver), Topic: "t", OnFetch: func(q FetchReq) FetchResp {
		// an open transaction begins right where the consumer stands (last stable offset = fetch offset < high watermark):
		// with the default isolation level the broker returns the records up to the high watermark all the same
		// (seeded/C02-m12: the v10 header reader took the last stable offset for the watermark)
		lso := q.Offset
		return FetchResp{Hwm: hwm, Set: set, Cut: -1, LSO: &lso}
	}}
	cli, _ := b.Dial()
	conn := kafka.NewConn(cli, "t", 0)
	defer conn.Close()
	conn.Seek(o, kafka.SeekAbsolute|kafka.SeekDontCheck)
	d, outcome := readBatch(conn)
	off, _ := conn.Offset()
	return fmt.Sprintf("d=%s off=%d out=%s", showDelivered(d), off, outcome)
}

func itemLast(it Item) int64 {
	if it.Format == 2 {
		return it.Last
	}
	return it.Recs[len(it.Recs)-1].Offset
}

// serve implements the broker side of the fetch contract: the bytes of the items from the first one whose last
// offset is >= q, cut at `budget` bytes but never inside the first item.
func serve(items []Item, q int64, budget int) []byte {
	var set []byte
	first := true
	for _, it := range items {
		if first && itemLast(it) < q {
			continue
		}
		e, _ := it.Encode()
		if first {
			first = false
			set = append(set, e...)
			if len(set) >= budget {
				break
			}
			continue
		}
		if len(set)+len(e) > budget {
			set = append(set, e[:budget-len(set)]...)
			break
		}
		set = append(set, e...)
	}
	return set
}

// runIter: repeated fetches on one Conn starting at o until the high watermark is reached, no progress is made
// for 3 consecutive fetches (stuck), or something breaks.
func runIter(ver int, o, hwm int64, items []Item, budgets []int) string {
	n := 0
	b := &Broker{FetchMax: int16(ver), Topic: "t"}
	b.OnFetch = func(q FetchReq) FetchResp {
		if q.Offset > hwm || q.Offset < 0 {
			return FetchResp{Err: 1, Hwm: hwm, Cut: -1}
		}
		bud := budgets[n%len(budgets)]
		n++
		if q.Offset == hwm {
			return FetchResp{Hwm: hwm, Cut: -1}
		}
		return FetchResp{Hwm: hwm, Set: serve(items, q.Offset, bud), Cut: -1}
	}
	cli, _ := b.Dial()
	conn := kafka.NewConn(cli, "t", 0)
	defer conn.Close()
	conn.Seek(o, kafka.SeekAbsolute|kafka.SeekDontCheck)
	var all []string
	status := "done"
	idle := 0
	for fetches := 0; ; fetches++ {
		off, _ := conn.Offset()
		if off == hwm {
			break
		}
		d, outcome := readBatch(conn)
		all = append(all, d...)
		noff, _ := conn.Offset()
		if outcome != "eof" {
			status = outcome
			break
		}
		if noff < off {
			status = "backwards"
			break
		}
		if len(d) == 0 && noff == off {
			idle++
			if idle >= 3 {
				status = "stuck"
				break
			}
		} else {
			idle = 0
		}
		if fetches > 10000 {
			status = "runaway"
			break
		}
	}
	off, _ := conn.Offset()
	return fmt.Sprintf("d=%s off=%d out=%s", showDelivered(all), off, status)
}

// ---------------------------------------------------------------------------------------------- generators

func genRec(r *rand.Rand, off int64, ts int64) Rec {
	rec := Rec{Offset: off, TsMs: ts}
	switch r.Intn(5) {
	case 0: // null key
	case 1:
		rec.Key = []byte{}
	default:
		rec.Key = gen.Bytes(r, 1+r.Intn(12))
	}
	switch r.Intn(8) {
	case 0:
		rec.Value = []byte{}
	case 1:
		rec.Value = gen.Bytes(r, 100+r.Intn(400))
	default:
		rec.Value = gen.Bytes(r, 1+r.Intn(40))
	}
	for i, n := 0, r.Intn(3); i < n && r.Intn(2) == 0; i++ {
		rec.Headers = append(rec.Headers, kafka.Header{Key: fmt.Sprintf("h%d", r.Intn(100)), Value: gen.Bytes(r, r.Intn(6))})
	}
	return rec
}

// genLog produces the items of a partition log [start, hwm) as a broker could hold it after compaction.
// format: 0,1,2 or 3 = mixed (v1 items followed by v2 batches).  emptyBias raises the share of retained empty batches.
func genLog(r *rand.Rand, format int, nBatches int, emptyBias int) (items []Item, hwm int64) {
	off := int64(r.Intn(3) * r.Intn(200))
	ts := int64(1600000000000 + r.Intn(1000000))
	for bi := 0; bi < nBatches; bi++ {
		f := format
		if format == 3 {
			f = 1
			if bi >= nBatches/2 {
				f = 2
			}
		}
		n := 1 + r.Intn(5) // original record count of the batch
		if r.Intn(6) == 0 {
			n = 1
		}
		lastBatch := bi == nBatches-1
		var recs []Rec
		mode := r.Intn(10 + emptyBias) // 0..3 keep all, 4..6 random holes, 7 head holes, 8 tail holes, >=9 empty
		for i := 0; i < n; i++ {
			ts += int64(r.Intn(3))
			keep := true
			switch {
			case mode <= 3:
			case mode <= 6:
				keep = r.Intn(2) == 0
			case mode == 7:
				keep = i >= n/2
			case mode == 8:
				keep = i <= n/2 && i < n-1
			default:
				keep = false
			}
			if lastBatch && i == n-1 {
				keep = true // the log end is never compacted away
			}
			if keep {
				recs = append(recs, genRec(r, off+int64(i), ts))
			}
		}
		base, last := off, off+int64(n)-1
		off += int64(n)
		if r.Intn(8) == 0 && !lastBatch {
			off += int64(1 + r.Intn(3)) // whole batches removed: offsets nobody holds
		}
		switch f {
		case 2:
			codec := 0
			if r.Intn(2) == 0 {
				codec = 1 + r.Intn(4)
			}
			if len(recs) == 0 && r.Intn(4) == 0 {
				continue // empty batch finally dropped by the cleaner
			}
			if len(recs) == 0 {
				codec = 0 // the cleaner writes empty batches as a bare header (no compression attribute, no payload)
			}
			// every third batch comes from a transactional producer (committed: plain data with attributes bit 4)
			items = append(items, Item{Format: 2, Codec: codec, Base: base, Last: last, Recs: recs, Transactional: base%3 == 1})
		default:
			if len(recs) == 0 {
				continue
			}
			if r.Intn(2) == 0 && bi%2 == 0 {
				w := Item{Format: f, Codec: 1 + r.Intn(3), Base: base, Recs: recs}
				if r.Intn(3) == 0 {
					w.WrapKey = make([]byte, r.Intn(9)) // a wrapper with a key (empty or not): legal, carried by nobody
					r.Read(w.WrapKey)
				}
				items = append(items, w)
			} else {
				for _, rc := range recs {
					items = append(items, Item{Format: f, Recs: []Rec{rc}})
				}
			}
		}
	}
	return items, off
}

func layoutText(items []Item) string {
	_, s := EncodeLayout(items, -1)
	return s
}

func pickOffset(r *rand.Rand, items []Item, hwm int64) int64 {
	lo := hwm
	if len(items) > 0 {
		lo = items[0].Base
		if items[0].Format != 2 {
			lo = items[0].Recs[0].Offset
			if items[0].Codec != 0 {
				lo = items[0].Base
			}
		}
	}
	if hwm <= lo || r.Intn(12) == 0 {
		return hwm
	}
	return lo + int64(r.Intn(int(hwm-lo)))
}

func fetchCase(ver int, o, hwm int64, items []Item, cut int) {
	set, txt := EncodeLayout(items, cut)
	if cut > len(set) {
		cut = -1
	}
	emit(fmt.Sprintf("fetch v=%d o=%d hwm=%d cut=%d L=%s", ver, o, hwm, cut, txt), runFetch(ver, o, hwm, set))
}

func iterCase(ver int, o, hwm int64, items []Item, budgets []int) {
	bs := make([]string, len(budgets))
	for i, b := range budgets {
		bs[i] = strconv.Itoa(b)
	}
	emit(fmt.Sprintf("iter v=%d o=%d hwm=%d budgets=%s L=%s", ver, o, hwm, strings.Join(bs, ","), layoutText(items)),
		runIter(ver, o, hwm, items, budgets))
}

func rec(off int64) Rec {
	return Rec{Offset: off, Key: []byte("k"), Value: []byte(fmt.Sprintf("v%d", off)), TsMs: 1600000000000 + off}
}

func recs(offs ...int64) (rs []Rec) {
	for _, o := range offs {
		rs = append(rs, rec(o))
	}
	return
}

// corpus: the layouts that exposed D4 / D14 (and relatives) in the design phase; always run first.
func corpus() {
	data := func(base, last int64, offs ...int64) Item {
		return Item{Format: 2, Base: base, Last: last, Recs: recs(offs...)}
	}
	empty := func(base, last int64) Item { return Item{Format: 2, Base: base, Last: last} }
	for _, ver := range []int{2, 5, 10} {
		// D4: a response holding only a retained empty batch
		fetchCase(ver, 105, 120, []Item{empty(105, 109)}, -1)
		fetchCase(ver, 107, 120, []Item{empty(105, 109)}, -1)
		fetchCase(ver, 0, 120, []Item{empty(0, 4)}, -1)
		// data then trailing empty batch
		fetchCase(ver, 100, 120, []Item{data(100, 104, 100, 101, 102, 103, 104), empty(105, 109)}, -1)
		// D14: [data][empty][empty][data]
		fetchCase(ver, 100, 130, []Item{data(100, 101, 100, 101), empty(102, 103), empty(104, 105), data(106, 107, 106, 107)}, -1)
		fetchCase(ver, 100, 130, []Item{empty(100, 101), empty(102, 103), empty(104, 105), data(106, 107, 106, 107)}, -1)
		fetchCase(ver, 100, 130, []Item{empty(100, 101), empty(102, 103), empty(104, 105), empty(106, 107), data(108, 109, 108)}, -1)
		// compacted tail, plain and compressed
		fetchCase(ver, 100, 130, []Item{data(100, 109, 100, 101)}, -1)
		fetchCase(ver, 100, 130, []Item{{Format: 2, Codec: 1, Base: 100, Last: 109, Recs: recs(100, 101)}}, -1)
		// a compressed v0/v1 wrapper that carries a key (C05-D31): its inner messages are the records
		for _, f := range []int{0, 1} {
			for _, k := range [][]byte{{}, {1}, []byte("wrapper-key")} {
				fetchCase(ver, 100, 130, []Item{{Format: f, Codec: 1, Base: 100, Recs: recs(100, 101, 102), WrapKey: k}}, -1)
				fetchCase(ver, 101, 130, []Item{{Format: f, Codec: 1, Base: 100, Recs: recs(100, 101, 102), WrapKey: k}, {Format: f, Recs: recs(103)}}, -1)
			}
		}
		// batches of a transactional producer (attributes bit 4), committed: data like any other (seeded/C02-m11)
		fetchCase(ver, 100, 130, []Item{{Format: 2, Base: 100, Last: 102, Recs: recs(100, 101, 102), Transactional: true}}, -1)
		fetchCase(ver, 101, 130, []Item{{Format: 2, Codec: 1, Base: 100, Last: 102, Recs: recs(100, 101, 102), Transactional: true},
			data(103, 104, 103, 104)}, -1)
		// iterated: D4 duplicates forever
		iterCase(ver, 100, 112, []Item{data(100, 104, 100, 101, 102, 103, 104), empty(105, 109), data(110, 111, 110, 111)}, []int{1 << 20})
		iterCase(ver, 100, 112, []Item{data(100, 104, 100, 101, 102, 103, 104), empty(105, 109), data(110, 111, 110, 111)}, []int{150})
		// iterated: compacted tail in a compressed batch that fills the byte budget
		iterCase(ver, 100, 112, []Item{{Format: 2, Codec: 1, Base: 100, Last: 109, Recs: recs(100, 101)}, data(110, 111, 110, 111)}, []int{100})
		// iterated: compacted tail followed by a batch whose header fits the budget but whose records do not
		iterCase(ver, 100, 112, []Item{data(100, 109, 100, 101), data(110, 111, 110, 111)}, []int{150})
		// iterated: D4 — the empty batch alone fills the budget
		iterCase(ver, 100, 112, []Item{data(100, 104, 100, 101, 102, 103, 104), empty(105, 109), data(110, 111, 110, 111)}, []int{130, 61})
	}
}

func main() {
	defer out.Flush()
	r := gen.New()
	thorough := gen.Thorough()
	switch os.Getenv("VERIF_C02_ONLY") {
	case "unkcodec":
		unkCodecCases()
		return
	case "oore":
		ooreCases()
		return
	}
	corpus()
	corpus2()
	nFetch, nIter := 600, 150
	if thorough {
		nFetch, nIter = 8000, 2000
	}
	vers := []int{2, 5, 10}
	for i := 0; i < nFetch; i++ {
		format := []int{2, 2, 2, 1, 0, 3}[r.Intn(6)]
		items, hwm := genLog(r, format, 1+r.Intn(6), []int{0, 0, 6}[r.Intn(3)])
		o := pickOffset(r, items, hwm)
		// usually serve from the batch containing o (the fetch contract), sometimes from further back
		from := 0
		if r.Intn(4) != 0 || format == 3 {
			for from < len(items) && itemLast(items[from]) < o {
				from++
			}
		}
		sub := items[from:]
		if o == hwm {
			sub = nil // a broker has nothing to send at the log end
		}
		set, _ := EncodeLayout(sub, -1)
		cut := -1
		if len(set) > 0 {
			switch r.Intn(4) {
			case 0:
				cut = r.Intn(len(set) + 1)
			case 1:
				cut = len(set) - 1 - r.Intn(minInt(len(set), 70))
			}
		}
		fetchCase(vers[i%3], o, hwm, sub, cut)
	}
	for i := 0; i < nIter; i++ {
		format := []int{2, 2, 2, 1, 0, 3}[r.Intn(6)]
		items, hwm := genLog(r, format, 1+r.Intn(7), []int{0, 0, 6}[r.Intn(3)])
		o := pickOffset(r, items, hwm)
		var budgets []int
		for j, n := 0, 1+r.Intn(3); j < n; j++ {
			budgets = append(budgets, []int{1, 80, 150, 300, 1000, 1 << 20}[r.Intn(6)]+r.Intn(60))
		}
		iterCase(vers[i%3], o, hwm, items, budgets)
	}
	tokCases(gen.New(), thorough)
	logAppendCases(thorough)
	controlCases(thorough)
	earlyCloseCases()
	readVsCases(thorough)
	growCases(thorough)
	chunkCases(thorough)
	unkCodecCases()
	ooreCases()
	expiredCases(r, thorough)
	readerCases(r, thorough)
}

func minInt(a, b int) int {
	if a < b {
		return a
	}
	return b
}
