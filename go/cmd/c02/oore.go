// op oore: ReaderConfig.OffsetOutOfRangeError (non-default).  A partition reader positioned beyond the end of the log:
// by default the fetch loop retries for ever (the data may still be produced) and the application sees nothing; with
// the option the loop hands the OffsetOutOfRange error to the application once and ends.  Either way a later SetOffset
// to a stored offset starts a new fetcher, which delivers from there.
package main

import (
	"context"
	"fmt"
	"net"
	"time"

	kafka "github.com/segmentio/kafka-go"
)

func ooreCase(ver int, option bool, beyond int64) {
	items := []Item{{Format: 2, Base: 100, Last: 104, Recs: recs(100, 101, 102, 103, 104)}}
	const hwm = 105
	b := &Broker{FetchMax: int16(ver), Topic: "t", OnFetch: func(q FetchReq) FetchResp {
		if q.Offset > hwm || q.Offset < 100 {
			return FetchResp{Err: 1, Hwm: hwm, Cut: -1}
		}
		if q.Offset == hwm {
			time.Sleep(5 * time.Millisecond)
			return FetchResp{Hwm: hwm, Cut: -1}
		}
		return FetchResp{Hwm: hwm, Set: serve(items, q.Offset, 1<<20), Cut: -1}
	}, OnOffset: func(_ int, ts int64) (int64, int16) {
		if ts == -2 {
			return 100, 0
		}
		return hwm, 0
	}}
	rd := kafka.NewReader(kafka.ReaderConfig{
		Brokers: []string{"fake:9092"}, Topic: "t", Partition: 0,
		Dialer: &kafka.Dialer{DialFunc: func(ctx context.Context, network, addr string) (net.Conn, error) {
			c, _ := b.Dial()
			return c, nil
		}},
		MinBytes: 1, MaxBytes: 10 << 20, MaxWait: 250 * time.Millisecond, ReadBackoffMin: time.Millisecond,
		ReadBackoffMax: 2 * time.Millisecond, MaxAttempts: 3, ReadLagInterval: -1,
		OffsetOutOfRangeError: option,
	})
	defer rd.Close()
	rd.SetOffset(hwm + beyond)
	fetch := func(within time.Duration) string {
		ctx, cancel := context.WithTimeout(context.Background(), within)
		defer cancel()
		m, err := rd.FetchMessage(ctx)
		switch {
		case err == nil:
			return fmt.Sprintf("%d", m.Offset)
		case ctx.Err() != nil:
			return "nothing"
		default:
			return errClass(err)
		}
	}
	first := fetch(600 * time.Millisecond)
	second := fetch(300 * time.Millisecond)
	rd.SetOffset(102)
	third := fetch(2 * time.Second)
	opt := 0
	if option {
		opt = 1
	}
	emit(fmt.Sprintf("oore v=%d option=%d start=%d first=100 last=%d", ver, opt, hwm+beyond, hwm),
		fmt.Sprintf("fetch1=%s fetch2=%s after-setoffset-102=%s", first, second, third))
}

func ooreCases() {
	for i, ver := range []int{2, 5, 10} {
		ooreCase(ver, true, int64(1+i*7))
		ooreCase(ver, false, int64(1+i*7))
	}
}
