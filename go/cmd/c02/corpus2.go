package main

import kafka "github.com/segmentio/kafka-go"

// corpus2: field-fidelity cases outside the generator's range (the generator keeps timestamps > 0).
//
// op `fetchts` = op `fetch` on a log holding a record whose stored CreateTime is exactly 0 ms (1970-01-01T00:00:00Z,
// a timestamp Kafka accepts): the library delivers it with the zero time.Time (year 1), see known finding D20.
func corpus2() {
	for _, ver := range []int{2, 5, 10} {
		for _, format := range []int{2, 1} {
			rs := []Rec{
				{Offset: 100, Key: []byte("k"), Value: []byte("epoch"), TsMs: 0},
				{Offset: 101, Key: []byte("k"), Value: []byte("later"), TsMs: 5},
			}
			if format == 1 {
				rs[1].TsMs = 1600000000000
			}
			var items []Item
			if format == 2 {
				items = []Item{{Format: 2, Base: 100, Last: 101, Recs: rs}}
			} else {
				items = []Item{{Format: 1, Recs: rs[:1]}, {Format: 1, Recs: rs[1:]}}
			}
			set, txt := EncodeLayout(items, -1)
			emit("fetchts v="+itoa(ver)+" o=100 hwm=102 cut=-1 L="+txt, runFetch(ver, 100, 102, set))
		}
	}
	_ = kafka.Message{}
}

func itoa(i int) string {
	if i == 0 {
		return "0"
	}
	s := ""
	for n := i; n > 0; n /= 10 {
		s = string(rune('0'+n%10)) + s
	}
	return s
}
