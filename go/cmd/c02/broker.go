// A minimal in-process fake Kafka broker speaking over net.Pipe: ApiVersions v0, Metadata v1, ListOffsets v1,
// Fetch v2/v5/v10.  What it answers is decided by callbacks so that scripts own the physical layout and faults.
package main

import (
	"fmt"
	"bytes"
	"encoding/binary"
	"io"
	"net"
	"sync"
	"time"
)

type FetchReq struct {
	Conn      int // id of the connection the request arrived on
	Version   int
	Offset    int64
	MaxBytes  int32 // partition max bytes
	MinBytes  int32
	MaxWaitMs int32
}

type FetchResp struct {
	Err    int16  // partition error code
	TopErr int16  // top level error code (v10 only)
	Hwm    int64  // high watermark
	Set    []byte // message set
	Cut    int    // >= 0: write only the first Cut bytes of the response frame (after the 4-byte size), then close the connection
	Hang   bool   // never answer (the client times out)
	// CutFn, when non-nil, overrides Cut: it is given the length of the response frame (everything after the 4-byte
	// size field, correlation id included) and returns the Cut value to apply.
	CutFn func(frameLen int) int
	// StallAt > 0: the first StallAt bytes of the response frame are written, the rest after StallFor (a slow link)
	StallAt  int
	StallFor time.Duration
	// KeepOpen (with Cut / CutFn): the frame stops after the cut but the connection stays open and silent — a host that
	// vanished without FIN / RST
	KeepOpen bool
	// LSO: the last stable offset reported (fetch v4+); nil = the high watermark.  Below the high watermark while a
	// transaction is open: with the default isolation level the records up to the high watermark are returned all the same.
	LSO *int64
	// Chunk > 0: the response frame reaches the client in pieces of Chunk bytes (net.Pipe hands every Write to the
	// reader as its own Read: the client's bufio.Reader is refilled at exactly these boundaries — inside the size
	// prefix, inside fixed-width fields, inside varints)
	Chunk int
}

type Broker struct {
	FetchMax   int16 // advertised max fetch version (2, 5 or 10 select the library's v2/v5/v10)
	Topic      string
	OnFetch    func(FetchReq) FetchResp
	OnOffset   func(conn int, ts int64) (int64, int16) // ts -2 = first, -1 = last
	// OnOffsetHang != nil and true: this ListOffsets request is never answered (the connection stays open)
	OnOffsetHang func(conn int) bool
	// Cluster: the partition's leader is looked up (OnMetadata) for every partition request, and a connection dialled to
	// another broker's address gets NotLeaderForPartition (6)
	Cluster bool
	OnMetadata func(conn int) (leader int32, partErr int16)
	OnConn     func(conn int) bool // false: refuse (close immediately)

	mu      sync.Mutex
	nconn   int
	nclosed int // connections that are over (the client hung up, or the broker cut the connection off)
}

// Conns: connections accepted so far, and how many of them are over.
func (b *Broker) Conns() (opened, closed int) {
	b.mu.Lock()
	defer b.mu.Unlock()
	return b.nconn, b.nclosed
}

func (b *Broker) Dial() (net.Conn, int) { return b.DialAddr(LeaderAddr(1)) }

// LeaderAddr: the cluster behind the fake is the brokers 1, 2, 3, … at fake:9092, fake:9093, …; broker 1 is the
// bootstrap broker every scenario lists in ReaderConfig.Brokers.  Metadata is answered on every address; a partition
// request (ListOffsets, Fetch) only by the broker that leads the partition at that moment (Cluster set), the others
// answer NotLeaderForPartition like a real broker.
func LeaderAddr(id int32) string { return fmt.Sprintf("fake:%d", 9092+int(id)-1) }

// DialAddr: a client connection to the broker listening on addr.
func (b *Broker) DialAddr(addr string) (net.Conn, int) {
	cli, srv := net.Pipe()
	b.mu.Lock()
	b.nconn++
	id := b.nconn
	b.mu.Unlock()
	go b.serve(srv, id, addr)
	return cli, id
}

func (b *Broker) notLeader(id int, addr string) bool {
	if !b.Cluster || b.OnMetadata == nil {
		return false
	}
	leader, _ := b.OnMetadata(id)
	return addr != LeaderAddr(leader)
}

type rd struct {
	b []byte
	p int
}

func (r *rd) i8() int8   { v := int8(r.b[r.p]); r.p++; return v }
func (r *rd) i16() int16 { v := int16(binary.BigEndian.Uint16(r.b[r.p:])); r.p += 2; return v }
func (r *rd) i32() int32 { v := int32(binary.BigEndian.Uint32(r.b[r.p:])); r.p += 4; return v }
func (r *rd) i64() int64 { v := int64(binary.BigEndian.Uint64(r.b[r.p:])); r.p += 8; return v }
func (r *rd) str() string {
	n := int(r.i16())
	if n < 0 {
		return ""
	}
	s := string(r.b[r.p : r.p+n])
	r.p += n
	return s
}

func wstr(b *bytes.Buffer, s string) { be16(b, int16(len(s))); b.WriteString(s) }

func (b *Broker) serve(c net.Conn, id int, addr string) {
	defer c.Close()
	defer func() {
		// the connection is over: the client hung up (the broker's read or write failed) or the broker cut it off.  A
		// connection the client forgets keeps this goroutine in its read.
		b.mu.Lock()
		b.nclosed++
		b.mu.Unlock()
	}()
	if b.OnConn != nil && !b.OnConn(id) {
		return
	}
	for {
		var szb [4]byte
		if _, err := io.ReadFull(c, szb[:]); err != nil {
			return
		}
		frame := make([]byte, binary.BigEndian.Uint32(szb[:]))
		if _, err := io.ReadFull(c, frame); err != nil {
			return
		}
		r := &rd{b: frame}
		key, ver, corr := r.i16(), r.i16(), r.i32()
		_ = r.str() // client id
		var body bytes.Buffer
		be32(&body, corr)
		cut := -1
		stallAt, stallFor := 0, time.Duration(0)
		chunk := 0
		keepOpen := false
		switch key {
		case 18: // ApiVersions v0
			be16(&body, 0)
			be32(&body, 4)
			for _, kv := range [][3]int16{{1, 0, b.FetchMax}, {2, 0, 1}, {3, 0, 1}, {18, 0, 0}} {
				be16(&body, kv[0])
				be16(&body, kv[1])
				be16(&body, kv[2])
			}
		case 3: // Metadata v1
			leader, perr := int32(1), int16(0)
			if b.OnMetadata != nil {
				leader, perr = b.OnMetadata(id)
			}
			be32(&body, 1) // brokers
			be32(&body, leader)
			wstr(&body, "fake")
			be32(&body, int32(9092+int(leader)-1))
			be16(&body, -1)
			be32(&body, leader) // controller
			be32(&body, 1)      // topics
			be16(&body, 0)
			wstr(&body, b.Topic)
			body.WriteByte(0)
			be32(&body, 1) // partitions
			be16(&body, perr)
			be32(&body, 0)
			be32(&body, leader)
			be32(&body, 1)
			be32(&body, leader) // replicas
			be32(&body, 1)
			be32(&body, leader) // isr
		case 2: // ListOffsets v1
			_ = r.i32() // replica
			_ = r.i32() // topics
			_ = r.str()
			_ = r.i32() // partitions
			_ = r.i32() // partition
			ts := r.i64()
			if b.OnOffsetHang != nil && b.OnOffsetHang(id) {
				io.Copy(io.Discard, c) // swallow further input until the client gives up
				return
			}
			off, e := int64(0), int16(0)
			if b.OnOffset != nil {
				off, e = b.OnOffset(id, ts)
			}
			if b.notLeader(id, addr) {
				off, e = -1, 6
			}
			be32(&body, 1)
			wstr(&body, b.Topic)
			be32(&body, 1)
			be32(&body, 0)
			be16(&body, e)
			be64(&body, -1)
			be64(&body, off)
		case 1: // Fetch
			q := FetchReq{Conn: id, Version: int(ver)}
			_ = r.i32() // replica
			q.MaxWaitMs = r.i32()
			q.MinBytes = r.i32()
			if ver >= 3 {
				_ = r.i32() // max bytes
			}
			if ver >= 4 {
				_ = r.i8() // isolation
			}
			if ver >= 7 {
				_ = r.i32()
				_ = r.i32() // session id, epoch
			}
			_ = r.i32() // topics
			_ = r.str()
			_ = r.i32() // partitions
			_ = r.i32() // partition
			if ver >= 9 {
				_ = r.i32() // leader epoch
			}
			q.Offset = r.i64()
			if ver >= 5 {
				_ = r.i64() // log start
			}
			q.MaxBytes = r.i32()
			var p FetchResp
			if b.notLeader(id, addr) {
				p = FetchResp{Err: 6, Hwm: -1, Cut: -1}
			} else {
				p = b.OnFetch(q)
			}
			if p.Hang {
				// swallow further input until the client gives up
				io.Copy(io.Discard, c)
				return
			}
			be32(&body, 0) // throttle
			if ver >= 7 {
				be16(&body, p.TopErr)
				be32(&body, 0)
			}
			be32(&body, 1)
			wstr(&body, b.Topic)
			be32(&body, 1)
			be32(&body, 0)
			be16(&body, p.Err)
			be64(&body, p.Hwm)
			if ver >= 4 {
				lso := p.Hwm
				if p.LSO != nil {
					lso = *p.LSO
				}
				be64(&body, lso) // last stable offset
			}
			if ver >= 5 {
				be64(&body, 0) // log start offset
			}
			if ver >= 4 {
				be32(&body, -1) // aborted transactions: null
			}
			be32(&body, int32(len(p.Set)))
			body.Write(p.Set)
			cut = p.Cut
			if p.CutFn != nil {
				cut = p.CutFn(body.Len())
			}
			stallAt, stallFor = p.StallAt, p.StallFor
			chunk = p.Chunk
			keepOpen = p.KeepOpen
		default:
			return
		}
		var out bytes.Buffer
		be32(&out, int32(body.Len()))
		out.Write(body.Bytes())
		w := out.Bytes()
		if cut >= 0 && 4+cut < len(w) {
			c.Write(w[:4+cut])
			if keepOpen {
				io.Copy(io.Discard, c) // until the client gives the connection up
			}
			return
		}
		if stallAt > 0 && 4+stallAt < len(w) {
			if _, err := c.Write(w[:4+stallAt]); err != nil {
				return
			}
			time.Sleep(stallFor)
			w = w[4+stallAt:]
		}
		for chunk > 0 && len(w) > chunk {
			if _, err := c.Write(w[:chunk]); err != nil {
				return
			}
			w = w[chunk:]
		}
		if _, err := c.Write(w); err != nil {
			return
		}
	}
}
