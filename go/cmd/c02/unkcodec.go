// op unkcodec: a v2 batch whose attributes name a compression codec the library does not know (5..7).  The Reader
// cannot proceed (the application gets the error from every FetchMessage); what is checked is what the fetch loop does
// with its connections while it keeps trying: every connection but the current one has been closed (reader.go's
// `case errors.Is(err, errUnknownCodec)` does not close the connection itself: Batch.Close has, the error not being a
// Kafka error), and Reader.Close closes the last one.
package main

import (
	"context"
	"fmt"
	"net"
	"time"

	kafka "github.com/segmentio/kafka-go"
)

func unkCodecCase(ver int, codec byte) {
	items := []Item{{Format: 2, Base: 100, Last: 101, Recs: recs(100, 101)}}
	set, txt := EncodeLayout(items, -1)
	set = append([]byte(nil), set...)
	set[22] = set[22]&^7 | codec // attributes (int16 at bytes 21..22): compression bits; the checksum is not looked at
	b := &Broker{FetchMax: int16(ver), Topic: "t", OnFetch: func(q FetchReq) FetchResp {
		if q.Offset >= 102 {
			time.Sleep(5 * time.Millisecond)
			return FetchResp{Hwm: 102, Cut: -1}
		}
		return FetchResp{Hwm: 102, Set: set, Cut: -1}
	}, OnOffset: func(_ int, ts int64) (int64, int16) {
		if ts == -2 {
			return 100, 0
		}
		return 102, 0
	}}
	rd := kafka.NewReader(kafka.ReaderConfig{
		Brokers: []string{"fake:9092"}, Topic: "t", Partition: 0,
		Dialer: &kafka.Dialer{DialFunc: func(ctx context.Context, network, addr string) (net.Conn, error) {
			c, _ := b.Dial()
			return c, nil
		}},
		MinBytes: 1, MaxBytes: 10 << 20, MaxWait: 250 * time.Millisecond, ReadBackoffMin: time.Millisecond,
		ReadBackoffMax: 2 * time.Millisecond, MaxAttempts: 3, ReadLagInterval: -1,
	})
	errs, msgs := 0, 0
	for errs < 4 && errs+msgs < 20 {
		ctx, cancel := context.WithTimeout(context.Background(), 2*time.Second)
		_, err := rd.FetchMessage(ctx)
		cancel()
		if err != nil {
			errs++
		} else {
			msgs++
		}
	}
	time.Sleep(50 * time.Millisecond)
	opened, closed := b.Conns()
	rd.Close()
	// the loop went on dialing until Close; the broker notices a closed connection with its next read
	openedAfter, closedAfter := b.Conns()
	for t0 := time.Now(); closedAfter != openedAfter && time.Since(t0) < 2*time.Second; {
		time.Sleep(5 * time.Millisecond)
		openedAfter, closedAfter = b.Conns()
	}
	// the loop retries without pause (backoff 1–2 ms): the counts depend on the clock, the verdicts do not.  Besides the
	// current connection one more may be on its way out when the snapshot is taken.
	leak, after := "no", "all"
	if opened-closed > 2 {
		leak = fmt.Sprintf("%d-of-%d-open", opened-closed, opened)
	}
	if closedAfter != openedAfter {
		after = fmt.Sprintf("%d-of-%d-open", openedAfter-closedAfter, openedAfter)
	}
	emit(fmt.Sprintf("unkcodec v=%d codec=%d L=%s", ver, codec, txt),
		fmt.Sprintf("errs=%d msgs=%d leak=%s afterclose=%s", errs, msgs, leak, after))
}

func unkCodecCases() {
	for _, ver := range []int{2, 5, 10} {
		unkCodecCase(ver, byte(5+ver%3))
	}
}
