// op fetchx: exactly op `fetch` (one fetch response through the real Conn.ReadBatchWith, any layout / cut / start
// offset) except that the batch's *adjusted* deadline has passed when the message set ends, so that the end of the
// batch goes through the RequestTimedOut branch of checkTimeoutErr in (*Batch).readMessage instead of io.EOF.
//
// Mechanism (all times relative to t0, taken just before the deadline is set):
//
//	warm-up      ReadPartitions with a 10 s deadline: the ApiVersions exchange is cached, the timed window below only
//	             holds the fetch round trip
//	t0           conn.SetDeadline(t0+400ms); ReadBatchWith with MaxWait == 0, hence
//	             batch.deadline = deadline - (deadline-now)/4, which lies in [t0+300ms, t0+400ms) whatever the scheduling
//	creation     must be over by t0+240ms (>= 60 ms before the earliest possible adjusted deadline: the creation-time
//	             checkTimeoutErr of a response whose first header is cut must see "not expired"); else the case is retried
//	then         conn.SetReadDeadline(t0+30s): the real I/O deadline moves away, batch.deadline is a copy and stays
//	t0+460ms     (>= 60 ms after the latest possible adjusted deadline) the messages are read to the end of the batch
//
// The line reports, like `fetch`, the delivered messages, the conn offset after Batch.Close and the class of the
// error that ended ReadMessage; Close returning something else than that error (nil for eof) is shown as
// "/close-<class>", and a connection whose state after Close is not the documented one (usable after eof or a Kafka
// error, closed after anything else; probed with an ApiVersions round trip) as "+closed" / "+open".
package main

import (
	"fmt"
	"math/rand"
	"os"
	"strings"
	"sync"
	"sync/atomic"
	"time"

	kafka "github.com/segmentio/kafka-go"

	"kvharness/internal/gen"
)

const (
	fxDeadline  = 400 * time.Millisecond // conn deadline of the fetch; adjusted deadline in [0.75, 1) of it
	fxCreateMax = 240 * time.Millisecond // creation later than this: retry
	fxReadAt    = 460 * time.Millisecond // when the messages are read
	fxWorkers   = 16
	fxRetries   = 4
)

// timing statistics, printed on stderr when VERIF_FX_DEBUG is set
var fxRetried, fxMaxCreateUs, fxMaxLateUs int64

func fxMax(p *int64, v int64) {
	for {
		old := atomic.LoadInt64(p)
		if v <= old || atomic.CompareAndSwapInt64(p, old, v) {
			return
		}
	}
}

type fxCase struct {
	ver    int
	o, hwm int64
	set    []byte
	label  string
}

// runFetchX returns the implementation output and false when the timing assumptions did not hold (retry).
func runFetchX(c fxCase) (res string, ok bool) {
	b := &Broker{FetchMax: int16(c.ver), Topic: "t", OnFetch: func(q FetchReq) FetchResp {
		return FetchResp{Hwm: c.hwm, Set: c.set, Cut: -1}
	}}
	cli, _ := b.Dial()
	conn := kafka.NewConn(cli, "t", 0)
	defer conn.Close()
	conn.SetDeadline(time.Now().Add(10 * time.Second))
	if _, err := conn.ReadPartitions("t"); err != nil {
		return "warmup-" + errClass(err), true
	}
	conn.Seek(c.o, kafka.SeekAbsolute|kafka.SeekDontCheck)

	var d []string
	outcome, timely := fxReadBatch(conn, &d)
	if !timely {
		return "", false
	}
	off, _ := conn.Offset()
	if outcome != "panic" {
		conn.SetDeadline(time.Now().Add(10 * time.Second))
		_, perr := conn.ApiVersions()
		alive := perr == nil
		wantAlive := outcome == "eof" || strings.HasPrefix(outcome, "kafka")
		switch {
		case alive && !wantAlive:
			outcome += "+open"
		case !alive && wantAlive:
			outcome += "+closed"
		}
	}
	return fmt.Sprintf("d=%s off=%d out=%s", showDelivered(d), off, outcome), true
}

func fxReadBatch(conn *kafka.Conn, d *[]string) (outcome string, timely bool) {
	defer func() {
		if r := recover(); r != nil {
			outcome, timely = "panic", true
		}
	}()
	t0 := time.Now()
	conn.SetDeadline(t0.Add(fxDeadline))
	batch := conn.ReadBatchWith(kafka.ReadBatchConfig{MinBytes: 1, MaxBytes: 10 << 20})
	created := time.Since(t0)
	conn.SetReadDeadline(t0.Add(30 * time.Second))
	fxMax(&fxMaxCreateUs, int64(created/time.Microsecond))
	if created > fxCreateMax {
		atomic.AddInt64(&fxRetried, 1)
		batch.Close()
		return "", false
	}
	time.Sleep(time.Until(t0.Add(fxReadAt)))
	fxMax(&fxMaxLateUs, int64((time.Since(t0)-fxReadAt)/time.Microsecond))
	for {
		m, err := batch.ReadMessage()
		if err != nil {
			cerr := batch.Close()
			outcome = errClass(err)
			switch cc := errClass(cerr); {
			case outcome == "eof" && cerr != nil:
				outcome = "close-" + cc
			case outcome != "eof" && cc != outcome:
				outcome += "/close-" + cc
			}
			return outcome, true
		}
		*d = append(*d, fmt.Sprintf("%d:%d", m.Offset, msgDigest(m)))
	}
}

func fxMake(ver int, o, hwm int64, items []Item, cut int) fxCase {
	set, txt := EncodeLayout(items, cut)
	if cut > len(set) {
		cut = -1
	}
	return fxCase{ver: ver, o: o, hwm: hwm, set: set,
		label: fmt.Sprintf("fetchx v=%d o=%d hwm=%d cut=%d L=%s", ver, o, hwm, cut, txt)}
}

// expiredCases does not draw from the driver's main generator (the lines of the ops that follow must not move):
// it derives its own from the seed.
func expiredCases(_ *rand.Rand, thorough bool) {
	r := rand.New(rand.NewSource(gen.Seed()*1000003 + 0xfe7c))
	var cases []fxCase
	data := func(base, last int64, offs ...int64) Item {
		return Item{Format: 2, Base: base, Last: last, Recs: recs(offs...)}
	}
	empty := func(base, last int64) Item { return Item{Format: 2, Base: base, Last: last} }
	for _, ver := range []int{2, 5, 10} {
		// compacted tail, plain and compressed
		cases = append(cases, fxMake(ver, 100, 130, []Item{data(100, 109, 100, 101)}, -1))
		cases = append(cases, fxMake(ver, 100, 130, []Item{{Format: 2, Codec: 1, Base: 100, Last: 109, Recs: recs(100, 101)}}, -1))
		// data then retained empty batch; an empty batch alone
		cases = append(cases, fxMake(ver, 100, 120, []Item{data(100, 104, 100, 101, 102, 103, 104), empty(105, 109)}, -1))
		cases = append(cases, fxMake(ver, 105, 120, []Item{empty(105, 109)}, -1))
		// data then a partial next batch: cut inside its header, inside its records
		two := []Item{data(100, 101, 100, 101), data(102, 103, 102, 103)}
		one, _ := EncodeLayout(two[:1], -1)
		all, _ := EncodeLayout(two, -1)
		cases = append(cases, fxMake(ver, 100, 130, two, len(one)+30))
		cases = append(cases, fxMake(ver, 100, 130, two, len(all)-5))
	}
	n := 40
	if thorough {
		n = 300
	}
	vers := []int{2, 5, 10}
	for i := 0; i < n; i++ {
		format := []int{2, 2, 2, 1, 0, 3}[r.Intn(6)]
		items, hwm := genLog(r, format, 1+r.Intn(6), []int{0, 0, 6}[r.Intn(3)])
		o := pickOffset(r, items, hwm)
		for tries := 0; o == hwm && tries < 100; tries++ {
			o = pickOffset(r, items, hwm)
		}
		if o == hwm { // hwm == o short-circuits in the library (empty reader): nothing to see here
			i--
			continue
		}
		from := 0
		if r.Intn(4) != 0 || format == 3 {
			for from < len(items) && itemLast(items[from]) < o {
				from++
			}
		}
		sub := items[from:]
		set, _ := EncodeLayout(sub, -1)
		cut := -1
		if len(set) > 0 {
			switch r.Intn(4) {
			case 0:
				cut = r.Intn(len(set) + 1)
			case 1:
				cut = len(set) - 1 - r.Intn(minInt(len(set), 70))
			}
		}
		cases = append(cases, fxMake(vers[i%3], o, hwm, sub, cut))
	}

	results := make([]string, len(cases))
	next := make(chan int)
	var wg sync.WaitGroup
	for w := 0; w < fxWorkers; w++ {
		wg.Add(1)
		go func() {
			defer wg.Done()
			for i := range next {
				results[i] = "untimely"
				for try := 0; try < fxRetries; try++ {
					if res, ok := runFetchX(cases[i]); ok {
						results[i] = res
						break
					}
				}
			}
		}()
	}
	for i := range cases {
		next <- i
	}
	close(next)
	wg.Wait()
	for i, c := range cases {
		emit(c.label, results[i])
	}
	if os.Getenv("VERIF_FX_DEBUG") != "" {
		fmt.Fprintf(os.Stderr, "fetchx: %d cases, %d retries, slowest creation %dus, latest wake-up +%dus\n",
			len(cases), fxRetried, fxMaxCreateUs, fxMaxLateUs)
	}
}
