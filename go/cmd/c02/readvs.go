// op readvs: the two ways to consume a Batch — ReadMessage (what the Reader uses; checked against the model by op
// `fetch`) and Read (values only, into the caller's buffer; also behind Conn.Read) — on the same fetch response and the
// same start offset must hand out the values of the same messages.
package main

import (
	"fmt"
	"hash/crc32"
	"math/rand"
	"strings"
	"time"

	kafka "github.com/segmentio/kafka-go"
)

func valuesVia(ver int, o, hwm int64, set []byte, useRead bool) string {
	b := &Broker{FetchMax: int16(ver), Topic: "t", OnFetch: func(q FetchReq) FetchResp {
		return FetchResp{Hwm: hwm, Set: set, Cut: -1}
	}}
	cli, _ := b.Dial()
	conn := kafka.NewConn(cli, "t", 0)
	defer conn.Close()
	conn.Seek(o, kafka.SeekAbsolute|kafka.SeekDontCheck)
	conn.SetDeadline(time.Now().Add(10 * time.Second))
	batch := conn.ReadBatchWith(kafka.ReadBatchConfig{MinBytes: 1, MaxBytes: 10 << 20})
	defer batch.Close()
	var out []string
	buf := make([]byte, 1<<16)
	for len(out) < 1000 {
		if useRead {
			n, err := batch.Read(buf)
			if err != nil {
				return strings.Join(out, ",") + "/" + errClass(err)
			}
			out = append(out, fmt.Sprint(crc32.ChecksumIEEE(buf[:n])))
		} else {
			m, err := batch.ReadMessage()
			if err != nil {
				return strings.Join(out, ",") + "/" + errClass(err)
			}
			out = append(out, fmt.Sprint(crc32.ChecksumIEEE(m.Value)))
		}
	}
	return strings.Join(out, ",") + "/runaway"
}

func readVsCases(thorough bool) {
	r := rand.New(rand.NewSource(20240919))
	n := 40
	if thorough {
		n = 300
	}
	vers := []int{2, 5, 10}
	for i := 0; i < n; i++ {
		format := []int{2, 2, 2, 1, 0, 3}[r.Intn(6)]
		items, hwm := genLog(r, format, 1+r.Intn(4), 0)
		o := pickOffset(r, items, hwm)
		if o == hwm {
			continue
		}
		from := 0
		for from < len(items) && itemLast(items[from]) < o {
			from++
		}
		set, txt := EncodeLayout(items[from:], -1)
		emit(fmt.Sprintf("readvs v=%d o=%d hwm=%d L=%s", vers[i%3], o, hwm, txt),
			fmt.Sprintf("msg=%s read=%s", valuesVia(vers[i%3], o, hwm, set, false), valuesVia(vers[i%3], o, hwm, set, true)))
	}
}
