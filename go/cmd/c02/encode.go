// Independent encoder of Kafka message sets for property C02: a *layout* describes how a broker packages a
// log suffix (message format 0/1/2, batch boundaries, compression, compaction holes, retained empty batches,
// batches beginning before the requested offset); Encode gives the bytes and the canonical text the oracle parses.
package main

import (
	"bytes"
	"encoding/binary"
	"fmt"
	"hash/crc32"
	"strings"

	kafka "github.com/segmentio/kafka-go"
	"github.com/segmentio/kafka-go/compress"
)

// Rec is one stored record of the partition log.
type Rec struct {
	Offset  int64
	Key     []byte // nil = null key
	Value   []byte // nil = null value
	Headers []kafka.Header
	TsMs    int64
}

// Digest is the canonical rendering of the observable fields of a record / delivered message
// (key, value, headers, millisecond timestamp): crc32 of a length-prefixed serialisation. A null byte string
// (nil) has the length prefix 0xffffffff: null and empty are different things in a Kafka log (a null value is a
// tombstone).
func Digest(key, value []byte, headers []kafka.Header, tsMs int64) uint32 {
	var b bytes.Buffer
	w := func(p []byte) {
		var l [4]byte
		if p == nil {
			binary.BigEndian.PutUint32(l[:], 0xffffffff)
		} else {
			binary.BigEndian.PutUint32(l[:], uint32(len(p)))
		}
		b.Write(l[:])
		b.Write(p)
	}
	w(key)
	w(value)
	var t [8]byte
	binary.BigEndian.PutUint64(t[:], uint64(tsMs))
	b.Write(t[:])
	for _, h := range headers {
		w([]byte(h.Key))
		w(h.Value)
	}
	return crc32.ChecksumIEEE(b.Bytes())
}

func (r Rec) Digest(format int) uint32 {
	switch format {
	case 0: // no timestamp, no headers in message format 0
		return Digest(r.Key, r.Value, nil, -1)
	case 1:
		return Digest(r.Key, r.Value, nil, r.TsMs)
	}
	return Digest(r.Key, r.Value, r.Headers, r.TsMs)
}

// Item is one top-level entry of a message set.
type Item struct {
	Format int   // 0,1,2
	Codec  int   // 0 none,1 gzip,2 snappy,3 lz4,4 zstd
	Base   int64 // v2: base offset; v0/v1 wrapper: absolute offset of the first inner message (relative offsets count from it)
	Last   int64 // v2: last offset of the batch (base+lastOffsetDelta), may exceed the last retained record
	Recs   []Rec // retained records (v2: any subset of [Base,Last]; plain v0/v1: exactly one; wrapper: >= 1)
	// LogAppendTs != 0: the topic uses message.timestamp.type=LogAppendTime.  The broker has set the timestamp-type bit
	// (attributes bit 3) and the batch's maxTimestamp (v2) / the wrapper's timestamp (v1) to the append time; the
	// records' own timestamp fields are still the producer's.  The timestamp of every record of the batch IS the
	// append time (Kafka protocol guide, record batch / message set: timestampType).
	LogAppendTs int64
	// Control: a control batch (attributes bit 5, written by the transaction coordinator: one record, the commit / abort
	// marker).  It occupies Base..Last of the log but holds nothing for the application: no consumer is ever handed a
	// control record.  In the layout text it is an empty batch.
	Control bool
	// WrapKey: the key of a v0/v1 wrapper message.  Producers write null (nil) there; the message format allows any key
	// and no consumer is handed it — the wrapper only carries the inner messages.
	WrapKey []byte
	// Transactional: a v2 data batch written by a transactional producer (attributes bit 4).  Committed, it is data like
	// any other: its records are stored records.  (A control batch has bit 5; the coordinator sets both.)
	Transactional bool
}

// stored is the record as the log defines it: under LogAppendTime its timestamp is the batch's append time.
func (it Item) stored(r Rec) Rec {
	if it.LogAppendTs != 0 {
		r.TsMs = it.LogAppendTs
	}
	return r
}

func putVarint(b *bytes.Buffer, v int64) {
	u := uint64((v << 1) ^ (v >> 63))
	for u >= 0x80 {
		b.WriteByte(byte(u) | 0x80)
		u >>= 7
	}
	b.WriteByte(byte(u))
}

func be16(b *bytes.Buffer, v int16) { binary.Write(b, binary.BigEndian, v) }
func be32(b *bytes.Buffer, v int32) { binary.Write(b, binary.BigEndian, v) }
func be64(b *bytes.Buffer, v int64) { binary.Write(b, binary.BigEndian, v) }

func compressBytes(codec int, p []byte) []byte {
	var out bytes.Buffer
	w := compress.Codecs[codec].NewWriter(&out)
	if _, err := w.Write(p); err != nil {
		panic(err)
	}
	if err := w.Close(); err != nil {
		panic(err)
	}
	return out.Bytes()
}

// encodeRecordV2 encodes one record of a v2 batch.
func encodeRecordV2(r Rec, base int64, firstTs int64) []byte {
	var body bytes.Buffer
	body.WriteByte(0) // attributes
	putVarint(&body, r.TsMs-firstTs)
	putVarint(&body, r.Offset-base)
	if r.Key == nil {
		putVarint(&body, -1)
	} else {
		putVarint(&body, int64(len(r.Key)))
		body.Write(r.Key)
	}
	if r.Value == nil {
		putVarint(&body, -1)
	} else {
		putVarint(&body, int64(len(r.Value)))
		body.Write(r.Value)
	}
	putVarint(&body, int64(len(r.Headers)))
	for _, h := range r.Headers {
		putVarint(&body, int64(len(h.Key)))
		body.WriteString(h.Key)
		if h.Value == nil {
			putVarint(&body, -1)
		} else {
			putVarint(&body, int64(len(h.Value)))
			body.Write(h.Value)
		}
	}
	var out bytes.Buffer
	putVarint(&out, int64(body.Len()))
	out.Write(body.Bytes())
	return out.Bytes()
}

var castagnoli = crc32.MakeTable(crc32.Castagnoli)

// encodeV2 returns the bytes of a v2 record batch, the payload length (length-49) and the per-record sizes
// (sizes of the uncompressed records).
func encodeV2(it Item) (out []byte, plen int, sizes []int) {
	firstTs, maxTs := int64(0), int64(0)
	if len(it.Recs) > 0 {
		firstTs = it.Recs[0].TsMs
		maxTs = firstTs
		for _, r := range it.Recs {
			if r.TsMs > maxTs {
				maxTs = r.TsMs
			}
		}
	}
	var payload bytes.Buffer
	for _, r := range it.Recs {
		e := encodeRecordV2(r, it.Base, firstTs)
		sizes = append(sizes, len(e))
		payload.Write(e)
	}
	pl := payload.Bytes()
	if it.Codec != 0 {
		pl = compressBytes(it.Codec, pl)
	}
	attrs := int16(it.Codec)
	if it.Transactional {
		attrs |= 0x10
	}
	if it.Control {
		attrs |= 0x30 // transactional + control
	}
	if it.LogAppendTs != 0 {
		attrs |= 0x08
		maxTs = it.LogAppendTs
	}
	var crcPart bytes.Buffer
	be16(&crcPart, attrs) // attributes
	be32(&crcPart, int32(it.Last-it.Base))
	be64(&crcPart, firstTs)
	be64(&crcPart, maxTs)
	be64(&crcPart, -1) // producer id
	be16(&crcPart, -1) // producer epoch
	be32(&crcPart, -1) // base sequence
	be32(&crcPart, int32(len(it.Recs)))
	crcPart.Write(pl)
	var b bytes.Buffer
	be64(&b, it.Base)
	be32(&b, int32(4+1+4+crcPart.Len())) // length: everything after this field
	be32(&b, 0)                          // partition leader epoch
	b.WriteByte(2)                       // magic
	be32(&b, int32(crc32.Checksum(crcPart.Bytes(), castagnoli)))
	b.Write(crcPart.Bytes())
	return b.Bytes(), len(pl), sizes
}

// encodeMsg encodes one v0/v1 message with the given offset field; value may be a compressed message set.
func encodeMsg(magic int, offset int64, attrs int8, tsMs int64, key, value []byte) []byte {
	var body bytes.Buffer
	body.WriteByte(byte(magic))
	body.WriteByte(byte(attrs))
	if magic == 1 {
		be64(&body, tsMs)
	}
	if key == nil {
		be32(&body, -1)
	} else {
		be32(&body, int32(len(key)))
		body.Write(key)
	}
	if value == nil {
		be32(&body, -1)
	} else {
		be32(&body, int32(len(value)))
		body.Write(value)
	}
	var b bytes.Buffer
	be64(&b, offset)
	be32(&b, int32(4+body.Len()))
	be32(&b, int32(crc32.ChecksumIEEE(body.Bytes())))
	b.Write(body.Bytes())
	return b.Bytes()
}

// Encode returns the bytes of the item and its canonical text for the oracle.
//
//	v2:       b:<base>:<last>:<codec>:<plen>:<delta~digest~size,...|->
//	plain:    m:<magic>:<offset>:<digest>:<size>
//	wrapper:  w:<magic>:<wrapperOffset>:<codec>:<size>:<innerOffsetField~digest,...>
func (it Item) Encode() ([]byte, string) {
	switch {
	case it.Format == 2:
		out, plen, sizes := encodeV2(it)
		if it.Control {
			return out, fmt.Sprintf("b:%d:%d:0:0:-", it.Base, it.Last)
		}
		var rs []string
		for i, r := range it.Recs {
			rs = append(rs, fmt.Sprintf("%d~%d~%d", r.Offset-it.Base, it.stored(r).Digest(2), sizes[i]))
		}
		s := "-"
		if len(rs) > 0 {
			s = strings.Join(rs, ",")
		}
		return out, fmt.Sprintf("b:%d:%d:%d:%d:%s", it.Base, it.Last, it.Codec, plen, s)
	case it.Codec == 0:
		r := it.Recs[0]
		out := encodeMsg(it.Format, r.Offset, 0, r.TsMs, r.Key, r.Value)
		return out, fmt.Sprintf("m:%d:%d:%d:%d", it.Format, r.Offset, r.Digest(it.Format), len(out))
	default:
		var inner bytes.Buffer
		var rs []string
		for _, r := range it.Recs {
			field := r.Offset // v0: absolute inner offsets
			if it.Format == 1 {
				field = r.Offset - it.Base // v1: relative inner offsets (holes keep the original numbering)
			}
			inner.Write(encodeMsg(it.Format, field, 0, r.TsMs, r.Key, r.Value))
			rs = append(rs, fmt.Sprintf("%d~%d", field, it.stored(r).Digest(it.Format)))
		}
		last := it.Recs[len(it.Recs)-1]
		wattrs, wts := int8(it.Codec), last.TsMs
		if it.LogAppendTs != 0 && it.Format == 1 {
			wattrs |= 0x08
			wts = it.LogAppendTs
		}
		out := encodeMsg(it.Format, last.Offset, wattrs, wts, it.WrapKey, compressBytes(it.Codec, inner.Bytes()))
		return out, fmt.Sprintf("w:%d:%d:%d:%d:%s", it.Format, last.Offset, it.Codec, len(out), strings.Join(rs, ","))
	}
}

// EncodeLayout concatenates the items; cut >= 0 truncates the message set to that many bytes.
func EncodeLayout(items []Item, cut int) ([]byte, string) {
	var b bytes.Buffer
	var ss []string
	for _, it := range items {
		e, s := it.Encode()
		b.Write(e)
		ss = append(ss, s)
	}
	out := b.Bytes()
	if cut >= 0 && cut < len(out) {
		out = out[:cut]
	}
	if len(ss) == 0 {
		return out, "-"
	}
	return out, strings.Join(ss, "/")
}
