// op earlyclose: Batch.Close before the end of the batch.  Close has to skip what is left of the fetch response; when
// that fails (here: the tail of the response arrives after the read deadline) the Conn is no longer positioned at a
// response boundary.  Reported: the class of the error Close returned and of the next call on the same Conn
// (ReadOffsets with a fresh deadline).  Required: Close returned nil ⇒ the next call works.
// Real sockets (loopback): with net.Pipe an unread tail blocks the peer's writes, which hides the misalignment.
package main

import (
	"fmt"
	"net"
	"time"

	kafka "github.com/segmentio/kafka-go"
)

func earlyCloseCase(ver int, stall bool, nrecs int) {
	// timing: the first part of the response has to arrive before the deadline, the tail after it; on a loaded machine
	// the first read may time out — such a run says nothing and is repeated (then dropped)
	for try := 0; try < 4; try++ {
		if earlyCloseTry(ver, stall, nrecs) {
			return
		}
	}
}

func earlyCloseTry(ver int, stall bool, nrecs int) bool {
	var recs []Rec
	for i := 0; i < nrecs; i++ {
		recs = append(recs, Rec{Offset: 100 + int64(i), Key: []byte("k"), Value: make([]byte, 200), TsMs: 1600000000000})
	}
	set, _ := Item{Format: 2, Base: 100, Last: 100 + int64(nrecs) - 1, Recs: recs}.Encode()
	hwm := 100 + int64(nrecs)
	first := true
	b := &Broker{FetchMax: int16(ver), Topic: "t", OnFetch: func(q FetchReq) FetchResp {
		if first && stall {
			first = false
			return FetchResp{Hwm: hwm, Set: set, Cut: -1, StallAt: 1500, StallFor: 450 * time.Millisecond}
		}
		first = false
		return FetchResp{Hwm: hwm, Set: set, Cut: -1}
	}, OnOffset: func(conn int, ts int64) (int64, int16) {
		if ts == -2 {
			return 100, 0
		}
		return hwm, 0
	}}
	ln, err := net.Listen("tcp", "127.0.0.1:0")
	if err != nil {
		return true
	}
	defer ln.Close()
	go func() {
		c, err := ln.Accept()
		if err == nil {
			b.serve(c, 1, LeaderAddr(1))
		}
	}()
	cli, err := net.Dial("tcp", ln.Addr().String())
	if err != nil {
		return true
	}
	conn := kafka.NewConn(cli, "t", 0)
	defer conn.Close()
	// warm-up: the ApiVersions exchange is cached, the timed window only holds the fetch
	conn.SetDeadline(time.Now().Add(10 * time.Second))
	if _, _, err := conn.ReadOffsets(); err != nil {
		return false
	}
	conn.Seek(100, kafka.SeekAbsolute|kafka.SeekDontCheck)
	conn.SetDeadline(time.Now().Add(250 * time.Millisecond))
	batch := conn.ReadBatchWith(kafka.ReadBatchConfig{MinBytes: 1, MaxBytes: 1 << 20})
	_, rerr := batch.ReadMessage()
	if rerr != nil {
		batch.Close()
		return false
	}
	cerr := batch.Close()
	time.Sleep(500 * time.Millisecond) // the tail of the response has been sent by now
	conn.SetDeadline(time.Now().Add(2 * time.Second))
	f, l, nerr := conn.ReadOffsets()
	next := errClass(nerr)
	if nerr == nil {
		next = "ok"
		if f != 100 || l != hwm {
			next = fmt.Sprintf("wrong:%d:%d", f, l)
		}
	}
	closeCls := "nil"
	if cerr != nil {
		closeCls = errClass(cerr)
	}
	emit(fmt.Sprintf("earlyclose v=%d stall=%v n=%d", ver, stall, nrecs), fmt.Sprintf("first=%s close=%s next=%s", errClass(rerr), closeCls, next))
	return true
}

func earlyCloseCases() {
	for _, ver := range []int{2, 10} {
		earlyCloseCase(ver, false, 40)
		earlyCloseCase(ver, true, 40)
	}
}
