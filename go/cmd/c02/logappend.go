// LogAppendTime: fetch cases whose v2 batches / v1 wrappers carry the timestamp-type bit.  The expected digests in the
// layout text are those of the records as the log defines them (timestamp = append time), see Item.LogAppendTs.
package main

import (
	"math/rand"
)

func logAppendCases(thorough bool) {
	r := rand.New(rand.NewSource(20240917))
	n := 40
	if thorough {
		n = 400
	}
	vers := []int{2, 5, 10}
	for i := 0; i < n; i++ {
		format := []int{2, 2, 1, 3}[r.Intn(4)]
		items, hwm := genLog(r, format, 1+r.Intn(4), 0)
		marked := 0
		for k := range items {
			eligible := (items[k].Format == 2 && len(items[k].Recs) > 0) || (items[k].Format == 1 && items[k].Codec != 0)
			if eligible && (r.Intn(2) == 0 || marked == 0) {
				items[k].LogAppendTs = 1700000000000 + int64(r.Intn(1000000))
				marked++
			}
		}
		if marked == 0 {
			continue
		}
		o := pickOffset(r, items, hwm)
		from := 0
		for from < len(items) && itemLast(items[from]) < o {
			from++
		}
		sub := items[from:]
		if o == hwm {
			continue
		}
		fetchCase(vers[i%3], o, hwm, sub, -1)
	}
}

// controlCases: logs of a topic written by a transactional producer: after some batches comes the transaction marker,
// a control batch of one record.  Expected (layout text): the marker is an empty batch — nothing is delivered from it,
// the position moves past it.
func controlCases(thorough bool) {
	r := rand.New(rand.NewSource(20240918))
	n := 30
	if thorough {
		n = 300
	}
	vers := []int{5, 10}
	for i := 0; i < n; i++ {
		items, hwm := genLog(r, 2, 1+r.Intn(4), 0)
		var out []Item
		shift := int64(0)
		for _, it := range items {
			it.Base += shift
			it.Last += shift
			for k := range it.Recs {
				it.Recs[k].Offset += shift
			}
			out = append(out, it)
			if r.Intn(2) == 0 {
				// the marker takes the next offset
				shift++
				m := it.Last + 1
				abort := int16(r.Intn(2))
				out = append(out, Item{Format: 2, Control: true, Base: m, Last: m, Recs: []Rec{{
					Offset: m, TsMs: 1700000000000,
					Key:   []byte{0, 0, byte(abort >> 8), byte(abort)}, // version 0, type abort(0)/commit(1)
					Value: []byte{0, 0, 0, 0, 0, byte(1 + r.Intn(9))},  // version 0, coordinator epoch
				}}})
			}
		}
		hwm += shift
		if shift == 0 {
			continue
		}
		o := pickOffset(r, out, hwm)
		if o == hwm {
			continue
		}
		from := 0
		for from < len(out) && itemLast(out[from]) < o {
			from++
		}
		fetchCase(vers[i%2], o, hwm, out[from:], -1)
	}
}
