// LogAppendTime: fetch cases whose v2 batches / v1 wrappers carry the timestamp-type bit.  The expected digests in the
// layout text are those of the records as the log defines them (timestamp = append time), see Item.LogAppendTs.
package main

import (
	"math/rand"
)

func logAppendCases(thorough bool) {
	r := rand.New(rand.NewSource(20240917))
	n := 40
	if thorough {
		n = 400
	}
	vers := []int{2, 5, 10}
	for i := 0; i < n; i++ {
		format := []int{2, 2, 1, 3}[r.Intn(4)]
		items, hwm := genLog(r, format, 1+r.Intn(4), 0)
		marked := 0
		for k := range items {
			eligible := (items[k].Format == 2 && len(items[k].Recs) > 0) || (items[k].Format == 1 && items[k].Codec != 0)
			if eligible && (r.Intn(2) == 0 || marked == 0) {
				items[k].LogAppendTs = 1700000000000 + int64(r.Intn(1000000))
				marked++
			}
		}
		if marked == 0 {
			continue
		}
		o := pickOffset(r, items, hwm)
		from := 0
		for from < len(items) && itemLast(items[from]) < o {
			from++
		}
		sub := items[from:]
		if o == hwm {
			continue
		}
		fetchCase(vers[i%3], o, hwm, sub, -1)
	}
}
