// op grow: repeated fetches on one Conn while the partition is being written to.  Round i is answered by a broker that
// holds the first snaps[i] items of the layout (appends only) with the byte budget budgets[i] and reports the end of
// what it holds as high watermark.  The oracle runs the same rounds through the world model (Model/ReaderWorld.lean,
// event `fetchSnap`) and compares the deliveries and the conn offset after every round.
package main

import (
	"fmt"
	"math/rand"
	"strconv"
	"strings"

	kafka "github.com/segmentio/kafka-go"
)

func growCase(ver int, o int64, items []Item, snaps, budgets []int) {
	i := 0
	b := &Broker{FetchMax: int16(ver), Topic: "t"}
	b.OnFetch = func(q FetchReq) FetchResp {
		m, bud := snaps[i], budgets[i]
		i++
		hwm := itemLast(items[m-1]) + 1
		if q.Offset == hwm {
			return FetchResp{Hwm: hwm, Cut: -1}
		}
		return FetchResp{Hwm: hwm, Set: serve(items[:m], q.Offset, bud), Cut: -1}
	}
	cli, _ := b.Dial()
	conn := kafka.NewConn(cli, "t", 0)
	defer conn.Close()
	conn.Seek(o, kafka.SeekAbsolute|kafka.SeekDontCheck)
	var rounds []string
	for r := 0; r < len(snaps); r++ {
		d, outcome := readBatch(conn)
		off, _ := conn.Offset()
		rounds = append(rounds, fmt.Sprintf("%s@%d@%s", showDelivered(d), off, outcome))
		if outcome != "eof" && outcome != "kafka7" {
			break
		}
	}
	ss, bs := make([]string, len(snaps)), make([]string, len(budgets))
	for k := range snaps {
		ss[k], bs[k] = strconv.Itoa(snaps[k]), strconv.Itoa(budgets[k])
	}
	emit(fmt.Sprintf("grow v=%d o=%d snaps=%s budgets=%s L=%s", ver, o, strings.Join(ss, ","), strings.Join(bs, ","), layoutText(items)),
		"r="+strings.Join(rounds, ";"))
}

func growCases(thorough bool) {
	r := rand.New(rand.NewSource(20240920))
	n := 40
	if thorough {
		n = 300
	}
	vers := []int{2, 5, 10}
	for c := 0; c < n; c++ {
		format := []int{2, 2, 2, 1, 3}[r.Intn(5)]
		items, _ := genLog(r, format, 2+r.Intn(5), 0)
		if len(items) < 2 {
			continue
		}
		// the log grows: non-decreasing snapshot sizes ending with the whole layout
		var snaps, budgets []int
		m := 1 + r.Intn(len(items))
		for len(snaps) < 12 {
			snaps = append(snaps, m)
			budgets = append(budgets, []int{1, 80, 150, 300, 1000, 1 << 20}[r.Intn(6)]+r.Intn(60))
			if m == len(items) && r.Intn(3) == 0 {
				break
			}
			if r.Intn(2) == 0 && m < len(items) {
				m += 1 + r.Intn(len(items)-m)
			}
		}
		first := items[0].Base
		if items[0].Format != 2 && items[0].Codec == 0 {
			first = items[0].Recs[0].Offset
		}
		end := itemLast(items[snaps[0]-1]) + 1
		o := first
		if end > first {
			o = first + int64(r.Intn(int(end-first)))
		}
		growCase(vers[c%3], o, items, snaps, budgets)
	}
}
