package main

import (
	"encoding/hex"
	"fmt"
	"math/rand"

	"kvharness/internal/gen"
)

// op `tok`: the bytes this driver's encoder produces for an (uncompressed) layout, cut at a random byte, are handed
// to the oracle, which reads them with the byte-level tokenizer of Spec/ByteLayout.lean (the one `tokenize_items`
// proves to invert the reference encoder of Spec/RecordBatch.lean) and compares the tokens — offsets, digests of the
// record fields recomputed from the bytes, sizes — with the token stream of the layout text.  It ties the encoder
// used for every other op to the formal format description.
func tokCases(r *rand.Rand, thorough bool) {
	// op `pullfuzz`: evaluated entirely inside the oracle — the statement-by-statement pull model of the decoder
	// (Model/PullReader.lean) against the token machine (Model/MessageSetReader.lean) on random token streams
	fz := 20000
	if thorough {
		fz = 150000
	}
	emit(fmt.Sprintf("pullfuzz seed=%d n=%d", gen.Seed(), fz), "mismatches=0")
	n := 60
	if thorough {
		n = 600
	}
	for i := 0; i < n; i++ {
		format := []int{2, 2, 1, 0, 3}[r.Intn(5)]
		items, _ := genLog(r, format, 1+r.Intn(5), []int{0, 6}[r.Intn(2)])
		var plain []Item
		for _, it := range items {
			switch {
			case it.Format == 2:
				it.Codec = 0
				plain = append(plain, it)
			case it.Codec == 0:
				plain = append(plain, it)
			default:
				for _, rc := range it.Recs {
					plain = append(plain, Item{Format: it.Format, Recs: []Rec{rc}})
				}
			}
		}
		full, _ := EncodeLayout(plain, -1)
		cut := len(full)
		if r.Intn(3) != 0 && len(full) > 0 {
			cut = r.Intn(len(full) + 1)
		}
		set, txt := EncodeLayout(plain, cut)
		h := "-"
		if len(set) > 0 {
			h = hex.EncodeToString(set)
		}
		emit(fmt.Sprintf("tok cut=%d hex=%s L=%s", cut, h, txt), "same")
	}
}
