// Driver for property C11: runs the REAL kafka.Conn of /repo (built with -tags verif) against the scripted
// broker of internal/connfake.  One case = operation A answered by a well-formed response frame with chosen error
// codes in its error fields, followed by operation B on the same Conn.  Output per case:
//
//	c11 <topic> <A>:<ver>:<offset>:<hwm> <bodyA hex> <B>:<ver>:<offset>:<hwm> <bodyB hex>\t<resA> <unread> <resB> <same|diff>
//
// resX = ok | kafka:<code> | fail | fail:noprogress; unread = bytes left in the Conn's read buffer after A
// (verif hook; "-" when A failed); same/diff = B's full result compared with B run alone on a fresh Conn.
package main

import (
	"bufio"
	"encoding/binary"
	"fmt"
	"math"
	"math/rand"
	"os"
	"strings"
	"time"

	kafka "github.com/segmentio/kafka-go"
	"github.com/segmentio/kafka-go/protocol"

	"kvharness/internal/connfake"
	"kvharness/internal/gen"
)

var out = bufio.NewWriter(os.Stdout)

const topic = "t"

type inst struct {
	op   *connfake.Op
	v    int16
	body []byte
	sh   *connfake.Shape
}

func (i *inst) String() string {
	if i.sh.ReadN != 0 {
		return fmt.Sprintf("%s:%d:%d:%d:%d %s", i.op.Name, i.v, i.sh.Offset, i.sh.HWM, i.sh.ReadN, gen.Hex(i.body))
	}
	return fmt.Sprintf("%s:%d:%d:%d %s", i.op.Name, i.v, i.sh.Offset, i.sh.HWM, gen.Hex(i.body))
}

// buildFetch renders a fetch response with a record set of the given physical layout; readN as in connfake.Shape.
func buildFetch(r *rand.Rand, v int16, magic int8, n, batches int, codec protocol.Attributes, readN int) *inst {
	return buildFetchTrunc(r, v, magic, n, batches, codec, readN, 0)
}

// buildFetchTrunc: the set is truncated by `trunc` bytes INSIDE an honest frame (what a broker does at MaxBytes): the
// records handed out must be a prefix of the stored ones (checked by the fetch op's digest), the Conn stays aligned.
func buildFetchTrunc(r *rand.Rand, v int16, magic int8, n, batches int, codec protocol.Attributes, readN, trunc int) *inst {
	op := connfake.OpByName("fetch")
	sh := &connfake.Shape{Topic: topic, Offset: int64(r.Intn(50)), ReadN: readN}
	set, msgs, base, err := connfake.RecordSet(r, magic, sh.Offset, n, batches, codec)
	if err != nil {
		panic(err)
	}
	if trunc > 0 && len(set) > 12 {
		// never into the first batch / message (offset 8 bytes, length 4 bytes, then `length` bytes): a broker returns
		// at least one complete one; a set shorter than that is answered with io.ErrUnexpectedEOF and a closed Conn
		first := 12 + int(binary.BigEndian.Uint32(set[8:12]))
		if trunc > len(set)-first {
			trunc = len(set) - first
		}
		if trunc > 0 {
			set = set[:len(set)-trunc]
		}
	}
	sh.Offset, sh.Set, sh.Want, sh.HWM = base, set, msgs, base+int64(n)
	w := &connfake.W{}
	op.Build(v, w, r, sh)
	return &inst{op, v, w.B, sh}
}

// build renders a response body for op at version v with the given error codes placed in its error fields.
func build(r *rand.Rand, op *connfake.Op, v int16, errs []int16, withRecords bool) (*inst, int) {
	sh := &connfake.Shape{Topic: topic}
	if op.Name == "fetch" {
		sh.Offset = int64(r.Intn(50))
		sh.HWM = sh.Offset
		if withRecords {
			magic := int8(2)
			if v < 4 || r.Intn(4) == 0 {
				magic = 1
			}
			n := 1 + r.Intn(5)
			set, msgs, base, err := connfake.RecordSet(r, magic, sh.Offset, n, 1+r.Intn(2), protocol.Attributes(0))
			if err != nil {
				panic(err)
			}
			sh.Offset = base
			sh.Set, sh.Want, sh.HWM = set, msgs, sh.Offset+int64(n)
		} else if (len(errs) > 0 && r.Intn(2) == 0) || r.Intn(8) == 0 {
			// error responses carry an empty set whatever the watermark is; without an error code an empty set
			// below the watermark is rare (the Conn answers it with io.ErrUnexpectedEOF and closes: modelled)
			sh.HWM = sh.Offset + int64(1+r.Intn(5))
		}
	}
	w := &connfake.W{Errs: append([]int16(nil), errs...)}
	op.Build(v, w, r, sh)
	lastErrPos = append([]int(nil), w.ErrPos...)
	return &inst{op, v, w.B, sh}, len(w.ErrPos)
}

// lastErrPos: byte offsets (in the body) of the error-code fields of the response build() rendered last.
var lastErrPos []int

// splitAt >= 0: scenario delivers A's response in two pieces — the first splitAt bytes of the frame, a pause, the
// rest (TCP segmentation / a slow broker): nothing is lost, the client just cannot count on the whole response being
// in its read buffer when it has parsed the beginning.
var splitAt = -1

type result struct {
	res    string
	digest string
	unread string
}

func runOp(c *kafka.Conn, i *inst) (res, digest string) {
	sh := *i.sh
	d, err := i.op.Call(c, &sh)
	res = connfake.Outcome(err)
	if i.op.Name == "fetch" {
		d = fmt.Sprint(sh.Got, sh.Deliver)
	}
	return res, d
}

// scenario runs A then B on one Conn; B alone on a fresh Conn gives the reference digest.
// opDeadline is the Conn deadline of every exchange (in-process exchanges take microseconds); opWatchdog bounds a
// single operation that ignores its deadline (e.g. one waiting for a lock that is never released).
const (
	opDeadline = 2 * time.Second
	opWatchdog = 4 * time.Second
)

// guarded runs one operation under the watchdog; a hung operation yields "hang" (its goroutine is abandoned).
func guarded(c *kafka.Conn, i *inst) (res, digest string) {
	type rd struct{ res, dig string }
	ch := make(chan rd, 1)
	go func() {
		c.SetDeadline(time.Now().Add(opDeadline))
		r, d := runOp(c, i)
		ch <- rd{r, d}
	}()
	select {
	case x := <-ch:
		return x.res, x.dig
	case <-time.After(opWatchdog):
		return "hang", ""
	}
}

func guardedBuffered(c *kafka.Conn) string {
	ch := make(chan int, 1)
	go func() { ch <- kafka.VerifConnBuffered(c) }()
	select {
	case n := <-ch:
		return fmt.Sprint(n)
	case <-time.After(time.Second):
		return "locked"
	}
}

// scenario runs A then B on one Conn; B alone on a fresh Conn gives the reference digest.
func scenario(a, b *inst) (line string, slow bool) {
	sel := map[int16]int16{b.op.Key: b.v}
	sel[a.op.Key] = a.v
	t0 := time.Now()
	c, br := connfake.Start(topic, connfake.VersionTable(sel))
	if b.op.Name == "apiVersions" && a.op.Name != "apiVersions" {
		// responses are scripted per api key: A's version negotiation would take the ApiVersions response meant for
		// B.  Run A's operation once before (negotiation included), then script.
		w, _ := build(rand.New(rand.NewSource(1)), a.op, a.v, nil, false)
		br.Push(a.op.Key, connfake.Resp{Body: w.body, Cut: -1})
		guarded(c, w)
	}
	if splitAt >= 0 && splitAt < 8+len(a.body) {
		br.Push(a.op.Key, connfake.Resp{Body: a.body, Cut: splitAt, Pause: 10 * time.Millisecond})
	} else {
		br.Push(a.op.Key, connfake.Resp{Body: a.body, Cut: -1})
	}
	br.Push(b.op.Key, connfake.Resp{Body: b.body, Cut: -1})
	resA, _ := guarded(c, a)
	if resA == "shortbuf" {
		resA = "ok" // Conn.Read into a short buffer: the expected io.ErrShortBuffer, the exchange itself went through
	}
	unread := "-"
	if resA == "ok" || resA[0] == 'k' {
		unread = guardedBuffered(c)
	}
	resB, digB := "hang", ""
	if resA != "hang" {
		resB, digB = guarded(c, b)
	}
	go func() { c.Close(); br.Stop() }()
	same := "diff"
	if resB != "hang" {
		c2, br2 := connfake.Start(topic, connfake.VersionTable(sel))
		br2.Push(b.op.Key, connfake.Resp{Body: b.body, Cut: -1})
		resF, digF := guarded(c2, b)
		go func() { c2.Close(); br2.Stop() }()
		if resF == resB && digF == digB {
			same = "same"
		}
	}
	impl := fmt.Sprintf("%s %s %s %s", resA, unread, resB, same)
	if splitAt >= 0 {
		// c11k <topic> <split position> …: same exchange for the model, the position is kept for the replay
		return fmt.Sprintf("c11k %s %d %s %s\t%s", gen.Hex([]byte(topic)), splitAt, a, b, impl), time.Since(t0) > time.Second
	}
	return fmt.Sprintf("c11 %s %s %s\t%s", gen.Hex([]byte(topic)), a, b, impl), time.Since(t0) > time.Second
}

// chain: A is answered with a response carrying a foreign correlation id, then B and C on the same Conn.
//
//	c11x <topic hex> <id delta> <A> <bodyA> <B> <bodyB> <C> <bodyC>\t<resA> <resB> <resC>
func chain(a, b, c *inst, delta int32) (line string, slow bool) {
	sel := map[int16]int16{c.op.Key: c.v}
	sel[b.op.Key] = b.v
	sel[a.op.Key] = a.v
	t0 := time.Now()
	conn, br := connfake.Start(topic, connfake.VersionTable(sel))
	br.Push(a.op.Key, connfake.Resp{Body: a.body, Cut: -1, IDDelta: delta})
	br.Push(b.op.Key, connfake.Resp{Body: b.body, Cut: -1})
	br.Push(c.op.Key, connfake.Resp{Body: c.body, Cut: -1})
	res := []string{"hang", "hang", "hang"}
	for i, x := range []*inst{a, b, c} {
		res[i], _ = guarded(conn, x)
		if res[i] == "hang" {
			break
		}
	}
	go func() { conn.Close(); br.Stop() }()
	return fmt.Sprintf("c11x %s %d %s %s %s\t%s %s %s", gen.Hex([]byte(topic)), delta, a, b, c, res[0], res[1], res[2]), time.Since(t0) > time.Second
}

// versionCache: the first operation on a fresh Conn has to negotiate its version; the broker answers the ApiVersions
// request with an error code — next to it no entry, the one entry brokers send with UnsupportedVersion, or its whole
// table — and from then on normally.  The same operation is then called again.
//
//	c11v <topic hex> <ApiVersions body 1> <ApiVersions body 2> <A> <bodyA>\t<res1> <res2>
func versionCache(a *inst, av1 []byte) (line string, slow bool) {
	t0 := time.Now()
	table := connfake.VersionTable(map[int16]int16{a.op.Key: a.v})
	conn, br := connfake.Start(topic, table)
	av2 := connfake.ApiVersionsBody(0, table)
	br.Push(18, connfake.Resp{Body: av1, Cut: -1})
	br.Push(18, connfake.Resp{Body: av2, Cut: -1})
	br.Push(a.op.Key, connfake.Resp{Body: a.body, Cut: -1})
	res1, _ := guarded(conn, a)
	res2 := "hang"
	if res1 != "hang" {
		res2, _ = guarded(conn, a)
	}
	go func() { conn.Close(); br.Stop() }()
	return fmt.Sprintf("c11v %s %s %s %s\t%s %s", gen.Hex([]byte(topic)), gen.Hex(av1), gen.Hex(av2), a, res1, res2), time.Since(t0) > time.Second
}

// slowLink: A is a fetch of which the caller reads one record and closes the batch; the broker delivers all but the
// last bytes of A's frame, then nothing for `pause` (longer than A's 200 ms deadline), then the rest and whatever it
// is asked next.  Nothing is lost — but if Close gives up skipping the rest of the response when the deadline expires,
// the Conn must not be handed back as if it were at a frame boundary.
//
//	c11w <topic hex> <k> <A> <bodyA> <B> <bodyB>\t<resA> <resB>
func slowLink(a, b *inst, k int, pause time.Duration) (line string) {
	sel := map[int16]int16{b.op.Key: b.v}
	sel[a.op.Key] = a.v
	conn, br := connfake.Start(topic, connfake.VersionTable(sel))
	// version negotiation first, on a fast link
	w, _ := build(rand.New(rand.NewSource(1)), b.op, b.v, nil, false)
	br.Push(b.op.Key, connfake.Resp{Body: w.body, Cut: -1})
	if res, _ := guarded(conn, w); res != "ok" {
		go func() { conn.Close(); br.Stop() }()
		return fmt.Sprintf("c11w %s %d %s %s\twarmup-%s -", gen.Hex([]byte(topic)), k, a, b, res)
	}
	br.Push(a.op.Key, connfake.Resp{Body: a.body, Cut: k, Pause: pause})
	br.Push(b.op.Key, connfake.Resp{Body: b.body, Cut: -1})
	type rd struct{ res string }
	ch := make(chan rd, 1)
	go func() {
		conn.SetDeadline(time.Now().Add(200 * time.Millisecond))
		r, _ := runOp(conn, a)
		ch <- rd{r}
	}()
	resA := "hang"
	select {
	case x := <-ch:
		resA = x.res
	case <-time.After(opWatchdog):
	}
	if resA == "shortbuf" {
		resA = "fail" // an error was reported (io.ErrShortBuffer came first); whether the Conn survived is what B shows
	}
	resB := "hang"
	if resA != "hang" {
		resB, _ = guarded(conn, b)
	}
	go func() { conn.Close(); br.Stop() }()
	return fmt.Sprintf("c11w %s %d %s %s\t%s %s", gen.Hex([]byte(topic)), k, a, b, resA, resB)
}

// sequenceN: n operations one after the other on one Conn (a Reader's or a group member's life: fetch, heartbeat,
// commit, fetch, …), every response scripted.
//
//	c11n <topic hex> <n> <A1> <body1> … <An> <bodyn>\t<res1> … <resn>
func sequenceN(xs []*inst) (line string, slow bool) {
	sel := map[int16]int16{}
	for _, x := range xs {
		sel[x.op.Key] = x.v
	}
	t0 := time.Now()
	conn, br := connfake.Start(topic, connfake.VersionTable(sel))
	for _, x := range xs {
		br.Push(x.op.Key, connfake.Resp{Body: x.body, Cut: -1})
	}
	res := make([]string, len(xs))
	hung := false
	for i, x := range xs {
		if hung {
			res[i] = "hang"
			continue
		}
		res[i], _ = guarded(conn, x)
		hung = res[i] == "hang"
	}
	go func() { conn.Close(); br.Stop() }()
	var sb strings.Builder
	fmt.Fprintf(&sb, "c11n %s %d", gen.Hex([]byte(topic)), len(xs))
	for _, x := range xs {
		fmt.Fprintf(&sb, " %s", x)
	}
	return sb.String() + "\t" + strings.Join(res, " "), time.Since(t0) > time.Second
}

// badSize: A's response carries the size prefix `size` instead of len(body)+4, B follows on the same Conn.
//
//	c11z <topic hex> <size> <A> <bodyA> <B> <bodyB>\t<resA> <resB>
func badSize(a, b *inst, size int32) (line string, slow bool) {
	sel := map[int16]int16{b.op.Key: b.v}
	sel[a.op.Key] = a.v
	t0 := time.Now()
	conn, br := connfake.Start(topic, connfake.VersionTable(sel))
	br.Push(a.op.Key, connfake.Resp{Body: a.body, Cut: -1, SizeSet: true, Size: size})
	br.Push(b.op.Key, connfake.Resp{Body: b.body, Cut: -1})
	resA, _ := guarded(conn, a)
	resB := "hang"
	if resA != "hang" {
		resB, _ = guarded(conn, b)
	}
	go func() { conn.Close(); br.Stop() }()
	return fmt.Sprintf("c11z %s %d %s %s\t%s %s", gen.Hex([]byte(topic)), size, a, b, resA, resB), time.Since(t0) > time.Second
}

// pipelined: A and B are both written before the broker answers anything (two goroutines on one Conn), the two
// response frames then arrive back to back.  Both operations run once before (version negotiation out of the way);
// forge(id of B) may append to A's body once the correlation ids are known.
//
//	c11p <topic hex> <correlation id of A> <A> <bodyA> <B> <bodyB>\t<resA> <resB>
func pipelined(r *rand.Rand, a, b *inst, forge func(idB int32)) (line string, slow bool) {
	t0 := time.Now()
	conn, br := connfake.Start(topic, connfake.VersionTable(map[int16]int16{a.op.Key: a.v, b.op.Key: b.v}))
	for _, x := range []*inst{a, b} {
		w, _ := build(r, x.op, x.v, nil, false)
		br.Push(x.op.Key, connfake.Resp{Body: w.body, Cut: -1})
		if res, _ := guarded(conn, w); res != "ok" {
			go func() { conn.Close(); br.Stop() }()
			return fmt.Sprintf("c11p %s 0 %s %s\twarmup-%s -", gen.Hex([]byte(topic)), a, b, res), false
		}
	}
	idA := len(br.Log()) + 1
	forge(int32(idA + 1))
	br.Push(a.op.Key, connfake.Resp{Body: a.body, Cut: -1})
	br.Push(b.op.Key, connfake.Resp{Body: b.body, Cut: -1})
	br.Hold(2, -1)
	n0 := len(br.Log())
	call := func(i *inst) chan string {
		ch := make(chan string, 1)
		go func() {
			r, _ := guarded(conn, i)
			ch <- r
		}()
		return ch
	}
	chA := call(a)
	for i := 0; i < 5000 && len(br.Log()) < n0+1; i++ {
		time.Sleep(100 * time.Microsecond)
	}
	chB := call(b)
	resA, resB := <-chA, <-chB
	go func() { conn.Close(); br.Stop() }()
	return fmt.Sprintf("c11p %s %d %s %s\t%s %s", gen.Hex([]byte(topic)), idA, a, b, resA, resB), time.Since(t0) > time.Second
}

var codes = []int16{1, 3, 5, 6, 7, 9, 14, 15, 16, 19, 20, 22, 25, 27, 29, 36, 41, -1, 87, 32767, -32768}

func main() {
	r := gen.New()
	thorough := gen.Thorough()
	var followers []string
	for _, o := range connfake.Ops {
		followers = append(followers, o.Name)
	}
	ncases, nslow := 0, 0
	emit := func(a, b *inst) {
		if nslow >= 5 {
			return // every blocked case costs its deadlines/watchdogs: a handful is enough for the replay
		}
		l, slow := scenario(a, b)
		fmt.Fprintln(out, l)
		ncases++
		if slow {
			nslow++
		}
	}
	follower := func(a *inst) *inst {
		for {
			f := connfake.OpByName(followers[r.Intn(len(followers))])
			if f.Name == "apiVersions" {
				continue // a scripted ApiVersions response would be taken by the version negotiation of the first operation
			}
			v := f.Versions[r.Intn(len(f.Versions))]
			if f.Key == a.op.Key {
				v = a.v
				if f.Name != a.op.Name { // brokers/controller/metadata share key 3: only v1 is common
					ok := false
					for _, x := range f.Versions {
						ok = ok || x == v
					}
					if !ok {
						continue
					}
				}
			}
			if f.Name == "saslAuthenticate" && a.op.Name == "saslHandshake" && a.v != 1 {
				continue
			}
			if a.op.Name == "saslAuthenticate" && f.Name == "saslHandshake" && v != 1 {
				v = 1
			}
			b, _ := build(r, f, v, nil, r.Intn(2) == 0)
			return b
		}
	}
	for _, op := range connfake.Ops {
		for _, v := range op.Versions {
			ne := 0
			for k := 0; k < 6; k++ {
				if _, n := build(r, op, v, nil, false); n > ne {
					ne = n
				}
			}
			reps := 3
			if thorough {
				reps = 10
			}
			for rep := 0; rep < reps; rep++ {
				// no error at all (with and without records for fetch)
				for k := 0; k < 2; k++ {
					a, _ := build(r, op, v, nil, k == 0)
					emit(a, follower(a))
				}
				// one error code in each error field
				for f := 0; f < ne && f < 12; f++ {
					cs := codes
					if !thorough {
						cs = []int16{codes[r.Intn(len(codes))], codes[r.Intn(len(codes))], codes[r.Intn(len(codes))], 6, 1, 36}
					}
					for _, code := range cs {
						errs := make([]int16, f+1)
						errs[f] = code
						a, n := build(r, op, v, errs, false)
						// array-bearing responses: make sure the error sits in a NON-LAST entry as well (an early exit
						// inside the element loop leaves the following entries unread)
						for try := 0; try < 8 && ne >= 2 && n <= f+1; try++ {
							a, n = build(r, op, v, errs, false)
						}
						emit(a, follower(a))
					}
				}
				// codes in several fields at once
				if ne >= 2 {
					for k := 0; k < 3; k++ {
						errs := make([]int16, ne)
						for i := range errs {
							if r.Intn(2) == 0 {
								errs[i] = codes[r.Intn(len(codes))]
							}
						}
						a, _ := build(r, op, v, errs, false)
						emit(a, follower(a))
					}
				}
			}
		}
	}
	// framing errors: a fully delivered frame whose body is NOT an encoding of the layout (trailing bytes, or the
	// last bytes missing with a consistent size prefix): "after a framing error every later operation fails".
	// List-offsets with an error code (kafka error returned from inside the partition loop, see Props/C11
	// listOffsets_two_partitions_counterexample) is left out.
	for _, op := range connfake.Ops {
		for _, v := range op.Versions {
			for rep := 0; rep < 2; rep++ {
				for _, withErr := range []bool{false, true} {
					if withErr && op.Name == "listOffsets" {
						continue
					}
					var errs []int16
					if withErr {
						errs = []int16{codes[r.Intn(len(codes))]}
					}
					a, _ := build(r, op, v, errs, rep == 0)
					if rep == 0 || len(a.body) < 4 {
						a.body = append(a.body, gen.Bytes(r, 1+r.Intn(5))...)
					} else {
						a.body = a.body[:len(a.body)-1-r.Intn(3)]
					}
					emit(a, follower(a))
				}
			}
		}
	}
	// arbitrary bytes: the theorems hold for EVERY body, so the model must agree with the code on damaged frames too.
	// A well-formed frame gets one byte overwritten (anywhere, array counts included — since the fix for the
	// unbounded reflect.MakeSlice in read.go a corrupted count fails without allocating) or one array count changed
	// by a little.  The monitor: a frame that is still an encoding of the layout is judged as such; any other frame is
	// a framing error (A fails and so does B, or a broker error is reported and the Conn stays aligned).  Fetch and
	// ApiVersions have their own families (their documented corners — watermark, trailing bytes — are one byte away).
	nfuzz := 12
	if thorough {
		nfuzz = 80
	}
	for _, op := range connfake.Ops {
		if op.Name == "fetch" {
			continue
		}
		for _, v := range op.Versions {
			for i := 0; i < nfuzz; i++ {
				sh := &connfake.Shape{Topic: topic}
				w := &connfake.W{}
				op.Build(v, w, r, sh)
				if len(w.B) == 0 {
					continue
				}
				if len(w.CntPos) > 0 && r.Intn(3) == 0 {
					c := w.CntPos[r.Intn(len(w.CntPos))]
					w.B[c+3] = byte(int(w.B[c+3]) + []int{-1, 1, 2}[r.Intn(3)]) // count ± a little (0 − 1 = 255 elements: still harmless)
				} else {
					p := r.Intn(len(w.B))
					w.B[p] = gen.Bytes(r, 1)[0]
				}
				a := &inst{op, v, w.B, sh}
				emit(a, follower(a))
			}
		}
	}
	// damaged fetch HEADERS (the part the header programs of read.go parse; the record set itself is the message-set
	// reader's business): one byte overwritten before the set
	for _, v := range connfake.OpByName("fetch").Versions {
		for i := 0; i < nfuzz; i++ {
			magic := int8(2)
			if v < 4 {
				magic = 1
			}
			a := buildFetch(r, v, magic, 2, 1, 0, 0)
			hdrLen := len(a.body) - len(a.sh.Set)
			if hdrLen <= 0 {
				continue
			}
			a.body = append([]byte{}, a.body...)
			a.body[r.Intn(hdrLen)] = gen.Bytes(r, 1)[0]
			emit(a, follower(a))
		}
	}
	// partial reads: read j of the n records of a fetch response (every j, and Close at once), then Close, then the next
	// operation — plain and every codec, one batch and two batches, message formats 1 and 2.  Batch.Close must leave
	// the Conn at the next frame whatever was read (Conn.ReadMessage / Conn.Read read exactly one record).
	type layout struct {
		magic      int8
		n, batches int
	}
	for _, v := range connfake.OpByName("fetch").Versions {
		for codec := protocol.Attributes(0); codec <= 4; codec++ {
			for _, l := range []layout{{2, 3, 1}, {2, 5, 2}, {1, 3, 1}} {
				if (l.magic == 2 && v < 4) || (l.magic == 1 && codec > 2) {
					continue
				}
				for j := -1; j <= l.n; j++ {
					if j == 0 {
						continue
					}
					a := buildFetch(r, v, l.magic, l.n, l.batches, codec, j)
					emit(a, follower(a))
				}
				// Conn.ReadMessage and Conn.Read: one record, then the batch is closed by the library itself
				// "ReadSmall": Conn.Read into a buffer shorter than the value — io.ErrShortBuffer, Conn kept and aligned
				for _, via := range []string{"ReadMessage", "Read", "ReadSmall"} {
					a := buildFetch(r, v, l.magic, l.n, l.batches, codec, 1)
					a.sh.Via = via
					emit(a, follower(a))
				}
			}
		}
	}
	// sets too short for one message / batch header (and just long enough): io.ErrUnexpectedEOF and a closed Conn below
	// the header size of the format, the usual early end of the batch from there on
	for _, v := range connfake.OpByName("fetch").Versions {
		for _, magic := range []int8{1, 2} {
			if magic == 2 && v < 4 {
				continue
			}
			for _, keep := range []int{1, 12, 16, 17, 25, 26, 27, 60, 61, 62} {
				a := buildFetch(r, v, magic, 3, 1, 0, 0)
				if keep >= len(a.sh.Set) {
					continue
				}
				a.sh.Set = a.sh.Set[:keep]
				w := &connfake.W{}
				a.op.Build(v, w, r, a.sh)
				a.body = w.B
				emit(a, follower(a))
			}
			// an unknown magic byte in the first entry: refused (a framing error: A and the follow-up fail)
			a := buildFetch(r, v, magic, 3, 1, 0, 0)
			a.sh.Set = append([]byte{}, a.sh.Set...)
			a.sh.Set[16] = byte(3 + r.Intn(200))
			w := &connfake.W{}
			a.op.Build(v, w, r, a.sh)
			a.body = w.B
			emit(a, follower(a))
		}
	}
	// ApiVersions as the follow-up operation (inside the main theorems since C11-D33): after every operation, with
	// and without a broker-reported error in the first response
	av := connfake.OpByName("apiVersions")
	for _, op := range connfake.Ops {
		if op.Name == "apiVersions" {
			continue
		}
		for _, v := range op.Versions {
			var errs []int16
			if r.Intn(2) == 0 {
				errs = []int16{codes[r.Intn(len(codes))]}
			}
			a, _ := build(r, op, v, errs, false)
			var berrs []int16
			if r.Intn(3) == 0 {
				berrs = []int16{codes[r.Intn(len(codes))]}
			}
			b, _ := build(r, av, 0, berrs, false)
			emit(a, b)
		}
	}
	// a set truncated inside an honest frame (MaxBytes): the batch ends early (io.EOF after a prefix of the records, or
	// an error when not even one complete record is there), the Conn stays aligned
	for _, v := range connfake.OpByName("fetch").Versions {
		for _, magic := range []int8{1, 2} {
			if magic == 2 && v < 4 {
				continue
			}
			for _, trunc := range []int{1, 7, 20, 40, 70, 1000} {
				a := buildFetchTrunc(r, v, magic, 5, 2, 0, 0, trunc)
				emit(a, follower(a))
			}
		}
	}
	// a response AT the high watermark that nevertheless carries a message set (C11-D32): RequestTimedOut is reported,
	// the set must be skipped, the next operation as on a fresh Conn
	for _, v := range connfake.OpByName("fetch").Versions {
		for _, magic := range []int8{1, 2} {
			if magic == 2 && v < 4 {
				continue
			}
			a := buildFetch(r, v, magic, 3, 1, 0, 0)
			a.sh.HWM = a.sh.Offset
			w := &connfake.W{}
			a.op.Build(v, w, r, a.sh)
			a.body = w.B
			emit(a, follower(a))
		}
	}
	// responses that arrive in two pieces (the model's stream does not know about pieces: same expected lines): every
	// operation × version, with a broker error code, split right after each error-code field — where a drain must wait
	// for the rest instead of skipping only what is buffered — and at a random place; without error at a random place
	for _, op := range connfake.Ops {
		if nslow >= 5 {
			break
		}
		for _, v := range op.Versions {
			a, _ := build(r, op, v, []int16{codes[r.Intn(len(codes))]}, false)
			var ks []int
			for _, p := range lastErrPos {
				ks = append(ks, 8+p+2)
			}
			ks = append(ks, 1+r.Intn(8+len(a.body)-1))
			for _, k := range ks {
				splitAt = k
				emit(a, follower(a))
			}
			a2, _ := build(r, op, v, nil, op.Name == "fetch")
			splitAt = 1 + r.Intn(8+len(a2.body)-1)
			emit(a2, follower(a2))
			splitAt = -1
		}
	}
	// the version cache: a broker error on the ApiVersions exchange of the first negotiating operation is what the
	// caller gets, and the next call negotiates afresh — whatever list came with the error
	for _, name := range []string{"produce", "metadata", "joinGroup", "createTopics", "deleteTopics", "saslHandshake", "fetch"} {
		op := connfake.OpByName(name)
		for _, v := range op.Versions {
			code := codes[r.Intn(len(codes))]
			for variant := 0; variant < 3; variant++ {
				var av1 []byte
				switch variant {
				case 0:
					av1 = connfake.ApiVersionsBody(code, nil)
				case 1:
					av1 = connfake.ApiVersionsBody(code, map[int16]int16{18: int16(r.Intn(4))})
				default:
					av1 = connfake.ApiVersionsBody(code, connfake.VersionTable(map[int16]int16{op.Key: v}))
				}
				a, _ := build(r, op, v, nil, false)
				if name == "fetch" {
					magic := int8(2)
					if v < 4 {
						magic = 1
					}
					a = buildFetch(r, v, magic, 3, 1, 0, 0)
				}
				l, slow := versionCache(a, av1)
				fmt.Fprintln(out, l)
				ncases++
				if slow {
					nslow++
				}
			}
		}
	}
	// a slow link: the end of a fetch response arrives after the deadline of the Close that skips it
	for _, v := range connfake.OpByName("fetch").Versions {
		for _, magic := range []int8{1, 2} {
			if (magic == 2 && v < 4) || nslow >= 5 {
				continue
			}
			// the caller reads one record and closes; or reads into a buffer that is too short (io.ErrShortBuffer,
			// an error after which the Conn is kept) and the library closes the batch itself
			for _, via := range []string{"", "ReadSmall"} {
				a := buildFetch(r, v, magic, 3, 1, 0, 1)
				a.sh.Via = via
				b := follower(a)
				for b.op.Name == "fetch" {
					b = follower(a)
				}
				b, _ = build(r, b.op, b.v, nil, false)
				fmt.Fprintln(out, slowLink(a, b, 8+len(a.body)-3, 600*time.Millisecond))
				ncases++
			}
		}
	}
	// longer runs on one Conn: 4–7 operations, fetches with records among them, broker-reported errors anywhere; in
	// half of the runs one response is a framing error (a byte missing / one too many): everything before it as
	// usual, it and everything after it fail.
	nseq := 12
	if thorough {
		nseq = 120
	}
	for i := 0; i < nseq && nslow < 5; i++ {
		n := 4 + r.Intn(4)
		var xs []*inst
		for len(xs) < n {
			op := connfake.OpByName(followers[r.Intn(len(followers))])
			if op.Name == "apiVersions" {
				continue
			}
			v := op.Versions[r.Intn(len(op.Versions))]
			same := true
			for _, y := range xs { // one version per api key on a Conn
				if y.op.Key == op.Key && y.v != v {
					same = false
				}
			}
			if !same {
				continue
			}
			var errs []int16
			if r.Intn(3) == 0 {
				errs = []int16{codes[r.Intn(len(codes))]}
			}
			x, _ := build(r, op, v, errs, op.Name == "fetch" && len(errs) == 0 && r.Intn(2) == 0)
			xs = append(xs, x)
		}
		if r.Intn(2) == 0 {
			j := r.Intn(n)
			if xs[j].op.Name != "fetch" {
				if r.Intn(2) == 0 && len(xs[j].body) > 1 {
					xs[j].body = xs[j].body[:len(xs[j].body)-1]
				} else {
					xs[j].body = append(append([]byte{}, xs[j].body...), 0)
				}
			}
		}
		l, slow := sequenceN(xs)
		fmt.Fprintln(out, l)
		ncases++
		if slow {
			nslow++
		}
	}
	// two requests in flight: when A's frame turns out to be a framing error and the Conn is closed, B — already
	// written, its caller waiting for the read lock — must fail too; in particular it must not be served what is left
	// of A's frame in the read buffer.  A's frame: well-formed + a complete forged frame carrying B's correlation id and
	// a well-formed body for B reporting error 41 inside A's size (B's real response reports none); the same with an error code in A (a drain skips it: harmless);
	// one byte short; well-formed (control).
	for _, op := range connfake.Ops {
		if op.Name == "fetch" || op.Name == "apiVersions" || nslow >= 5 {
			continue
		}
		for _, v := range op.Versions {
			for variant := 0; variant < 4; variant++ {
				var errs []int16
				if variant == 1 {
					errs = []int16{codes[r.Intn(len(codes))]}
				}
				a, _ := build(r, op, v, errs, false)
				b := follower(a)
				for b.op.Name == "fetch" {
					b = follower(a)
				}
				b, _ = build(r, b.op, b.v, nil, false) // B's real response reports no error, the forged one does
				forge := func(int32) {}
				switch variant {
				case 0, 1:
					forge = func(idB int32) {
						forged, _ := build(r, b.op, b.v, []int16{41}, false)
						a.body = append(append([]byte{}, a.body...), connfake.Frame(idB, forged.body)...)
					}
				case 2:
					a.body = a.body[:len(a.body)-1]
				}
				l, slow := pipelined(r, a, b, forge)
				fmt.Fprintln(out, l)
				ncases++
				if slow {
					nslow++
				}
			}
		}
	}
	// a size prefix below 4 (the correlation id alone takes 4 bytes), negative ones included: a framing error, A and
	// every later operation fail — promptly; and prefixes a few bytes off the real length: model and code must agree
	// on what happens to the stream.
	for _, op := range connfake.Ops {
		if nslow >= 5 {
			break
		}
		for _, v := range op.Versions {
			a, _ := build(r, op, v, nil, false)
			real := int32(len(a.body) + 4)
			sizes := []int32{math.MinInt32, -1, 0, 3, 4, real - 1, real + 2}
			if !thorough {
				sizes = []int32{sizes[r.Intn(4)], sizes[4+r.Intn(3)]}
			}
			for _, size := range sizes {
				if op.Name == "fetch" && size > 4 {
					continue // the message-set reader runs to the deadline on a prefix that promises more
				}
				l, slow := badSize(a, follower(a), size)
				fmt.Fprintln(out, l)
				ncases++
				if slow {
					nslow++
				}
			}
		}
	}
	// a response nobody asked for (foreign correlation id) is a framing error that does NOT close the Conn
	// (io.ErrNoProgress, nothing consumed): every later operation must fail too — promptly.  Three operations in a row.
	nchain := 0
	for _, op := range connfake.Ops {
		if op.Name == "apiVersions" || op.Name == "fetch" || nslow >= 5 { // (same remark: responses are scripted per api key)
			continue
		}
		for _, v := range op.Versions {
			a, _ := build(r, op, v, nil, false)
			b := follower(a)
			c := follower(a)
			for c.op.Key == b.op.Key && c.v != b.v {
				c = follower(a)
			}
			l, slow := chain(a, b, c, int32(1+r.Intn(9)))
			fmt.Fprintln(out, l)
			nchain++
			if slow {
				nslow++
			}
			// the coincidence that made C11-D30: the stray response carries exactly the NEXT request's id, and the next
			// request is the same operation (so the stray body parses): it must not be taken for that request's answer
			a2, _ := build(r, op, v, nil, false)
			b2, _ := build(r, op, v, nil, false)
			l, slow = chain(a2, b2, follower(a2), 1)
			fmt.Fprintln(out, l)
			nchain++
			if slow {
				nslow++
			}
		}
	}
	out.Flush()
	fmt.Fprintf(os.Stderr, "c11 driver: %d three-operation chains after a foreign correlation id\n", nchain)
	fmt.Fprintf(os.Stderr, "c11 driver: %d cases, %d slower than 1s (generation stops at 5)\n", ncases, nslow)
}
