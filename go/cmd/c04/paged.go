package main

// Record sets whose back-patched header fields STRADDLE a 64 KiB page of the encoder's page buffer (protocol/buffer.go
// contiguousPages.WriteAt): a Produce request with two partitions; the first carries one record of about 65 KiB, sized so that
// the second record set starts at 65536 − r − k for a patched field at relative offset r of width w and 0 < k < w (record-set size,
// batch length, crc, last offset delta, first / max timestamp, record count of a v2 batch; offset / size / crc of a v1 message).
// The frame must be the reference encoding (enc) and decode back (dec), as for every other value.

import (
	"bufio"
	"math/rand"
	"time"

	"github.com/segmentio/kafka-go/protocol"
	"github.com/segmentio/kafka-go/protocol/produce"

	"kvharness/internal/gen"
	"kvharness/internal/msgs"
)

func generatePaged(w *bufio.Writer, r *rand.Rand) {
	idx := -1
	for i, m := range msgs.All {
		if m.Pkg == "produce" && m.IsRequest && !m.Override {
			idx = i
		}
	}
	if idx < 0 {
		return
	}
	m := msgs.All[idx]
	type fld struct{ off, width int }
	v2 := []fld{{0, 4}, {8, 4}, {17, 4}, {23, 4}, {27, 8}, {35, 8}, {57, 4}} // relative to the int32 size prefix of the record set (+4 below)
	v1 := []fld{{0, 4}, {8, 4}, {12, 4}}
	build := func(ver int16, magic int8, s int, f *filler) *produce.Request {
		val := make([]byte, s)
		for i := range val {
			val[i] = byte(i*13 + 5)
		}
		set := func(recs ...protocol.Record) protocol.RecordSet {
			payload, err := msgs.RecordPayload(magic, cloneRecs(recs))
			rr := protocol.NewRecordReader(recs...)
			if err == nil {
				f.payloads[rr] = payload
			}
			return protocol.RecordSet{Version: magic, Records: rr}
		}
		t0 := time.Unix(1600000000, 0).UTC()
		return &produce.Request{Acks: 1, Timeout: 1000, Topics: []produce.RequestTopic{{Topic: "t", Partitions: []produce.RequestPartition{
			{Partition: 0, RecordSet: set(protocol.Record{Time: t0, Key: protocol.NewBytes([]byte("k0")), Value: protocol.NewBytes(val)})},
			{Partition: 1, RecordSet: set(protocol.Record{Time: t0.Add(time.Second), Key: protocol.NewBytes([]byte("k1")), Value: protocol.NewBytes([]byte("second"))})},
		}}}}
	}
	for _, c := range []struct {
		ver   int16
		magic int8
		flds  []fld
	}{{7, 2, v2}, {2, 1, v1}} {
		// where does the second record set start for a first value of s0 bytes?
		const s0 = 65000
		f0 := &filler{r: r, payloads: msgs.Payloads{}, version: c.ver, mode: 1}
		req0 := build(c.ver, c.magic, s0, f0)
		frame0, err := encodeReal(m, c.ver, 1, "", req0)
		if err != nil {
			continue
		}
		var second []byte
		for _, p := range f0.payloads {
			if len(p) < 1000 {
				second = p
			}
		}
		start0 := len(frame0) - (4 + len(second)) // offset of the second set's size prefix in the frame
		for _, fd := range c.flds {
			ks := []int{fd.width / 2}
			if gen.Thorough() {
				ks = nil
				for k := 1; k < fd.width; k++ {
					ks = append(ks, k)
				}
			}
			for _, k := range ks {
				// field bytes occupy [start+4+off, start+4+off+width) for the batch fields, [start, start+4) for the size prefix itself
				rel := 4 + fd.off
				if fd.off == 0 {
					rel = 0
				}
				target := 65536 - rel - k
				s := s0 + (target - start0)
				f := &filler{r: r, payloads: msgs.Payloads{}, version: c.ver, mode: 1}
				emitCase(w, idx, m, c.ver, f, build(c.ver, c.magic, s, f), false)
			}
		}
	}
}
