package main

// The hand-written RESPONSE readers of the Conn codec (C04: "decoding inverts the canonical encoding … for both
// implementations of the codec").  A response body encoded by the protocol package (itself compared with the
// reference encoder in this run) is decoded with the reader Conn uses for that API (readFrom / the reflective read)
// and re-encoded with the same type's writeTo (hook kafka.VerifLegacyRewrite, no connection involved).  The oracle
// decodes both byte strings under the GOLDEN response schema and requires the same value (null ~ empty, which the
// Conn codec does not distinguish) and that the reader consumed the body exactly.
//
//	legread <i> <ver> <type> <body hex>\t<remain> <rewritten hex>|err

import (
	"bufio"
	"fmt"
	"math/rand"
	"reflect"

	kafka "github.com/segmentio/kafka-go"

	"kvharness/internal/gen"
	"kvharness/internal/msgs"
)

func generateLegacyRead(w *bufio.Writer, r *rand.Rand) {
	rounds := 8
	if gen.Thorough() {
		rounds = 80
	}
	for _, lt := range kafka.VerifLegacyResponses() {
		idx := -1
		for i, m := range msgs.All {
			if !m.IsRequest && !m.Override && int16(m.ApiKey) == lt.Key {
				idx = i
				break
			}
		}
		if idx < 0 {
			fmt.Fprintf(w, "legread -1 0 %s -\tno-protocol-message\n", lt.Name)
			continue
		}
		m := msgs.All[idx]
		for _, ver := range lt.Versions {
			for k := 0; k < rounds; k++ {
				f := &filler{r: r, payloads: msgs.Payloads{}, version: ver, mode: 2}
				if k < 2 {
					f.mode = k
				}
				msg := m.New()
				f.fill(reflect.ValueOf(msg).Elem(), 0)
				frame, err := encodeReal(m, ver, 1, "", msg)
				if err != nil || len(frame) < 8 {
					continue
				}
				body := frame[8:]
				out, remain, err := legacyRewrite(lt.Name, ver, body)
				if err != nil {
					fmt.Fprintf(w, "legread %d %d %s %s\terr\n", idx, ver, lt.Name, gen.Hex(body))
					continue
				}
				fmt.Fprintf(w, "legread %d %d %s %s\t%d %s\n", idx, ver, lt.Name, gen.Hex(body), remain, gen.Hex(out))
			}
		}
	}
}

func legacyRewrite(name string, ver int16, body []byte) (out []byte, remain int, err error) {
	defer func() {
		if e := recover(); e != nil {
			err = fmt.Errorf("panic: %v", e)
		}
	}()
	return kafka.VerifLegacyRewrite(name, ver, body)
}
