// Command c04 is the correspondence driver of C04 (and, with -mal, of C20): it runs the REAL reflection codec
// of /repo/protocol on generated values / frames and prints one line per case, `<op> <args…>\t<impl output>`.
//
//	c04                    for every registered message type × version × generated value:
//	                         enc <i> <ver> <corr> <clientid> <value…>\t<frame hex>|err     WriteRequest / WriteResponse
//	                         dec <i> <ver> <frame hex>\t<corr> [<clientid>] <value…>|err   ReadRequest / ReadResponse on those bytes
//	                       and `spec` requests (same args as enc) whose answer — the reference frame — comes back
//	                       through -dec
//	c04 -dec <file>        lines `<i> <ver> <frame hex>`: decode reference frames with the real code, print `dec` lines
//	c04 -mal <file>        C20: lines `<i> <ver> <frame hex>`: decode each in a CHILD process under a memory limit and a
//	                       timeout, print `mal <i> <ver> <hex>\tok|err|panic|oom|timeout`
//	c04 -child             (internal) decode the cases read from stdin, one outcome per line
//
// Every random choice derives from VERIF_SEED; VERIF_TIER=thorough widens the generators.
package main

import (
	"bufio"
	"bytes"
	"encoding/hex"
	"flag"
	"fmt"
	"io"
	"math"
	"math/rand"
	"os"
	"os/exec"
	"reflect"
	"runtime"
	"runtime/debug"
	"strconv"
	"strings"
	"sync"
	"time"

	"kvharness/internal/gen"
	"kvharness/internal/msgs"

	"github.com/segmentio/kafka-go/protocol"
	"github.com/segmentio/kafka-go/protocol/saslauthenticate"
)

var (
	recordSetType    = reflect.TypeOf(protocol.RecordSet{})
	rawRecordSetType = reflect.TypeOf(protocol.RawRecordSet{})
)

type filler struct {
	forceRS  int8 // 0: random record-set version, 1 / 2: forced
	nrec     int  // > 0: number of records per set
	r        *rand.Rand
	payloads msgs.Payloads
	version  int16
	mode     int // 0 zero value, 1 small full, 2 random, 3 random wide
	bigN     int // > 0: the next (non-byte) slice gets this many elements (once)
	bigBytes int // > 0: the next []byte gets this many bytes (once)
}

func (f *filler) str() string {
	switch f.mode {
	case 0:
		return ""
	case 1:
		return "ab"
	}
	switch f.r.Intn(8) {
	case 0:
		return ""
	case 1:
		return string(gen.Bytes(f.r, 1))
	case 2:
		return string(gen.Bytes(f.r, 127+f.r.Intn(3))) // around the 1-byte varint boundary
	case 3:
		if f.mode == 3 {
			return string(gen.Bytes(f.r, []int{16383, 16384, 32767}[f.r.Intn(3)])) // 2-byte varint boundary, max int16
		}
		return "topic-" + strconv.Itoa(f.r.Intn(100))
	default:
		return string(gen.Bytes(f.r, f.r.Intn(24)))
	}
}

func (f *filler) integer(bits int) int64 {
	if f.mode == 0 {
		return 0
	}
	if f.mode == 1 {
		return 1
	}
	lo, hi := -int64(1)<<(bits-1), int64(1)<<(bits-1)-1
	switch f.r.Intn(8) {
	case 0:
		return lo
	case 1:
		return hi
	case 2:
		return -1
	case 3:
		return 0
	case 4:
		return int64(f.r.Intn(300)) - 150
	default:
		return (f.r.Int63() - f.r.Int63()) >> uint(64-bits)
	}
}

func (f *filler) records() []protocol.Record {
	n := 1 + f.r.Intn(2)
	if f.nrec > 0 {
		n = f.nrec
	}
	recs := make([]protocol.Record, n)
	for i := range recs {
		k, v := gen.Bytes(f.r, f.r.Intn(5)), gen.Bytes(f.r, f.r.Intn(12))
		if f.nrec > 0 {
			k, v = []byte{'k', byte('0' + i)}, []byte{'v', 'a', 'l', byte('0' + i)}
		}
		recs[i] = protocol.Record{Offset: int64(i), Time: time.Unix(1600000000+int64(i), 0).UTC(), Key: protocol.NewBytes(k), Value: protocol.NewBytes(v)}
		if f.nrec > 0 && i == 0 {
			recs[i].Headers = []protocol.Header{{Key: "h", Value: []byte{1, 2}}}
		}
	}
	return recs
}

func cloneRecs(recs []protocol.Record) []protocol.Record {
	out := make([]protocol.Record, len(recs))
	for i, r := range recs {
		out[i] = r
		if r.Key != nil {
			b, _ := protocol.ReadAll(r.Key)
			out[i].Key, recs[i].Key = protocol.NewBytes(b), protocol.NewBytes(b)
		}
		if r.Value != nil {
			b, _ := protocol.ReadAll(r.Value)
			out[i].Value, recs[i].Value = protocol.NewBytes(b), protocol.NewBytes(b)
		}
	}
	return out
}

func (f *filler) fill(v reflect.Value, depth int) {
	t := v.Type()
	switch {
	case t == recordSetType:
		if f.mode == 0 {
			return
		}
		ver := int8(2)
		if f.r.Intn(2) == 0 {
			ver = 1
		}
		if f.forceRS != 0 {
			ver = f.forceRS
		}
		recs := f.records()
		if ver < 2 { // message formats 0 / 1 have no record headers
			for i := range recs {
				recs[i].Headers = nil
			}
		}
		payload, err := msgs.RecordPayload(ver, cloneRecs(recs))
		if err != nil {
			return
		}
		rr := protocol.NewRecordReader(recs...)
		f.payloads[rr] = payload
		v.Set(reflect.ValueOf(protocol.RecordSet{Version: ver, Records: rr}))
		return
	case t == rawRecordSetType:
		if f.mode == 0 {
			return
		}
		payload, err := msgs.RecordPayload(2, f.records())
		if err != nil {
			return
		}
		raw := make([]byte, 4+len(payload))
		raw[0], raw[1], raw[2], raw[3] = byte(len(payload)>>24), byte(len(payload)>>16), byte(len(payload)>>8), byte(len(payload))
		copy(raw[4:], payload)
		rd := bytes.NewReader(raw)
		f.payloads[rd] = payload
		v.Set(reflect.ValueOf(protocol.RawRecordSet{Reader: rd}))
		return
	}
	switch t.Kind() {
	case reflect.Bool:
		v.SetBool(f.mode == 1 || (f.mode >= 2 && f.r.Intn(2) == 0))
	case reflect.Int8:
		v.SetInt(f.integer(8))
	case reflect.Int16:
		v.SetInt(f.integer(16))
	case reflect.Int32:
		v.SetInt(f.integer(32))
	case reflect.Int64:
		v.SetInt(f.integer(64))
	case reflect.Float64:
		vals := []float64{0, 1.5, -2.25, math.Inf(1), math.Inf(-1), math.MaxFloat64, math.SmallestNonzeroFloat64, math.Copysign(0, -1)}
		if f.mode == 0 {
			v.SetFloat(0)
		} else {
			v.SetFloat(vals[f.r.Intn(len(vals))])
		}
	case reflect.String:
		v.SetString(f.str())
	case reflect.Slice:
		if f.mode == 0 {
			return
		}
		if t.Elem().Kind() == reflect.Uint8 {
			switch {
			case f.bigBytes > 0:
				b := make([]byte, f.bigBytes)
				for i := range b {
					b[i] = byte(i*31 + i>>8)
				}
				f.bigBytes = 0
				v.SetBytes(b)
			case f.mode == 1:
				v.SetBytes([]byte{1, 2, 3})
			case f.r.Intn(5) == 0:
			case f.r.Intn(5) == 0:
				v.SetBytes([]byte{})
			default:
				v.SetBytes(gen.Bytes(f.r, f.r.Intn(40)))
			}
			return
		}
		n := 1
		if f.bigN > 0 {
			n, f.bigN = f.bigN, 0
		} else if f.mode >= 2 {
			switch f.r.Intn(6) {
			case 0:
				return // nil
			case 1:
				n = 0
			default:
				n = 1 + f.r.Intn(3)
				if depth > 2 {
					n = 1
				}
			}
		}
		s := reflect.MakeSlice(t, n, n)
		for i := 0; i < n; i++ {
			f.fill(s.Index(i), depth+1)
		}
		v.Set(s)
	case reflect.Struct:
		for i := 0; i < t.NumField(); i++ {
			if t.Field(i).PkgPath != "" {
				continue
			}
			f.fill(v.Field(i), depth)
		}
	}
}

func versions(m msgs.Msg) (int16, int16) {
	k := protocol.ApiKey(m.ApiKey)
	return k.MinVersion(), k.MaxVersion()
}

func encodeReal(m msgs.Msg, ver int16, corr int32, cid string, msg protocol.Message) ([]byte, error) {
	buf := &bytes.Buffer{}
	var err error
	if m.IsRequest {
		err = protocol.WriteRequest(buf, ver, corr, cid, msg)
	} else {
		err = protocol.WriteResponse(buf, ver, corr, msg)
	}
	return buf.Bytes(), err
}

// decodeReal runs ReadRequest / ReadResponse on a frame and renders the result.
// The public functions take an io.Reader: the frame is decoded through every reader kind — a bufio.Reader (what Conn / Transport
// use; it has Discard), a bytes.Reader and a plain io.Reader (no Discard method: decoder.discard falls back to copying) — and the
// results must be the same.
func decodeReal(m msgs.Msg, ver int16, frame []byte) string {
	a := decodeVia(m, ver, bufio.NewReader(bytes.NewReader(frame)))
	b := decodeVia(m, ver, bytes.NewReader(frame))
	c := decodeVia(m, ver, struct{ io.Reader }{bytes.NewReader(frame)})
	if a != b || a != c {
		cut := func(s string) string {
			if len(s) > 300 {
				return s[:300] + "…"
			}
			return s
		}
		return "reader-kinds-differ bufio.Reader=[" + cut(a) + "] bytes.Reader=[" + cut(b) + "] io.Reader=[" + cut(c) + "]"
	}
	return a
}

func decodeVia(m msgs.Msg, ver int16, r io.Reader) (out string) {
	defer func() {
		if e := recover(); e != nil {
			out = "panic"
		}
	}()
	if m.IsRequest {
		_, corr, cid, msg, err := protocol.ReadRequest(r)
		if err != nil || msg == nil {
			return "err"
		}
		return fmt.Sprintf("%d %s %s", corr, gen.Hex([]byte(cid)), msgs.Text(reflect.ValueOf(msg).Elem(), nil))
	}
	corr, msg, err := protocol.ReadResponse(r, protocol.ApiKey(m.ApiKey), ver)
	if err != nil || msg == nil {
		return "err"
	}
	return fmt.Sprintf("%d %s", corr, msgs.Text(reflect.ValueOf(msg).Elem(), nil))
}

// applySite walks v in declaration order (through the first element of every slice) and, at the idx-th
// slice / []byte / string site, applies a variant: 0 = nil slice / nil []byte / empty string,
// 1 = empty but non-nil slice / []byte.  It reports whether the site exists and the variant applies.
func applySite(v reflect.Value, idx *int, variant int) (found, applied bool) {
	t := v.Type()
	if t == recordSetType || t == rawRecordSetType {
		return false, false
	}
	switch t.Kind() {
	case reflect.String:
		if *idx == 0 {
			if variant == 0 {
				v.SetString("")
				return true, true
			}
			return true, false
		}
		*idx--
	case reflect.Slice:
		if *idx == 0 {
			if variant == 0 {
				v.Set(reflect.Zero(t))
			} else {
				v.Set(reflect.MakeSlice(t, 0, 0))
			}
			return true, true
		}
		*idx--
		if t.Elem().Kind() != reflect.Uint8 && v.Len() > 0 {
			return applySite(v.Index(0), idx, variant)
		}
	case reflect.Struct:
		for i := 0; i < t.NumField(); i++ {
			if t.Field(i).PkgPath != "" {
				continue
			}
			if f, a := applySite(v.Field(i), idx, variant); f {
				return f, a
			}
		}
	}
	return false, false
}

func generate() {
	r := gen.New()
	w := bufio.NewWriter(os.Stdout)
	defer w.Flush()
	perVersion := 5
	if gen.Thorough() {
		perVersion = 40
	}
	for i, m := range msgs.All {
		lo, hi := versions(m)
		for ver := lo; ver <= hi; ver++ {
			for k := 0; k < perVersion; k++ {
				f := &filler{r: r, payloads: msgs.Payloads{}, version: ver, mode: 2}
				switch {
				case k < 2:
					f.mode = k
				case gen.Thorough() && k%8 == 7:
					f.mode = 3
				}
				msg := m.New()
				f.fill(reflect.ValueOf(msg).Elem(), 0)
				emitCase(w, i, m, ver, f, msg, k > 0)
			}
			// systematically: every slice / []byte / string field nil, empty-but-non-nil (and non-empty: the
			// small full value above), one site at a time on the small full value
			for site := 0; ; site++ {
				exists := false
				for variant := 0; variant < 2; variant++ {
					f := &filler{r: r, payloads: msgs.Payloads{}, version: ver, mode: 1}
					msg := m.New()
					f.fill(reflect.ValueOf(msg).Elem(), 0)
					idx := site
					found, applied := applySite(reflect.ValueOf(msg).Elem(), &idx, variant)
					exists = exists || found
					if applied {
						emitCase(w, i, m, ver, f, msg, true)
					}
				}
				if !exists {
					break
				}
			}
		}
	}
	generateBig(w, r)
	generatePaged(w, r)
	generateMarshal(w, r)
	generateLegacyRead(w, r)
}

// generateBig: values whose arrays / byte sequences are longer than the decoder's first allocation (decodeElems: 1024 elements,
// read: 64 KiB), with counts that are NOT chunk·2^k: the buffer is regrown while the value arrives and must end with exactly
// the announced number of elements / bytes (Props/C04 array_decodes_to_announced_length, bytes_decode_to_announced_length).
func generateBig(w *bufio.Writer, r *rand.Rand) {
	counts := []int{1025 + r.Intn(1000)} // not 1024·2^k
	sizes := []int{65537 + r.Intn(5000)}
	arrays := map[int]bool{3: true, 30: true} // Metadata, CreateAcls (flexible in its last versions)
	blobs := map[int]bool{14: true}           // SyncGroup (compact bytes from v4)
	if gen.Thorough() {
		counts = append(counts, 1024, 1025, 2048, 2049, 3000)
		sizes = append(sizes, 65536, 131073, 200001)
		arrays[42], blobs[36] = true, true // DeleteGroups, SaslAuthenticate
	}
	for i, m := range msgs.All {
		if m.Override || !(arrays[m.ApiKey] || blobs[m.ApiKey]) {
			continue
		}
		lo, hi := versions(m)
		for _, ver := range []int16{lo, hi} {
			if arrays[m.ApiKey] {
				for _, n := range counts {
					f := &filler{r: r, payloads: msgs.Payloads{}, version: ver, mode: 1, bigN: n}
					msg := m.New()
					f.fill(reflect.ValueOf(msg).Elem(), 0)
					if f.bigN == 0 { // the message has an array
						emitCase(w, i, m, ver, f, msg, false)
					}
				}
			}
			if blobs[m.ApiKey] {
				for _, n := range sizes {
					f := &filler{r: r, payloads: msgs.Payloads{}, version: ver, mode: 1, bigBytes: n}
					msg := m.New()
					f.fill(reflect.ValueOf(msg).Elem(), 0)
					if f.bigBytes == 0 {
						emitCase(w, i, m, ver, f, msg, false)
					}
				}
			}
			if lo == hi {
				break
			}
		}
	}
}

func emitCase(w *bufio.Writer, i int, m msgs.Msg, ver int16, f *filler, msg protocol.Message, withClientID bool) {
	corr := int32(f.integer(32))
	cid := ""
	if withClientID {
		cid = f.str()
		if len(cid) > 200 {
			cid = cid[:200]
		}
	}
	text := msgs.Text(reflect.ValueOf(msg).Elem(), f.payloads)
	args := fmt.Sprintf("%d %d %d %s %s", i, ver, corr, gen.Hex([]byte(cid)), text)
	frame, err := encodeReal(m, ver, corr, cid, msg)
	if err != nil {
		fmt.Fprintf(w, "enc %s\terr\n", args)
		return
	}
	fmt.Fprintf(w, "enc %s\t%s\n", args, hex.EncodeToString(frame))
	// the reference frame for the same value is requested from the oracle and decoded in a second pass
	fmt.Fprintf(w, "spec %s\t-\n", args)
	if m.IsRequest && m.Override {
		return // ReadRequest selects the type by api key: the override type is never decoded
	}
	fmt.Fprintf(w, "dec %d %d %s\t%s\n", i, ver, hex.EncodeToString(frame), decodeReal(m, ver, frame))
}

func readCases(path string) [][3]string {
	f, err := os.Open(path)
	if err != nil {
		fmt.Fprintln(os.Stderr, err)
		os.Exit(2)
	}
	defer f.Close()
	var out [][3]string
	sc := bufio.NewScanner(f)
	sc.Buffer(make([]byte, 1<<20), 1<<28)
	for sc.Scan() {
		p := strings.Fields(sc.Text())
		if len(p) == 3 {
			out = append(out, [3]string{p[0], p[1], p[2]})
		}
	}
	return out
}

func caseOf(c [3]string) (msgs.Msg, int16, []byte, bool) {
	i, e1 := strconv.Atoi(c[0])
	v, e2 := strconv.Atoi(c[1])
	b, e3 := hex.DecodeString(c[2])
	if c[2] == "-" {
		b, e3 = nil, nil
	}
	if e1 != nil || e2 != nil || e3 != nil || i < 0 || i >= len(msgs.All) {
		return msgs.Msg{}, 0, nil, false
	}
	return msgs.All[i], int16(v), b, true
}

func decodeFile(path string) {
	w := bufio.NewWriter(os.Stdout)
	defer w.Flush()
	for _, c := range readCases(path) {
		m, ver, frame, ok := caseOf(c)
		if !ok {
			continue
		}
		fmt.Fprintf(w, "dec %s %s %s\t%s\n", c[0], c[1], c[2], decodeReal(m, ver, frame))
	}
}

// ---- C20: decoding malformed frames in a child process

// child decodes the cases given on stdin; prints `<index> ok|err [allocated bytes]` for each. A Go panic is
// caught and reported; an out-of-memory death or a hang kills the process (the parent sees it).
func child() {
	debug.SetGCPercent(50)
	sc := bufio.NewScanner(os.Stdin)
	sc.Buffer(make([]byte, 1<<20), 1<<28)
	w := bufio.NewWriter(os.Stdout)
	for n := 0; sc.Scan(); n++ {
		p := strings.Fields(sc.Text())
		if len(p) != 3 {
			continue
		}
		var m msgs.Msg
		var ver int16
		var frame []byte
		ok := false
		if p[0] == "sasl" {
			frame, _ = hex.DecodeString(p[2])
			ok = true
		} else if strings.HasPrefix(p[0], "P") {
			m, ver, _, ok = caseOf([3]string{p[0][1:], p[1], "-"})
		} else {
			m, ver, frame, ok = caseOf([3]string{p[0], p[1], p[2]})
		}
		if !ok {
			continue
		}
		fmt.Fprintf(w, "start %d\n", n)
		w.Flush()
		var before, after runtime.MemStats
		runtime.ReadMemStats(&before)
		out := ""
		if p[0] == "sasl" {
			out = saslRaw(frame)
		} else if strings.HasPrefix(p[0], "P") {
			out = decodePipelined(m, ver, p[2])
		} else {
			// malformed frames: through the reader kind Conn / Transport use (the model's `discardAll` is bufio's Discard; with a
			// reader that has no Discard method a frame cut after its last field is accepted — docs/notes/C20.md, observation)
			out = decodeVia(m, ver, bufio.NewReader(bytes.NewReader(frame)))
		}
		runtime.ReadMemStats(&after)
		if out != "err" && out != "panic" && !strings.Contains(out, ",") {
			out = "ok"
		}
		fmt.Fprintf(w, "done %d %s %d\n", n, out, after.TotalAlloc-before.TotalAlloc)
		w.Flush()
	}
}

// syncBuffer is a bytes.Buffer that can be polled while the child writes to it.
type syncBuffer struct {
	mu sync.Mutex
	b  bytes.Buffer
}

func (s *syncBuffer) Write(p []byte) (int, error) {
	s.mu.Lock()
	defer s.mu.Unlock()
	return s.b.Write(p)
}
func (s *syncBuffer) Len() int       { s.mu.Lock(); defer s.mu.Unlock(); return s.b.Len() }
func (s *syncBuffer) String() string { s.mu.Lock(); defer s.mu.Unlock(); return s.b.String() }

// decodePipelined decodes TWO response frames arriving back to back on one connection ("hex1.hex2") with the
// same bufio.Reader: "<o1>,<o2>".  o2 is ok only when the second frame decodes without error to ITS correlation
// id - i.e. when decoding the first frame consumed exactly one frame.
func decodePipelined(m msgs.Msg, ver int16, arg string) (out string) {
	o1, o2 := "err", "-"
	defer func() {
		if e := recover(); e != nil {
			if o2 == "-" {
				out = "panic,-"
			} else {
				out = o1 + ",panic"
			}
		}
	}()
	parts := strings.SplitN(arg, ".", 2)
	if len(parts) != 2 {
		return "err,-"
	}
	b1, _ := hex.DecodeString(parts[0])
	b2, _ := hex.DecodeString(parts[1])
	r := bufio.NewReader(bytes.NewReader(append(append([]byte(nil), b1...), b2...)))
	_, msg, err := protocol.ReadResponse(r, protocol.ApiKey(m.ApiKey), ver)
	if err != nil || msg == nil {
		return "err,-"
	}
	o1, o2 = "ok", "err"
	want := int32(-1)
	if len(b2) >= 8 {
		want = int32(uint32(b2[4])<<24 | uint32(b2[5])<<16 | uint32(b2[6])<<8 | uint32(b2[7]))
	}
	corr, msg2, err := protocol.ReadResponse(r, protocol.ApiKey(m.ApiKey), ver)
	if err == nil && msg2 != nil && corr == want {
		o2 = "ok"
	}
	return o1 + "," + o2
}

// saslRaw runs the un-framed SASL token exchange of protocol/saslauthenticate (taken by protocol.Conn.RoundTrip when
// the broker's SaslHandshake version is 0) against a peer that answers with the given bytes.
func saslRaw(resp []byte) (out string) {
	defer func() {
		if e := recover(); e != nil {
			out = "panic"
		}
	}()
	rw := struct {
		io.Reader
		io.Writer
	}{bytes.NewReader(resp), io.Discard}
	if _, err := (&saslauthenticate.Request{AuthBytes: []byte("x")}).RawExchange(rw); err != nil {
		return "err"
	}
	return "ok"
}

// malFile runs the cases in child processes: a child that dies takes only the case it was working on with it.
func malFile(path string) {
	cases := readCases(path)
	w := bufio.NewWriter(os.Stdout)
	defer w.Flush()
	self, _ := os.Executable()
	memLimitKB := 1 << 20 // 1 GiB of address space beyond what the runtime reserves is plenty for every honest decode
	all := cases
	crashes := 0
	const chunk = 4000
	base := 0
	for base < len(all) {
		end := base + chunk
		if end > len(all) {
			end = len(all)
		}
		cases := all[base:end]
		base = end
		next := 0
		for next < len(cases) {
			var in bytes.Buffer
			for _, c := range cases[next:] {
				fmt.Fprintf(&in, "%s %s %s\n", c[0], c[1], c[2])
			}
			cmd := exec.Command("sh", "-c", fmt.Sprintf("ulimit -v %d; exec %q -child", 4*memLimitKB, self))
			cmd.Env = append(os.Environ(), "GOMEMLIMIT=512MiB", "GOTRACEBACK=none")
			cmd.Stdin = &in
			var stdout syncBuffer
			var stderr bytes.Buffer
			cmd.Stdout, cmd.Stderr = &stdout, &stderr
			done := make(chan error, 1)
			if err := cmd.Start(); err != nil {
				fmt.Fprintln(os.Stderr, "cannot start child:", err)
				os.Exit(2)
			}
			go func() { done <- cmd.Wait() }()
			// budget: 20 s per batch of progress; a child that stops making progress is killed
			// watchdog on PROGRESS: the child is killed only when no case finished for 5 s (a loaded machine
			// must not turn a slow batch into a verdict)
			timedOut := false
			last, lastChange := -1, time.Now()
		wait:
			for {
				select {
				case <-done:
					break wait
				case <-time.After(200 * time.Millisecond):
					if n := stdout.Len(); n != last {
						last, lastChange = n, time.Now()
					} else if time.Since(lastChange) > 5*time.Second {
						timedOut = true
						cmd.Process.Kill()
						<-done
						break wait
					}
				}
			}
			started, finished := -1, -1
			for _, line := range strings.Split(stdout.String(), "\n") {
				p := strings.Fields(line)
				if len(p) >= 2 && p[0] == "start" {
					started, _ = strconv.Atoi(p[1])
				}
				if len(p) >= 4 && p[0] == "done" {
					k, _ := strconv.Atoi(p[1])
					finished = k
					c := cases[next+k]
					alloc, _ := strconv.ParseInt(p[3], 10, 64)
					out := p[2]
					// the allocation bound of C20: c·(frame bytes) + k with c = 256 (largest Go element per wire byte), k = 1 MiB (page buffers of record sets)
					if frameLen := int64(len(c[2]) / 2); alloc > 256*frameLen+(1<<20) {
						out = "oom" // ballooned without dying
					}
					fmt.Fprintf(w, "mal %s %s %s\t%s\n", c[0], c[1], c[2], out)
				}
			}
			if started > finished { // the child died or hung inside case `started`
				c := cases[next+started]
				out := "panic"
				switch {
				case timedOut:
					out = "timeout"
				case strings.Contains(stderr.String(), "out of memory") || strings.Contains(stderr.String(), "cannot allocate"):
					out = "oom"
				}
				fmt.Fprintf(w, "mal %s %s %s\t%s\n", c[0], c[1], c[2], out)
				next += started + 1
				if crashes++; crashes >= 8 {
					// enough failing inputs for a verdict: do not spend the whole budget on a broken decoder
					fmt.Fprintf(os.Stderr, "stopping after %d crashed cases\n", crashes)
					return
				}
				continue
			}
			next += finished + 1
			if finished < 0 {
				break
			}
		}
	}
}

// ---- C20: generator of malformed frames

func put32(b []byte, off int, v uint32) {
	b[off], b[off+1], b[off+2], b[off+3] = byte(v>>24), byte(v>>16), byte(v>>8), byte(v)
}

// malgen prints `<i> <ver> <hex>`: well-formed response frames (encoded by the real code) in which ONE
// position is overwritten as if it were an int32 / int16 / varint length or count field holding
// {-1, min, max, rest+1, orig±1, 0} resp. varints 2^31-1, 2^63, 2^64-1 and an over-long varint.
// Positions that are not length fields get mutated too (the decoder must survive those as well).
func malgen() {
	r := gen.New()
	w := bufio.NewWriter(os.Stdout)
	defer w.Flush()
	emit := func(i int, ver int16, b []byte) { fmt.Fprintf(w, "%d %d %s\n", i, ver, hex.EncodeToString(b)) }
	varints := [][]byte{
		{0xff, 0xff, 0xff, 0xff, 0x07},                                     // 2^31-1
		{0x80, 0x80, 0x80, 0x80, 0x08},                                     // 2^31
		{0x80, 0x80, 0x80, 0x80, 0x80, 0x80, 0x80, 0x80, 0x80, 0x01},       // 2^63
		{0xff, 0xff, 0xff, 0xff, 0xff, 0xff, 0xff, 0xff, 0xff, 0x01},       // 2^64-1
		{0xff, 0xff, 0xff, 0xff, 0xff, 0xff, 0xff, 0xff, 0xff, 0xff, 0xff}, // never terminates within 11 bytes
		{0x00}, {0x01}, {0x02},
	}
	for i, m := range msgs.All {
		if m.IsRequest {
			continue
		}
		lo, hi := versions(m)
		for ver := lo; ver <= hi; ver++ {
			modes := []int{1}
			if gen.Thorough() {
				modes = []int{1, 2}
			}
			for _, mode := range modes {
				f := &filler{r: r, payloads: msgs.Payloads{}, version: ver, mode: mode}
				msg := m.New()
				f.fill(reflect.ValueOf(msg).Elem(), 0)
				frame, err := encodeReal(m, ver, 7, "", msg)
				if err != nil || len(frame) > 4096 {
					continue
				}
				emit(i, ver, frame) // the well-formed frame itself
				// quick: the first body offsets (where the top-level counts live) + a random sample; thorough: all
				var offs []int
				if gen.Thorough() {
					for off := 0; off < len(frame); off++ {
						offs = append(offs, off)
					}
				} else {
					offs = append(offs, 0)
					for k := 0; k < 4 && len(frame) > 14; k++ {
						offs = append(offs, 14+r.Intn(len(frame)-14))
					}
				}
				for _, off := range offs {
					if off+4 <= len(frame) {
						orig := uint32(frame[off])<<24 | uint32(frame[off+1])<<16 | uint32(frame[off+2])<<8 | uint32(frame[off+3])
						rest := uint32(len(frame) - off - 4)
						vals := []uint32{0xffffffff, 0x80000000, 0x7fffffff, rest + 1, orig + 1, orig - 1, 0, 0xfffffffe}
						if !gen.Thorough() {
							vals = vals[:4]
						}
						for _, v := range vals {
							if v == orig {
								continue
							}
							b := append([]byte(nil), frame...)
							put32(b, off, v)
							emit(i, ver, b)
						}
					}
					if off+2 <= len(frame) && off >= 8 {
						v16 := []uint16{0xffff, 0x7fff, 0x8000, uint16(len(frame)-off-2) + 1}
						if !gen.Thorough() {
							v16 = v16[:2]
						}
						for _, v := range v16 {
							b := append([]byte(nil), frame...)
							b[off], b[off+1] = byte(v>>8), byte(v)
							emit(i, ver, b)
						}
					}
					if off >= 8 {
						vs := varints
						if !gen.Thorough() {
							vs = varints[:5]
						}
						for _, vi := range vs {
							// replace one byte by a varint (the frame grows; its size prefix is kept consistent so
							// that exactly one field lies)
							b := append(append(append([]byte(nil), frame[:off]...), vi...), frame[off+1:]...)
							put32(b, 0, uint32(len(b)-4))
							emit(i, ver, b)
						}
					}
				}
				// truncated announcements: a huge frame size with the body cut short
				b := append([]byte(nil), frame...)
				put32(b, 0, 0x7fffffff)
				emit(i, ver, b)
			}
		}
	}
}

func hasRecordSet(t reflect.Type) bool {
	switch {
	case t == recordSetType || t == rawRecordSetType:
		return true
	case t.Kind() == reflect.Slice:
		return hasRecordSet(t.Elem())
	case t.Kind() == reflect.Struct:
		for i := 0; i < t.NumField(); i++ {
			if hasRecordSet(t.Field(i).Type) {
				return true
			}
		}
	}
	return false
}

// malframes prints well-formed response frames `<i> <ver> <hex>` (small full value; for types holding a
// RecordSet one frame per message-set format, with 3 records, keys and a header) — the C20 generator
// overwrites every length / count field of them (positions come from the oracle's `lens` op).
func malframes() {
	r := gen.New()
	w := bufio.NewWriter(os.Stdout)
	defer w.Flush()
	for i, m := range msgs.All {
		if m.IsRequest {
			continue
		}
		lo, hi := versions(m)
		for ver := lo; ver <= hi; ver++ {
			variants := []int8{0}
			if hasRecordSet(reflect.TypeOf(m.New()).Elem()) {
				variants = []int8{1, 2}
			}
			for _, rsv := range variants {
				f := &filler{r: r, payloads: msgs.Payloads{}, version: ver, mode: 1, forceRS: rsv}
				if rsv != 0 {
					f.nrec = 3
				}
				msg := m.New()
				f.fill(reflect.ValueOf(msg).Elem(), 0)
				frame, err := encodeReal(m, ver, 7, "", msg)
				if err != nil {
					continue
				}
				fmt.Fprintf(w, "%d %d %s\n", i, ver, hex.EncodeToString(frame))
			}
		}
	}
}

func main() {
	malframesF := flag.Bool("malframes", false, "print well-formed response frames (C20)")
	malgenF := flag.Bool("malgen", false, "print malformed response frames (C20)")
	decF := flag.String("dec", "", "file of `<i> <ver> <hex>` frames to decode with the real code")
	malF := flag.String("mal", "", "file of `<i> <ver> <hex>` malformed frames to decode in child processes")
	childF := flag.Bool("child", false, "internal")
	flag.Parse()
	switch {
	case *malframesF:
		malframes()
	case *malgenF:
		malgen()
	case *childF:
		child()
	case *decF != "":
		decodeFile(*decF)
	case *malF != "":
		malFile(*malF)
	default:
		generate()
	}
}
