package main

// protocol.Marshal / Unmarshal (C04: "for every message type … decoding an encoded value returns the same value")
// — the group metadata / assignment blobs.  Marshal is a pure function returning a FRESH value: several values are
// encoded back to back and every result is rendered only AFTER the last call (an aliased pool buffer shows as an
// earlier result taking the bytes of a later one); the same through Client.SyncGroup / Client.JoinGroup, which
// build one request from several Marshal results (captured with a fake RoundTripper).
//
//	marshal <j> <ver> <value…>\t<hex>          j indexes Gen.marshaled / msgs.Marshaled
//	unmarshal <j> <ver> <hex>\t<value…>|err

import (
	"bufio"
	"context"
	"encoding/hex"
	"fmt"
	"math/rand"
	"net"
	"reflect"

	kafka "github.com/segmentio/kafka-go"
	"github.com/segmentio/kafka-go/protocol"
	"github.com/segmentio/kafka-go/protocol/consumer"
	"github.com/segmentio/kafka-go/protocol/joingroup"
	"github.com/segmentio/kafka-go/protocol/syncgroup"

	"kvharness/internal/gen"
	"kvharness/internal/msgs"
)

func unmarshalText(j int, ver int16, b []byte) (out string) {
	defer func() {
		if e := recover(); e != nil {
			out = "panic"
		}
	}()
	v := msgs.Marshaled[j].New()
	if err := protocol.Unmarshal(b, ver, v); err != nil {
		return "err"
	}
	return msgs.Text(reflect.ValueOf(v).Elem(), nil)
}

// unmarshalPublic: kafka.Unmarshal (version -1) / kafka.Version(n).Unmarshal
func unmarshalPublic(j int, ver int16, b []byte) (out string) {
	defer func() {
		if e := recover(); e != nil {
			out = "panic"
		}
	}()
	v := msgs.Marshaled[j].New()
	var err error
	if ver == -1 {
		err = kafka.Unmarshal(b, v)
	} else {
		err = kafka.Version(ver).Unmarshal(b, v)
	}
	if err != nil {
		return "err"
	}
	return msgs.Text(reflect.ValueOf(v).Elem(), nil)
}

type captureRT struct {
	req  protocol.Message
	resp protocol.Message
}

func (c *captureRT) RoundTrip(ctx context.Context, addr net.Addr, req kafka.Request) (kafka.Response, error) {
	c.req = req
	return c.resp, nil
}

func marshalIndex(root string) int {
	for j, m := range msgs.Marshaled {
		if m.Root == root {
			return j
		}
	}
	return -1
}

func generateMarshal(w *bufio.Writer, r *rand.Rand) {
	rounds := 6
	if gen.Thorough() {
		rounds = 60
	}
	for j, mt := range msgs.Marshaled {
		for _, ver := range []int16{-1, 0, 1, 2} {
			for k := 0; k < rounds; k++ {
				n := 2 + r.Intn(3) // values encoded back to back
				vals := make([]interface{}, n)
				texts := make([]string, n)
				outs := make([][]byte, n)
				for i := range vals {
					f := &filler{r: r, payloads: msgs.Payloads{}, version: ver, mode: 1 + (k+i)%2}
					p := mt.New()
					f.fill(reflect.ValueOf(p).Elem(), 0)
					vals[i] = reflect.ValueOf(p).Elem().Interface()
					texts[i] = msgs.Text(reflect.ValueOf(p).Elem(), nil)
				}
				failed := false
				for i := range vals {
					b, err := protocol.Marshal(ver, vals[i])
					if err != nil {
						failed = true
					}
					outs[i] = b
				}
				// every result is looked at only now, after the last Marshal call
				for i := range vals {
					if failed {
						fmt.Fprintf(w, "marshal %d %d %s\terr\n", j, ver, texts[i])
						continue
					}
					fmt.Fprintf(w, "marshal %d %d %s\t%s\n", j, ver, texts[i], gen.Hex(outs[i]))
					fmt.Fprintf(w, "unmarshal %d %d %s\t%s\n", j, ver, gen.Hex(outs[i]), unmarshalText(j, ver, outs[i]))
					if i == 0 {
						// the public wrappers of kafka.go: kafka.Marshal = version -1, kafka.Version(n).Marshal = version n
						pub := func(f func() ([]byte, error)) string {
							b, err := f()
							if err != nil {
								return "err"
							}
							return gen.Hex(b)
						}
						fmt.Fprintf(w, "marshal %d %d %s\t%s\n", j, ver, texts[i], pub(func() ([]byte, error) { return kafka.Version(ver).Marshal(vals[i]) }))
						if ver == -1 {
							fmt.Fprintf(w, "marshal %d %d %s\t%s\n", j, ver, texts[i], pub(func() ([]byte, error) { return kafka.Marshal(vals[i]) }))
						}
						fmt.Fprintf(w, "unmarshal %d %d %s\t%s\n", j, ver, gen.Hex(outs[i]), unmarshalPublic(j, ver, outs[i]))
					}
				}
			}
		}
	}
	// through the Client: one request built from several Marshal results
	ja, js := marshalIndex("Assignment"), marshalIndex("Subscription")
	for k := 0; k < rounds; k++ {
		members := 2 + r.Intn(3)
		if ja >= 0 {
			req := &kafka.SyncGroupRequest{GroupID: "g", GenerationID: 1, MemberID: "m0", ProtocolType: "consumer", ProtocolName: "range"}
			var want []consumer.Assignment
			for i := 0; i < members; i++ {
				topic := fmt.Sprintf("topic-%d-%d", k, i)
				parts := []int{i, i + 1 + r.Intn(5)}
				ud := gen.Bytes(r, r.Intn(6))
				if len(ud) == 0 {
					ud = nil
				}
				req.Assignments = append(req.Assignments, kafka.SyncGroupRequestAssignment{MemberID: fmt.Sprintf("m%d", i),
					Assignment: kafka.GroupProtocolAssignment{AssignedPartitions: map[string][]int{topic: parts}, UserData: ud}})
				want = append(want, consumer.Assignment{Version: consumer.MaxVersionSupported, UserData: ud,
					AssignedPartitions: []consumer.TopicPartition{{Topic: topic, Partitions: []int32{int32(parts[0]), int32(parts[1])}}}})
			}
			blob, _ := protocol.Marshal(consumer.MaxVersionSupported, consumer.Assignment{Version: 1})
			rt := &captureRT{resp: &syncgroup.Response{Assignments: blob}}
			cl := &kafka.Client{Addr: kafka.TCP("broker:9092"), Transport: rt}
			if _, err := cl.SyncGroup(context.Background(), req); err == nil {
				if sg, ok := rt.req.(*syncgroup.Request); ok && len(sg.Assignments) == members {
					for i := range want {
						fmt.Fprintf(w, "marshal %d %d %s\t%s\n", ja, consumer.MaxVersionSupported,
							msgs.Text(reflect.ValueOf(&want[i]).Elem(), nil), hex.EncodeToString(sg.Assignments[i].Assignment))
					}
				} else {
					fmt.Fprintf(w, "marshal %d 1 { 0 N n }\tclient-syncgroup-request-not-captured\n", ja)
				}
			} else {
				fmt.Fprintf(w, "marshal %d 1 { 0 N n }\tclient-syncgroup-failed:%v\n", ja, err)
			}
		}
		if js >= 0 {
			req := &kafka.JoinGroupRequest{GroupID: "g", ProtocolType: "consumer"}
			var want []consumer.Subscription
			for i := 0; i < members; i++ {
				topics := []string{fmt.Sprintf("t-%d-%d", k, i), "shared"}
				ud := gen.Bytes(r, r.Intn(6))
				if len(ud) == 0 {
					ud = nil
				}
				req.Protocols = append(req.Protocols, kafka.GroupProtocol{Name: fmt.Sprintf("p%d", i),
					Metadata: kafka.GroupProtocolSubscription{Topics: topics, UserData: ud, OwnedPartitions: map[string][]int{topics[0]: {i}}}})
				want = append(want, consumer.Subscription{Version: consumer.MaxVersionSupported, Topics: topics, UserData: ud,
					OwnedPartitions: []consumer.TopicPartition{{Topic: topics[0], Partitions: []int32{int32(i)}}}})
			}
			rt := &captureRT{resp: &joingroup.Response{}}
			cl := &kafka.Client{Addr: kafka.TCP("broker:9092"), Transport: rt}
			if _, err := cl.JoinGroup(context.Background(), req); err == nil {
				if jg, ok := rt.req.(*joingroup.Request); ok && len(jg.Protocols) == members {
					for i := range want {
						fmt.Fprintf(w, "marshal %d %d %s\t%s\n", js, consumer.MaxVersionSupported,
							msgs.Text(reflect.ValueOf(&want[i]).Elem(), nil), hex.EncodeToString(jg.Protocols[i].Metadata))
					}
				} else {
					fmt.Fprintf(w, "marshal %d 1 { 0 N n N }\tclient-joingroup-request-not-captured\n", js)
				}
			} else {
				fmt.Fprintf(w, "marshal %d 1 { 0 N n N }\tclient-joingroup-failed:%v\n", js, err)
			}
		}
	}
}
