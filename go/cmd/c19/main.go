// Driver for property C19: offset and metadata queries of /repo against the fake cluster.
// One line per case: "<op> <args…>\t<implementation output>".
//
//	merge <req> <results>                    listoffsets (*Request).Split + (*Response).Merge on scripted part results
//	clientlo <req> <state>                   Client.ListOffsets through a Transport (many topics/partitions/leaders,
//	                                         per-partition errors, unreachable leaders, unknown topics, API versions)
//	seek <cur> <off> <whence> <dc> <first> <last> <listErr>     Conn.Seek over net.Pipe
//	readoffset <kind> <ts> <first> <last> <listErr> <times>     Conn.ReadFirstOffset/ReadLastOffset/ReadOffset/ReadOffsets
//	ofetch / ocommit / meta / coffsets / rparts                 Client.OffsetFetch, OffsetCommit, Metadata, ConsumerOffsets, Conn.ReadPartitions
package main

import (
	"bufio"
	"context"
	"errors"
	"fmt"
	"math/rand"
	"os"
	"sort"
	"strconv"
	"strings"
	"time"

	kafka "github.com/segmentio/kafka-go"
	"github.com/segmentio/kafka-go/protocol"
	"github.com/segmentio/kafka-go/protocol/listoffsets"

	"kvharness/internal/fakecluster"
	"kvharness/internal/gen"
)

var out = bufio.NewWriter(os.Stdout)

func emit(op, impl string) { fmt.Fprintf(out, "%s\t%s\n", op, impl) }

func dash(s string) string {
	if s == "" {
		return "-"
	}
	return s
}

var names = []string{"a", "b", "c", "d", "e", "ab", "ba", "zz", "t1", "t10", "t2"}

func errCode(err error) int {
	if err == nil {
		return 0
	}
	var ke kafka.Error
	if errors.As(err, &ke) {
		return int(ke)
	}
	return 9999
}

// ---------------------------------------------------------------- merge (F level)

type reqPart struct {
	part int32
	ts   int64
}
type reqTopic struct {
	name  string
	parts []reqPart
}

func encReq(ts []reqTopic) string {
	var s []string
	for _, t := range ts {
		var ps []string
		for _, p := range t.parts {
			ps = append(ps, fmt.Sprintf("%d@%d", p.part, p.ts))
		}
		s = append(s, t.name+":"+dash(strings.Join(ps, ".")))
	}
	return dash(strings.Join(s, "|"))
}

func randomReq(r *rand.Rand, maxTopics int) []reqTopic {
	nt := r.Intn(maxTopics + 1)
	var ts []reqTopic
	for i := 0; i < nt; i++ {
		t := reqTopic{name: names[r.Intn(len(names))]} // the same topic may appear twice
		np := r.Intn(4)
		for j := 0; j < np; j++ {
			p := reqPart{part: int32(r.Intn(4))}
			switch r.Intn(4) {
			case 0:
				p.ts = -2
			case 1:
				p.ts = -1
			default:
				p.ts = int64(1000 + r.Intn(50)*100)
			}
			t.parts = append(t.parts, p)
		}
		ts = append(ts, t)
	}
	return ts
}

func toProto(ts []reqTopic) *listoffsets.Request {
	req := &listoffsets.Request{ReplicaID: -1}
	for _, t := range ts {
		rt := listoffsets.RequestTopic{Topic: t.name}
		for _, p := range t.parts {
			rt.Partitions = append(rt.Partitions, listoffsets.RequestPartition{Partition: p.part, CurrentLeaderEpoch: -1, Timestamp: p.ts})
		}
		req.Topics = append(req.Topics, rt)
	}
	return req
}

func canonResponse(res *listoffsets.Response) string {
	var ts []string
	for _, t := range res.Topics {
		ps := append([]listoffsets.ResponsePartition{}, t.Partitions...)
		// Merge sorts by (Partition, Offset) with an unstable sort: canonicalise ties
		sort.Slice(ps, func(i, j int) bool {
			a, b := ps[i], ps[j]
			if a.Partition != b.Partition {
				return a.Partition < b.Partition
			}
			if a.Offset != b.Offset {
				return a.Offset < b.Offset
			}
			if a.Timestamp != b.Timestamp {
				return a.Timestamp < b.Timestamp
			}
			if a.ErrorCode != b.ErrorCode {
				return a.ErrorCode < b.ErrorCode
			}
			return a.LeaderEpoch < b.LeaderEpoch
		})
		// … but report whether the order the implementation produced respects (Partition, Offset)
		sorted := sort.SliceIsSorted(t.Partitions, func(i, j int) bool {
			a, b := t.Partitions[i], t.Partitions[j]
			if a.Partition != b.Partition {
				return a.Partition < b.Partition
			}
			return a.Offset < b.Offset
		})
		var s []string
		for _, p := range ps {
			s = append(s, fmt.Sprintf("%d/%d/%d/%d/%d", p.Partition, p.ErrorCode, p.Timestamp, p.Offset, p.LeaderEpoch))
		}
		flag := ""
		if !sorted {
			flag = "!unsorted"
		}
		ts = append(ts, t.Topic+flag+":"+strings.Join(s, ","))
	}
	return fmt.Sprintf("%d|%s", res.ThrottleTimeMs, dash(strings.Join(ts, "|")))
}

// opSplit: what (*Request).Split puts into each single-partition request: the header fields and the partition's number,
// current leader epoch and timestamp.
//
//	split <replica> <iso> <topic:part@ts@epoch.…|…>  → "replica/iso/topic/part/epoch/ts;…"
func opSplit(r *rand.Rand, n int) {
	for i := 0; i < n; i++ {
		ts := randomReq(r, 4)
		req := toProto(ts)
		req.ReplicaID = int32(r.Intn(3)) - 1
		req.IsolationLevel = int8(r.Intn(2))
		var enc []string
		for ti := range req.Topics {
			var ps []string
			for pi := range req.Topics[ti].Partitions {
				p := &req.Topics[ti].Partitions[pi]
				p.CurrentLeaderEpoch = []int32{-1, 0, 3, 7}[r.Intn(4)]
				ps = append(ps, fmt.Sprintf("%d@%d@%d", p.Partition, p.Timestamp, p.CurrentLeaderEpoch))
			}
			enc = append(enc, req.Topics[ti].Topic+":"+dash(strings.Join(ps, ".")))
		}
		op := fmt.Sprintf("split %d %d %s", req.ReplicaID, req.IsolationLevel, dash(strings.Join(enc, "|")))
		msgs, _, err := req.Split(protocol.Cluster{})
		if err != nil {
			emit(op, "err")
			continue
		}
		var out []string
		for _, m := range msgs {
			sub := m.(*listoffsets.Request)
			for _, t := range sub.Topics {
				for _, p := range t.Partitions {
					out = append(out, fmt.Sprintf("%d/%d/%s/%d/%d/%d", sub.ReplicaID, sub.IsolationLevel, t.Topic, p.Partition, p.CurrentLeaderEpoch, p.Timestamp))
				}
			}
			out[len(out)-1] += ";"
		}
		emit(op, dash(strings.TrimSuffix(strings.Join(out, ""), ";")))
	}
}

func opMerge(r *rand.Rand, n int) {
	for i := 0; i < n; i++ {
		ts := randomReq(r, 4)
		req := toProto(ts)
		msgs, merger, err := req.Split(protocol.Cluster{})
		if err != nil {
			emit("merge "+encReq(ts)+" -", "err split")
			continue
		}
		results := make([]interface{}, len(msgs))
		var enc []string
		failAll := r.Intn(8) == 0
		for j, m := range msgs {
			part := m.(*listoffsets.Request)
			tn, p := part.Topics[0].Topic, part.Topics[0].Partitions[0]
			switch {
			case failAll || r.Intn(5) == 0:
				msg := []string{"dial", "timeout", "eof"}[r.Intn(3)] + strconv.Itoa(j)
				results[j] = errors.New(msg)
				enc = append(enc, "fail:"+msg)
			default:
				rp := listoffsets.ResponsePartition{Partition: p.Partition, Timestamp: -1, Offset: int64(r.Intn(6)), LeaderEpoch: int32(r.Intn(3))}
				if p.Timestamp >= 0 && r.Intn(2) == 0 {
					rp.Timestamp = p.Timestamp + int64(r.Intn(50))
				}
				if r.Intn(6) == 0 {
					rp.ErrorCode, rp.Offset = int16(1+r.Intn(9)), -1
				}
				if r.Intn(25) == 0 { // a broker answering about another partition: timestamp must not be touched
					rp.Partition += 7
				}
				thr := int32(r.Intn(4))
				results[j] = &listoffsets.Response{ThrottleTimeMs: thr, Topics: []listoffsets.ResponseTopic{{Topic: tn, Partitions: []listoffsets.ResponsePartition{rp}}}}
				enc = append(enc, fmt.Sprintf("ok:%d:%s/%d/%d/%d/%d/%d", thr, tn, rp.Partition, rp.ErrorCode, rp.Timestamp, rp.Offset, rp.LeaderEpoch))
			}
		}
		op := "merge " + encReq(ts) + " " + dash(strings.Join(enc, ";"))
		m, err := merger.Merge(msgs, results)
		if err != nil {
			emit(op, "err "+err.Error())
			continue
		}
		if res, ok := m.(*listoffsets.Response); ok && res != nil {
			emit(op, canonResponse(res))
		} else {
			emit(op, "nil")
		}
	}
}

// ---------------------------------------------------------------- Client.ListOffsets against the fake cluster

func opClientListOffsets(seed int64, n int) {
	r := rand.New(rand.NewSource(seed))
	c := fakecluster.New()
	ids, boot := fakecluster.PickBrokers(r, 2, 4)
	nb := len(ids)
	for _, id := range ids {
		b := c.AddBroker(id)
		if r.Intn(2) == 0 {
			lo := int16(1 + r.Intn(5))
			b.Versions = map[protocol.ApiKey]fakecluster.VRange{protocol.ListOffsets: {Min: int16(r.Intn(2)), Max: lo}}
		}
	}
	downID := int32(-1)
	if r.Intn(2) == 0 {
		for _, id := range ids { // never the bootstrap broker
			if id != boot {
				downID = id
			}
		}
		c.Brokers[downID].Down = true
	}
	known := names[:8]
	for _, n := range known {
		t := &fakecluster.Topic{Parts: map[int32]*fakecluster.Part{}}
		for p := int32(0); p < 4; p++ {
			first := int64(r.Intn(50))
			part := &fakecluster.Part{Leader: ids[r.Intn(nb)], First: first, Last: first + int64(r.Intn(100)), Epoch: int32(r.Intn(4))}
			for k, off := 0, first; k < r.Intn(5); k++ {
				part.Times = append(part.Times, fakecluster.TimeIndex{Timestamp: int64(1000 + k*700 + r.Intn(600)), Offset: off})
				off += int64(1 + r.Intn(10))
			}
			if r.Intn(8) == 0 {
				part.ListErr = int16([]int{1, 6, 9, 43, -1}[r.Intn(5)])
			}
			t.Parts[p] = part
		}
		c.Topics[n] = t
	}
	tr := &kafka.Transport{Dial: c.Dial, MetadataTTL: time.Second}
	defer func() { tr.CloseIdleConnections(); c.Close() }()
	cl := &kafka.Client{Addr: kafka.TCP(c.Brokers[boot].Addr()), Transport: tr, Timeout: 5 * time.Second}
	for i := 0; i < n; i++ {
		ts := randomReq(r, 4)
		// Client.ListOffsets takes a map: merge duplicate topic entries
		req := &kafka.ListOffsetsRequest{Topics: map[string][]kafka.OffsetRequest{}}
		var order []string
		for _, t := range ts {
			if _, ok := req.Topics[t.name]; !ok {
				order = append(order, t.name)
				req.Topics[t.name] = []kafka.OffsetRequest{}
			}
			for _, p := range t.parts {
				req.Topics[t.name] = append(req.Topics[t.name], kafka.OffsetRequest{Partition: int(p.part), Timestamp: p.ts})
			}
		}
		sort.Strings(order)
		var mts []reqTopic
		var state []string
		seen := map[string]bool{}
		for _, n := range order {
			t := reqTopic{name: n}
			for _, p := range req.Topics[n] {
				t.parts = append(t.parts, reqPart{int32(p.Partition), p.Timestamp})
				key := fmt.Sprintf("%s/%d", n, p.Partition)
				if seen[key] {
					continue
				}
				seen[key] = true
				ct, ok := c.Topics[n]
				switch {
				case !ok:
					state = append(state, key+"=unknown")
				case ct.Parts[int32(p.Partition)].Leader == downID:
					state = append(state, key+"=down")
				default:
					cp := ct.Parts[int32(p.Partition)]
					var tm []string
					for _, x := range cp.Times {
						tm = append(tm, fmt.Sprintf("%d@%d", x.Timestamp, x.Offset))
					}
					state = append(state, fmt.Sprintf("%s=ok,%d,%d,%d,%s", key, cp.First, cp.Last, cp.ListErr, dash(strings.Join(tm, "+"))))
				}
			}
			mts = append(mts, t)
		}
		op := "clientlo " + encReq(mts) + " " + dash(strings.Join(state, ";"))
		res, err := cl.ListOffsets(context.Background(), req)
		if err != nil {
			emit(op, "err")
			continue
		}
		var recs []string
		for tn, ps := range res.Topics {
			for _, p := range ps {
				var offs []string
				for o, tm := range p.Offsets {
					ms := "z"
					if !tm.IsZero() {
						ms = strconv.FormatInt(tm.UnixNano()/1e6, 10)
					}
					offs = append(offs, fmt.Sprintf("%d@%s", o, ms))
				}
				sort.Strings(offs)
				recs = append(recs, fmt.Sprintf("%s/%d:%d/%d/%d/%s", tn, p.Partition, p.FirstOffset, p.LastOffset, errCode(p.Error), dash(strings.Join(offs, "+"))))
			}
		}
		sort.Strings(recs)
		emit(op, dash(strings.Join(recs, "|")))
	}
}

// ---------------------------------------------------------------- Conn over net.Pipe

func connFor(r *rand.Rand, first, last int64, listErr int16, times []fakecluster.TimeIndex) (*kafka.Conn, *fakecluster.Cluster) {
	c := fakecluster.New()
	c.AddBroker(0)
	c.Topics["t"] = &fakecluster.Topic{Parts: map[int32]*fakecluster.Part{0: {Leader: 0, First: first, Last: last, ListErr: listErr, Times: times}}}
	conn := kafka.NewConn(c.Pipe(0), "t", 0)
	conn.SetDeadline(time.Now().Add(10 * time.Second))
	return conn, c
}

func offsetState(conn *kafka.Conn) string {
	o, w := conn.Offset()
	return fmt.Sprintf("%d,%d", o, w)
}

func opSeek(r *rand.Rand, n int) {
	for i := 0; i < n; i++ {
		first := int64(r.Intn(30))
		last := first + int64(r.Intn(40))
		listErr := int16(0)
		if r.Intn(10) == 0 {
			listErr = int16([]int{1, 3, 6}[r.Intn(3)])
		}
		conn, c := connFor(r, first, last, listErr, nil)
		var cur int64
		switch r.Intn(6) {
		case 0:
			cur = -2 // the initial sentinel: FirstOffset
		case 1:
			cur = -1
		default:
			cur = int64(r.Intn(80))
		}
		if cur != -2 {
			conn.Seek(cur, kafka.SeekAbsolute|kafka.SeekDontCheck)
		}
		whence := r.Intn(4)
		if r.Intn(15) == 0 {
			whence = 4 + r.Intn(3)
		}
		dc := r.Intn(3) == 0
		var off int64
		switch r.Intn(5) {
		case 0:
			off = cur
		case 1:
			off = int64(r.Intn(20)) - 5
		default:
			off = int64(r.Intn(80))
		}
		w := whence
		if dc {
			w |= kafka.SeekDontCheck
		}
		got, err := conn.Seek(off, w)
		var res string
		switch {
		case err == nil:
			res = fmt.Sprintf("ok %d", got)
		case errors.Is(err, kafka.OffsetOutOfRange) && listErr != 1:
			res = "err range"
		case strings.Contains(err.Error(), "whence must be"):
			res = "err whence"
		default:
			res = "err read"
		}
		b := 0
		if dc {
			b = 1
		}
		emit(fmt.Sprintf("seek %d %d %d %d %d %d %d", cur, off, whence, b, first, last, listErr), res+" "+offsetState(conn))
		conn.Close()
		c.Close()
	}
}

func opReadOffset(r *rand.Rand, n int) {
	for i := 0; i < n; i++ {
		first := int64(r.Intn(30))
		last := first + int64(r.Intn(40))
		listErr := int16(0)
		if r.Intn(8) == 0 {
			listErr = int16([]int{3, 6, 9}[r.Intn(3)])
		}
		var times []fakecluster.TimeIndex
		var tm []string
		for k, off := 0, first; k < r.Intn(5); k++ {
			x := fakecluster.TimeIndex{Timestamp: int64(1000 + k*700 + r.Intn(600)), Offset: off}
			times = append(times, x)
			tm = append(tm, fmt.Sprintf("%d@%d", x.Timestamp, x.Offset))
			off += int64(1 + r.Intn(10))
		}
		conn, c := connFor(r, first, last, listErr, times)
		kind := []string{"first", "last", "time", "both"}[r.Intn(4)]
		ts := int64(900 + r.Intn(4000))
		var res string
		switch kind {
		case "first":
			v, err := conn.ReadFirstOffset()
			res = fmt.Sprintf("%d %d", errCode(err), v)
		case "last":
			v, err := conn.ReadLastOffset()
			res = fmt.Sprintf("%d %d", errCode(err), v)
		case "time":
			v, err := conn.ReadOffset(time.Unix(ts/1000, (ts%1000)*1e6))
			res = fmt.Sprintf("%d %d", errCode(err), v)
		case "both":
			f, l, err := conn.ReadOffsets()
			res = fmt.Sprintf("%d %d %d", errCode(err), f, l)
		}
		emit(fmt.Sprintf("readoffset %s %d %d %d %d %s", kind, ts, first, last, listErr, dash(strings.Join(tm, "+"))), res)
		conn.Close()
		c.Close()
	}
}

func main() {
	defer out.Flush()
	r := gen.New()
	nMerge, nClient, nScen, nSeek := 600, 40, 6, 400
	if gen.Thorough() {
		nMerge, nClient, nScen, nSeek = 8000, 120, 40, 4000
	}
	opMerge(r, nMerge)
	opSplit(r, nMerge/3)
	for i := 0; i < nScen; i++ {
		opClientListOffsets(gen.Seed()*100+int64(i), nClient)
	}
	opSeek(r, nSeek)
	opReadOffset(r, nSeek/2)
	opGroupAndMeta(r, nScen+6) // the first six walk OffsetFetch through v0–v5
	opMappingsF(r, nSeek/2)
}
