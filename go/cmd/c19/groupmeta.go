package main

import (
	"context"
	"fmt"
	"math/rand"
	"sort"
	"strconv"
	"strings"
	"time"

	kafka "github.com/segmentio/kafka-go"
	"github.com/segmentio/kafka-go/protocol"

	"kvharness/internal/fakecluster"
)

func i32s(xs []int32) string {
	if len(xs) == 0 {
		return "-"
	}
	s := make([]string, len(xs))
	for i, x := range xs {
		s[i] = strconv.Itoa(int(x))
	}
	return strings.Join(s, ".")
}

func brokerIDs(bs []kafka.Broker) string {
	ids := make([]int32, len(bs))
	for i, b := range bs {
		ids[i] = int32(b.ID)
	}
	return i32s(ids)
}

// encCluster: "<controller>/<id,…>/<name:err:internal:idx=leader=err=repl=isr,…|…>" (topics by name, partitions by index)
func encCluster(c *fakecluster.Cluster) string {
	var bs, ts []string
	for _, id := range c.BrokerIDs() {
		bs = append(bs, strconv.Itoa(int(id)))
	}
	var tn []string
	for n := range c.Topics {
		tn = append(tn, n)
	}
	sort.Strings(tn)
	for _, n := range tn {
		t := c.Topics[n]
		var ids []int
		for id := range t.Parts {
			ids = append(ids, int(id))
		}
		sort.Ints(ids)
		var ps []string
		for _, id := range ids {
			p := t.Parts[int32(id)]
			ps = append(ps, fmt.Sprintf("%d=%d=%d=%s=%s", id, p.Leader, p.Err, i32s(p.Replicas), i32s(p.Isr)))
		}
		in := 0
		if t.Internal {
			in = 1
		}
		ts = append(ts, fmt.Sprintf("%s:%d:%d:%s", n, t.Err, in, dash(strings.Join(ps, ","))))
	}
	return fmt.Sprintf("%d/%s/%s", c.Controller, strings.Join(bs, ","), dash(strings.Join(ts, "|")))
}

func dashAll(topics []string) string {
	if len(topics) == 0 {
		return "all"
	}
	return strings.Join(topics, ",")
}

func opGroupAndMeta(r *rand.Rand, scenarios int) {
	for s := 0; s < scenarios; s++ {
		c := fakecluster.New()
		ids, boot := fakecluster.PickBrokers(r, 1, 4)
		nb := len(ids)
		for _, id := range ids {
			c.AddBroker(id)
		}
		c.Controller = ids[r.Intn(nb)]
		known := names[:6]
		for _, n := range known {
			t := &fakecluster.Topic{Parts: map[int32]*fakecluster.Part{}}
			if r.Intn(10) == 0 {
				t.Internal = true
			}
			for p := int32(0); p < int32(1+r.Intn(4)); p++ {
				l := ids[r.Intn(nb)]
				part := &fakecluster.Part{Leader: l, Replicas: []int32{l}, Isr: []int32{l}}
				if x := ids[r.Intn(nb)]; x != l {
					part.Replicas = append(part.Replicas, x)
					if r.Intn(2) == 0 {
						part.Isr = append(part.Isr, x)
					}
				}
				if r.Intn(12) == 0 {
					part.Err = int16([]int{9, -1}[r.Intn(2)])
				}
				if r.Intn(6) == 0 { // a replica on a broker that is offline: the metadata lists only live brokers
					part.Replicas = append(part.Replicas, 7+int32(r.Intn(2)))
				}
				if r.Intn(10) == 0 { // no leader at the moment / the leader is the offline broker
					part.Leader = []int32{-1, 7}[r.Intn(2)]
					part.Err = 5
				}
				t.Parts[p] = part
			}
			c.Topics[n] = t
		}
		group := "g" + strconv.Itoa(r.Intn(5))
		c.GroupCoord[group] = ids[r.Intn(nb)]
		// committed state and per-partition errors
		c.Committed[group] = map[string]map[int32]fakecluster.Committed{}
		for _, n := range known {
			for p := range c.Topics[n].Parts {
				switch r.Intn(4) {
				case 0, 1, 2:
					if c.Committed[group][n] == nil {
						c.Committed[group][n] = map[int32]fakecluster.Committed{}
					}
					c.Committed[group][n][p] = fakecluster.Committed{Offset: int64(r.Intn(1000)), Metadata: []string{"", "m", "meta1"}[r.Intn(3)]}
					if r.Intn(6) == 0 { // an error on a partition the group has committed (so that the all-topics form lists it)
						if c.CommitErr[n] == nil {
							c.CommitErr[n] = map[int32]int16{}
						}
						c.CommitErr[n][p] = int16([]int{9, 14, 28, -1}[r.Intn(4)])
					}
				}
			}
		}
		if r.Intn(2) == 0 { // one topic whose committed partitions mostly fail: several per-partition errors in one answer
			n := known[r.Intn(len(known))]
			for p := range c.Committed[group][n] {
				if r.Intn(3) != 0 {
					if c.CommitErr[n] == nil {
						c.CommitErr[n] = map[int32]int16{}
					}
					c.CommitErr[n][p] = int16([]int{9, 14, 28, -1}[r.Intn(4)])
				}
			}
		}
		ladder := int16(-1) // the first scenarios walk OffsetFetch / OffsetCommit through every version, with a group-level failure
		if s < 6 {
			ladder = int16(s)
		}
		if ladder >= 0 || r.Intn(2) == 0 { // every API version: each broker advertises its own upper bound for the group / metadata APIs
			for _, id := range ids {
				ofMax := int16(r.Intn(7))
				if ladder >= 0 {
					ofMax = ladder
				}
				c.Brokers[id].Versions = map[protocol.ApiKey]fakecluster.VRange{
					protocol.OffsetFetch:  {Min: 0, Max: ofMax},
					protocol.OffsetCommit: {Min: 0, Max: int16(r.Intn(9))},
					protocol.Metadata:     {Min: 0, Max: int16(1 + r.Intn(9))},
				}
			}
		}
		tr := &kafka.Transport{Dial: c.Dial, MetadataTTL: 5 * time.Second}
		cl := &kafka.Client{Addr: kafka.TCP(c.Brokers[boot].Addr()), Transport: tr, Timeout: 5 * time.Second}
		encState := func() string {
			var st []string
			for n, ps := range c.Committed[group] {
				for p, cm := range ps {
					if c.CommitErr[n][p] == 0 {
						st = append(st, fmt.Sprintf("%s/%d=%d~%s", n, p, cm.Offset, cm.Metadata))
					}
				}
			}
			for n, ps := range c.CommitErr {
				for p, e := range ps {
					if e != 0 {
						st = append(st, fmt.Sprintf("%s/%d=E%d", n, p, e))
					}
				}
			}
			if e := c.GroupErr[group]; e != 0 { // the coordinator fails every OffsetFetch of the group with this code
				st = append(st, fmt.Sprintf("*/0=E%d", e))
			}
			sort.Strings(st)
			return dash(strings.Join(st, ";"))
		}

		for i := 0; i < 12; i++ {
			c.Lock()
			delete(c.GroupErr, group)
			if r.Intn(8) == 0 || (ladder >= 0 && i%4 == 1) { // e.g. COORDINATOR_LOAD_IN_PROGRESS / GROUP_AUTHORIZATION_FAILED
				c.GroupErr[group] = int16([]int{14, 30, -1}[r.Intn(3)])
			}
			c.Unlock()
			// ---- OffsetFetch
			req := &kafka.OffsetFetchRequest{GroupID: group, Topics: map[string][]int{}}
			var enc []string
			for _, n := range known {
				if r.Intn(2) == 0 {
					continue
				}
				var ps []int
				for k := 0; k < 1+r.Intn(4); k++ {
					ps = append(ps, r.Intn(5))
				}
				req.Topics[n] = ps
				x := make([]string, len(ps))
				for j, p := range ps {
					x[j] = strconv.Itoa(p)
				}
				enc = append(enc, n+":"+strings.Join(x, "."))
			}
			c.Lock()
			st := encState()
			c.Unlock()
			form := strings.Join(enc, "|")
			if len(req.Topics) == 0 { // "all topics of the group": a nil map and an empty map are both sent as a null array
				form = "empty"
				if r.Intn(2) == 0 {
					req.Topics, form = nil, "nil"
				}
			}
			{
				mark := c.Mark()
				res, err := cl.OffsetFetch(context.Background(), req)
				ver := int16(-1) // the version the coordinator received: a top-level error code exists from v2 on
				for _, e := range c.Since(mark) {
					if e.ApiKey == protocol.OffsetFetch {
						ver = e.Version
					}
				}
				op := fmt.Sprintf("ofetch %s %s v=%d", st, form, ver)
				if err != nil {
					emit(op, "err")
				} else {
					var tn []string
					for n := range res.Topics {
						tn = append(tn, n)
					}
					sort.Strings(tn)
					var ts []string
					for _, n := range tn {
						var ps []string
						for _, p := range res.Topics[n] {
							ps = append(ps, fmt.Sprintf("%d/%d/%s/%d", p.Partition, p.CommittedOffset, p.Metadata, errCode(p.Error)))
						}
						ts = append(ts, n+":"+strings.Join(ps, ","))
					}
					emit(op, fmt.Sprintf("%d;%s", errCode(res.Error), strings.Join(ts, "|")))
				}
			}

			// ---- OffsetCommit (then the coordinator's state is the observation)
			creq := &kafka.OffsetCommitRequest{GroupID: group, GenerationID: 1, MemberID: "m", Topics: map[string][]kafka.OffsetCommit{}}
			var cenc []string
			for _, n := range append(append([]string{}, known[:3]...), "nosuch") {
				if r.Intn(2) == 0 {
					continue
				}
				var x []string
				used := map[int]bool{}
				for k := 0; k < 1+r.Intn(3); k++ {
					p := r.Intn(4)
					if used[p] {
						continue
					}
					used[p] = true
					oc := kafka.OffsetCommit{Partition: p, Offset: int64(r.Intn(5000)), Metadata: []string{"", "x", "y2"}[r.Intn(3)]}
					creq.Topics[n] = append(creq.Topics[n], oc)
					x = append(x, fmt.Sprintf("%d/%d/%s", oc.Partition, oc.Offset, oc.Metadata))
				}
				if len(x) > 0 {
					cenc = append(cenc, n+":"+strings.Join(x, ","))
				}
			}
			if len(creq.Topics) > 0 {
				c.Lock()
				before := encState()
				c.Unlock()
				res, err := cl.OffsetCommit(context.Background(), creq)
				op := fmt.Sprintf("ocommit %s %s", before, strings.Join(cenc, "|"))
				if err != nil {
					emit(op, "err")
				} else {
					var tn []string
					for n := range res.Topics {
						tn = append(tn, n)
					}
					sort.Strings(tn)
					var ts []string
					for _, n := range tn {
						var ps []string
						for _, p := range res.Topics[n] {
							ps = append(ps, fmt.Sprintf("%d/%d", p.Partition, errCode(p.Error)))
						}
						ts = append(ts, n+":"+strings.Join(ps, ","))
					}
					c.Lock()
					after := encState()
					c.Unlock()
					emit(op, strings.Join(ts, "|")+" "+after)
				}
			}

			// ---- ConsumerOffsets
			tn := known[r.Intn(len(known))]
			c.Lock()
			st = encState()
			np := len(c.Topics[tn].Parts)
			internal := c.Topics[tn].Internal
			c.Unlock()
			if !internal {
				offs, err := cl.ConsumerOffsets(context.Background(), kafka.TopicAndGroup{Topic: tn, GroupId: group})
				op := fmt.Sprintf("coffsets %s %s %d", st, tn, np)
				if err != nil {
					var ps []string
					var ids []int
					for p := range offs {
						ids = append(ids, p)
					}
					sort.Ints(ids)
					for _, p := range ids {
						ps = append(ps, fmt.Sprintf("%d=%d", p, offs[p]))
					}
					emit(op, fmt.Sprintf("err %d %s", errCode(err), dash(strings.Join(ps, ","))))
				} else {
					var ps []string
					var ids []int
					for p := range offs {
						ids = append(ids, p)
					}
					sort.Ints(ids)
					for _, p := range ids {
						ps = append(ps, fmt.Sprintf("%d=%d", p, offs[p]))
					}
					emit(op, dash(strings.Join(ps, ",")))
				}
			}
		}

		// ---- Client.Metadata (all topics and filtered)
		for i := 0; i < 4; i++ {
			var filter []string
			fenc := "nil"
			if i > 0 {
				filter = []string{}
				for k := 0; k < r.Intn(4); k++ {
					filter = append(filter, names[r.Intn(len(names))])
				}
				fenc = dash(strings.Join(filter, ","))
			}
			c.Lock()
			enc := encCluster(c)
			c.Unlock()
			res, err := cl.Metadata(context.Background(), &kafka.MetadataRequest{Topics: filter})
			op := fmt.Sprintf("meta %s %s", fenc, enc)
			if err != nil {
				emit(op, "err")
				continue
			}
			var bs, ts []string
			for _, b := range res.Brokers {
				bs = append(bs, strconv.Itoa(b.ID))
			}
			for _, t := range res.Topics {
				var ps []string
				for _, p := range t.Partitions {
					ps = append(ps, fmt.Sprintf("%d=%d=%d=%s=%s", p.ID, p.Leader.ID, errCode(p.Error), brokerIDs(p.Replicas), brokerIDs(p.Isr)))
				}
				in := 0
				if t.Internal {
					in = 1
				}
				ts = append(ts, fmt.Sprintf("%s:%d:%d:%s", t.Name, errCode(t.Error), in, dash(strings.Join(ps, ","))))
			}
			emit(op, fmt.Sprintf("%d/%s/%s", res.Controller.ID, strings.Join(bs, ","), dash(strings.Join(ts, "|"))))
		}

		// ---- Conn.ReadPartitions (metadata v1 or v6 by negotiation; with and without a connection topic; topic errors)
		for i := 0; i < 5; i++ {
			b := c.Brokers[boot]
			b.Versions = nil
			if i%2 == 1 {
				b.Versions = map[protocol.ApiKey]fakecluster.VRange{protocol.Metadata: {Min: 0, Max: 3}}
			}
			c.Lock()
			for _, n := range known { // a topic-level error now and then
				c.Topics[n].Err = 0
				if r.Intn(7) == 0 {
					c.Topics[n].Err = int16([]int{5, 29, -1}[r.Intn(3)])
				}
			}
			c.Unlock()
			var topics []string
			for k := 0; k < r.Intn(4); k++ { // no topic at all = the connection's topic, or every topic of the cluster (null array on the wire)
				topics = append(topics, known[r.Intn(len(known))])
			}
			connTopic := ""
			if r.Intn(2) == 0 {
				connTopic = known[r.Intn(len(known))]
			}
			c.Lock()
			enc := encCluster(c)
			c.Unlock()
			conn := kafka.NewConn(c.Pipe(boot), connTopic, 0)
			conn.SetDeadline(time.Now().Add(10 * time.Second))
			parts, err := conn.ReadPartitions(topics...)
			op := fmt.Sprintf("rparts %s %s %s", dash(connTopic), dashAll(topics), enc)
			if err != nil {
				emit(op, fmt.Sprintf("err %d", errCode(err)))
			} else {
				var ps []string
				for _, p := range parts {
					ps = append(ps, fmt.Sprintf("%s/%d=%d=%s=%s=%d", p.Topic, p.ID, p.Leader.ID, brokerIDs(p.Replicas), brokerIDs(p.Isr), errCode(p.Error)))
				}
				sort.Strings(ps)
				emit(op, dash(strings.Join(ps, ",")))
			}
			conn.Close()
		}
		c.Lock()
		for _, n := range known {
			c.Topics[n].Err = 0
		}
		c.Unlock()
		tr.CloseIdleConnections()
		c.Close()
	}
}
