package main

// F-level correspondence for the mapping functions of Model/Mappings.lean: a stub RoundTripper hands the client an
// arbitrary protocol response (duplicate topics, unlisted leader ids, error codes anywhere, empty lists) and the
// user-level result is compared with the model applied to the same response.
//
//	fmeta <response>      Client.Metadata            → "<controller>/<brokers>/<topics in response order>"
//	fofetch <response>    Client.OffsetFetch         → "<err>;<topics by name>"
//	focommit <response>   Client.OffsetCommit        → "<topics by name>"
//	fcoffsets <partitions> ConsumerOffsets' last step is covered by fofetch (same mapping) — not repeated

import (
	"context"
	"fmt"
	"math/rand"
	"net"
	"sort"
	"strconv"
	"strings"

	kafka "github.com/segmentio/kafka-go"
	"github.com/segmentio/kafka-go/protocol"
	"github.com/segmentio/kafka-go/protocol/listoffsets"
	"github.com/segmentio/kafka-go/protocol/metadata"
	"github.com/segmentio/kafka-go/protocol/offsetcommit"
	"github.com/segmentio/kafka-go/protocol/offsetfetch"
)

type stubTransport struct {
	res  protocol.Message
	seen *protocol.Message // when set, receives the request the client built
	// byType, when set, answers by the request's API key (calls that make several round trips)
	byType map[protocol.ApiKey]protocol.Message
}

func (s stubTransport) RoundTrip(_ context.Context, _ net.Addr, req kafka.Request) (kafka.Response, error) {
	if s.seen != nil {
		*s.seen = req
	}
	if s.byType != nil {
		if r, ok := s.byType[req.ApiKey()]; ok {
			return r, nil
		}
	}
	return s.res, nil
}

// fConsumerOffsets: Client.ConsumerOffsets on an arbitrary OffsetFetch answer (any number of failing partitions, a
// group-level error, partitions in any order) behind a Metadata answer listing the topic's partitions.
//
//	fcoffsets <group error> <part/offset/error,…>  → as coffsets: "<p=off,…>" | "err <code> <p=off,…>"
func fConsumerOffsets(r *rand.Rand, n int) {
	addr := kafka.TCP("stub:9092")
	for i := 0; i < n; i++ {
		np := 1 + r.Intn(5)
		mt := metadata.ResponseTopic{Name: "t"}
		for p := 0; p < np; p++ {
			mt.Partitions = append(mt.Partitions, metadata.ResponsePartition{PartitionIndex: int32(p)})
		}
		of := &offsetfetch.Response{}
		if r.Intn(8) == 0 {
			of.ErrorCode = int16([]int{14, 30, -1}[r.Intn(3)])
		}
		ot := offsetfetch.ResponseTopic{Name: "t"}
		var enc []string
		for _, p := range r.Perm(np) {
			rp := offsetfetch.ResponsePartition{PartitionIndex: int32(p), CommittedOffset: int64(r.Intn(500))}
			if r.Intn(3) == 0 { // several partitions of one answer may fail
				rp.ErrorCode, rp.CommittedOffset = int16([]int{9, 14, 28, -1}[r.Intn(4)]), -1
			}
			ot.Partitions = append(ot.Partitions, rp)
			enc = append(enc, fmt.Sprintf("%d/%d/%d", rp.PartitionIndex, rp.CommittedOffset, rp.ErrorCode))
		}
		of.Topics = []offsetfetch.ResponseTopic{ot}
		st := stubTransport{byType: map[protocol.ApiKey]protocol.Message{
			protocol.Metadata:    &metadata.Response{Topics: []metadata.ResponseTopic{mt}},
			protocol.OffsetFetch: of,
		}}
		cl := &kafka.Client{Addr: addr, Transport: st}
		offs, err := cl.ConsumerOffsets(context.Background(), kafka.TopicAndGroup{Topic: "t", GroupId: "g"})
		var ps []string
		var ids []int
		for p := range offs {
			ids = append(ids, p)
		}
		sort.Ints(ids)
		for _, p := range ids {
			ps = append(ps, fmt.Sprintf("%d=%d", p, offs[p]))
		}
		res := dash(strings.Join(ps, ","))
		if err != nil {
			res = fmt.Sprintf("err %d %s", errCode(err), res)
		}
		emit(fmt.Sprintf("fcoffsets %d %s", of.ErrorCode, strings.Join(enc, ",")), res)
	}
}

// fRequests: the request side of the mappings — what the client puts on the wire for a user-level request.
//
//	freqofetch <group> <topics|nil|empty>      → "<group>;<NULL | topic:p.p|…>"
//	freqocommit <gen> <member> <inst> <topics> → "<group>;<gen>;<member>;<inst>;<retention ms>;<topic:p/off/meta,…|…>"
//	freqlo <iso> <request>                     → "<replica>;<iso>;<topic:p/epoch/ts,…|…>"
func fRequests(r *rand.Rand, n int) {
	addr := kafka.TCP("stub:9092")
	for i := 0; i < n; i++ {
		var seen protocol.Message
		// OffsetFetch
		ureq := &kafka.OffsetFetchRequest{GroupID: "g" + strconv.Itoa(r.Intn(3))}
		form := "nil"
		if r.Intn(4) != 0 {
			ureq.Topics = map[string][]int{}
			var enc []string
			for _, nme := range names[:4] {
				if r.Intn(2) == 0 {
					continue
				}
				var ps []int
				var x []string
				for k := 0; k < r.Intn(4); k++ {
					ps = append(ps, r.Intn(6))
					x = append(x, strconv.Itoa(ps[k]))
				}
				ureq.Topics[nme] = ps
				enc = append(enc, nme+":"+dash(strings.Join(x, ".")))
			}
			form = strings.Join(enc, "|")
			if len(ureq.Topics) == 0 {
				form = "empty"
			}
		}
		cl := &kafka.Client{Addr: addr, Transport: stubTransport{res: &offsetfetch.Response{}, seen: &seen}}
		if _, err := cl.OffsetFetch(context.Background(), ureq); err == nil {
			pr := seen.(*offsetfetch.Request)
			body := "NULL"
			if pr.Topics != nil {
				ts := append([]offsetfetch.RequestTopic{}, pr.Topics...)
				sort.Slice(ts, func(a, b int) bool { return ts[a].Name < ts[b].Name })
				var enc []string
				for _, t := range ts {
					var x []string
					for _, p := range t.PartitionIndexes {
						x = append(x, strconv.Itoa(int(p)))
					}
					enc = append(enc, t.Name+":"+dash(strings.Join(x, ".")))
				}
				body = dash(strings.Join(enc, "|"))
			}
			emit(fmt.Sprintf("freqofetch %s %s", ureq.GroupID, form), pr.GroupID+";"+body)
		}
		// OffsetCommit
		creq := &kafka.OffsetCommitRequest{GroupID: "g", GenerationID: r.Intn(50), MemberID: "m" + strconv.Itoa(r.Intn(3)), InstanceID: []string{"-", "i1"}[r.Intn(2)], Topics: map[string][]kafka.OffsetCommit{}}
		var cenc []string
		for _, nme := range names[:4] {
			if r.Intn(2) == 0 {
				continue
			}
			var x []string
			for k := 0; k < 1+r.Intn(3); k++ {
				oc := kafka.OffsetCommit{Partition: r.Intn(6), Offset: int64(r.Intn(9000)), Metadata: []string{"-", "x", "y2"}[r.Intn(3)]}
				creq.Topics[nme] = append(creq.Topics[nme], oc)
				x = append(x, fmt.Sprintf("%d/%d/%s", oc.Partition, oc.Offset, oc.Metadata))
			}
			cenc = append(cenc, nme+":"+strings.Join(x, ","))
		}
		cl = &kafka.Client{Addr: addr, Transport: stubTransport{res: &offsetcommit.Response{}, seen: &seen}}
		if _, err := cl.OffsetCommit(context.Background(), creq); err == nil {
			pr := seen.(*offsetcommit.Request)
			ts := append([]offsetcommit.RequestTopic{}, pr.Topics...)
			sort.Slice(ts, func(a, b int) bool { return ts[a].Name < ts[b].Name })
			var enc []string
			for _, t := range ts {
				var x []string
				for _, p := range t.Partitions {
					x = append(x, fmt.Sprintf("%d/%d/%s", p.PartitionIndex, p.CommittedOffset, p.CommittedMetadata))
				}
				enc = append(enc, t.Name+":"+strings.Join(x, ","))
			}
			emit(fmt.Sprintf("freqocommit %d %s %s %s", creq.GenerationID, creq.MemberID, creq.InstanceID, dash(strings.Join(cenc, "|"))),
				fmt.Sprintf("%s;%d;%s;%s;%d;%s", pr.GroupID, pr.GenerationID, pr.MemberID, pr.GroupInstanceID, pr.RetentionTimeMs, dash(strings.Join(enc, "|"))))
		}
		// ListOffsets
		lts := randomReq(r, 3)
		lreq := &kafka.ListOffsetsRequest{Topics: map[string][]kafka.OffsetRequest{}, IsolationLevel: kafka.IsolationLevel(r.Intn(2))}
		var order []string
		for _, t := range lts {
			if _, ok := lreq.Topics[t.name]; !ok {
				order = append(order, t.name)
				lreq.Topics[t.name] = []kafka.OffsetRequest{}
			}
			for _, p := range t.parts {
				lreq.Topics[t.name] = append(lreq.Topics[t.name], kafka.OffsetRequest{Partition: int(p.part), Timestamp: p.ts})
			}
		}
		sort.Strings(order)
		var mts []reqTopic
		for _, nme := range order {
			t := reqTopic{name: nme}
			for _, p := range lreq.Topics[nme] {
				t.parts = append(t.parts, reqPart{int32(p.Partition), p.Timestamp})
			}
			mts = append(mts, t)
		}
		cl = &kafka.Client{Addr: addr, Transport: stubTransport{res: &listoffsets.Response{}, seen: &seen}}
		if _, err := cl.ListOffsets(context.Background(), lreq); err == nil {
			pr := seen.(*listoffsets.Request)
			ts := append([]listoffsets.RequestTopic{}, pr.Topics...)
			sort.Slice(ts, func(a, b int) bool { return ts[a].Topic < ts[b].Topic })
			var enc []string
			for _, t := range ts {
				var x []string
				for _, p := range t.Partitions {
					x = append(x, fmt.Sprintf("%d/%d/%d", p.Partition, p.CurrentLeaderEpoch, p.Timestamp))
				}
				enc = append(enc, t.Topic+":"+dash(strings.Join(x, ",")))
			}
			emit(fmt.Sprintf("freqlo %d %s", int(lreq.IsolationLevel), encReq(mts)), fmt.Sprintf("%d;%d;%s", pr.ReplicaID, pr.IsolationLevel, dash(strings.Join(enc, "|"))))
		}
	}
}

// fListOffsets: Client.ListOffsets on an arbitrary (already merged) protocol response handed over by the stub: entries in any
// order, repeated, with error codes, restored or foreign timestamps — but only for requested (topic, partition)s (an entry for a
// partition that was never requested makes the client write into a nil map; that is outside a well-formed broker's behaviour
// and outside this op).
//
//	flo <request> <response topics>   → records as in clientlo
func fListOffsets(r *rand.Rand, n int) {
	addr := kafka.TCP("stub:9092")
	for i := 0; i < n; i++ {
		ts := randomReq(r, 3)
		req := &kafka.ListOffsetsRequest{Topics: map[string][]kafka.OffsetRequest{}}
		var order []string
		for _, t := range ts {
			if _, ok := req.Topics[t.name]; !ok {
				order = append(order, t.name)
				req.Topics[t.name] = []kafka.OffsetRequest{}
			}
			for _, p := range t.parts {
				req.Topics[t.name] = append(req.Topics[t.name], kafka.OffsetRequest{Partition: int(p.part), Timestamp: p.ts})
			}
		}
		sort.Strings(order)
		var mts []reqTopic
		for _, nme := range order {
			t := reqTopic{name: nme}
			for _, p := range req.Topics[nme] {
				t.parts = append(t.parts, reqPart{int32(p.Partition), p.Timestamp})
			}
			mts = append(mts, t)
		}
		res := &listoffsets.Response{ThrottleTimeMs: int32(r.Intn(3))}
		var enc []string
		for _, t := range mts {
			if len(t.parts) == 0 || r.Intn(5) == 0 {
				continue
			}
			rt := listoffsets.ResponseTopic{Topic: t.name}
			var ps []string
			for k := 0; k < r.Intn(5); k++ {
				q := t.parts[r.Intn(len(t.parts))]
				p := listoffsets.ResponsePartition{Partition: q.part, Timestamp: q.ts, Offset: int64(r.Intn(8)) - 1, LeaderEpoch: -1}
				switch r.Intn(6) {
				case 0:
					p.ErrorCode = int16(1 + r.Intn(8))
				case 1:
					p.Timestamp = []int64{-1, -2, 777}[r.Intn(3)]
				case 2:
					p.ErrorCode, p.Timestamp, p.Offset = -1, -1, -1 // the placeholder of a failed part
				}
				rt.Partitions = append(rt.Partitions, p)
				ps = append(ps, fmt.Sprintf("%d/%d/%d/%d", p.Partition, p.ErrorCode, p.Timestamp, p.Offset))
			}
			res.Topics = append(res.Topics, rt)
			enc = append(enc, t.name+":"+dash(strings.Join(ps, ",")))
		}
		op := "flo " + encReq(mts) + " " + dash(strings.Join(enc, "|"))
		cl := &kafka.Client{Addr: addr, Transport: stubTransport{res: res}}
		out, err := cl.ListOffsets(context.Background(), req)
		if err != nil {
			emit(op, "err")
			continue
		}
		var recs []string
		for tn, ps := range out.Topics {
			for _, p := range ps {
				var offs []string
				for o, tm := range p.Offsets {
					ms := "z"
					if !tm.IsZero() {
						ms = strconv.FormatInt(tm.UnixNano()/1e6, 10)
					}
					offs = append(offs, fmt.Sprintf("%d@%s", o, ms))
				}
				sort.Strings(offs)
				recs = append(recs, fmt.Sprintf("%s/%d:%d/%d/%d/%s", tn, p.Partition, p.FirstOffset, p.LastOffset, errCode(p.Error), dash(strings.Join(offs, "+"))))
			}
		}
		sort.Strings(recs)
		emit(op, dash(strings.Join(recs, "|")))
	}
}

func opMappingsF(r *rand.Rand, n int) {
	fListOffsets(r, n)
	fConsumerOffsets(r, n)
	fRequests(r, n)
	addr := kafka.TCP("stub:9092")
	for i := 0; i < n; i++ {
		// ---- Metadata
		m := &metadata.Response{ControllerID: int32(r.Intn(5)), ClusterID: "x"}
		nb := r.Intn(5)
		for k := 0; k < nb; k++ {
			id := int32(r.Intn(5)) // duplicates allowed
			m.Brokers = append(m.Brokers, metadata.ResponseBroker{NodeID: id, Host: "b" + strconv.Itoa(int(id)), Port: 9092})
		}
		for k := 0; k < r.Intn(4); k++ {
			t := metadata.ResponseTopic{Name: names[r.Intn(5)], IsInternal: r.Intn(6) == 0}
			if r.Intn(4) == 0 {
				t.ErrorCode = int16(r.Intn(40))
			}
			for j := 0; j < r.Intn(4); j++ {
				p := metadata.ResponsePartition{PartitionIndex: int32(r.Intn(4)), LeaderID: int32(r.Intn(6)) - 1}
				if r.Intn(5) == 0 {
					p.ErrorCode = int16(r.Intn(20))
				}
				for q := 0; q < r.Intn(3); q++ {
					p.ReplicaNodes = append(p.ReplicaNodes, int32(r.Intn(6)))
				}
				for q := 0; q < r.Intn(3); q++ {
					p.IsrNodes = append(p.IsrNodes, int32(r.Intn(6)))
				}
				t.Partitions = append(t.Partitions, p)
			}
			m.Topics = append(m.Topics, t)
		}
		var bs, ts []string
		for _, b := range m.Brokers {
			bs = append(bs, strconv.Itoa(int(b.NodeID)))
		}
		for _, t := range m.Topics {
			var ps []string
			for _, p := range t.Partitions {
				ps = append(ps, fmt.Sprintf("%d=%d=%d=%s=%s", p.PartitionIndex, p.LeaderID, p.ErrorCode, i32s(p.ReplicaNodes), i32s(p.IsrNodes)))
			}
			in := 0
			if t.IsInternal {
				in = 1
			}
			ts = append(ts, fmt.Sprintf("%s:%d:%d:%s", t.Name, t.ErrorCode, in, dash(strings.Join(ps, ","))))
		}
		op := fmt.Sprintf("fmeta %d/%s/%s", m.ControllerID, dash(strings.Join(bs, ",")), dash(strings.Join(ts, "|")))
		cl := &kafka.Client{Addr: addr, Transport: stubTransport{res: m}}
		if res, err := cl.Metadata(context.Background(), &kafka.MetadataRequest{}); err != nil {
			emit(op, "err")
		} else {
			var obs, ots []string
			for _, b := range res.Brokers {
				obs = append(obs, strconv.Itoa(b.ID))
			}
			for _, t := range res.Topics {
				var ps []string
				for _, p := range t.Partitions {
					ps = append(ps, fmt.Sprintf("%d=%d=%d=%s=%s", p.ID, p.Leader.ID, errCode(p.Error), brokerIDs(p.Replicas), brokerIDs(p.Isr)))
				}
				in := 0
				if t.Internal {
					in = 1
				}
				ots = append(ots, fmt.Sprintf("%s:%d:%d:%s", t.Name, errCode(t.Error), in, dash(strings.Join(ps, ","))))
			}
			emit(op, fmt.Sprintf("%d/%s/%s", res.Controller.ID, dash(strings.Join(obs, ",")), dash(strings.Join(ots, "|"))))
		}

		// ---- OffsetFetch
		of := &offsetfetch.Response{}
		if r.Intn(6) == 0 {
			of.ErrorCode = int16(r.Intn(30))
		}
		var enc []string
		for k := 0; k < r.Intn(4); k++ {
			t := offsetfetch.ResponseTopic{Name: names[r.Intn(5)]}
			var ps []string
			for j := 0; j < r.Intn(4); j++ {
				p := offsetfetch.ResponsePartition{PartitionIndex: int32(r.Intn(5)), CommittedOffset: int64(r.Intn(1000)) - 1, Metadata: []string{"", "m", "xy"}[r.Intn(3)]}
				if r.Intn(4) == 0 {
					p.ErrorCode = int16(r.Intn(30))
				}
				t.Partitions = append(t.Partitions, p)
				ps = append(ps, fmt.Sprintf("%d/%d/%s/%d", p.PartitionIndex, p.CommittedOffset, p.Metadata, p.ErrorCode))
			}
			of.Topics = append(of.Topics, t)
			enc = append(enc, t.Name+":"+dash(strings.Join(ps, ",")))
		}
		op = fmt.Sprintf("fofetch %d;%s", of.ErrorCode, dash(strings.Join(enc, "|")))
		cl = &kafka.Client{Addr: addr, Transport: stubTransport{res: of}}
		if res, err := cl.OffsetFetch(context.Background(), &kafka.OffsetFetchRequest{GroupID: "g"}); err != nil {
			emit(op, "err")
		} else {
			var tn []string
			for n := range res.Topics {
				tn = append(tn, n)
			}
			sort.Strings(tn)
			var ts []string
			for _, n := range tn {
				var ps []string
				for _, p := range res.Topics[n] {
					ps = append(ps, fmt.Sprintf("%d/%d/%s/%d", p.Partition, p.CommittedOffset, p.Metadata, errCode(p.Error)))
				}
				ts = append(ts, n+":"+dash(strings.Join(ps, ",")))
			}
			emit(op, fmt.Sprintf("%d;%s", errCode(res.Error), dash(strings.Join(ts, "|"))))
		}

		// ---- OffsetCommit
		oc := &offsetcommit.Response{}
		enc = nil
		for k := 0; k < r.Intn(4); k++ {
			t := offsetcommit.ResponseTopic{Name: names[r.Intn(5)]}
			var ps []string
			for j := 0; j < r.Intn(4); j++ {
				p := offsetcommit.ResponsePartition{PartitionIndex: int32(r.Intn(5))}
				if r.Intn(3) == 0 {
					p.ErrorCode = int16(r.Intn(30))
				}
				t.Partitions = append(t.Partitions, p)
				ps = append(ps, fmt.Sprintf("%d/%d", p.PartitionIndex, p.ErrorCode))
			}
			oc.Topics = append(oc.Topics, t)
			enc = append(enc, t.Name+":"+dash(strings.Join(ps, ",")))
		}
		op = "focommit " + dash(strings.Join(enc, "|"))
		cl = &kafka.Client{Addr: addr, Transport: stubTransport{res: oc}}
		if res, err := cl.OffsetCommit(context.Background(), &kafka.OffsetCommitRequest{GroupID: "g", Topics: map[string][]kafka.OffsetCommit{"a": {{Partition: 0, Offset: 1}}}}); err != nil {
			emit(op, "err")
		} else {
			var tn []string
			for n := range res.Topics {
				tn = append(tn, n)
			}
			sort.Strings(tn)
			var ts []string
			for _, n := range tn {
				var ps []string
				for _, p := range res.Topics[n] {
					ps = append(ps, fmt.Sprintf("%d/%d", p.Partition, errCode(p.Error)))
				}
				ts = append(ts, n+":"+dash(strings.Join(ps, ",")))
			}
			emit(op, dash(strings.Join(ts, "|")))
		}
	}
}
