// Driver for property C12: runs the real routing / version-selection code of /repo (built with -tags verif)
// and prints one line per case: "<op> <args…>\t<implementation output>".
//
// F-level ops (pure functions through public methods and verif_export_routing.go):
//
//	selver <key> <bmin> <bmax>          ApiKey.SelectVersion + the library's own range  → "<cmin> <cmax> <v>"
//	layout <meta>                       normalise + makeLayout                           → canonical layout
//	filter <names|nil> <meta>           normalise + filterMetadataResponse               → canonical topic list
//	broker <pkg> <meta> <req>           request.Broker(makeLayout(normalise meta))       → "ok <id>" | "err <kind>" | "panic"
//
// Transport-level op (a kafka.Transport against the fake cluster; the journal is the observation):
//
//	send <pkg> boot=<id> <meta> down=<ids> vt=<tables> coord=<id> <req>  → "b<id>@v<ver>,…" | "err <kind>"
//	follow ttl=<ms>                     leader move → produce reaches the new leader     → "within=<0|1>"
package main

import (
	"bufio"
	"context"
	"errors"
	"fmt"
	"math/rand"
	"os"
	"sort"
	"strconv"
	"strings"
	"time"

	kafka "github.com/segmentio/kafka-go"
	"github.com/segmentio/kafka-go/protocol"
	"github.com/segmentio/kafka-go/protocol/addoffsetstotxn"
	"github.com/segmentio/kafka-go/protocol/addpartitionstotxn"
	"github.com/segmentio/kafka-go/protocol/alterclientquotas"
	"github.com/segmentio/kafka-go/protocol/alterconfigs"
	"github.com/segmentio/kafka-go/protocol/alterpartitionreassignments"
	"github.com/segmentio/kafka-go/protocol/alteruserscramcredentials"
	"github.com/segmentio/kafka-go/protocol/apiversions"
	"github.com/segmentio/kafka-go/protocol/createacls"
	"github.com/segmentio/kafka-go/protocol/createpartitions"
	"github.com/segmentio/kafka-go/protocol/createtopics"
	"github.com/segmentio/kafka-go/protocol/deleteacls"
	"github.com/segmentio/kafka-go/protocol/deletegroups"
	"github.com/segmentio/kafka-go/protocol/deletetopics"
	"github.com/segmentio/kafka-go/protocol/describeacls"
	"github.com/segmentio/kafka-go/protocol/describeclientquotas"
	"github.com/segmentio/kafka-go/protocol/describeconfigs"
	"github.com/segmentio/kafka-go/protocol/describegroups"
	"github.com/segmentio/kafka-go/protocol/describeuserscramcredentials"
	"github.com/segmentio/kafka-go/protocol/electleaders"
	"github.com/segmentio/kafka-go/protocol/endtxn"
	"github.com/segmentio/kafka-go/protocol/fetch"
	"github.com/segmentio/kafka-go/protocol/findcoordinator"
	"github.com/segmentio/kafka-go/protocol/heartbeat"
	"github.com/segmentio/kafka-go/protocol/incrementalalterconfigs"
	"github.com/segmentio/kafka-go/protocol/initproducerid"
	"github.com/segmentio/kafka-go/protocol/joingroup"
	"github.com/segmentio/kafka-go/protocol/leavegroup"
	"github.com/segmentio/kafka-go/protocol/listgroups"
	"github.com/segmentio/kafka-go/protocol/listoffsets"
	"github.com/segmentio/kafka-go/protocol/listpartitionreassignments"
	"github.com/segmentio/kafka-go/protocol/metadata"
	"github.com/segmentio/kafka-go/protocol/offsetcommit"
	"github.com/segmentio/kafka-go/protocol/offsetdelete"
	"github.com/segmentio/kafka-go/protocol/offsetfetch"
	"github.com/segmentio/kafka-go/protocol/produce"
	"github.com/segmentio/kafka-go/protocol/rawproduce"
	"github.com/segmentio/kafka-go/protocol/syncgroup"
	"github.com/segmentio/kafka-go/protocol/txnoffsetcommit"

	"kvharness/internal/fakecluster"
	"kvharness/internal/gen"
)

var out = bufio.NewWriter(os.Stdout)

func emit(op, impl string) { fmt.Fprintf(out, "%s\t%s\n", op, impl) }

// ---------------------------------------------------------------- encodings

func i32s(xs []int32, sep string) string {
	if len(xs) == 0 {
		return "-"
	}
	s := make([]string, len(xs))
	for i, x := range xs {
		s[i] = strconv.Itoa(int(x))
	}
	return strings.Join(s, sep)
}

// encMeta: "<controller>/<id@host@port,…>/<name:err:internal:idx=leader=err=r.r,…|…>"
func encMeta(m *metadata.Response) string {
	var bs, ts []string
	for _, b := range m.Brokers {
		bs = append(bs, fmt.Sprintf("%d@%s@%d", b.NodeID, b.Host, b.Port))
	}
	for _, t := range m.Topics {
		var ps []string
		for _, p := range t.Partitions {
			ps = append(ps, fmt.Sprintf("%d=%d=%d=%s", p.PartitionIndex, p.LeaderID, p.ErrorCode, i32s(p.ReplicaNodes, ".")))
		}
		in := 0
		if t.IsInternal {
			in = 1
		}
		ts = append(ts, fmt.Sprintf("%s:%d:%d:%s", t.Name, t.ErrorCode, in, dash(strings.Join(ps, ","))))
	}
	return fmt.Sprintf("%d/%s/%s", m.ControllerID, dash(strings.Join(bs, ",")), dash(strings.Join(ts, "|")))
}

func dash(s string) string {
	if s == "" {
		return "-"
	}
	return s
}

func cloneMeta(m *metadata.Response) *metadata.Response {
	c := *m
	c.Brokers = append([]metadata.ResponseBroker{}, m.Brokers...)
	c.Topics = make([]metadata.ResponseTopic, len(m.Topics))
	for i, t := range m.Topics {
		c.Topics[i] = t
		c.Topics[i].Partitions = append([]metadata.ResponsePartition{}, t.Partitions...)
	}
	return &c
}

func canonLayout(c protocol.Cluster) string {
	var bs, ts []string
	for _, id := range c.BrokerIDs() {
		b := c.Brokers[id]
		bs = append(bs, fmt.Sprintf("%d>%d@%s@%d", id, b.ID, b.Host, b.Port))
	}
	for _, n := range c.TopicNames() {
		t := c.Topics[n]
		ids := make([]int32, 0, len(t.Partitions))
		for id := range t.Partitions {
			ids = append(ids, id)
		}
		sort.Slice(ids, func(i, j int) bool { return ids[i] < ids[j] })
		var ps []string
		for _, id := range ids {
			p := t.Partitions[id]
			ps = append(ps, fmt.Sprintf("%d>%d=%d=%d=%s", id, p.ID, p.Leader, p.Error, i32s(p.Replicas, ".")))
		}
		ts = append(ts, fmt.Sprintf("%s>%s:%d:%s", n, t.Name, t.Error, dash(strings.Join(ps, ","))))
	}
	return fmt.Sprintf("%d/%s/%s", c.Controller, dash(strings.Join(bs, ",")), dash(strings.Join(ts, "|")))
}

func canonTopics(ts []metadata.ResponseTopic) string {
	var out []string
	for _, t := range ts {
		var ps []string
		for _, p := range t.Partitions {
			ps = append(ps, fmt.Sprintf("%d=%d=%d=%s", p.PartitionIndex, p.LeaderID, p.ErrorCode, i32s(p.ReplicaNodes, ".")))
		}
		in := 0
		if t.IsInternal {
			in = 1
		}
		out = append(out, fmt.Sprintf("%s:%d:%d:%s", t.Name, t.ErrorCode, in, dash(strings.Join(ps, ","))))
	}
	return dash(strings.Join(out, "|"))
}

type tp struct {
	topic string
	parts []int32
}

func encTps(tps []tp) string {
	if len(tps) == 0 {
		return "T-"
	}
	var s []string
	for _, t := range tps {
		s = append(s, t.topic+":"+i32s(t.parts, "."))
	}
	return "T" + strings.Join(s, "|")
}

func errKind(err error) string {
	switch {
	case err == nil:
		return "nil"
	case errors.Is(err, protocol.ErrNoTopic):
		return "notopic"
	case errors.Is(err, protocol.ErrNoPartition):
		return "nopartition"
	case errors.Is(err, protocol.ErrNoLeader):
		return "noleader"
	case strings.Contains(err.Error(), "mismatching leaders"):
		return "mismatch"
	case errors.Is(err, kafka.BrokerNotAvailable):
		return "unavailable"
	case strings.Contains(err.Error(), "unsupported"):
		return "unsupported"
	case errors.Is(err, fakecluster.ErrUnreachable):
		return "dial"
	case strings.Contains(err.Error(), "more than one broker"):
		return "toomany"
	case strings.Contains(err.Error(), "strconv.Atoi"):
		return "badresource"
	}
	return "other:" + strings.ReplaceAll(err.Error(), " ", "_")
}

// ---------------------------------------------------------------- request construction

type reqSpec struct {
	pkg       string
	tps       []tp
	group     string
	groups    []string
	txn       string
	resources [][2]string // type, name
}

func recordsOf() protocol.RecordReader {
	return protocol.NewRecordReader(protocol.Record{Value: protocol.NewBytes([]byte("x"))})
}

func build(s reqSpec) protocol.Message {
	switch s.pkg {
	case "produce":
		r := &produce.Request{Acks: 1}
		for _, t := range s.tps {
			rt := produce.RequestTopic{Topic: t.topic}
			for _, p := range t.parts {
				rt.Partitions = append(rt.Partitions, produce.RequestPartition{Partition: p, RecordSet: protocol.RecordSet{Attributes: 0, Records: recordsOf()}})
			}
			r.Topics = append(r.Topics, rt)
		}
		return r
	case "rawproduce":
		r := &rawproduce.Request{Acks: 1}
		for _, t := range s.tps {
			rt := rawproduce.RequestTopic{Topic: t.topic}
			for _, p := range t.parts {
				rt.Partitions = append(rt.Partitions, rawproduce.RequestPartition{Partition: p, RecordSet: protocol.RawRecordSet{Reader: strings.NewReader("")}})
			}
			r.Topics = append(r.Topics, rt)
		}
		return r
	case "fetch":
		r := &fetch.Request{ReplicaID: -1, MaxBytes: 1000}
		for _, t := range s.tps {
			rt := fetch.RequestTopic{Topic: t.topic}
			for _, p := range t.parts {
				rt.Partitions = append(rt.Partitions, fetch.RequestPartition{Partition: p, PartitionMaxBytes: 100})
			}
			r.Topics = append(r.Topics, rt)
		}
		return r
	case "listoffsets":
		r := &listoffsets.Request{ReplicaID: -1}
		for _, t := range s.tps {
			rt := listoffsets.RequestTopic{Topic: t.topic}
			for _, p := range t.parts {
				rt.Partitions = append(rt.Partitions, listoffsets.RequestPartition{Partition: p, Timestamp: -1, CurrentLeaderEpoch: -1})
			}
			r.Topics = append(r.Topics, rt)
		}
		return r
	case "offsetcommit":
		return &offsetcommit.Request{GroupID: s.group}
	case "offsetfetch":
		return &offsetfetch.Request{GroupID: s.group}
	case "joingroup":
		return &joingroup.Request{GroupID: s.group}
	case "heartbeat":
		return &heartbeat.Request{GroupID: s.group}
	case "leavegroup":
		// the members are named the way v3+ does; below v3 Prepare has to move the first one into MemberID
		return &leavegroup.Request{GroupID: s.group, Members: []leavegroup.RequestMember{{MemberID: s.group + "-a"}, {MemberID: s.group + "-b"}}}
	case "syncgroup":
		return &syncgroup.Request{GroupID: s.group}
	case "offsetdelete":
		return &offsetdelete.Request{GroupID: s.group}
	case "txnoffsetcommit":
		return &txnoffsetcommit.Request{GroupID: s.group, TransactionalID: "tx-" + s.group}
	case "deletegroups":
		return &deletegroups.Request{GroupIDs: s.groups}
	case "describegroups":
		return &describegroups.Request{Groups: s.groups, IncludeAuthorizedOperations: true}
	case "initproducerid":
		return &initproducerid.Request{TransactionalID: s.txn}
	case "addpartitionstotxn":
		return &addpartitionstotxn.Request{TransactionalID: s.txn}
	case "addoffsetstotxn":
		return &addoffsetstotxn.Request{TransactionalID: s.txn}
	case "endtxn":
		return &endtxn.Request{TransactionalID: s.txn}
	case "createtopics":
		return &createtopics.Request{}
	case "deletetopics":
		return &deletetopics.Request{}
	case "createpartitions":
		return &createpartitions.Request{}
	case "electleaders":
		return &electleaders.Request{}
	case "alterpartitionreassignments":
		return &alterpartitionreassignments.Request{}
	case "listpartitionreassignments":
		return &listpartitionreassignments.Request{}
	case "alterconfigs":
		return &alterconfigs.Request{}
	case "createacls":
		return &createacls.Request{}
	case "deleteacls":
		return &deleteacls.Request{}
	case "describeacls":
		return &describeacls.Request{}
	case "describeclientquotas":
		return &describeclientquotas.Request{}
	case "alterclientquotas":
		return &alterclientquotas.Request{}
	case "describeuserscramcredentials":
		return &describeuserscramcredentials.Request{}
	case "alteruserscramcredentials":
		return &alteruserscramcredentials.Request{}
	case "describeconfigs":
		// every top-level option set: the parts Split makes have to carry them
		r := &describeconfigs.Request{IncludeSynonyms: true, IncludeDocumentation: true}
		for _, x := range s.resources {
			t, _ := strconv.Atoi(x[0])
			r.Resources = append(r.Resources, describeconfigs.RequestResource{ResourceType: int8(t), ResourceName: x[1]})
		}
		return r
	case "incrementalalterconfigs":
		r := &incrementalalterconfigs.Request{}
		for _, x := range s.resources {
			t, _ := strconv.Atoi(x[0])
			r.Resources = append(r.Resources, incrementalalterconfigs.RequestResource{ResourceType: int8(t), ResourceName: x[1]})
		}
		return r
	case "listgroups":
		return &listgroups.Request{}
	case "findcoordinator":
		return &findcoordinator.Request{Key: s.group}
	case "apiversions":
		return &apiversions.Request{}
	}
	panic("unknown pkg " + s.pkg)
}

func encReq(s reqSpec) string {
	switch s.pkg {
	case "produce", "rawproduce", "fetch", "listoffsets":
		return encTps(s.tps)
	case "describeconfigs", "incrementalalterconfigs":
		if len(s.resources) == 0 {
			return "R-"
		}
		var x []string
		for _, r := range s.resources {
			x = append(x, r[0]+"="+r[1])
		}
		return "R" + strings.Join(x, ",")
	case "deletegroups", "describegroups":
		return "G" + dash(strings.Join(s.groups, ","))
	case "offsetcommit", "offsetfetch", "joingroup", "heartbeat", "leavegroup", "syncgroup", "offsetdelete", "txnoffsetcommit":
		return "G" + s.group
	case "initproducerid", "addpartitionstotxn", "addoffsetstotxn", "endtxn":
		return "X" + s.txn
	}
	return "N"
}

var (
	leaderPkgs     = []string{"produce", "fetch", "rawproduce", "listoffsets"}
	groupPkgs      = []string{"offsetcommit", "offsetfetch", "joingroup", "heartbeat", "leavegroup", "syncgroup", "offsetdelete", "txnoffsetcommit", "deletegroups", "describegroups"}
	txnPkgs        = []string{"initproducerid", "addpartitionstotxn", "addoffsetstotxn", "endtxn"}
	controllerPkgs = []string{"createtopics", "deletetopics", "createpartitions", "electleaders", "alterpartitionreassignments", "listpartitionreassignments",
		"alterconfigs", "createacls", "deleteacls", "describeacls", "describeclientquotas", "alterclientquotas", "describeuserscramcredentials", "alteruserscramcredentials"}
	resourcePkgs = []string{"describeconfigs", "incrementalalterconfigs"}
	anyPkgs      = []string{"findcoordinator", "apiversions"}
)

// ---------------------------------------------------------------- generators

var names = []string{"a", "b", "c", "d", "e", "f", "g", "h", "i", "j", "ab", "ba", "aa", "zz", "t0", "t1", "t10", "t2", "m", "mm"}

func pick(r *rand.Rand, xs []string) string { return xs[r.Intn(len(xs))] }

// randomMeta builds an arbitrary metadata answer (unsorted; optionally with unknown leaders / controller).
func randomMeta(r *rand.Rand, wild bool) *metadata.Response {
	m := &metadata.Response{ThrottleTimeMs: int32(r.Intn(3))}
	nb := 1 + r.Intn(5)
	ids := r.Perm(8)[:nb]
	for _, id := range ids {
		m.Brokers = append(m.Brokers, metadata.ResponseBroker{NodeID: int32(id), Host: "b" + strconv.Itoa(id), Port: 9092 + int32(r.Intn(2))})
	}
	m.ControllerID = int32(ids[r.Intn(nb)])
	if wild && r.Intn(6) == 0 {
		m.ControllerID = int32(r.Intn(10)) - 1
	}
	nt := r.Intn(6)
	perm := r.Perm(len(names))
	for i := 0; i < nt; i++ {
		t := metadata.ResponseTopic{Name: names[perm[i]]}
		if r.Intn(8) == 0 {
			t.IsInternal = true
		}
		if wild && r.Intn(8) == 0 {
			t.ErrorCode = int16(r.Intn(40))
		}
		np := r.Intn(5)
		pp := r.Perm(6)
		for j := 0; j < np; j++ {
			p := metadata.ResponsePartition{PartitionIndex: int32(pp[j]), LeaderID: int32(ids[r.Intn(nb)])}
			if wild && r.Intn(7) == 0 {
				p.LeaderID = int32(r.Intn(10)) - 1
			}
			if wild && r.Intn(9) == 0 {
				p.ErrorCode = int16(r.Intn(20))
			}
			for k := 0; k < r.Intn(3); k++ {
				p.ReplicaNodes = append(p.ReplicaNodes, int32(ids[r.Intn(nb)]))
			}
			t.Partitions = append(t.Partitions, p)
		}
		m.Topics = append(m.Topics, t)
	}
	return m
}

// randomTps picks topic-partitions mostly present in m; same-leader bias so that accepted requests are common.
func randomTps(r *rand.Rand, m *metadata.Response, wild bool) []tp {
	var all []struct {
		t string
		p int32
		l int32
	}
	for _, t := range m.Topics {
		for _, p := range t.Partitions {
			all = append(all, struct {
				t string
				p int32
				l int32
			}{t.Name, p.PartitionIndex, p.LeaderID})
		}
	}
	var res []tp
	add := func(t string, p int32) {
		for i := range res {
			if res[i].topic == t {
				res[i].parts = append(res[i].parts, p)
				return
			}
		}
		res = append(res, tp{t, []int32{p}})
	}
	if len(all) == 0 || r.Intn(12) == 0 {
		if r.Intn(2) == 0 {
			return nil
		}
		add(pick(r, names), int32(r.Intn(3)))
		return res
	}
	first := all[r.Intn(len(all))]
	add(first.t, first.p)
	n := r.Intn(4)
	for i := 0; i < n; i++ {
		x := all[r.Intn(len(all))]
		if x.l != first.l && r.Intn(4) != 0 {
			continue
		}
		add(x.t, x.p)
	}
	if wild {
		switch r.Intn(10) {
		case 0:
			add(pick(r, names), int32(r.Intn(6)))
		case 1:
			add(first.t, int32(r.Intn(8)))
		case 2:
			res = append(res, tp{first.t, nil})
		}
	}
	return res
}

func randomResources(r *rand.Rand) [][2]string {
	var rs [][2]string
	for i := 0; i < r.Intn(4); i++ {
		switch r.Intn(4) {
		case 0, 1:
			rs = append(rs, [2]string{"4", strconv.Itoa(r.Intn(8))})
		case 2:
			rs = append(rs, [2]string{"2", pick(r, names)})
		case 3:
			rs = append(rs, [2]string{"4", pick(r, []string{"x", "1a", "", "7", "3"})})
		}
	}
	return rs
}

// ---------------------------------------------------------------- F-level ops

func opSelver(r *rand.Rand, n int) {
	keys := fakecluster.RegisteredKeys()
	for i := 0; i < n; i++ {
		k := keys[r.Intn(len(keys))]
		if r.Intn(20) == 0 {
			k = protocol.ApiKey(r.Intn(60))
		}
		cmin, cmax := int(k.MinVersion()), int(k.MaxVersion())
		var bmin, bmax int
		switch r.Intn(6) {
		case 0: // broker range inside / around the client's
			bmin = r.Intn(cmax + 2)
			bmax = bmin + r.Intn(cmax+3)
		case 1: // below the client's minimum
			bmax = cmin - 1 - r.Intn(2)
			bmin = bmax - r.Intn(2)
			if bmax < 0 {
				bmin, bmax = 0, 0
			}
		case 2: // above the client's maximum
			bmin = cmax + 1 + r.Intn(3)
			bmax = bmin + r.Intn(4)
		case 3:
			bmin, bmax = 0, r.Intn(15)
		case 4:
			bmin, bmax = r.Intn(15), r.Intn(15) // possibly inverted
		default:
			bmin, bmax = cmin, cmax
		}
		v := k.SelectVersion(int16(bmin), int16(bmax))
		emit(fmt.Sprintf("selver %d %d %d", int(k), bmin, bmax), fmt.Sprintf("%d %d %d", cmin, cmax, v))
	}
}

func opLayoutFilterBroker(r *rand.Rand, n int) {
	for i := 0; i < n; i++ {
		m := randomMeta(r, true)
		enc := encMeta(m)
		norm := cloneMeta(m)
		kafka.VerifNormalizeMetadata(norm)
		layout := kafka.VerifMakeLayout(norm)
		emit("layout "+enc, canonLayout(layout))

		// filter
		var req metadata.Request
		nm := "nil"
		if r.Intn(6) != 0 {
			req.TopicNames = []string{}
			k := r.Intn(5)
			for j := 0; j < k; j++ {
				if len(m.Topics) > 0 && r.Intn(3) != 0 {
					req.TopicNames = append(req.TopicNames, m.Topics[r.Intn(len(m.Topics))].Name)
				} else {
					req.TopicNames = append(req.TopicNames, pick(r, names))
				}
			}
			nm = dash(strings.Join(req.TopicNames, ","))
			if len(req.TopicNames) == 0 {
				nm = "-"
			}
		}
		res := kafka.VerifFilterMetadataResponse(&req, norm)
		emit("filter "+nm+" "+enc, canonTopics(res.Topics))

		// Broker() of every request type with a Broker method
		for _, pkg := range append(append(append([]string{}, leaderPkgs...), resourcePkgs...), controllerPkgs[r.Intn(len(controllerPkgs))]) {
			s := reqSpec{pkg: pkg}
			switch pkg {
			case "produce", "fetch", "rawproduce", "listoffsets":
				s.tps = randomTps(r, m, true)
			case "describeconfigs", "incrementalalterconfigs":
				s.resources = randomResources(r)
			}
			msg := build(s)
			emit(fmt.Sprintf("broker %s %s %s", pkg, enc, encReq(s)), callBroker(msg.(protocol.BrokerMessage), layout))
		}
	}
}

func callBroker(m protocol.BrokerMessage, c protocol.Cluster) (res string) {
	defer func() {
		if recover() != nil {
			res = "panic"
		}
	}()
	b, err := m.Broker(c)
	if err != nil {
		return "err " + errKind(err)
	}
	return "ok " + strconv.Itoa(int(b.ID))
}

// ---------------------------------------------------------------- transport-level scenarios

type scenario struct {
	restricted bool // MetadataTopics is set: topics outside it never enter the cache
	r          *rand.Rand
	c          *fakecluster.Cluster
	tr         *kafka.Transport
	boot       int32
	ttl        time.Duration
}

func randomVersions(r *rand.Rand, b *fakecluster.Broker) {
	b.Versions = map[protocol.ApiKey]fakecluster.VRange{}
	b.Hidden = map[protocol.ApiKey]bool{}
	for _, k := range fakecluster.RegisteredKeys() {
		cmin, cmax := k.MinVersion(), k.MaxVersion()
		switch k {
		case protocol.ApiVersions:
			continue
		case protocol.Metadata, protocol.FindCoordinator:
			// keep ≥ v1 reachable: v0 has no controller id / no key type (a protocol limitation, not routing)
			if r.Intn(2) == 0 {
				b.Versions[k] = fakecluster.VRange{Min: int16(r.Intn(2)), Max: 1 + int16(r.Intn(int(cmax)+2))}
			}
			continue
		}
		switch r.Intn(9) {
		case 0, 1, 2: // full range
		case 3: // sub-range of the client's
			lo := cmin + int16(r.Intn(int(cmax-cmin)+1))
			hi := lo + int16(r.Intn(int(cmax-lo)+1))
			b.Versions[k] = fakecluster.VRange{Min: lo, Max: hi}
		case 4: // extends beyond the client's maximum
			b.Versions[k] = fakecluster.VRange{Min: int16(r.Intn(int(cmax) + 1)), Max: cmax + 1 + int16(r.Intn(4))}
		case 5: // older broker: 0..something below the client's maximum
			b.Versions[k] = fakecluster.VRange{Min: 0, Max: int16(r.Intn(int(cmax) + 1))}
		case 6: // no overlap: entirely above
			b.Versions[k] = fakecluster.VRange{Min: cmax + 1, Max: cmax + 3}
		case 7: // no overlap: entirely below (only possible when the client's minimum is > 0)
			if cmin > 0 {
				b.Versions[k] = fakecluster.VRange{Min: 0, Max: cmin - 1}
			}
		case 8:
			b.Hidden[k] = true
		}
	}
	if r.Intn(4) == 0 { // a duplicate entry: the last one wins in the client's map
		k := protocol.Fetch
		b.ExtraVersions = append(b.ExtraVersions, apiversions.ApiKeyResponse{ApiKey: int16(k), MinVersion: 0, MaxVersion: int16(r.Intn(12))})
	}
}

func newScenario(r *rand.Rand, ttl time.Duration) *scenario {
	c := fakecluster.New()
	nb := 1 + r.Intn(5)
	ids := r.Perm(7)[:nb]
	for _, id := range ids {
		b := c.AddBroker(int32(id))
		if r.Intn(3) != 0 {
			randomVersions(r, b)
		}
		if r.Intn(4) == 0 { // a broker that advertises an IPv6 literal: the dial address needs the brackets
			b.Host = fmt.Sprintf("fd00::%x", id+1)
		}
	}
	c.Controller = int32(ids[r.Intn(nb)])
	nt := 1 + r.Intn(5)
	perm := r.Perm(len(names))
	for i := 0; i < nt; i++ {
		t := &fakecluster.Topic{Parts: map[int32]*fakecluster.Part{}}
		np := 1 + r.Intn(4)
		for j := 0; j < np; j++ {
			l := int32(ids[r.Intn(nb)])
			if r.Intn(12) == 0 { // no leader at the moment (election) / a leader id that is not a listed broker
				l = []int32{-1, 8}[r.Intn(2)]
			}
			t.Parts[int32(j)] = &fakecluster.Part{Leader: l, Replicas: []int32{l}, Isr: []int32{l}, Last: int64(r.Intn(100))}
		}
		if r.Intn(10) == 0 {
			t.Internal = true
		}
		c.Topics[names[perm[i]]] = t
	}
	s := &scenario{r: r, c: c, boot: int32(ids[r.Intn(nb)]), ttl: ttl}
	s.tr = &kafka.Transport{Dial: c.Dial, MetadataTTL: ttl, DialTimeout: 2 * time.Second, ClientID: "c12"}
	if r.Intn(4) == 0 { // a transport configured to cache only some topics (possibly one that does not exist)
		s.restricted = true
		for n := range c.Topics {
			if r.Intn(2) == 0 {
				s.tr.MetadataTopics = append(s.tr.MetadataTopics, n)
			}
		}
		sort.Strings(s.tr.MetadataTopics)
		if r.Intn(3) == 0 || len(s.tr.MetadataTopics) == 0 {
			s.tr.MetadataTopics = append(s.tr.MetadataTopics, "ghost")
		}
	}
	return s
}

func (s *scenario) close() {
	s.tr.CloseIdleConnections()
	s.c.Close()
}

// sync waits until the transport has applied a metadata answer served after now: the discover loop is
// sequential (request, update, wait), so the arrival of the second request after now proves the first
// post-now answer has been applied.
func (s *scenario) sync() bool {
	start := s.c.MetaServed()
	deadline := time.Now().Add(5 * time.Second)
	for time.Now().Before(deadline) {
		if s.c.MetaServed() >= start+2 {
			time.Sleep(2 * time.Millisecond) // let update() of the latest answer finish too (same content)
			return true
		}
		time.Sleep(time.Millisecond)
	}
	return false
}

func (s *scenario) vtable(key protocol.ApiKey) string {
	var parts []string
	s.c.Lock()
	defer s.c.Unlock()
	for _, id := range s.c.BrokerIDs() {
		var rs []string
		for _, e := range s.c.Advertised(id) {
			if protocol.ApiKey(e.ApiKey) == key {
				rs = append(rs, fmt.Sprintf("%d.%d", e.MinVersion, e.MaxVersion))
			}
		}
		parts = append(parts, fmt.Sprintf("%d:%s", id, strings.Join(rs, "+")))
	}
	return strings.Join(parts, ";")
}

func (s *scenario) down() string {
	s.c.Lock()
	defer s.c.Unlock()
	var d []int32
	for _, id := range s.c.BrokerIDs() {
		if s.c.Brokers[id].Down {
			d = append(d, id)
		}
	}
	return i32s(d, ",")
}

func (s *scenario) send(spec reqSpec) {
	msg := build(spec)
	key := msg.ApiKey()
	meta := s.c.LastMeta()
	if meta == nil {
		return
	}
	coord := int32(-1)
	coords := ""
	s.c.Lock()
	answered := func(key string, typ int8) int32 { // the NodeID FindCoordinator answers (−1 with an error code when unknown)
		id := s.c.Coordinator(key, typ)
		if _, ok := s.c.Brokers[id]; !ok {
			return -1
		}
		return id
	}
	switch {
	case spec.pkg == "describegroups" || (spec.pkg == "deletegroups" && len(spec.groups) > 0):
		var cs []int32
		for _, g := range spec.groups {
			cs = append(cs, answered(g, 0))
		}
		coords = i32s(cs, ",")
	case spec.pkg == "deletegroups":
		if len(spec.groups) > 0 {
			coord = answered(spec.groups[0], 0)
		} else {
			coord = answered("", 0)
		}
	case spec.pkg == "findcoordinator" || spec.pkg == "apiversions":
	case spec.group != "":
		coord = answered(spec.group, 0)
	case spec.txn != "":
		coord = answered(spec.txn, 1)
	}
	s.c.Unlock()
	if coords == "" {
		coords = strconv.Itoa(int(coord))
	}
	op := fmt.Sprintf("send %s boot=%d %s down=%s cr=%d.%d vt=%s coord=%s %s", spec.pkg, s.boot, encMeta(meta), s.down(), key.MinVersion(), key.MaxVersion(), s.vtable(key), coords, encReq(spec))
	mark := s.c.Mark()
	ctx, cancel := context.WithTimeout(context.Background(), 5*time.Second)
	t0 := time.Now()
	_, err := s.tr.RoundTrip(ctx, kafka.TCP(s.c.Brokers[s.boot].Addr()), msg)
	cancel()
	if d := time.Since(t0); d > 500*time.Millisecond {
		fmt.Fprintf(os.Stderr, "slow send %v: %s err=%v\n", d, op, err)
	}
	var got []string
	for _, e := range s.c.Since(mark) {
		if e.ApiKey == key && !(e.First && key == protocol.ApiVersions) {
			got = append(got, fmt.Sprintf("b%d~%s@v%d%s", e.Broker, e.Addr, e.Version, bodyFormat(e.Req)))
		}
	}
	sort.Strings(got)
	// the coordinator lookups the transport made for this request: key, key type and where they went
	var fcs []string
	if key != protocol.FindCoordinator {
		for _, e := range s.c.Since(mark) {
			if fr, ok := e.Req.(*findcoordinator.Request); ok {
				fcs = append(fcs, fmt.Sprintf("%s/%d@b%d", dash(fr.Key), fr.KeyType, e.Broker))
			}
		}
		sort.Strings(fcs)
	}
	fcSuffix := ""
	if len(fcs) > 0 {
		fcSuffix = " fc=" + strings.Join(fcs, ",")
	}
	kind := ""
	if err != nil {
		kind = errKind(err)
		if spec.pkg == "listgroups" { // Merge reports the first failed broker in Go map order: any of the parts' errors
			kind = "some"
		}
	}
	switch {
	case err != nil && len(got) == 0:
		emit(op, "err "+kind+fcSuffix)
	case err != nil:
		emit(op, strings.Join(got, ",")+" err "+kind+fcSuffix)
	default:
		emit(op, dash(strings.Join(got, ","))+fcSuffix)
	}
}

// bodyFormat renders the parts of a received request's body that Prepare derives from the negotiated version, as the
// fake broker decoded them from the wire: the magic of the record sets of a Produce request ("#m2", "#m1.2" when the
// partitions differ), member id / members of a LeaveGroup request ("#<MemberID>/<member>.<member>").
func bodyFormat(msg protocol.Message) string {
	switch m := msg.(type) {
	case *produce.Request:
		seen := map[int8]bool{}
		for _, t := range m.Topics {
			for _, p := range t.Partitions {
				if p.RecordSet.Version != 0 {
					seen[p.RecordSet.Version] = true
				}
			}
		}
		var vs []string
		for v := int8(0); v < 8; v++ {
			if seen[v] {
				vs = append(vs, strconv.Itoa(int(v)))
			}
		}
		if len(vs) > 0 {
			return "#m" + strings.Join(vs, ".")
		}
	case *describeconfigs.Request: // the request's options as they arrived (IncludeSynonyms exists from v1, IncludeDocumentation from v3)
		return fmt.Sprintf("#s%dd%d", b2i(m.IncludeSynonyms), b2i(m.IncludeDocumentation))
	case *describegroups.Request: // IncludeAuthorizedOperations exists from v3
		return fmt.Sprintf("#a%d", b2i(m.IncludeAuthorizedOperations))
	case *leavegroup.Request:
		var ms []string
		for _, x := range m.Members {
			ms = append(ms, x.MemberID)
		}
		return "#" + dash(m.MemberID) + "/" + dash(strings.Join(ms, "."))
	}
	return ""
}

func b2i(b bool) int {
	if b {
		return 1
	}
	return 0
}

func (s *scenario) randomSpec() reqSpec {
	r := s.r
	meta := s.c.LastMeta()
	switch r.Intn(12) {
	case 10:
		return reqSpec{pkg: pick(r, resourcePkgs), resources: randomResources(r)}
	case 11:
		return reqSpec{pkg: "listgroups"}
	case 0, 1, 2, 3:
		// rawproduce needs pre-encoded record batches on the wire: its Broker() is covered at F level only
		return reqSpec{pkg: pick(r, []string{"produce", "fetch", "listoffsets"}), tps: randomTps(r, meta, r.Intn(4) == 0)}
	case 4, 5, 6:
		pkg := pick(r, groupPkgs)
		sp := reqSpec{pkg: pkg}
		switch pkg {
		case "describegroups":
			for i := 0; i <= r.Intn(3); i++ {
				sp.groups = append(sp.groups, "g"+strconv.Itoa(r.Intn(6)))
			}
		case "deletegroups":
			for i := 0; i < r.Intn(3); i++ {
				sp.groups = append(sp.groups, "g"+strconv.Itoa(r.Intn(6)))
			}
		default:
			sp.group = "g" + strconv.Itoa(r.Intn(6))
		}
		return sp
	case 7:
		if r.Intn(3) == 0 { // a transactional id that is also a group name: only the key type tells the two coordinators apart
			return reqSpec{pkg: pick(r, txnPkgs), txn: "g" + strconv.Itoa(r.Intn(6))}
		}
		return reqSpec{pkg: pick(r, txnPkgs), txn: "x" + strconv.Itoa(r.Intn(6))}
	case 8:
		return reqSpec{pkg: pick(r, controllerPkgs)}
	default:
		return reqSpec{pkg: pick(r, anyPkgs), group: "g1"}
	}
}

func (s *scenario) mutate() {
	r := s.r
	reset := false
	s.c.Lock()
	ids := s.c.BrokerIDs()
	switch r.Intn(8) {
	case 6, 7: // a broker re-registers at another address (never the bootstrap broker, whose address the caller dials)
		var cand []int32
		for _, id := range ids {
			if id != s.boot {
				cand = append(cand, id)
			}
		}
		if len(cand) > 0 {
			id := cand[r.Intn(len(cand))]
			b := s.c.Brokers[id]
			switch r.Intn(4) {
			case 0, 1: // same host, another port
				s.c.MoveBroker(id, b.Host, 9092+(b.Port-9092+1+int32(r.Intn(3)))%5)
			case 2: // another host
				if r.Intn(3) == 0 {
					s.c.MoveBroker(id, fmt.Sprintf("fd00:%x::%x", id+1, 1+r.Intn(1000)), b.Port)
				} else {
					s.c.MoveBroker(id, fmt.Sprintf("h%d-%d", id, r.Intn(1000)), b.Port)
				}
			case 3: // two brokers trade places
				if len(cand) > 1 {
					o := s.c.Brokers[cand[r.Intn(len(cand))]]
					if o.ID != id {
						h1, p1, h2, p2 := b.Host, b.Port, o.Host, o.Port
						s.c.MoveBroker(id, "tmp", 1)
						s.c.MoveBroker(o.ID, h1, p1)
						s.c.MoveBroker(id, h2, p2)
					}
				}
			}
		}
	case 0, 1: // leader moves
		for _, t := range s.c.Topics {
			for _, p := range t.Parts {
				if r.Intn(2) == 0 {
					p.Leader = ids[r.Intn(len(ids))]
					p.Replicas, p.Isr = []int32{p.Leader}, []int32{p.Leader}
				}
			}
		}
	case 2: // broker added
		for id := int32(0); id < 9; id++ {
			if _, ok := s.c.Brokers[id]; !ok {
				b := s.c.AddBroker(id)
				for _, o := range s.c.Brokers { // addresses are unique in a cluster (another broker may have moved here)
					if o.ID != id && o.Addr() == b.Addr() {
						b.Host = fmt.Sprintf("a%d-%d", id, r.Intn(100000))
					}
				}
				if r.Intn(2) == 0 {
					randomVersions(r, b)
				}
				for _, t := range s.c.Topics {
					for _, p := range t.Parts {
						if r.Intn(3) == 0 {
							p.Leader = id
						}
					}
				}
				break
			}
		}
	case 3: // broker removed (never the bootstrap broker); its partitions move
		if len(ids) > 1 {
			var cand []int32
			for _, id := range ids {
				if id != s.boot {
					cand = append(cand, id)
				}
			}
			gone := cand[r.Intn(len(cand))]
			delete(s.c.Brokers, gone)
			rest := s.c.BrokerIDs()
			for _, t := range s.c.Topics {
				for _, p := range t.Parts {
					if p.Leader == gone && r.Intn(5) != 0 { // sometimes a partition keeps a vanished leader
						p.Leader = rest[r.Intn(len(rest))]
					}
				}
			}
			if s.c.Controller == gone {
				s.c.Controller = rest[r.Intn(len(rest))]
			}
		}
	case 4: // controller moves / coordinator moves
		s.c.Controller = ids[r.Intn(len(ids))]
		s.c.GroupCoord["g"+strconv.Itoa(r.Intn(6))] = ids[r.Intn(len(ids))]
		s.c.TxnCoord["x"+strconv.Itoa(r.Intn(6))] = ids[r.Intn(len(ids))]
	case 5: // a broker becomes unreachable / reachable again (never the bootstrap broker)
		id := ids[r.Intn(len(ids))]
		if id != s.boot {
			s.c.Brokers[id].Down = !s.c.Brokers[id].Down
			reset = true
		}
	}
	s.c.Unlock()
	if reset {
		// "unreachable" is a property of Dial: drop the transport's connections so that it has to dial again
		s.tr.CloseIdleConnections()
		s.c.Close()
		ctx, cancel := context.WithTimeout(context.Background(), 5*time.Second)
		s.tr.RoundTrip(ctx, kafka.TCP(s.c.Brokers[s.boot].Addr()), &metadata.Request{})
		cancel()
	}
}

func (s *scenario) createTopic() {
	name := pick(s.r, names) + "n"
	msg := &createtopics.Request{Topics: []createtopics.RequestTopic{{Name: name, NumPartitions: int32(1 + s.r.Intn(3)), ReplicationFactor: 1}}}
	ctx, cancel := context.WithTimeout(context.Background(), 5*time.Second)
	_, err := s.tr.RoundTrip(ctx, kafka.TCP(s.c.Brokers[s.boot].Addr()), msg)
	cancel()
	// (*connPool).roundTrip refreshes the metadata before returning: the new topic must be routable at once
	if err == nil {
		s.c.Lock()
		_, ok := s.c.Topics[name]
		s.c.Unlock()
		if ok {
			s.sync()
			s.send(reqSpec{pkg: "produce", tps: []tp{{name, []int32{0}}}})
		}
	}
}

func runScenario(seed int64, steps int) {
	r := rand.New(rand.NewSource(seed))
	s := newScenario(r, 25*time.Millisecond)
	defer s.close()
	// first request makes the pool and waits for the first metadata answer
	ctx, cancel := context.WithTimeout(context.Background(), 5*time.Second)
	_, err := s.tr.RoundTrip(ctx, kafka.TCP(s.c.Brokers[s.boot].Addr()), &metadata.Request{})
	cancel()
	if err != nil {
		fmt.Fprintln(os.Stderr, "scenario bootstrap failed:", err)
		return
	}
	if !s.sync() {
		fmt.Fprintln(os.Stderr, "scenario: no metadata refresh observed")
		return
	}
	for i := 0; i < steps; i++ {
		switch {
		case r.Intn(5) == 0:
			s.mutate()
			if !s.sync() {
				fmt.Fprintln(os.Stderr, "scenario: refresh after mutation not observed")
				return
			}
		case r.Intn(25) == 0 && !s.restricted:
			// (with MetadataTopics set a created topic never enters the cache and roundTrip waits for it until the context ends)
			s.createTopic()
		default:
			s.send(s.randomSpec())
		}
	}
}

// followLeader: the `follow` family.  Refresh faults on the control connection (a metadata request that is never
// answered, answered late, answered after the per-request deadline, a dropped connection, a failing redial — at
// the 1st/2nd/3rd refresh from now) are interleaved with leader moves; after each move a produce request must
// reach the new leader within one metadata TTL plus a round trip counted from the later of the move and the
// moment the fault clears.  Timing is observed with generous tolerance (scheduler noise), never proved.  The
// journal must also show a metadata request in every window of 2·TTL (+ tolerance) while the transport is in use.
// The family stops at the first failing round so that a dead refresh loop costs seconds.
func followLeader(r *rand.Rand, ttl time.Duration, rounds int) {
	const tolerance = 1500 * time.Millisecond
	c := fakecluster.New()
	for id := int32(0); id < 3; id++ {
		c.AddBroker(id)
	}
	c.Topics["t"] = &fakecluster.Topic{Parts: map[int32]*fakecluster.Part{0: {Leader: 0}}}
	tr := &kafka.Transport{Dial: c.Dial, MetadataTTL: ttl}
	defer func() { tr.CloseIdleConnections(); c.Close() }()
	addr := kafka.TCP(c.Brokers[0].Addr())
	send := func() int32 {
		mark := c.Mark()
		ctx, cancel := context.WithTimeout(context.Background(), 2*time.Second)
		defer cancel()
		if _, err := tr.RoundTrip(ctx, addr, build(reqSpec{pkg: "produce", tps: []tp{{"t", []int32{0}}}})); err != nil {
			return -1
		}
		for _, e := range c.Since(mark) {
			if e.ApiKey == protocol.Produce {
				return e.Broker
			}
		}
		return -1
	}
	var script []string
	within, worst := 1, time.Duration(0)
	start := time.Now()
	if send() != 0 {
		within = 0
	}
	kinds := []string{"stall", "late", "delay", "drop", "dialfail", "none", "stall"}
	for round := 0; round < rounds && within == 1; round++ {
		kind := kinds[r.Intn(len(kinds))]
		if round == 0 {
			kind = "stall"
		}
		n := 1 + r.Intn(3)
		script = append(script, fmt.Sprintf("%s@%d", kind, n))
		var f fakecluster.Fault
		clearAfter := time.Duration(0)
		switch kind {
		case "stall":
			f, clearAfter = fakecluster.Fault{Kind: "stall"}, ttl
		case "late": // answered after the per-request deadline (metadataTTL) has expired
			f, clearAfter = fakecluster.Fault{Kind: "delay", Delay: ttl + ttl/2}, ttl
		case "delay":
			f = fakecluster.Fault{Kind: "delay", Delay: ttl / 3}
		case "drop", "dialfail":
			f = fakecluster.Fault{Kind: "drop"}
		case "none":
			f = fakecluster.Fault{Kind: "delay", Delay: 0}
		}
		c.Lock()
		done0 := c.FaultsDone
		c.MetaFaults = append(make([]fakecluster.Fault, n-1), f)
		if kind == "dialfail" {
			c.DialFailures = 1
		}
		c.Unlock()
		// the refresh loop must reach the scripted request: a metadata request at least every TTL
		waitUntil := time.Now().Add(time.Duration(n)*ttl*2 + tolerance)
		var tFault time.Time
		for {
			c.Lock()
			d, at := c.FaultsDone, c.LastFaultAt
			c.Unlock()
			if d > done0 {
				tFault = at
				break
			}
			if time.Now().After(waitUntil) {
				within = 0
				fmt.Fprintf(os.Stderr, "follow: round %d (%s@%d): no metadata request reached the cluster within %v\n", round, kind, n, time.Duration(n)*ttl*2+tolerance)
				break
			}
			time.Sleep(time.Millisecond)
			send() // the transport is in use
		}
		if within == 0 {
			break
		}
		// the leader moves at some point during or shortly after the fault
		moveAt := tFault.Add(time.Duration(r.Int63n(int64(ttl + ttl/4))))
		time.Sleep(time.Until(moveAt))
		c.Lock()
		nl := (c.Topics["t"].Parts[0].Leader + 1 + int32(r.Intn(2))) % 3
		c.Topics["t"].Parts[0].Leader = nl
		c.Unlock()
		from := time.Now()
		if cl := tFault.Add(clearAfter); cl.After(from) {
			from = cl
		}
		limit := from.Add(ttl + tolerance)
		for send() != nl {
			if time.Now().After(limit) {
				within = 0
				fmt.Fprintf(os.Stderr, "follow: round %d (%s@%d): %v after the leader moved to broker %d (fault cleared %v ago) produce still does not reach it\n",
					round, kind, n, time.Since(moveAt).Round(time.Millisecond), nl, time.Since(tFault.Add(clearAfter)).Round(time.Millisecond))
				break
			}
			time.Sleep(time.Millisecond)
		}
		if d := time.Since(from); within == 1 && d > worst {
			worst = d
		}
	}
	// a metadata request in every 2·TTL window while the transport was in use
	gap, last, maxGap := 1, start, time.Duration(0)
	for _, e := range c.Since(0) {
		if e.ApiKey == protocol.Metadata {
			if d := e.Time.Sub(last); d > maxGap {
				maxGap = d
			}
			last = e.Time
		}
	}
	if within == 1 {
		if d := time.Since(last); d > maxGap {
			maxGap = d
		}
		if maxGap > 2*ttl+tolerance {
			gap = 0
		}
	}
	fmt.Fprintf(os.Stderr, "follow: ttl=%v rounds=%d worst delay after move/fault-clear: %v, longest gap between metadata requests: %v\n", ttl, len(script), worst, maxGap)
	emit(fmt.Sprintf("follow ttl=%d faults=%s", ttl.Milliseconds(), dash(strings.Join(script, ","))), fmt.Sprintf("within=%d gap=%d", within, gap))
}

// opRoundTripMeta: metadata requests through (*connPool).roundTrip — served from the cache, or (AllowAutoTopicCreation
// and an unknown topic) sent to a broker, after which the transport waits until the created topics are cached.
//
//	rtmeta <names|nil> <auto> <fakeAuto> <meta> → "asked=<0|1> <topics> after=<topics of a plain follow-up request>"
func opRoundTripMeta(seed int64, n int) {
	r := rand.New(rand.NewSource(seed))
	c := fakecluster.New()
	ids, boot := fakecluster.PickBrokers(r, 1, 4)
	for _, id := range ids {
		c.AddBroker(id)
	}
	c.Controller = ids[r.Intn(len(ids))]
	c.AutoCreate = r.Intn(3) != 0
	for _, nme := range names[:5] {
		t := &fakecluster.Topic{Parts: map[int32]*fakecluster.Part{}}
		for p := int32(0); p < int32(1+r.Intn(3)); p++ {
			l := ids[r.Intn(len(ids))]
			t.Parts[p] = &fakecluster.Part{Leader: l, Replicas: []int32{l}, Isr: []int32{l}}
		}
		c.Topics[nme] = t
	}
	tr := &kafka.Transport{Dial: c.Dial, MetadataTTL: 10 * time.Second}
	defer func() { tr.CloseIdleConnections(); c.Close() }()
	addr := kafka.TCP(c.Brokers[boot].Addr())
	rt := func(req *metadata.Request) (*metadata.Response, bool, error) {
		mark := c.Mark()
		ctx, cancel := context.WithTimeout(context.Background(), 5*time.Second)
		defer cancel()
		m, err := tr.RoundTrip(ctx, addr, req)
		asked := false
		for _, e := range c.Since(mark) {
			if mr, ok := e.Req.(*metadata.Request); ok && mr.TopicNames != nil {
				asked = true
			}
		}
		if err != nil {
			return nil, asked, err
		}
		return m.(*metadata.Response), asked, nil
	}
	if _, _, err := rt(&metadata.Request{}); err != nil {
		return
	}
	fresh := 0
	for i := 0; i < n; i++ {
		var req metadata.Request
		nm := "nil"
		if r.Intn(5) != 0 {
			req.TopicNames = []string{}
			for k := 0; k < r.Intn(4); k++ {
				if r.Intn(3) == 0 {
					fresh++
					req.TopicNames = append(req.TopicNames, fmt.Sprintf("new%d", (seed%100)*1000+int64(fresh)))
				} else {
					req.TopicNames = append(req.TopicNames, names[r.Intn(7)])
				}
			}
			nm = dash(strings.Join(req.TopicNames, ","))
		}
		if r.Intn(5) == 0 { // CreateTopics through the transport: when it returns, the cache already lists the new topic
			cache := c.LastMeta()
			name := names[r.Intn(7)]
			if r.Intn(2) == 0 {
				fresh++
				name = fmt.Sprintf("made%d", (seed%100)*1000+int64(fresh))
			}
			np := 1 + r.Intn(3)
			ctx, cancel := context.WithTimeout(context.Background(), 5*time.Second)
			m, err := tr.RoundTrip(ctx, addr, &createtopics.Request{Topics: []createtopics.RequestTopic{{Name: name, NumPartitions: int32(np), ReplicationFactor: 1}}})
			cancel()
			op := fmt.Sprintf("rtcreate %s %d %s", name, np, encMeta(cache))
			if err != nil {
				emit(op, "err "+errKind(err))
				continue
			}
			code := m.(*createtopics.Response).Topics[0].ErrorCode
			after, asked, err := rt(&metadata.Request{TopicNames: []string{name}})
			if err != nil || asked {
				emit(op, fmt.Sprintf("code=%d after=err", code))
				continue
			}
			emit(op, fmt.Sprintf("code=%d after=%s", code, canonTopics(after.Topics)))
			continue
		}
		req.AllowAutoTopicCreation = r.Intn(2) == 0
		cache := c.LastMeta()
		if cache == nil {
			return
		}
		auto, fauto := 0, 0
		if req.AllowAutoTopicCreation {
			auto = 1
		}
		if c.AutoCreate {
			fauto = 1
		}
		op := fmt.Sprintf("rtmeta %s %d %d %s", nm, auto, fauto, encMeta(cache))
		res, asked, err := rt(&req)
		if err != nil {
			emit(op, "err "+errKind(err))
			continue
		}
		a := 0
		if asked {
			a = 1
		}
		plain := req
		plain.AllowAutoTopicCreation = false
		after, asked2, err := rt(&plain)
		if err != nil || asked2 {
			emit(op, fmt.Sprintf("asked=%d %s after=err", a, canonTopics(res.Topics)))
			continue
		}
		emit(op, fmt.Sprintf("asked=%d %s after=%s", a, canonTopics(res.Topics), canonTopics(after.Topics)))
	}
}

// opVersionSweep: every routed request type × every kind of advertised range, systematically (the random scenarios
// sample this space): a 3-broker cluster whose leader / coordinator / controller is broker 0 and whose bootstrap
// broker is another one; for each kind a fresh Transport (versions are negotiated per connection) and one `send`
// per request type.  Kinds: full range, strict sub-range, beyond the client's maximum, older broker, disjoint above,
// disjoint below, not listed at all, listed twice (last entry wins), minimum above maximum (malformed).
func opVersionSweep(r *rand.Rand) {
	kinds := []string{"full", "sub", "beyond", "older", "above", "below", "hidden", "twice", "inverted"}
	var pkgs []string
	for _, l := range [][]string{{"produce", "fetch", "listoffsets"}, groupPkgs, txnPkgs, controllerPkgs, resourcePkgs, {"listgroups"}, anyPkgs} {
		pkgs = append(pkgs, l...)
	}
	for _, kind := range kinds {
		c := fakecluster.New()
		for id := int32(0); id < 3; id++ {
			b := c.AddBroker(id)
			b.Versions = map[protocol.ApiKey]fakecluster.VRange{}
			b.Hidden = map[protocol.ApiKey]bool{}
			for _, k := range fakecluster.RegisteredKeys() {
				cmin, cmax := k.MinVersion(), k.MaxVersion()
				if k == protocol.ApiVersions || k == protocol.Metadata || k == protocol.FindCoordinator {
					continue // plumbing stays at the full range (v0 metadata has no controller, v0 FindCoordinator no key type)
				}
				switch kind {
				case "sub":
					lo := cmin + (cmax-cmin)/3
					b.Versions[k] = fakecluster.VRange{Min: lo, Max: lo + (cmax-lo)/2}
				case "beyond":
					b.Versions[k] = fakecluster.VRange{Min: cmin, Max: cmax + 3}
				case "older":
					b.Versions[k] = fakecluster.VRange{Min: 0, Max: cmin + (cmax-cmin)/2}
				case "above":
					b.Versions[k] = fakecluster.VRange{Min: cmax + 1, Max: cmax + 2}
				case "below":
					if cmin > 0 {
						b.Versions[k] = fakecluster.VRange{Min: 0, Max: cmin - 1}
					}
				case "hidden":
					b.Hidden[k] = true
				case "twice":
					b.Versions[k] = fakecluster.VRange{Min: cmin, Max: cmax}
					b.ExtraVersions = append(b.ExtraVersions, apiversions.ApiKeyResponse{ApiKey: int16(k), MinVersion: cmin, MaxVersion: cmin + (cmax-cmin)/2})
				case "inverted":
					b.Versions[k] = fakecluster.VRange{Min: cmax, Max: cmin}
				}
			}
		}
		c.Controller = 0
		c.Topics["t"] = &fakecluster.Topic{Parts: map[int32]*fakecluster.Part{0: {Leader: 0, Replicas: []int32{0}, Isr: []int32{0}}, 1: {Leader: 0, Replicas: []int32{0}, Isr: []int32{0}}}}
		// partitions the metadata designates no broker for: no leader (−1) and a leader id that is not a listed broker
		c.Topics["nl"] = &fakecluster.Topic{Parts: map[int32]*fakecluster.Part{0: {Leader: -1}, 1: {Leader: 8}, 2: {Leader: 2, Replicas: []int32{2}, Isr: []int32{2}}}}
		for i := 0; i < 6; i++ {
			c.GroupCoord["g"+strconv.Itoa(i)] = 0
			c.TxnCoord["x"+strconv.Itoa(i)] = 0
		}
		s := &scenario{r: r, c: c, boot: 1 + int32(r.Intn(2)), ttl: 5 * time.Second}
		s.tr = &kafka.Transport{Dial: c.Dial, MetadataTTL: s.ttl, DialTimeout: 2 * time.Second, ClientID: "c12sweep"}
		ctx, cancel := context.WithTimeout(context.Background(), 5*time.Second)
		_, err := s.tr.RoundTrip(ctx, kafka.TCP(c.Brokers[s.boot].Addr()), &metadata.Request{})
		cancel()
		if err == nil {
			for _, pkg := range pkgs {
				spec := reqSpec{pkg: pkg}
				switch {
				case pkg == "produce" || pkg == "fetch" || pkg == "listoffsets":
					spec.tps = []tp{{"t", []int32{0, 1}}}
				case pkg == "describegroups" || pkg == "deletegroups":
					spec.groups = []string{"g1", "g2"}
				case pkg == "findcoordinator" || pkg == "apiversions":
					spec.group = "g1"
				case pkg == "describeconfigs" || pkg == "incrementalalterconfigs":
					spec.resources = [][2]string{{"4", "0"}, {"2", "t"}}
				}
				for _, g := range groupPkgs {
					if g == pkg && spec.groups == nil {
						spec.group = "g1"
					}
				}
				for _, x := range txnPkgs {
					if x == pkg {
						spec.txn = "x1"
					}
				}
				s.send(spec)
			}
			for _, pkg := range []string{"listoffsets", "produce", "fetch"} {
				s.send(reqSpec{pkg: pkg, tps: []tp{{"nl", []int32{0}}}})
				s.send(reqSpec{pkg: pkg, tps: []tp{{"nl", []int32{1, 2}}}})
				s.send(reqSpec{pkg: pkg, tps: []tp{{"nl", []int32{2}}, {"t", []int32{0}}}})
			}
		}
		s.close()
	}
}

// opVersionLadder: broker i advertises [0, i] for every API, so that every version of every leader / coordinator routed
// API is the negotiated one at some broker (in particular the versions at which the BODY changes shape: Produce v3
// switches the record format, LeaveGroup v3 the place of the member id); broker i leads partition i of "t" and
// coordinates group "g<i>" / transactional id "x<i>".
func opVersionLadder(r *rand.Rand) {
	const n = 13
	c := fakecluster.New()
	parts := map[int32]*fakecluster.Part{}
	for id := int32(0); id < n; id++ {
		b := c.AddBroker(id)
		b.Versions = map[protocol.ApiKey]fakecluster.VRange{}
		for _, k := range fakecluster.RegisteredKeys() {
			if k == protocol.ApiVersions || k == protocol.Metadata || k == protocol.FindCoordinator {
				continue
			}
			b.Versions[k] = fakecluster.VRange{Min: 0, Max: int16(id)}
		}
		parts[id] = &fakecluster.Part{Leader: id, Replicas: []int32{id}, Isr: []int32{id}}
		c.GroupCoord["g"+strconv.Itoa(int(id))] = id
		c.TxnCoord["x"+strconv.Itoa(int(id))] = id
	}
	c.Controller = 0
	c.Topics["t"] = &fakecluster.Topic{Parts: parts}
	s := &scenario{r: r, c: c, boot: int32(r.Intn(n)), ttl: 5 * time.Second}
	s.tr = &kafka.Transport{Dial: c.Dial, MetadataTTL: s.ttl, DialTimeout: 2 * time.Second, ClientID: "c12ladder"}
	ctx, cancel := context.WithTimeout(context.Background(), 5*time.Second)
	_, err := s.tr.RoundTrip(ctx, kafka.TCP(c.Brokers[s.boot].Addr()), &metadata.Request{})
	cancel()
	if err == nil {
		for id := int32(0); id < n; id++ {
			for _, pkg := range []string{"produce", "fetch", "listoffsets"} {
				s.send(reqSpec{pkg: pkg, tps: []tp{{"t", []int32{id}}}})
			}
			g := "g" + strconv.Itoa(int(id))
			for _, pkg := range groupPkgs {
				if pkg == "describegroups" || pkg == "deletegroups" {
					s.send(reqSpec{pkg: pkg, groups: []string{g}})
				} else {
					s.send(reqSpec{pkg: pkg, group: g})
				}
			}
			for _, pkg := range txnPkgs {
				s.send(reqSpec{pkg: pkg, txn: "x" + strconv.Itoa(int(id))})
			}
		}
	}
	s.close()
}

// recoverAfterFirstFailure: the pool's very first metadata refresh fails (failing dial, a request that is never answered,
// a dropped connection) while nothing is cached yet, a later refresh succeeds: from then on metadata requests must be
// answered from the cache again (not with the stale error) and produce must be routed.
//
//	recover ttl=<ms> first=<dialfail|stall|drop>  → "then=<ok|err> produce=<ok|err>"
func recoverAfterFirstFailure(r *rand.Rand, ttl time.Duration, kind string) {
	const tolerance = 1500 * time.Millisecond
	c := fakecluster.New()
	for id := int32(0); id < 3; id++ {
		c.AddBroker(id)
	}
	c.Topics["t"] = &fakecluster.Topic{Parts: map[int32]*fakecluster.Part{0: {Leader: int32(r.Intn(3))}}}
	switch kind {
	case "dialfail":
		c.DialFailures = 1
	case "stall":
		c.MetaFaults = []fakecluster.Fault{{Kind: "stall"}}
	case "drop":
		c.MetaFaults = []fakecluster.Fault{{Kind: "drop"}}
	}
	tr := &kafka.Transport{Dial: c.Dial, MetadataTTL: ttl}
	defer func() { tr.CloseIdleConnections(); c.Close() }()
	addr := kafka.TCP(c.Brokers[1].Addr())
	meta := func() error {
		ctx, cancel := context.WithTimeout(context.Background(), 2*time.Second)
		defer cancel()
		_, err := tr.RoundTrip(ctx, addr, &metadata.Request{TopicNames: []string{"t"}})
		return err
	}
	meta() // creates the pool; its first refresh is the faulty one
	// wait until a refresh has been answered normally, then the stale error must be gone
	limit := time.Now().Add(2*ttl + tolerance)
	for c.MetaServed() == 0 && time.Now().Before(limit) {
		time.Sleep(time.Millisecond)
	}
	then := "err"
	limit = time.Now().Add(ttl + tolerance)
	for time.Now().Before(limit) {
		if meta() == nil {
			then = "ok"
			break
		}
		time.Sleep(2 * time.Millisecond)
	}
	prod := "err"
	ctx, cancel := context.WithTimeout(context.Background(), 2*time.Second)
	if _, err := tr.RoundTrip(ctx, addr, build(reqSpec{pkg: "produce", tps: []tp{{"t", []int32{0}}}})); err == nil {
		prod = "ok"
	}
	cancel()
	emit(fmt.Sprintf("recover ttl=%d first=%s", ttl.Milliseconds(), kind), fmt.Sprintf("then=%s produce=%s", then, prod))
}

func main() {
	defer out.Flush()
	r := gen.New()
	nF, nScen, steps := 300, 24, 40
	if gen.Thorough() {
		nF, nScen, steps = 4000, 200, 80
	}
	opSelver(r, nF*3)
	opLayoutFilterBroker(r, nF)
	for i := 0; i < nScen; i++ {
		runScenario(gen.Seed()*1000+int64(i), steps)
	}
	for i := 0; i < nScen/4+1; i++ {
		opRoundTripMeta(gen.Seed()*100+int64(i), 25)
	}
	opVersionSweep(r)
	opVersionLadder(r)
	nFollow := 8
	if gen.Thorough() {
		nFollow = 40
	}
	followLeader(r, 100*time.Millisecond, nFollow)
	followLeader(r, 60*time.Millisecond, nFollow/2)
	for _, kind := range []string{"dialfail", "stall", "drop"} {
		recoverAfterFirstFailure(r, 80*time.Millisecond, kind)
	}
}
